(* C18 — RPC clients pair each reply with its request under concurrency and reconnects.
   Statements only; proofs live in WsClient/Proofs*.v.  Every theorem quantifies over ALL finite event
   sequences of the transition systems of WsClient/Model.v, i.e. over every schedule, reply order,
   drop point and cancellation point, with any number of callers. *)
From Coq Require Import List NArith Lia Bool Arith.
From FFS Require Import WsClient.Model WsClient.Spec WsClient.ProofsHttp.
Import ListNotations.

(* 1. HTTP: with a limit configured, the number of requests outstanding at the backend never exceeds
      it; the slot counter is a counting semaphore that equals the number of callers between acquire
      and release. *)
Theorem C18_http_inflight_bound :
  forall (limit : N) (evs : list hev) (s : hstate),
    (limit > 0)%N -> hrun evs (hinit limit) = Some s ->
    (N.of_nat (h_outstanding s) <= limit)%N /\ sem_ok limit (h_slots s) /\ h_slots s = N.of_nat (h_holding s).
Proof. exact http_inflight_bound. Qed.
Print Assumptions C18_http_inflight_bound.

(* 2. HTTP: the ids put on backend requests are pairwise distinct (the allocator is injective). *)
Theorem C18_http_unique_ids :
  forall (limit : N) (evs : list hev) (s : hstate),
    hrun evs (hinit limit) = Some s ->
    NoDup (h_sent s) /\
    (forall c1 c2 b1 b2 i, h_pc s c1 = HSent b1 i -> h_pc s c2 = HSent b2 i -> In i (h_sent s)) /\
    alloc_injective (h_sent s).
Proof. exact http_unique_ids. Qed.
Print Assumptions C18_http_unique_ids.

(* 3. HTTP: on every exit path (reply of any kind, whatever id it echoed; cancellation while waiting
      for a slot) the response handed back carries the caller's own id. *)
Theorem C18_http_id_restored :
  forall (limit : N) (evs : list hev) (s : hstate) (c : nat) (o : hout),
    hrun evs (hinit limit) = Some s ->
    (h_pc s c = HDone o \/ exists b, h_pc s c = HRet b o) ->
    ho_id o = h_orig s c.
Proof. exact http_id_restored. Qed.
Print Assumptions C18_http_id_restored.

(* non-vacuity: limit 1, two callers; the second waits while the first is at the backend, the backend
   echoes a foreign id, the caller still gets its own id 7 back *)
Example C18_http_nonvacuous :
  exists s, hrun [HEStart 0 7; HEStart 1 9; HEAcquire 0; HEAlloc 0; HEReply 0 (HRResult 555 42);
                  HERestore 0; HERelease 0; HEAcquire 1; HEAlloc 1] (hinit 1) = Some s
            /\ h_outstanding s = 1%nat /\ h_sent s = [2; 1]%N
            /\ h_pc s 0%nat = HDone {| ho_err := false; ho_id := 7; ho_res := Some 42%N; ho_code := 0 |}.
Proof. eexists. split; [vm_compute; reflexivity|]. vm_compute. auto. Qed.
