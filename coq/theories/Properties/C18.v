(* C18 — RPC clients pair each reply with its request under concurrency and reconnects.
   Statements only; proofs live in WsClient/Proofs*.v.  Every theorem quantifies over ALL finite event
   sequences of the transition systems of WsClient/Model.v, i.e. over every schedule, reply order,
   drop point and cancellation point, with any number of callers. *)
From Coq Require Import List NArith Lia Bool Arith.
From FFS Require Import WsClient.Model WsClient.Spec WsClient.ProofsHttp WsClient.ProofsWsBase
  WsClient.ProofsWsPairing WsClient.ProofsWsReconnect WsClient.ProofsWsResub WsClient.ProofsWsRouting
  WsClient.ProofsHttpPairing WsClient.ProofsWsResubExact
  WsClient.ProofsWsRoutingGen WsClient.ProofsWsRoutingGenThm WsClient.ProofsWsReferee.
From FFS Require Import WsClient.ProofsWsOnce.
Import ListNotations.

(* 1. HTTP: with a limit configured, the number of requests outstanding at the backend never exceeds
      it; the slot counter is a counting semaphore that equals the number of callers between acquire
      and release. *)
Theorem C18_http_inflight_bound :
  forall (limit : N) (evs : list hev) (s : hstate),
    (limit > 0)%N -> hrun evs (hinit limit) = Some s ->
    (N.of_nat (h_outstanding s) <= limit)%N /\ sem_ok limit (h_slots s) /\ h_slots s = N.of_nat (h_holding s).
Proof. exact http_inflight_bound. Qed.
Print Assumptions C18_http_inflight_bound.

(* 2. HTTP: the ids put on backend requests are pairwise distinct (the allocator is injective). *)
Theorem C18_http_unique_ids :
  forall (limit : N) (evs : list hev) (s : hstate),
    hrun evs (hinit limit) = Some s ->
    NoDup (h_sent s) /\
    (forall c1 c2 b1 b2 i, h_pc s c1 = HSent b1 i -> h_pc s c2 = HSent b2 i -> In i (h_sent s)) /\
    alloc_injective (h_sent s).
Proof. exact http_unique_ids. Qed.
Print Assumptions C18_http_unique_ids.

(* 3. HTTP: on every exit path (reply of any kind, whatever id it echoed; cancellation while waiting
      for a slot) the response handed back carries the caller's own id. *)
Theorem C18_http_id_restored :
  forall (limit : N) (evs : list hev) (s : hstate) (c : nat) (o : hout),
    hrun evs (hinit limit) = Some s ->
    (h_pc s c = HDone o \/ exists b, h_pc s c = HRet b o) ->
    ho_id o = h_orig s c.
Proof. exact http_id_restored. Qed.
Print Assumptions C18_http_id_restored.

(* non-vacuity: limit 1, two callers; the second waits while the first is at the backend, the backend
   echoes a foreign id, the caller still gets its own id 7 back *)
Example C18_http_nonvacuous :
  exists s, hrun [HEStart 0 7; HEStart 1 9; HEAcquire 0; HEAlloc 0; HEReply 0 (HRResult 555 42);
                  HERestore 0; HERelease 0; HEAcquire 1; HEAlloc 1] (hinit 1) = Some s
            /\ h_outstanding s = 1%nat /\ h_sent s = [2; 1]%N
            /\ h_pc s 0%nat = HDone {| ho_err := false; ho_id := 7; ho_res := Some 42%N; ho_code := 0 |}.
Proof. eexists. split; [vm_compute; reflexivity|]. vm_compute. auto. Qed.

(* 3b. HTTP, pairing (not only the id).  [hexchanges limit evs] is the backend's view of the history: the
       exchanges it completed, as (id on the request frame, caller whose HTTP exchange it was, answer), a pure
       function of the event list.  Two callers never hold the same backend id at the same time ... *)
Theorem C18_http_ids_distinct_across_callers :
  forall (limit : N) (evs : list hev) (s : hstate),
    hrun evs (hinit limit) = Some s ->
    forall c1 c2 i, beid (h_pc s c1) = Some i -> beid (h_pc s c2) = Some i -> c1 = c2.
Proof. exact http_ids_distinct_across_callers. Qed.
Print Assumptions C18_http_ids_distinct_across_callers.

(* ... in the whole history no backend id was answered twice or to two callers, no caller had two exchanges,
   every answered id is one the allocator handed out ... *)
Theorem C18_http_exchange_log_unique :
  forall (limit : N) (evs : list hev) (s : hstate),
    hrun evs (hinit limit) = Some s ->
    let xl := hexchanges limit evs in
    NoDup (map (fun x => fst (fst x)) xl) /\
    NoDup (map (fun x => snd (fst x)) xl) /\
    (forall id c r, In (id, c, r) xl -> In id (h_sent s)).
Proof. exact http_exchange_log_unique. Qed.
Print Assumptions C18_http_exchange_log_unique.

(* ... and what a caller gets back is the classification, under ITS OWN original id, of the backend's answer
   on the one exchange that carried the id allocated to THIS caller (whatever id that answer echoed) - or the
   internal error, when it was cancelled while waiting for a slot and never sent anything. *)
Theorem C18_http_reply_paired :
  forall (limit : N) (evs : list hev) (s : hstate) (c : nat) (o : hout),
    hrun evs (hinit limit) = Some s ->
    (h_pc s c = HDone o \/ exists b, h_pc s c = HRet b o) ->
    let xl := hexchanges limit evs in
    (exists id r, In (id, c, r) xl /\ o = hclassify (h_orig s c) r) \/
    ((forall id r, ~ In (id, c, r) xl) /\ o = err_out (h_orig s c) codeInternal).
Proof. exact http_reply_paired. Qed.
Print Assumptions C18_http_reply_paired.

(* while a request is outstanding its id has been answered to nobody; once answered, the answer is logged
   under that id and that caller *)
Theorem C18_http_got_paired :
  forall (limit : N) (evs : list hev) (s : hstate) (c : nat) (b : bool) (id : N),
    hrun evs (hinit limit) = Some s ->
    let xl := hexchanges limit evs in
    (forall r, h_pc s c = HGot b id r -> In (id, c, r) xl) /\
    (h_pc s c = HSent b id ->
       (forall c' r, ~ In (id, c', r) xl) /\ (forall id' r, ~ In (id', c, r) xl)).
Proof. exact http_got_paired. Qed.
Print Assumptions C18_http_got_paired.

(* the "original id" of 3/3b is the id the caller passed in (a caller starts once) *)
Theorem C18_http_orig_is_callers :
  forall (limit : N) (evs : list hev) (s : hstate) (c : nat) (orig : N),
    hrun evs (hinit limit) = Some s -> In (HEStart c orig) evs -> h_orig s c = orig.
Proof. exact http_orig_is_callers. Qed.
Print Assumptions C18_http_orig_is_callers.

(* non-vacuity of 3b: limit 1, two callers; the backend answers caller 1 with an error that echoes caller 0's
   backend id: each still gets its own answer under its own id, the exchange log pairs ids and callers *)
Example C18_http_pairing_nonvacuous :
  let evs := [HEStart 0 7; HEStart 1 9; HEAcquire 0; HEAlloc 0; HEReply 0 (HRResult 555 42);
              HERestore 0; HERelease 0; HEAcquire 1; HEAlloc 1; HEReply 1 (HRRpcError 1 33);
              HERestore 1; HERelease 1]%N in
  match hrun evs (hinit 1) with
  | Some s =>
      h_pc s 0 = HDone {| ho_err := false; ho_id := 7; ho_res := Some 42%N; ho_code := 0 |} /\
      h_pc s 1 = HDone {| ho_err := true; ho_id := 9; ho_res := None; ho_code := 33 |}
  | None => False
  end /\
  hexchanges 1 evs = [(2%N, 1, HRRpcError 1 33); (1%N, 0, HRResult 555 42)].
Proof. vm_compute. repeat split; reflexivity. Qed.

(* 4. WebSocket: a delivery to caller k carries the frame whose id was allocated to k's request —
      in the log of all deliveries, in k's response channel and in what CallRPC returns; ids are never
      shared by two calls.  ([call_id (w_cpc w k)] is the id addInflightRequest allocated to k.) *)
Theorem C18_ws_pairing :
  forall evs w, wrun evs winit = Some w ->
    (forall k fid e v, In (LDeliver k (RespFrame fid e v)) (w_log w) -> call_id (w_cpc w k) = Some fid) /\
    (forall k fid e v, w_chan w k = Some (RespFrame fid e v) -> call_id (w_cpc w k) = Some fid) /\
    (forall k, cout_ok (w_cpc w k)) /\
    (forall k fid e v, In (LDeliver k (RespFrame fid e v)) (w_log w) ->
        paired (fun c => call_id (w_cpc w c)) k (DReply fid)) /\
    (forall k k' i, call_id (w_cpc w k) = Some i -> call_id (w_cpc w k') = Some i -> k = k').
Proof. exact ws_pairing. Qed.
Print Assumptions C18_ws_pairing.

(* 4b. ... and frames with an unknown id, an unusable id, or the id of an already answered request are
       dropped: they change nothing, now or at any later time. *)
Theorem C18_ws_unknown_and_duplicate_dropped :
  forall evs w, wrun evs winit = Some w ->
    (forall i e v, w_rpc w = RIdle -> alookup i (w_calls w) = None -> alookup i (w_pend w) = None ->
        wstep w (EFrame (FReply (Some i) e v)) = Some w) /\
    (forall e v, w_rpc w = RIdle -> wstep w (EFrame (FReply None e v)) = Some w) /\
    (forall i e v w1 evs2 w2,
        wstep w (EFrame (FReply (Some i) e v)) = Some w1 ->
        (alookup i (w_calls w) <> None \/ alookup i (w_pend w) <> None) ->
        wrun evs2 w1 = Some w2 ->
        alookup i (w_calls w2) = None /\ alookup i (w_pend w2) = None).
Proof. exact ws_unknown_and_duplicate_dropped. Qed.
Print Assumptions C18_ws_unknown_and_duplicate_dropped.

(* 5. WebSocket: once handleReconnect (started by EClear in any reachable state) is past its delivery
      loop, every call that was registered and unanswered before it has completed or has a response
      in its capacity-1 channel (or is being handed one by the receive loop): none hangs.  Whatever
      else happens in between, further reconnects included. *)
Theorem C18_ws_reconnect_completes :
  forall evs1 w1 w1' evs2 w2,
    wrun evs1 winit = Some w1 -> wstep w1 EClear = Some w1' -> wrun evs2 w1' = Some w2 ->
    (forall cs ss, w_hpc w2 <> HCalls cs ss) ->
    forall k i, waiting_id (w_cpc w1 k) = Some i ->
      (exists o, w_cpc w2 k = CGot i o \/ w_cpc w2 k = CDone i o) \/
      (waiting_id (w_cpc w2 k) = Some i /\
       (w_chan w2 k <> None \/ exists r, w_rpc w2 = RDeliver k r)).
Proof. exact ws_reconnect_completes. Qed.
Print Assumptions C18_ws_reconnect_completes.

Definition is_reconn (o : option resp) : bool := match o with Some RespReconn => true | _ => false end.
(* 5b. ... and that does not depend on the resubscribes: handleReconnect completes the calls BEFORE it
       attempts any resubscribe.  In any state after the reconnect began in which a resubscribe step is
       enabled (ERcInflight s: request allocated; ERcSend ok: its send succeeds or FAILS, the hook then
       returns the error and the websocket client reconnects again), and in the state after that step,
       every call that was outstanding before the reconnect has completed or has its response
       ([call_settled]).  No no_rc_abort hypothesis. *)
Theorem C18_ws_reconnect_calls_before_resubscribe :
  forall evs1 w1 w1' evs2 w2 e w3,
    wrun evs1 winit = Some w1 -> wstep w1 EClear = Some w1' -> wrun evs2 w1' = Some w2 ->
    resub_step e -> wstep w2 e = Some w3 ->
    forall k i, waiting_id (w_cpc w1 k) = Some i -> call_settled w2 k i /\ call_settled w3 k i.
Proof. exact ws_reconnect_calls_before_resubscribe. Qed.
Print Assumptions C18_ws_reconnect_calls_before_resubscribe.

(* non-vacuity of 5b: subscription 0 confirmed, call 1 outstanding, the connection drops, the resubscribe
   send FAILS inside handleReconnect: call 1 already holds the reconnect error; a further reconnect finds
   nothing left to fail *)
Example C18_ws_reconnect_abort_nonvacuous :
  match wrun [ESubCfg 0; ESubInflight 0; ESubSend 0 true; EFrame (FReply (Some 1%N) false (Some 5%N));
              ERAddActive; ESubWait 0; ECallReg 1; ECallSend 1 true] winit with
  | Some w1 =>
      match wstep w1 EClear with
      | Some w1' =>
          match wrun [ERcDeliver 1; ERcInflight 0] w1' with
          | Some w2 =>
              match wstep w2 (ERcSend false) with
              | Some w3 => is_reconn (w_chan w3 1%nat) &&
                           match w_hpc w3, waiting_id (w_cpc w1 1%nat) with HIdle, Some 2%N => true | _, _ => false end &&
                           match wrun [EClear; ERcInflight 0; ERcSend true; ECallRecv 1] w3 with
                           | Some w4 => match w_cpc w4 1%nat with CGot 2%N CErrReconn => true | _ => false end
                           | None => false
                           end
              | None => false
              end
          | None => false
          end
      | None => false
      end
  | None => false
  end = true.
Proof. vm_compute. reflexivity. Qed.

(* 6. WebSocket: per reconnect each configured subscription is re-requested exactly once.  PARTIAL:
      proved for event sequences in which no reconnect begins while a Subscribe() call is between
      addConfiguredSub and the completion of its own send (ghost flag w_substraddle), and handleReconnect
      never gives up ([no_rc_abort]: no websocket send fails inside it, no re-request fails to be built -
      [rc_gives_up], widened with the alphabet, see R8).  [sends_since_clear s] counts the eth_subscribe
      frames sent for s since the last reconnect began, [todo] is what handleReconnect still has on
      its list.  The full statement is false of the faithful model: C18_ws_resubscribe_once_refuted. *)
Theorem C18_ws_resubscribe_once_partial :
  forall evs w,
    wrun evs winit = Some w -> no_rc_abort evs -> w_substraddle w = false ->
    forall s, In s (w_conf w) -> settled (w_spc w s) = true ->
      sends_since_clear s (w_log w) + cnt_in s (todo (w_hpc w)) = 1 /\
      (w_hpc w = HIdle -> sends_since_clear s (w_log w) = 1).
Proof. exact ws_resubscribe_once_partial. Qed.
Print Assumptions C18_ws_resubscribe_once_partial.

(* 6b. the witness: Subscribe() registers its subscription, a reconnect snapshots it, Subscribe() sends
       its eth_subscribe, handleReconnect sends another: two requests pending for one subscription. *)
Theorem C18_ws_resubscribe_once_refuted :
  exists evs w s,
    wrun evs winit = Some w /\ no_rc_abort evs /\ In s (w_conf w) /\ settled (w_spc w s) = true /\
    w_hpc w = HIdle /\ sends_since_clear s (w_log w) = 2 /\ length (w_pend w) = 2.
Proof. exact ws_resubscribe_once_refuted. Qed.
Print Assumptions C18_ws_resubscribe_once_refuted.

(* 6c. EXACT count, every history, no guard.  [win_at_last_clear evs s]: s was inside its Subscribe() window
       (between addConfiguredSub and the completion of its own send) when the LAST reconnect began;
       [dropped_since_clear evs s]: since then handleReconnect gave up (a websocket send failed) with s still
       on its list.  Both are functions of the history (WsClient/ProofsWsResubExact.v), finer than the guards
       of 6: per subscription and per reconnect.  The number of requests is the sum of the two indicators. *)
Theorem C18_ws_resubscribe_exact :
  forall evs w, wrun evs winit = Some w ->
    forall s, In s (w_conf w) -> settled (w_spc w s) = true ->
      sends_since_clear s (w_log w) + cnt_in s (todo (w_hpc w)) =
        b2n (win_at_last_clear evs s) + b2n (negb (dropped_since_clear evs s)).
Proof. exact ws_resubscribe_exact. Qed.
Print Assumptions C18_ws_resubscribe_exact.

(* 6d. ... hence, once handleReconnect is done, "exactly once" holds IFF the two circumstances coincide;
       two requests iff only the first, none iff only the second. *)
Theorem C18_ws_resubscribe_once_iff :
  forall evs w, wrun evs winit = Some w -> w_hpc w = HIdle ->
    forall s, In s (w_conf w) -> settled (w_spc w s) = true ->
      (sends_since_clear s (w_log w) = 1 <-> win_at_last_clear evs s = dropped_since_clear evs s) /\
      (sends_since_clear s (w_log w) = 2 <-> win_at_last_clear evs s = true /\ dropped_since_clear evs s = false) /\
      (sends_since_clear s (w_log w) = 0 <-> win_at_last_clear evs s = false /\ dropped_since_clear evs s = true).
Proof. exact ws_resubscribe_once_iff. Qed.
Print Assumptions C18_ws_resubscribe_once_iff.

(* 6e. the guards of 6 exclude exactly these circumstances (and more: they are global and sticky), so 6 is the
       instance (false, false) of 6c *)
Theorem C18_ws_resubscribe_guards :
  forall evs w, wrun evs winit = Some w ->
    (w_substraddle w = false -> forall s, win_at_last_clear evs s = false) /\
    (no_rc_abort evs -> forall s, dropped_since_clear evs s = false).
Proof. intros evs w H. split; [exact (substraddle_false_win_false evs w H)|exact (no_abort_not_dropped evs)]. Qed.
Print Assumptions C18_ws_resubscribe_guards.

(* 6f. the clause is also false without the guard no_rc_abort alone: no Subscribe() straddles anything,
       handleReconnect gives up, the subscription is not re-requested at all *)
Theorem C18_ws_resubscribe_once_refuted_abort :
  exists evs w s,
    wrun evs winit = Some w /\ w_substraddle w = false /\ In s (w_conf w) /\ settled (w_spc w s) = true /\
    w_hpc w = HIdle /\ sends_since_clear s (w_log w) = 0.
Proof. exact ws_resubscribe_once_refuted_abort. Qed.
Print Assumptions C18_ws_resubscribe_once_refuted_abort.

(* non-vacuity of 6c/6d: the three exceptional combinations occur - (configured&settled, handleReconnect
   done, w_substraddle, requests, in window at last reconnect, dropped) - and the flags of 6 are broader than
   needed (another subscription straddled an EARLIER reconnect) *)
Example C18_ws_resub_exact_nonvacuous :
  resub_obs resub_witness 0 = Some (true, true, true, 2, true, false) /\
  resub_obs resub_abort_witness 0 = Some (true, true, false, 0, false, true) /\
  resub_obs resub_both_witness 0 = Some (true, true, true, 1, true, true) /\
  resub_obs resub_other_straddles 0 = Some (true, true, true, 1, false, false).
Proof. vm_compute. repeat split; reflexivity. Qed.

(* 7. WebSocket, routing of notifications.  In EVERY state a notification frame is dispatched by the
      abstract ownership table of Spec.v read off activeSubsBySubID: handed to [spec_route (w_act w) x]
      when x has an owner, dropped without any effect otherwise (also when it carries no usable id). *)
Theorem C18_ws_notification_dispatch :
  forall w x t, w_rpc w = RIdle ->
    wstep w (EFrame (FNotif (Some x) t)) =
      Some (match spec_route (w_act w) x with Some s => set_rpc w (RNotify s x t) | None => w end) /\
    (forall t', wstep w (EFrame (FNotif None t')) = Some w).
Proof. exact ws_notification_dispatch. Qed.
Print Assumptions C18_ws_notification_dispatch.

(* 7b. ... and that table is an ownership table: an entry x |-> s exists only while x is the server id s
       was last confirmed with and Unsubscribe s has not begun; the subscription the receive loop is
       handing a notification to has not completed its Unsubscribe; once Unsubscribe s has returned nil
       s owns no id, no notification is delivered to s afterwards in the whole history ([no_late]), and
       nothing is ever sent on / closed twice as a closed notifications channel.  PARTIAL: proved for
       event sequences in which no reconnect begins while the receive loop is between getActiveSub and the
       hand-over select of a NOTIFICATION ([notif_straddle evs winit], a function of the history: some EClear
       was taken in a state with w_rpc = RNotify) nor while a Subscribe() call is between addConfiguredSub and
       the completion of its own send (w_substraddle).  A reconnect that begins while the receive loop is inside a
       confirmation (popInflight .. addActiveSub) or a call reply is covered since the repair 8f787ed (the
       invariant is stated relative to the connection generation w_gen).  Without the first hypothesis the
       statement is false of the faithful model (7c); without the second one see 6b. *)
Theorem C18_ws_routing_partial :
  forall evs w,
    wrun evs winit = Some w -> notif_straddle evs winit = false -> w_substraddle w = false ->
    (forall s x t, w_rpc w = RNotify s x t -> w_upc w s <> UDone true /\ w_upc w s <> UClosing) /\
    (forall x s, In (x, s) (w_act w) -> s_cur (w_sub w s) = Some x /\ w_upc w s = UNew) /\
    (forall s, w_upc w s = UDone true -> owns_nothing (w_act w) s) /\
    no_late (w_log w) /\
    w_panic w = false.
Proof. exact ws_routing_gen_partial. Qed.
Print Assumptions C18_ws_routing_partial.

(* 7b'. the guard of 7b is implied by the ghost flag that guarded this theorem before (no reconnect begins
        while the receive loop is inside ANY frame): nothing that was covered is lost *)
Theorem C18_ws_routing_guard_narrowed :
  forall evs w, wrun evs winit = Some w -> w_straddle w = false -> notif_straddle evs winit = false.
Proof. intros evs w. exact (straddle_false_notif_false evs winit w). Qed.
Print Assumptions C18_ws_routing_guard_narrowed.

(* 7c. the witness (it lies in the narrowed window): the receive loop has looked up the owner of a notification
       (subscription 0) and has not yet entered the select that hands it over when the connection drops;
       handleReconnect clears currentSubID and re-requests 0; Unsubscribe therefore sends no eth_unsubscribe
       (nothing it has to wait for the receive loop for) and closes the notifications channel; the receive loop
       then enters the select with a send on the closed channel among its ready cases. *)
Theorem C18_ws_routing_refuted :
  exists evs w, wrun evs winit = Some w /\ notif_straddle evs winit = true /\ w_substraddle w = false /\
                w_upc w 0 = UDone true /\ w_panic w = true.
Proof. exact ws_routing_gen_refuted. Qed.
Print Assumptions C18_ws_routing_refuted.

(* non-vacuity of the narrowing: the D18c history (confirmation popped, reconnect, addActiveSub, new confirmation,
   Unsubscribe, notification on the old id) and a reconnect during the delivery of a call reply both have
   w_straddle = true - excluded by the old guard - and satisfy the hypotheses of 7b *)
Example C18_ws_routing_narrowed_nonvacuous :
  match wrun d18c_trace winit, wrun deliver_straddle_trace winit with
  | Some w, Some w' =>
      w_straddle w && negb (w_substraddle w) && negb (notif_straddle d18c_trace winit) && negb (w_panic w) &&
      w_straddle w' && negb (w_substraddle w') && negb (notif_straddle deliver_straddle_trace winit) && negb (w_panic w')
  | _, _ => false
  end = true.
Proof. vm_compute. reflexivity. Qed.

(* non-vacuity of 7/7b: subscription 0 is confirmed with server id 5 and receives a notification; the id
   moves to subscription 1 after a reconnect (the server reuses it); 0 is unsubscribed; a notification
   for 5 then goes to 1, one for the id 0 had last (6) to nobody; both ghost flags are still false *)
Example C18_ws_routing_nonvacuous :
  match wrun [ESubCfg 0; ESubInflight 0; ESubSend 0 true; EFrame (FReply (Some 1%N) false (Some 5%N));
              ERAddActive; ESubWait 0; EFrame (FNotif (Some 5%N) 70%N); ERNotifySend;
              ESubCfg 1; ESubInflight 1; ESubSend 1 true;
              EClear; ERcInflight 0; ERcSend true; ERcInflight 1; ERcSend true;
              EFrame (FReply (Some 4%N) false (Some 5%N)); ERAddActive; ESubWait 1;
              EFrame (FReply (Some 3%N) false (Some 6%N)); ERAddActive;
              EUnsubRemove 0 9; ECallReg 9; ECallSend 9 true;
              EFrame (FReply (Some 5%N) false None); ERDeliver; ECallRecv 9; ECallRemove 9;
              EUnsubAfterCall 0 true; EUnsubClose 0;
              EFrame (FNotif (Some 6%N) 71%N);
              EFrame (FNotif (Some 5%N) 72%N); ERNotifySend] winit with
  | Some w => negb (w_straddle w) && negb (w_substraddle w) && negb (w_panic w) &&
              match w_upc w 0%nat, w_log w with
              | UDone true, LNotify 1%nat 5%N (Some 5%N) 72%N :: LUnsubRet 0%nat :: _ => true
              | _, _ => false
              end &&
              match spec_route (w_act w) 5%N, spec_route (w_act w) 6%N with Some 1%nat, None => true | _, _ => false end
  | None => false
  end = true.
Proof. vm_compute. reflexivity. Qed.

(* non-vacuity of 6: a confirmed subscription, a reconnect, the resubscribe *)
Example C18_ws_resub_nonvacuous :
  match wrun [ESubCfg 0; ESubInflight 0; ESubSend 0 true; EFrame (FReply (Some 1%N) false (Some 5%N));
              ERAddActive; ESubWait 0; EClear; ERcInflight 0; ERcSend true] winit with
  | Some w => nmem 0 (w_conf w) && settled (w_spc w 0%nat) && negb (w_substraddle w) &&
              (sends_since_clear 0 (w_log w) =? 1)%nat && match w_hpc w with HIdle => true | _ => false end
  | None => false
  end = true.
Proof. vm_compute. reflexivity. Qed.

(* non-vacuity: two calls, replies in reverse order, a duplicate, then a third call caught by a
   reconnect: it ends with the reconnect error in its channel (the hypotheses of theorems 4-5 hold of
   this run; evaluated as one boolean so that no state has to be printed) *)
Example C18_ws_nonvacuous :
  match wrun [ECallReg 0; ECallSend 0 true; ECallReg 1; ECallSend 1 true;
              EFrame (FReply (Some 2%N) false (Some 22%N)); ERDeliver; ECallRecv 1;
              EFrame (FReply (Some 1%N) false (Some 11%N)); ERDeliver;
              EFrame (FReply (Some 2%N) false (Some 99%N));
              ECallReg 2; ECallSend 2 true] winit with
  | Some w1 =>
      match w_cpc w1 1%nat, w_chan w1 0%nat, waiting_id (w_cpc w1 2%nat), wstep w1 EClear with
      | CGot 2%N (COk 2%N (Some 22%N)), Some (RespFrame 1%N false (Some 11%N)), Some 3%N, Some w1' =>
          match wrun [ERcDeliver 2] w1' with
          | Some w2 => match w_hpc w2 with HIdle => is_reconn (w_chan w2 2%nat) | _ => false end
          | None => false
          end
      | _, _, _, _ => false
      end
  | None => false
  end = true.
Proof. vm_compute. reflexivity. Qed.

(* Source constants (translator harness/cmd/gen_consts -> Gen/Consts.v, regenerated from /repo on every
   run): the JSON-RPC error code the client models answer with (reconnect, HTTP failure, null body) is
   what pkg/rpcbackend/backend.go declares NOW. *)
From Coq Require ZArith.
From FFS Require Gen.Consts.
Theorem C18_source_constants :
  Gen.Consts.rpcbackend_RPCCodeInternalError = BinInt.Z.opp (BinInt.Z.of_N WsClient.Model.codeInternal).
Proof. vm_compute. reflexivity. Qed.
Print Assumptions C18_source_constants.

(* ===================== answers to the referee's review (design/reviews/C18.md) ===================== *)

(* R1 (review 4 / 5a). Unsubscribe decodes the result of its eth_unsubscribe into a Go bool (waitResponse,
      wsbackend.go:411-415).  The model's step [EUnsubAfterCall s dec] carries the outcome of that decoding: once
      the call has returned a non-error reply, "decoding failed" is always possible and ends Unsubscribe with an
      error WITHOUT closing the channel (LUnsubFail, UDone false); "decoded" is enabled only when the result is not
      a non-empty JSON string, and only then does Unsubscribe go on to close the channel. *)
Theorem C18_ws_unsubscribe_decode_step :
  forall w s k i f res,
    w_upc w s = UCall k -> w_cpc w k = CDone i (COk f res) ->
    wstep w (EUnsubAfterCall s false) = Some (add_log (set_upc w s (UDone false)) (LUnsubFail s)) /\
    wstep w (EUnsubAfterCall s true) = match res with Some _ => None | None => Some (set_upc w s UClosing) end.
Proof. exact ws_unsub_decode_step. Qed.
Print Assumptions C18_ws_unsubscribe_decode_step.

(* R2. "To none after it is unsubscribed", for EVERY way Unsubscribe can end (nil; the backend's error; a cancelled
      context; the reconnect error; the ParseError of R1, after which the channel stays open): once Unsubscribe s
      has begun (removeSubscription has run: w_upc <> UNew) and the receive loop is not holding a notification for
      s ([off_loop]), then in every continuation the notifications handed to s ([notifs_to s], read off the log)
      are exactly those handed to it before, s owns no server id, and the receive loop never picks s again.
      Same two guards as 7b (they are about the whole history evs1 ++ evs2). *)
Theorem C18_ws_none_after_unsubscribe_begun :
  forall evs1 w1 evs2 w2 s,
    wrun evs1 winit = Some w1 -> wrun evs2 w1 = Some w2 ->
    notif_straddle (evs1 ++ evs2) winit = false -> w_substraddle w2 = false ->
    w_upc w1 s <> UNew -> off_loop w1 s ->
    notifs_to s (w_log w2) = notifs_to s (w_log w1) /\ owns_nothing (w_act w2) s /\ off_loop w2 s /\
    w_upc w2 s <> UNew /\ (w_upc w1 s = UDone false -> w_upc w2 s = UDone false /\ s_closed (w_sub w2 s) = false).
Proof. exact ws_none_after_unsub_begun. Qed.
Print Assumptions C18_ws_none_after_unsubscribe_begun.

(* R3. ... and the receive loop IS off s as soon as the eth_unsubscribe of s has been answered by a non-error frame
      (the reply came through the same sequential receive loop, and s lost its routing entry before the request
      was sent) *)
Theorem C18_ws_answered_unsubscribe_off_loop :
  forall evs w s k,
    wrun evs winit = Some w -> notif_straddle evs winit = false -> w_substraddle w = false ->
    w_upc w s = UCall k -> cpc_succ (w_cpc w k) = true -> off_loop w s /\ owns_nothing (w_act w) s.
Proof. exact ws_answered_unsub_off_loop. Qed.
Print Assumptions C18_ws_answered_unsubscribe_off_loop.

(* R4. the ParseError exit put together: Unsubscribe returns the error, the notifications channel is NOT closed,
      and in every continuation no notification reaches s (the clause holds although Unsubscribe "failed") *)
Theorem C18_ws_none_after_undecodable_unsubscribe :
  forall evs1 w1 s k i f res w1' evs2 w2,
    wrun evs1 winit = Some w1 -> w_upc w1 s = UCall k -> w_cpc w1 k = CDone i (COk f res) ->
    wstep w1 (EUnsubAfterCall s false) = Some w1' -> wrun evs2 w1' = Some w2 ->
    notif_straddle (evs1 ++ EUnsubAfterCall s false :: evs2) winit = false -> w_substraddle w2 = false ->
    w_upc w2 s = UDone false /\ s_closed (w_sub w2 s) = false /\
    notifs_to s (w_log w2) = notifs_to s (w_log w1) /\ owns_nothing (w_act w2) s /\ off_loop w2 s.
Proof. exact ws_none_after_undecodable_unsubscribe. Qed.
Print Assumptions C18_ws_none_after_undecodable_unsubscribe.

(* non-vacuity of R1-R4: subscription 0 confirmed with server id 5 and notified once; Unsubscribe 0 sends
   eth_unsubscribe (call 9, id 2); the server answers {"id":"000000002","result":"0x4d"} (a string: Some 77);
   "decoded" is not enabled, "decoding failed" is: Unsubscribe returns the error, the channel is open, a later
   notification for 5 reaches nobody (the one notification of before is all s ever got); guards false *)
Example C18_ws_undecodable_unsubscribe_nonvacuous :
  let evs1 := [ESubCfg 0; ESubInflight 0; ESubSend 0 true; EFrame (FReply (Some 1%N) false (Some 5%N));
               ERAddActive; ESubWait 0; EFrame (FNotif (Some 5%N) 70%N); ERNotifySend;
               EUnsubRemove 0 9; ECallReg 9; ECallSend 9 true;
               EFrame (FReply (Some 2%N) false (Some 77%N)); ERDeliver; ECallRecv 9; ECallRemove 9] in
  let evs2 := [EFrame (FNotif (Some 5%N) 71%N); EFrame (FNotif (Some 5%N) 72%N)] in
  match wrun evs1 winit with
  | Some w1 =>
      match w_upc w1 0%nat, w_cpc w1 9%nat, wstep w1 (EUnsubAfterCall 0 true), wstep w1 (EUnsubAfterCall 0 false) with
      | UCall 9%nat, CDone 2%N (COk 2%N (Some 77%N)), None, Some w1' =>
          match wrun evs2 w1' with
          | Some w2 =>
              negb (notif_straddle (evs1 ++ EUnsubAfterCall 0 false :: evs2) winit) && negb (w_substraddle w2) &&
              negb (s_closed (w_sub w2 0%nat)) && negb (w_panic w2) &&
              match w_upc w2 0%nat, notifs_to 0 (w_log w2), w_log w2, w_rpc w2 with
              | UDone false, [(5%N, 70%N)], LUnsubFail 0%nat :: _, RIdle => true
              | _, _, _, _ => false
              end
          | None => false
          end
      | _, _, _, _ => false
      end
  | None => false
  end = true.
Proof. vm_compute. reflexivity. Qed.

(* R5 (review 2). Completeness of reply pairing: a reply frame whose id is registered to call k IS handed to k - the
      receive loop takes it (whatever its error flag and result), and its next step puts exactly that frame's
      content into k's response channel and into the delivery log (when the channel is free; it has capacity 1
      and is only ever written for a registered call), and the id is forgotten. *)
Theorem C18_ws_reply_is_delivered :
  forall evs w, wrun evs winit = Some w ->
    forall i k e v, w_rpc w = RIdle -> alookup i (w_calls w) = Some k ->
      exists w1 w2,
        wstep w (EFrame (FReply (Some i) e v)) = Some w1 /\
        w_rpc w1 = RDeliver k (RespFrame i e v) /\
        wstep w1 ERDeliver = Some w2 /\
        alookup i (w_calls w2) = None /\
        (w_chan w k = None ->
           w_chan w2 k = Some (RespFrame i e v) /\ w_log w2 = LDeliver k (RespFrame i e v) :: w_log w).
Proof. exact ws_reply_is_delivered. Qed.
Print Assumptions C18_ws_reply_is_delivered.

(* R6 (review 2). ... and the CONTENT is the frame's: what CallRPC k holds or has returned as a result / as the
      backend's error, what lies in k's channel, and what the receive loop is about to hand over, is the id, error
      flag and result of a reply frame the server sent in THIS history (an [EFrame] of evs) with k's own id. *)
Theorem C18_ws_call_outcome_from_history :
  forall evs w, wrun evs winit = Some w ->
    (forall k i f v, (w_cpc w k = CGot i (COk f v) \/ w_cpc w k = CDone i (COk f v)) ->
        f = i /\ In (EFrame (FReply (Some i) false v)) evs) /\
    (forall k i f v, (w_cpc w k = CGot i (CErrFrame f v) \/ w_cpc w k = CDone i (CErrFrame f v)) ->
        f = i /\ In (EFrame (FReply (Some i) true v)) evs) /\
    (forall k i e v, w_chan w k = Some (RespFrame i e v) -> In (EFrame (FReply (Some i) e v)) evs) /\
    (forall k i e v, w_rpc w = RDeliver k (RespFrame i e v) -> In (EFrame (FReply (Some i) e v)) evs).
Proof. exact ws_call_outcome_from_history. Qed.
Print Assumptions C18_ws_call_outcome_from_history.

(* R7 (review 3, completeness half). The ownership table does get filled and an owner does get its notification:
      a confirmation (result x) of a pending request of a configured subscription s makes s the owner of x, and
      the next notification for x is handed to s, carrying x as its current id.  (Pure step facts: any state.) *)
Theorem C18_ws_confirmation_activates :
  forall w i s x, w_rpc w = RIdle -> alookup i (w_pend w) = Some s -> nmem s (w_conf w) = true ->
    exists w1 w2,
      wstep w (EFrame (FReply (Some i) false (Some x))) = Some w1 /\
      wstep w1 ERAddActive = Some w2 /\
      w_rpc w2 = RIdle /\ spec_route (w_act w2) x = Some s /\ s_cur (w_sub w2 s) = Some x /\
      (forall t, exists w3,
         wstep w2 (EFrame (FNotif (Some x) t)) = Some w3 /\ w_rpc w3 = RNotify s x t /\
         (s_closed (w_sub w s) = false ->
            exists w4, wstep w3 ERNotifySend = Some w4 /\ w_log w4 = LNotify s x (Some x) t :: w_log w)).
Proof. exact ws_confirmation_activates. Qed.
Print Assumptions C18_ws_confirmation_activates.

(* non-vacuity of R5-R7: two calls answered in reverse order, one with an error; each call's outcome is the frame
   with its own id; a subscription confirmed and notified *)
Example C18_ws_referee_nonvacuous :
  let evs := [ECallReg 0; ECallSend 0 true; ECallReg 1; ECallSend 1 true;
              EFrame (FReply (Some 2%N) true (Some 22%N)); ERDeliver; ECallRecv 1; ECallRemove 1;
              EFrame (FReply (Some 1%N) false (Some 11%N)); ERDeliver; ECallRecv 0;
              ESubCfg 0; ESubInflight 0; ESubSend 0 true] in
  match wrun evs winit with
  | Some w =>
      match w_cpc w 0%nat, w_cpc w 1%nat, w_rpc w, alookup 3%N (w_pend w), nmem 0 (w_conf w) with
      | CGot 1%N (COk 1%N (Some 11%N)), CDone 2%N (CErrFrame 2%N (Some 22%N)), RIdle, Some 0%nat, true =>
          match wrun [EFrame (FReply (Some 3%N) false (Some 5%N)); ERAddActive; EFrame (FNotif (Some 5%N) 70%N); ERNotifySend] w with
          | Some w4 => match w_log w4 with LNotify 0%nat 5%N (Some 5%N) 70%N :: _ => true | _ => false end
          | None => false
          end
      | _, _, _, _, _ => false
      end
  | None => false
  end = true.
Proof. vm_compute. reflexivity. Qed.

(* R8 (review 5b). buildRequest failing inside sendSubscribe is now part of the event alphabet, so "every history"
      in 5/5b/6/6c-6f/7b includes it (the exact count 6c treats ERcBuildFail like a failed send: handleReconnect
      gave up on everything still on its list; [no_rc_abort] excludes both - [rc_gives_up]).  Inside Subscribe()
      (ESubBuildFail: after addConfiguredSub, BEFORE addInflightSub): no id is consumed, nothing becomes pending
      or active, nothing is sent, the subscription does not stay configured, Subscribe returns (nil, err). *)
Theorem C18_ws_subscribe_build_fail :
  forall w s, w_spc w s = SNew ->
    exists w1 w2 w3,
      wstep w (ESubCfg s) = Some w1 /\ wstep w1 (ESubBuildFail s) = Some w2 /\ wstep w2 (ESubRemoveCfg s) = Some w3 /\
      w_spc w3 s = SDone None /\ w_ctr w3 = w_ctr w /\ w_pend w3 = w_pend w /\ w_act w3 = w_act w /\
      w_calls w3 = w_calls w /\ w_log w3 = w_log w /\ ~ In s (w_conf w3).
Proof. exact ws_sub_build_fail_steps. Qed.
Print Assumptions C18_ws_subscribe_build_fail.

(* R9 (review 5b). Inside handleReconnect (ERcBuildFail s: the hook gives up BEFORE addInflightSub): like 5b for a
      failing send, every call outstanding before the reconnect is already settled when the hook gives up and
      after it; the hook is done (HIdle), no id was consumed, nothing became pending, nothing was sent. *)
Theorem C18_ws_reconnect_calls_before_build_fail :
  forall evs1 w1 w1' evs2 w2 s w3,
    wrun evs1 winit = Some w1 -> wstep w1 EClear = Some w1' -> wrun evs2 w1' = Some w2 ->
    wstep w2 (ERcBuildFail s) = Some w3 ->
    (forall k i, waiting_id (w_cpc w1 k) = Some i -> call_settled w2 k i /\ call_settled w3 k i) /\
    w_hpc w3 = HIdle /\ w_ctr w3 = w_ctr w2 /\ w_pend w3 = w_pend w2 /\ w_log w3 = w_log w2.
Proof. exact ws_reconnect_calls_before_build_fail. Qed.
Print Assumptions C18_ws_reconnect_calls_before_build_fail.

(* non-vacuity of R8/R9 and of 6c on the new events: a Subscribe whose request cannot be built leaves no trace
   (the next id is 1); subscription 1 confirmed, call 5 outstanding, reconnect, the hook cannot build the
   re-request: call 5 holds the reconnect error, 0 requests for subscription 1, "dropped" = true, "in window" =
   false - the combination (false, true) of 6d; the next reconnect re-requests it with the next id (3: none lost) *)
Example C18_ws_build_fail_nonvacuous :
  let evs := [ESubCfg 0; ESubBuildFail 0; ESubRemoveCfg 0;
              ESubCfg 1; ESubInflight 1; ESubSend 1 true; EFrame (FReply (Some 1%N) false (Some 5%N));
              ERAddActive; ESubWait 1; ECallReg 5; ECallSend 5 true;
              EClear; ERcDeliver 5; ERcBuildFail 1] in
  resub_obs evs 1 = Some (true, true, false, 0, false, true) /\
  match wrun evs winit with
  | Some w => is_reconn (w_chan w 5%nat) && (w_ctr w =? 2)%N && negb (nmem 0 (w_conf w)) &&
              match w_spc w 0%nat, wrun [EClear; ERcInflight 1] w with
              | SDone None, Some w' => match w_hpc w' with HSend 1%nat 3%N [] => true | _ => false end
              | _, _ => false
              end
  | None => false
  end = true.
Proof. vm_compute. split; reflexivity. Qed.


(* ===================== §10 Wave 6: one response per call, none dropped; the guard of R5 removed ===================== *)

(* W6-1. The four places a call's response can come from or be in - the table [w_calls], the snapshot
      handleReconnect is working through, the receive loop's hand (RDeliver), the delivery log - are mutually
      exclusive in every reachable state; a call in one of the first three has been handed nothing and its
      capacity-1 channel is EMPTY; whatever lies in a channel is in the delivery log. *)
Theorem C18_ws_single_response :
  forall evs w, wrun evs winit = Some w ->
    (forall i k, In (i, k) (w_calls w) ->
        w_chan w k = None /\ (forall r, ~ In (LDeliver k r) (w_log w)) /\
        (forall r, w_rpc w <> RDeliver k r) /\ (forall j, ~ In (j, k) (hcalls (w_hpc w)))) /\
    (forall i k, In (i, k) (hcalls (w_hpc w)) ->
        w_chan w k = None /\ (forall r, ~ In (LDeliver k r) (w_log w)) /\ (forall r, w_rpc w <> RDeliver k r)) /\
    (forall k r, w_rpc w = RDeliver k r -> w_chan w k = None /\ (forall r', ~ In (LDeliver k r') (w_log w))) /\
    (forall k r, w_chan w k = Some r -> In (LDeliver k r) (w_log w)).
Proof. exact ws_single_response. Qed.
Print Assumptions C18_ws_single_response.

(* W6-2. deliverCallResponse never takes its default (drop) branch: the receive loop and handleReconnect both find
      the channel empty; the response goes in, is logged, and is the FIRST one handed to that call. *)
Theorem C18_ws_response_never_dropped :
  forall evs w, wrun evs winit = Some w ->
    (forall k r w', w_rpc w = RDeliver k r -> wstep w ERDeliver = Some w' ->
        w_chan w' k = Some r /\ w_log w' = LDeliver k r :: w_log w /\ (forall r', ~ In (LDeliver k r') (w_log w))) /\
    (forall k w', wstep w (ERcDeliver k) = Some w' ->
        w_chan w' k = Some RespReconn /\ w_log w' = LDeliver k RespReconn :: w_log w /\
        (forall r', ~ In (LDeliver k r') (w_log w))).
Proof. exact ws_response_never_dropped. Qed.
Print Assumptions C18_ws_response_never_dropped.

(* W6-3. R5 (C18_ws_reply_is_delivered) WITHOUT its guard "k's channel is free": a reply frame whose id is
      registered to call k is taken by the receive loop and its next step puts exactly that frame's id, error
      flag and result into k's channel and the log - in every reachable state with the loop idle. *)
Theorem C18_ws_reply_is_delivered_unguarded :
  forall evs w, wrun evs winit = Some w ->
    forall i k e v, w_rpc w = RIdle -> alookup i (w_calls w) = Some k ->
      exists w1 w2,
        wstep w (EFrame (FReply (Some i) e v)) = Some w1 /\
        w_rpc w1 = RDeliver k (RespFrame i e v) /\
        wstep w1 ERDeliver = Some w2 /\
        alookup i (w_calls w2) = None /\
        w_chan w2 k = Some (RespFrame i e v) /\ w_log w2 = LDeliver k (RespFrame i e v) :: w_log w /\
        (forall r, ~ In (LDeliver k r) (w_log w)).
Proof. exact ws_reply_is_delivered_unguarded. Qed.
Print Assumptions C18_ws_reply_is_delivered_unguarded.

(* non-vacuity of W6: call 0 (id 1) answered by a frame, call 1 (id 2) outstanding at a reconnect: each response
   lands in an empty channel (reply content / reconnect error), five log entries *)
Example C18_ws_single_response_nonvacuous :
  match wrun once_witness winit with
  | Some w =>
      match w_chan w 0, w_chan w 1 with
      | Some (RespFrame 1%N false (Some 7%N)), Some RespReconn => (length (w_log w) =? 5)%nat
      | _, _ => false
      end
  | None => false
  end = true.
Proof. vm_compute. reflexivity. Qed.
