(* C04 — EIP-712 digest equals the specification for every type graph and message.
   Statements only; proofs live in Eip712/Proofs*.v. *)
From Coq Require Import List NArith ZArith Bool Arith Lia.
From Coq Require Import Init.Byte.
From FFS Require Import Base.Res Base.Bytes Abi.Spec.
From FFS Require Import Eip712.Util Eip712.Input Eip712.Numeric Eip712.Coerce Eip712.Model Eip712.ProofsSign.
Import ListNotations.

(* Signature clause (shape): whenever SignTypedDataV4 succeeds, the hash it reports is the document's
   EIP-712 digest, the signer was asked to sign exactly that digest (no second hash), R and S are the
   32-byte big-endian numbers, and signatureRSV is the 65 bytes R || S || byte(V); with a signer that
   answers V in {27,28} the last byte is 27 or 28.  That the signature verifies for the digest against
   the signer's address is a fact about the signer (C05) and is checked on every run against btcec. *)
Theorem C04_signature :
  forall (H : bytes -> bytes) (big_other : bytes -> option Z) (sign_direct : bytes -> option (Z * Z * Z))
         (payload : option typed_data) (res : EIP712Result),
    SignTypedDataV4 H big_other sign_direct payload = Ok res ->
    (exists digest R S V,
        EncodeTypedDataV4 H big_other payload = Ok digest /\
        sign_direct digest = Some (R, S, V) /\
        r_hash res = digest /\
        r_R res = be_fixedZ 32 (Z.abs R) /\ r_S res = be_fixedZ 32 (Z.abs S) /\ r_V res = V /\
        r_signatureRSV res = r_R res ++ r_S res ++ [n2b (Z.to_N (V mod 256))] /\
        length (r_signatureRSV res) = 65%nat) /\
    ((forall m R S V, sign_direct m = Some (R, S, V) -> V = 27%Z \/ V = 28%Z) ->
     nth 64 (r_signatureRSV res) x00 = n2b (Z.to_N (r_V res)) /\ (r_V res = 27%Z \/ r_V res = 28%Z)).
Proof. intros. split; [eapply sign_shape; eassumption | intros; eapply sign_v; eassumption]. Qed.
Print Assumptions C04_signature.
