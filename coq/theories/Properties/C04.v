(* C04 — EIP-712 digest equals the specification for every type graph and message.
   Statements only; proofs live in Eip712/Proofs*.v.

   Vocabulary (Eip712/Repr.v): a Go-level document [td : typed_data] (type strings, decoded JSON
   values — what EncodeTypedDataV4 receives) [represents] an EIP-712 document [d : Spec.doc] (parsed
   member types, typed values) when its type map holds the canonical rendering of d's struct types
   and its domain / message values read, member by member through the documented coercions, as d's
   typed values.  [wf_doc] is well-formedness per the EIP (declared struct names, valid atomic
   widths, values of their types) EXTENDED by the conventions of the implementation (referee I4): the
   absent struct value is also accepted at the top-level message position (a document without message,
   theorem 13) and at the top-level domain position (reachable from no Go input, theorem 10b), and a
   struct may carry a name such as "uint" or "bytes33" that is no VALID atomic spelling; so [wf_doc]
   contains every EIP document and a few more.  [types_dims_fit] says fixed array dimensions fit Go's int.
   The hash function H is arbitrary in every statement (keccak256 is one instance). *)
From Coq Require Import String.
From Coq Require Import List NArith ZArith Bool Arith Lia Permutation.
From Coq Require Import Init.Byte.
From FFS Require Import Base.Res Base.Bytes Abi.Spec.
From FFS Require Import Eip712.Util Eip712.Input Eip712.Numeric Eip712.Coerce Eip712.Model Eip712.Spec Eip712.Repr.
From FFS Require Import Eip712.Parse Eip712.ProofsSign Eip712.ProofsMain Eip712.ProofsInvariance Eip712.ProofsParse Eip712.ProofsAbi.
From FFS Require Import Crypto.Ecdsa Eip712.ProofsSignVerify.
From FFS Require Import Eip712.ProofsRound3.
From FFS Require Secp.Model Secp.Proofs.
Import ListNotations.

(* 1. The digest is the EIP-712 digest: keccak256(0x19 0x01 || domainSeparator || hashStruct(message)),
      for type graphs of any size (shared, mutually recursive and self-recursive references), arrays of
      any nesting (fixed and dynamic), absent struct references, any domain type including none, and
      domain-only documents. *)
Theorem C04_digest_is_spec :
  forall (H : bytes -> bytes) (big_other : bytes -> option Z) (td : typed_data) (d : doc),
    represents big_other td d -> wf_doc d -> types_dims_fit (d_types d) ->
    EncodeTypedDataV4 H big_other (Some td) = Ok (digest H d).
Proof. exact digest_is_spec. Qed.
Print Assumptions C04_digest_is_spec.

(* 1a. The exported HashStruct (hashing one struct value without the domain) is the spec's hashStruct:
       keccak256(typeHash || encodeData(value)), 32 zero bytes for the absent value. *)
Theorem C04_hashStruct_is_spec :
  forall (H : bytes -> bytes) (big_other : bytes -> option Z) (all : typeset) (sts : types),
    repr_types all sts -> wf_types sts -> types_dims_fit sts ->
    forall (n : bytes) (g : gval) (v : value),
      In n (keys sts) -> repr big_other sts (Struct n) g v -> well_typed sts (Struct n) v = true ->
      HashStruct H big_other n g all = Ok (Spec.hashStruct H sts n v).
Proof. exact hashStruct_top. Qed.
Print Assumptions C04_hashStruct_is_spec.

(* 1'. The same statement in functional form: [parse_doc] (Eip712/Parse.v, executable) reads the Go-level
      document as an EIP-712 document, [well_formed_b] is the decidable well-formedness check. *)
Theorem C04_digest_is_spec_parse :
  forall (H : bytes -> bytes) (big_other : bytes -> option Z) (td : typed_data) (d : doc),
    parse_doc big_other td = Some d -> well_formed_b d = true ->
    EncodeTypedDataV4 H big_other (Some td) = Ok (digest H d).
Proof. exact digest_is_spec_parse. Qed.
Print Assumptions C04_digest_is_spec_parse.

(* 2. Key order: the type set in any order of its entries, domain and message with the keys of every
      object permuted at any depth — same digest. *)
Theorem C04_order_independent :
  forall (H : bytes -> bytes) (big_other : bytes -> option Z) (td td' : typed_data) (d : doc),
    represents big_other td d -> wf_doc d -> types_dims_fit (d_types d) ->
    NoDup (keys (types_of td)) -> Permutation (types_of td) (types_of td') ->
    td_primary td' = td_primary td ->
    gperm (domain_of td) (domain_of td') -> gperm (message_of td) (message_of td') ->
    EncodeTypedDataV4 H big_other (Some td') = Ok (digest H d) /\
    EncodeTypedDataV4 H big_other (Some td') = EncodeTypedDataV4 H big_other (Some td).
Proof. exact order_independent. Qed.
Print Assumptions C04_order_independent.

(* the order in which `range` delivers the keys of the dependency map inside TypeSet.Encode is
   irrelevant as well: the keys are sorted *)
Theorem C04_map_iteration_order_irrelevant :
  forall (ts : typeset) (primary : bytes) (range_keys : list bytes),
    Permutation range_keys (map fst ts) ->
    TypeSet_Encode_keys range_keys ts primary = TypeSet_Encode ts primary.
Proof.
  intros ts primary rk Hp. unfold TypeSet_Encode, TypeSet_Encode_keys.
  rewrite (ProofsUtil.sort_perm_eq _ _ (ProofsUtil.filter_perm _ _ _ Hp)). reflexivity.
Qed.
Print Assumptions C04_map_iteration_order_irrelevant.

(* 3. Unreferenced type definitions: any further entries of the type set — whatever they contain —
      under names that are neither struct types of the document nor spellings of (valid) atomic types. *)
Theorem C04_unreferenced_types_irrelevant :
  forall (H : bytes -> bytes) (big_other : bytes -> option Z) (td : typed_data) (d : doc) (extra : typeset),
    represents big_other td d -> wf_doc d -> types_dims_fit (d_types d) ->
    (forall n, In n (keys extra) -> ~ In n (keys (d_types d)) /\ forall a, wf_atomic a = true -> n <> atomic_name a) ->
    let td' := mkTD (Some (types_of td ++ extra)) (td_primary td) (td_domain td) (td_message td) in
    EncodeTypedDataV4 H big_other (Some td') = Ok (digest H d) /\
    EncodeTypedDataV4 H big_other (Some td') = EncodeTypedDataV4 H big_other (Some td).
Proof. exact unreferenced_types_irrelevant. Qed.
Print Assumptions C04_unreferenced_types_irrelevant.

(* 4. Extra fields: domain and message values that agree (recursively) on the members of their
      struct types and carry any other keys — same digest. *)
Theorem C04_extra_fields_irrelevant :
  forall (H : bytes -> bytes) (big_other : bytes -> option Z) (td td' : typed_data) (d : doc),
    represents big_other td d -> wf_doc d -> types_dims_fit (d_types d) ->
    td_types td' = td_types td -> td_primary td' = td_primary td ->
    same_members (d_types d) (Struct domain_name) (domain_of td) (domain_of td') ->
    same_members (d_types d) (Struct (d_primary d)) (message_of td) (message_of td') ->
    EncodeTypedDataV4 H big_other (Some td') = Ok (digest H d) /\
    EncodeTypedDataV4 H big_other (Some td') = EncodeTypedDataV4 H big_other (Some td).
Proof. exact extra_fields_irrelevant. Qed.
Print Assumptions C04_extra_fields_irrelevant.

(* 5. Signature clause (shape): whenever SignTypedDataV4 succeeds, the hash it reports is the document's
   EIP-712 digest, the signer was asked to sign exactly that digest (no second hash), R and S are the
   32-byte big-endian numbers, and signatureRSV is the 65 bytes R || S || byte(V); with a signer that
   answers V in {27,28} the last byte is 27 or 28.  That the signature verifies for the digest against
   the signer's address is a fact about the signer (C05) and is checked on every run against btcec. *)
Theorem C04_signature :
  forall (H : bytes -> bytes) (big_other : bytes -> option Z) (sign_direct : bytes -> option (Z * Z * Z))
         (payload : option typed_data) (res : EIP712Result),
    SignTypedDataV4 H big_other sign_direct payload = Ok res ->
    (exists digest R S V,
        EncodeTypedDataV4 H big_other payload = Ok digest /\
        sign_direct digest = Some (R, S, V) /\
        r_hash res = digest /\
        r_R res = be_fixedZ 32 (Z.abs R) /\ r_S res = be_fixedZ 32 (Z.abs S) /\ r_V res = V /\
        r_signatureRSV res = r_R res ++ r_S res ++ [n2b (Z.to_N (V mod 256))] /\
        length (r_signatureRSV res) = 65%nat) /\
    ((forall m R S V, sign_direct m = Some (R, S, V) -> V = 27%Z \/ V = 28%Z) ->
     nth 64 (r_signatureRSV res) x00 = n2b (Z.to_N (r_V res)) /\ (r_V res = 27%Z \/ r_V res = 28%Z)).
Proof. intros. split; [eapply ProofsSign.sign_shape; eassumption | intros; eapply ProofsSign.sign_v; eassumption]. Qed.
Print Assumptions C04_signature.

(* 5'. Signature clause, "verifies for that digest against the signer's address": when the signer is
       pkg/secp256k1's KeyPair.SignDirect for key d (Secp/Model.v, C05's model) over any group satisfying
       the ECDSA laws of Crypto/Ecdsa.v, the 65 bytes decode to a signature from which RecoverDirect, for
       the reported hash (= the document's digest), returns the address of d's public key.  The V in
       {27,28} hypothesis excludes btcec's 2^-128 overflow recovery codes (see C05). *)
Theorem C04_signature_verifies :
  forall (o : group_ops), laws o -> (n o < Secp.Model.two256)%Z ->
  forall (Hk : bytes -> bytes), (forall x, length (Hk x) = 32%nat) ->
  forall (nonce : Z -> bytes -> nat -> Z) (fuel : nat) (d : Z), (1 <= d < n o)%Z ->
  forall (H : bytes -> bytes) (big_other : bytes -> option Z) (payload : option typed_data) (res : EIP712Result) (c : Z),
    (0 <= c <= 2 ^ 53)%Z ->
    SignTypedDataV4 H big_other (key_signer o nonce fuel d) payload = Ok res ->
    (r_V res = 27 \/ r_V res = 28)%Z ->
    exists sg,
      EncodeTypedDataV4 H big_other payload = Ok (r_hash res) /\
      Secp.Model.DecodeCompactRSV (r_signatureRSV res) = Ok sg /\
      Secp.Model.sV sg = r_V res /\
      Secp.Model.RecoverDirect o Hk sg (r_hash res) c = Ok (Secp.Proofs.addr_of o Hk (pub o d)).
Proof. intros. eapply sign_verifies; eassumption. Qed.
Print Assumptions C04_signature_verifies.

(* 6. ABI-derived type set.  [describes re sts tc (Struct primary)] (Eip712/ProofsAbi.v): the component
      tree tc is the Solidity ABI form of the struct — every tuple carries an internalType from which
      the regular expression [re] extracts the struct's name and has one child per member, named like
      it; elementary components spell the atomic types; arrays match.  Then ABItoTypedDataV4 succeeds
      with that primary type, and hashStruct of any value of the struct under the derived type set
      equals hashStruct under any hand-written type set [hand] for the same structs (both are the
      spec's hashStruct).  [sts] is required to hold only what the struct reaches. *)
Theorem C04_abi_typeset_equiv :
  forall (H : bytes -> bytes) (big_other : bytes -> option Z) (re : bytes -> option bytes)
         (sts : types) (tc : atc) (primary : bytes) (hand : typeset) (g : gval) (v : value),
    wf_types sts -> types_dims_fit sts ->
    describes re sts tc (Struct primary) ->
    (forall n, In n (keys sts) -> reachable sts primary n) ->
    repr_types hand sts ->
    repr big_other sts (Struct primary) g v -> well_typed sts (Struct primary) v = true ->
    exists ts, ABItoTypedDataV4 re tc = Ok (primary, ts) /\
      HashStruct H big_other primary g ts = Ok (Spec.hashStruct H sts primary v) /\
      HashStruct H big_other primary g hand = Ok (Spec.hashStruct H sts primary v).
Proof. exact abi_typeset_equiv. Qed.
Print Assumptions C04_abi_typeset_equiv.

(* ---------- non-vacuity ---------- *)
(* A document with a self-recursive type through a dynamic array, a shared reference, a fixed array of
   structs holding an absent element, an absent (recursive) struct reference, a domain with two of the
   standard fields, an extra message field and an unreferenced (ill-formed) extra type: it parses, is
   well formed, and therefore — for every hash function — hashes to the EIP-712 digest. *)
Definition ex_member (n t : bytes) : option member := Some (mkMember n t).
Definition ex_td : typed_data :=
  mkTD (Some [ (bs "Mail", Some [ex_member (bs "from") (bs "Person"); ex_member (bs "to") (bs "Person[2]");
                                  ex_member (bs "contents") (bs "string"); ex_member (bs "reply") (bs "Mail");
                                  ex_member (bs "ids") (bs "uint16[][1]") ]);
               (bs "EIP712Domain", Some [ex_member (bs "name") (bs "string"); ex_member (bs "chainId") (bs "uint256")]);
               (bs "Person", Some [ex_member (bs "name") (bs "string"); ex_member (bs "wallet") (bs "address");
                                    ex_member (bs "friends") (bs "Person[]")]) ])
       (bs "Mail")
       (Some [(bs "chainId", GNumber (bs "1")); (bs "name", GString (bs "Ether Mail"))])
       (Some [(bs "contents", GString (bs "Hello, Bob!"));
              (bs "ids", GSlice [GSlice [GNumber (bs "65535"); GString (bs "0x10")]]);
              (bs "to", GSlice [GNil; GMap [(bs "name", GString (bs "Bob")); (bs "friends", GSlice []);
                                            (bs "wallet", GString (bs "0xbBbBBBBbbBBBbbbBbbBbbbbBBbBbbbbBbBbbBBbB"))]]);
              (bs "not a member", GNumber (bs "7"));
              (bs "from", GMap [(bs "wallet", GString (bs "0xCD2a3d9F938E13CD947Ec05AbC7FE734Df8DD826"));
                                (bs "friends", GSlice [GMap [(bs "name", GString (bs "Eve")); (bs "friends", GSlice []);
                                                             (bs "wallet", GString (bs "0x01"))]]);
                                (bs "name", GString (bs "Cow"))])]).

Example C04_nonvacuous :
  forall (H : bytes -> bytes) (big_other : bytes -> option Z),
  exists d, parse_doc big_other ex_td = Some d /\ well_formed_b d = true /\
            EncodeTypedDataV4 H big_other (Some ex_td) = Ok (digest H d).
Proof.
  intros H big_other.
  assert (Hp : exists d, parse_doc big_other ex_td = Some d /\ well_formed_b d = true).
  { eexists. split; [vm_compute; reflexivity | vm_compute; reflexivity]. }
  destruct Hp as (d & Hp & Hw). exists d. repeat split; auto. apply C04_digest_is_spec_parse; assumption.
Qed.

(* the invariance theorems apply to it: the same document with an unreferenced garbage type added, one
   more message key, and the type set reversed *)
Example C04_nonvacuous_invariance :
  forall (H : bytes -> bytes) (big_other : bytes -> option Z) (d : doc),
    parse_doc big_other ex_td = Some d -> well_formed_b d = true ->
    let td1 := mkTD (Some (types_of ex_td ++ [(bs "Unused", Some [None; ex_member (bs "x") (bs "Nowhere[")])]))
                    (td_primary ex_td) (td_domain ex_td) (td_message ex_td) in
    let td2 := mkTD (td_types ex_td) (td_primary ex_td) (td_domain ex_td)
                    (option_map (fun m => (bs "another", GSlice [GNil]) :: m) (td_message ex_td)) in
    let td3 := mkTD (option_map (@rev _) (td_types ex_td)) (td_primary ex_td) (td_domain ex_td) (td_message ex_td) in
    EncodeTypedDataV4 H big_other (Some td1) = Ok (digest H d) /\
    EncodeTypedDataV4 H big_other (Some td2) = Ok (digest H d) /\
    EncodeTypedDataV4 H big_other (Some td3) = Ok (digest H d).
Proof.
  intros H big_other d Hp Hw td1 td2 td3.
  assert (Hd : d_types d = d_types d) by reflexivity.
  pose proof (parse_doc_represents _ _ _ Hp) as Hr.
  unfold well_formed_b in Hw. apply andb_prop in Hw as [Hw Hdm].
  specialize (Hr Hw). apply wf_doc_b_ok in Hw. apply types_dims_fit_b_ok in Hdm.
  (* what the parsed document's types are *)
  assert (Hkeys : keys (d_types d) = [bs "Mail"; bs "EIP712Domain"; bs "Person"] /\ d_primary d = bs "Mail").
  { revert Hp. vm_compute. intros Hq; injection Hq as <-. split; reflexivity. }
  destruct Hkeys as [Hkeys Hprim].
  split; [|split].
  - apply (C04_unreferenced_types_irrelevant H big_other ex_td d _ Hr Hw Hdm).
    intros n [<-|[]]. rewrite Hkeys. split.
    + intros [E|[E|[E|[]]]]; discriminate E.
    + intros a _ E. destruct a; unfold atomic_name in E; cbn in E; discriminate E.
  - apply (C04_extra_fields_irrelevant H big_other ex_td td2 d Hr Hw Hdm eq_refl eq_refl).
    + apply SM_same.
    + rewrite Hprim. destruct Hw as (_ & _ & Hpn & _). rewrite Hprim in Hpn. apply ProofsUtil.assoc_keys in Hpn as (def & Hdef).
      unfold message_of, td2, ex_td. cbn [td_message option_map]. eapply same_members_add_key; [exact Hdef|].
      revert Hdef. revert Hp. vm_compute. intros Hq; injection Hq as <-. intros Hq; injection Hq as <-.
      intros [E|[E|[E|[E|[E|[]]]]]]; discriminate E.
  - apply (C04_order_independent H big_other ex_td td3 d Hr Hw Hdm).
    + repeat constructor; simpl; intuition discriminate.
    + apply Permutation_rev.
    + reflexivity.
    + apply GP_refl.
    + apply GP_refl.
Qed.

(* the ABI clause on struct Mail { Person from; Person[] to; string contents; } of contract Ex *)
Definition ex_re (s : bytes) : option bytes :=
  if bytes_eqb s (bs "struct Ex.Mail") then Some (bs "Mail")
  else if bytes_eqb s (bs "struct Ex.Person") || bytes_eqb s (bs "struct Ex.Person[]") then Some (bs "Person")
  else None.
Definition ex_person_tc (it : bytes) : atc :=
  TCTuple it [(bs "name", TCElem EString []); (bs "wallet", TCElem EAddress [])].
Definition ex_tc : atc :=
  TCTuple (bs "struct Ex.Mail")
    [(bs "from", ex_person_tc (bs "struct Ex.Person")); (bs "to", TCDynArr (ex_person_tc (bs "struct Ex.Person[]")));
     (bs "contents", TCElem EString [])].
Definition ex_hand : typeset :=
  [(bs "Person", Some [ex_member (bs "name") (bs "string"); ex_member (bs "wallet") (bs "address")]);
   (bs "Mail", Some [ex_member (bs "from") (bs "Person"); ex_member (bs "to") (bs "Person[]");
                      ex_member (bs "contents") (bs "string")])].
Definition ex_msg : gval :=
  GMap [(bs "from", GMap [(bs "name", GString (bs "Cow")); (bs "wallet", GString (bs "0xCD2a3d9F938E13CD947Ec05AbC7FE734Df8DD826"))]);
        (bs "to", GSlice [GNil; GMap [(bs "name", GString (bs "Bob")); (bs "wallet", GString (bs "0x0b"))]]);
        (bs "contents", GString (bs "Hello"))].

Definition ex_sts : types :=
  [(bs "Person", [ {| sm_name := bs "name"; sm_ty := Atomic AString |}; {| sm_name := bs "wallet"; sm_ty := Atomic AAddress |} ]);
   (bs "Mail", [ {| sm_name := bs "from"; sm_ty := Struct (bs "Person") |};
                 {| sm_name := bs "to"; sm_ty := Arr (Struct (bs "Person")) None |};
                 {| sm_name := bs "contents"; sm_ty := Atomic AString |} ])].

Example C04_nonvacuous_abi :
  forall (H : bytes -> bytes) (big_other : bytes -> option Z),
  exists v ts, parse_types ex_hand = Some ex_sts /\
    ABItoTypedDataV4 ex_re ex_tc = Ok (bs "Mail", ts) /\
    HashStruct H big_other (bs "Mail") ex_msg ts = Ok (Spec.hashStruct H ex_sts (bs "Mail") v) /\
    HashStruct H big_other (bs "Mail") ex_msg ex_hand = Ok (Spec.hashStruct H ex_sts (bs "Mail") v).
Proof.
  intros H big_other.
  assert (Es : parse_types ex_hand = Some ex_sts) by (vm_compute; reflexivity).
  assert (Hwb : wf_types_b ex_sts = true) by (vm_compute; reflexivity).
  assert (Hdb : types_dims_fit_b ex_sts = true) by (vm_compute; reflexivity).
  pose proof (wf_types_b_ok _ Hwb) as Hwf. apply types_dims_fit_b_ok in Hdb.
  assert (Hv : exists v, parse_val big_other ex_sts 10 (Struct (bs "Mail")) ex_msg = Some v /\
                         well_typed ex_sts (Struct (bs "Mail")) v = true).
  { eexists. split; [vm_compute; reflexivity | vm_compute; reflexivity]. }
  destruct Hv as (v & Ev & Ht).
  assert (Hd : describes ex_re ex_sts ex_tc (Struct (bs "Mail"))).
  { vm_compute. split; [reflexivity|]. eexists. split; [reflexivity|].
    repeat split; try reflexivity; eexists; (split; [reflexivity|]); repeat split; reflexivity. }
  assert (Hreach : forall n, In n (keys ex_sts) -> reachable ex_sts (bs "Mail") n).
  { intros n [<-|[<-|[]]].
    - eapply reach_step with (b := bs "Mail"); [apply reach_refl | vm_compute; reflexivity | vm_compute; auto].
    - apply reach_refl. }
  destruct (C04_abi_typeset_equiv H big_other ex_re ex_sts ex_tc (bs "Mail") ex_hand ex_msg v Hwf Hdb Hd Hreach
              (parse_types_repr _ _ Es Hwf) (parse_val_ok _ _ _ _ _ _ Ev) Ht) as (ts & E1 & E2 & E3).
  exists v, ts. auto.
Qed.

(* the signature clause: its hypotheses are met by the toy group of Crypto/Ecdsa.v (which satisfies
   the laws) signing the example document under a constant "hash" *)
Example C04_nonvacuous_signature :
  let H0 := fun _ : bytes => repeat x07 32 in
  exists res,
    SignTypedDataV4 H0 (fun _ => None) (key_signer Toy.ops (fun _ _ _ => 3%Z) 4 2%Z) (Some ex_td) = Ok res /\
    (r_V res = 27 \/ r_V res = 28)%Z /\ length (r_signatureRSV res) = 65%nat.
Proof. cbv zeta. eexists. split; [vm_compute; reflexivity|]. split; [vm_compute; auto | vm_compute; reflexivity]. Qed.

(* 7. A second call on the same object.  EncodeTypedDataV4 fills its defaults in place (an empty type
      set / EIP712Domain type / domain map); [payload_after p] is what the caller's object holds after
      the call.  Calling again on it gives the same result (digest, error or panic), for every document,
      well formed or not: nothing the first call leaves behind changes the outcome.  (The harness makes
      the second call on the implementation for every bulk document.) *)
Theorem C04_second_call_same :
  forall (H : bytes -> bytes) (big_other : bytes -> option Z) (p : typed_data),
    EncodeTypedDataV4 H big_other (Some (payload_after p)) = EncodeTypedDataV4 H big_other (Some p)
    /\ payload_after (payload_after p) = payload_after p.
Proof. exact second_call. Qed.
Print Assumptions C04_second_call_same.

(* the first call does change the object: a document without types / domain comes back with both *)
Example C04_nonvacuous_second_call :
  let p := mkTD None (bs "EIP712Domain") None None in
  payload_after p = mkTD (Some [(bs "EIP712Domain", Some [])]) (bs "EIP712Domain") (Some []) None
  /\ payload_after p <> p.
Proof. split; [vm_compute; reflexivity | discriminate]. Qed.

(* ======================================================================================================
   Wave 5: C04 composed with C14 (value coercions) and C05 (the signer).  Proofs in
   Eip712/ComposeJson.v, ComposeSign.v, ComposeAll.v; examples in ComposeExamples.v.
   ====================================================================================================== *)
From FFS Require Import Eip712.NumericProofs Eip712.SpellingProofs Eip712.ExactSpellingProofs Eip712.SpellingDocProofs.
From FFS Require Import Eip712.ComposeJson Eip712.ComposeSign Eip712.ComposeAll.
From FFS Require Base.Lit Base.Keccak Eip712.ComposeExamples.

(* 8. The digest theorem for documents given as JSON TEXT-LEVEL values.  [represents_json td d]
      (Eip712/ComposeJson.v) is [represents] with the atomic values read from their text instead of
      through the coercion functions of Numeric.v / Coerce.v:
        int<M>/uint<M>   a JSON number or string that is a [spelling] of z (C14's relation: canonical
                         decimal / 0x-hex, or ANY text of the decimal / hex / scientific grammars that
                         denotes z exactly with an exponent math/big expands: 1e18, 100.0, "+0x1F")
                         stands for VInt z;
        address, bytes, bytes<M>   a string of hex digit pairs, optionally after "0x" ([hex_denotes],
                         defined from the digit values) stands for those bytes;
        bool, string     as in [represents].
      The math/big oracle does not occur in [represents_json]: the digest of the document is the
      specification digest of the typed values its texts DENOTE, whatever the oracle answers. *)
Theorem C04_digest_is_spec_from_json :
  forall (H : bytes -> bytes) (big_other : bytes -> option Z) (td : typed_data) (d : doc),
    represents_json td d -> wf_doc d -> types_dims_fit (d_types d) ->
    EncodeTypedDataV4 H big_other (Some td) = Ok (digest H d).
Proof. exact digest_is_spec_from_json. Qed.
Print Assumptions C04_digest_is_spec_from_json.

(* 8a. What the text-level reading adds to [represents]: every document read from its texts is a
       document read through the coercions (C14's spelling_read for integers, 8b for hex). *)
Theorem C04_json_reading_is_coercion :
  forall (big_other : bytes -> option Z) (td : typed_data) (d : doc),
    represents_json td d -> represents big_other td d.
Proof. exact represents_json_represents. Qed.
Print Assumptions C04_json_reading_is_coercion.

(* 8b. hex -> bytes is exact: getBytesFromInterface (Coerce.get_bytes) accepts a string exactly when it
       is hex digit pairs (either case), optionally after a lower-case "0x", and returns the bytes
       those digits denote — nothing else is accepted, no other bytes are returned. *)
Theorem C04_hex_text_exact :
  forall (s b : bytes), get_bytes (GString s) = Ok b <-> hex_denotes s b.
Proof. exact get_bytes_exact. Qed.
Print Assumptions C04_hex_text_exact.

(* 8c. Rejection.  [doc_reaches td f tn v]: following the document from a member of the domain, or of
       the message when the primary type is not EIP712Domain, through struct members and array
       elements as encodeElement does, one arrives at the value v to be encoded at type name tn.  If
       that type is an integer type and v is a numeric text (as a JSON number or inside a string) of
       the decimal / hex / scientific grammars that denotes NO integer in range of the type — a
       fraction, m*10^e that is not integral, a value outside int<M>/uint<M> — then the document is
       refused with an error, whatever the rest of the document is.  (C14_inexact_rejected lifted
       from one element to the whole document.) *)
Theorem C04_digest_is_spec_from_json_rejects :
  forall (H : bytes -> bytes) (big_other : bytes -> option Z) (td : typed_data)
         (f : nat) (tn : bytes) (tc : etc) (t : bytes) (v : gval),
    doc_reaches td f tn v -> (v = GNumber t \/ v = GString t) ->
    integer_member_type (effective_types (td_types td)) tn tc ->
    classify t <> COther /\
    (forall z, text_denotes t z -> in_range (is_signed (e_base tc)) (e_m tc) z = false) ->
    exists e, EncodeTypedDataV4 H big_other (Some td) = Err e.
Proof. exact rejects_inexact_from_json. Qed.
Print Assumptions C04_digest_is_spec_from_json_rejects.

(* 8d. The same for hex text: a position of type address / bytes / bytes<M> ([hex_member_type]) holding
       anything but a string of hex digit pairs, optionally after "0x", makes the document an error. *)
Theorem C04_bad_hex_rejected_from_json :
  forall (H : bytes -> bytes) (big_other : bytes -> option Z) (td : typed_data)
         (f : nat) (tn : bytes) (tc : etc) (v : gval),
    doc_reaches td f tn v ->
    (ends_with x5d tn = false /\ tlookup tn (effective_types (td_types td)) = None /\
     abi_elementary_type tn = Ok tc /\ (e_base tc = EAddress \/ e_base tc = EBytes)) ->
    (forall s b, v = GString s -> ~ hex_denotes s b) ->
    exists e, EncodeTypedDataV4 H big_other (Some td) = Err e.
Proof. exact rejects_bad_hex_from_json. Qed.
Print Assumptions C04_bad_hex_rejected_from_json.

(* 9. SignTypedDataV4 end to end (C04 + C05).  For every well-formed document, every key 1 <= d < n and
      every group satisfying Ecdsa.laws whose order fits 32 bytes, with the signer being C05's model of
      KeyPair.SignDirect for d: the call SUCCEEDS and returns R || S || V — 32 + 32 + 1 bytes, V in
      {27,28}, R and S in [1, n-1], S in the lower half — over the EIP-712 specification digest of the
      document; the pair verifies under d's public key, the 65 bytes decode to the signature, and
      RecoverDirect from (digest, R, S, V) returns the address of d for every chain id in [0, 2^53].
      Guards, made explicit:
        [no_overflow]   C05's residual guard: no nonce point of the stream has an x coordinate >= n
                        (for secp256k1 a fraction 2^-128 of the points; btcec then emits recovery code
                        2/3, i.e. V = 29/30) — see 9a for what holds without it;
        [nonce_found]   model only: one of the first [fuel] nonces of the stream yields a signature
                        (ecdsa_sign fails only for k = 0 mod n, r = 0 or s = 0; btcec's loop is
                        unbounded, the model's has [fuel] iterations). *)
Theorem C04_sign_typed_data_end_to_end :
  forall (o : group_ops), laws o -> (n o < Secp.Model.two256)%Z ->
  forall (Hk : bytes -> bytes), (forall x, length (Hk x) = 32%nat) ->
  forall (nonce : Z -> bytes -> nat -> Z) (fuel : nat) (d : Z), (1 <= d < n o)%Z ->
  forall (H : bytes -> bytes) (big_other : bytes -> option Z) (td : typed_data) (doc : doc),
    represents big_other td doc -> wf_doc doc -> types_dims_fit (d_types doc) ->
    let m := digest H doc in
    nonce_found o nonce fuel d m ->
    Secp.Proofs.no_overflow o nonce d m ->
    exists res sg,
      SignTypedDataV4 H big_other (key_signer o nonce fuel d) (Some td) = Ok res /\
      r_hash res = m /\
      r_signatureRSV res = r_R res ++ r_S res ++ [n2b (Z.to_N (r_V res))] /\
      length (r_R res) = 32%nat /\ length (r_S res) = 32%nat /\ length (r_signatureRSV res) = 65%nat /\
      (r_V res = 27 \/ r_V res = 28)%Z /\
      Secp.Model.DecodeCompactRSV (r_signatureRSV res) = Ok sg /\
      Secp.Model.sV sg = r_V res /\
      r_R res = Secp.Model.be_fixed 32 (Secp.Model.sR sg) /\ r_S res = Secp.Model.be_fixed 32 (Secp.Model.sS sg) /\
      (1 <= Secp.Model.sR sg < n o)%Z /\ (1 <= Secp.Model.sS sg < n o)%Z /\ (2 * Secp.Model.sS sg <= n o)%Z /\
      ecdsa_verify o (pub o d) (Secp.Model.hash_to_z m) (Secp.Model.sR sg) (Secp.Model.sS sg) = true /\
      forall c, (0 <= c <= 2 ^ 53)%Z ->
        Secp.Model.RecoverDirect o Hk sg m c = Ok (Secp.Proofs.addr_of o Hk (pub o d)).
Proof. exact sign_typed_data_end_to_end. Qed.
Print Assumptions C04_sign_typed_data_end_to_end.

(* 9a. Without C05's guard: the call still succeeds with 65 bytes over the specification digest, low S,
       a pair that verifies under d's key — but V may be 29/30 (the overflow case); V is 27/28 whenever
       [no_overflow] holds, and recovery returns d's address exactly in the 27/28 case. *)
Theorem C04_sign_typed_data_any_V :
  forall (o : group_ops), laws o -> (n o < Secp.Model.two256)%Z ->
  forall (Hk : bytes -> bytes), (forall x, length (Hk x) = 32%nat) ->
  forall (nonce : Z -> bytes -> nat -> Z) (fuel : nat) (d : Z), (1 <= d < n o)%Z ->
  forall (H : bytes -> bytes) (big_other : bytes -> option Z) (td : typed_data) (doc : doc),
    represents big_other td doc -> wf_doc doc -> types_dims_fit (d_types doc) ->
    let m := digest H doc in
    nonce_found o nonce fuel d m ->
    exists res sg,
      SignTypedDataV4 H big_other (key_signer o nonce fuel d) (Some td) = Ok res /\
      r_hash res = m /\ length (r_signatureRSV res) = 65%nat /\
      Secp.Model.DecodeCompactRSV (r_signatureRSV res) = Ok sg /\ Secp.Model.sV sg = r_V res /\
      (r_V res = 27 \/ r_V res = 28 \/ r_V res = 29 \/ r_V res = 30)%Z /\
      (2 * Secp.Model.sS sg <= n o)%Z /\
      ecdsa_verify o (pub o d) (Secp.Model.hash_to_z m) (Secp.Model.sR sg) (Secp.Model.sS sg) = true /\
      (Secp.Proofs.no_overflow o nonce d m -> (r_V res = 27 \/ r_V res = 28)%Z) /\
      ((r_V res = 27 \/ r_V res = 28)%Z -> forall c, (0 <= c <= 2 ^ 53)%Z ->
         Secp.Model.RecoverDirect o Hk sg m c = Ok (Secp.Proofs.addr_of o Hk (pub o d))).
Proof. exact sign_typed_data_any_V. Qed.
Print Assumptions C04_sign_typed_data_any_V.

(* 9b. 8 and 9 together: the document given as JSON text-level values. *)
Theorem C04_sign_typed_data_end_to_end_from_json :
  forall (o : group_ops), laws o -> (n o < Secp.Model.two256)%Z ->
  forall (Hk : bytes -> bytes), (forall x, length (Hk x) = 32%nat) ->
  forall (nonce : Z -> bytes -> nat -> Z) (fuel : nat) (d : Z), (1 <= d < n o)%Z ->
  forall (H : bytes -> bytes) (big_other : bytes -> option Z) (td : typed_data) (doc : doc),
    represents_json td doc -> wf_doc doc -> types_dims_fit (d_types doc) ->
    let m := digest H doc in
    nonce_found o nonce fuel d m ->
    Secp.Proofs.no_overflow o nonce d m ->
    exists res sg,
      SignTypedDataV4 H big_other (key_signer o nonce fuel d) (Some td) = Ok res /\
      r_hash res = m /\
      r_signatureRSV res = r_R res ++ r_S res ++ [n2b (Z.to_N (r_V res))] /\
      length (r_R res) = 32%nat /\ length (r_S res) = 32%nat /\ length (r_signatureRSV res) = 65%nat /\
      (r_V res = 27 \/ r_V res = 28)%Z /\
      Secp.Model.DecodeCompactRSV (r_signatureRSV res) = Ok sg /\
      Secp.Model.sV sg = r_V res /\
      r_R res = Secp.Model.be_fixed 32 (Secp.Model.sR sg) /\ r_S res = Secp.Model.be_fixed 32 (Secp.Model.sS sg) /\
      (1 <= Secp.Model.sR sg < n o)%Z /\ (1 <= Secp.Model.sS sg < n o)%Z /\ (2 * Secp.Model.sS sg <= n o)%Z /\
      ecdsa_verify o (pub o d) (Secp.Model.hash_to_z m) (Secp.Model.sR sg) (Secp.Model.sS sg) = true /\
      forall c, (0 <= c <= 2 ^ 53)%Z ->
        Secp.Model.RecoverDirect o Hk sg m c = Ok (Secp.Proofs.addr_of o Hk (pub o d)).
Proof. exact sign_typed_data_end_to_end_from_json. Qed.
Print Assumptions C04_sign_typed_data_end_to_end_from_json.

(* ---------- non-vacuity of 8, 8c, 9 (Eip712/ComposeExamples.v) ---------- *)
(* The Mail example published in EIP-712 with its chain id given as the JSON number 1.0e0
   ([mail_td]); [mail_doc] is the specification document written out by hand (VInt 1, the addresses as
   integers, the strings as bytes).  The text-level relation holds, the document is well formed, the
   digest is the specification digest for every hash function, and with the executable Keccak-256 it
   is the digest published in the EIP. *)
Example C04_nonvacuous_from_json :
  represents_json ComposeExamples.mail_td ComposeExamples.mail_doc /\
  wf_doc ComposeExamples.mail_doc /\ types_dims_fit (d_types ComposeExamples.mail_doc) /\
  (forall H big_other, EncodeTypedDataV4 H big_other (Some ComposeExamples.mail_td) = Ok (digest H ComposeExamples.mail_doc)) /\
  (forall big_other, EncodeTypedDataV4 Keccak.keccak256 big_other (Some ComposeExamples.mail_td) =
                     Ok (Lit.unhex "be609aee343fb3c4b28e1df9e632fca64fcfaede20f02e86244efddf30957bd2")).
Proof. exact ComposeExamples.mail_from_json. Qed.

(* the same document with the chain id spelled 1.5 (denotes no integer) or 1e78 (beyond uint256) is
   refused, for every hash function and oracle *)
Example C04_nonvacuous_rejected :
  forall H big_other,
  (exists e, EncodeTypedDataV4 H big_other (Some (ComposeExamples.mail_td_with (GNumber (bs "1.5")))) = Err e) /\
  (exists e, EncodeTypedDataV4 H big_other (Some (ComposeExamples.mail_td_with (GNumber (bs "1e78")))) = Err e).
Proof. exact ComposeExamples.mail_inexact_rejected. Qed.

(* the hypotheses of 9 are met by the toy group of Crypto/Ecdsa.v (which satisfies the laws): key 5
   signs the Mail document under Keccak-256 and recovery returns its address *)
Example C04_nonvacuous_end_to_end :
  laws Toy.ops /\
  exists res sg,
    SignTypedDataV4 Keccak.keccak256 (fun _ => None) (key_signer Toy.ops ComposeExamples.toyNonce 1 5%Z)
                    (Some ComposeExamples.mail_td) = Ok res /\
    r_hash res = Lit.unhex "be609aee343fb3c4b28e1df9e632fca64fcfaede20f02e86244efddf30957bd2" /\
    length (r_signatureRSV res) = 65%nat /\ (r_V res = 27 \/ r_V res = 28)%Z /\
    Secp.Model.DecodeCompactRSV (r_signatureRSV res) = Ok sg /\
    (2 * Secp.Model.sS sg <= n Toy.ops)%Z /\
    Secp.Model.RecoverDirect Toy.ops ComposeExamples.toyH sg (r_hash res) 1 =
      Ok (Secp.Proofs.addr_of Toy.ops ComposeExamples.toyH (pub Toy.ops 5)).
Proof. exact ComposeExamples.mail_signed_end_to_end. Qed.

(* an order with no domain whose uint256[] holds 10^18 as 1e18, "0xde0b6b3a7640000", 1000000000000000000.0 and
   "+1E18" and whose bytes4 tag is "0xdeadBEEF": the text-level relation holds with the hand-written
   specification document (VArr of four VInt 10^18); with an element 1e-1 in the array (reached
   through [rc_elem]) or the tag "0xdeadbeeg" the document is refused *)
Example C04_nonvacuous_from_json_array :
  (represents_json ComposeExamples.order_td ComposeExamples.order_doc /\
   wf_doc ComposeExamples.order_doc /\ types_dims_fit (d_types ComposeExamples.order_doc) /\
   (forall H big_other, EncodeTypedDataV4 H big_other (Some ComposeExamples.order_td) = Ok (digest H ComposeExamples.order_doc))) /\
  (forall (H : bytes -> bytes) (big_other : bytes -> option Z),
   (exists e, EncodeTypedDataV4 H big_other
                (Some (ComposeExamples.order_td_with [GNumber (bs "1e18"); GNumber (bs "1e-1")] (GString (bs "0xdeadBEEF")))) = Err e) /\
   (exists e, EncodeTypedDataV4 H big_other
                (Some (ComposeExamples.order_td_with ComposeExamples.order_amounts (GString (bs "0xdeadbeeg")))) = Err e)).
Proof. split; [exact ComposeExamples.order_from_json|exact ComposeExamples.order_bad_rejected]. Qed.

(* ======================================================================================================
   Referee round (design/reviews/C04.md; answers in design/C04.md "Referee report and answers").
   Proofs in Eip712/RefereeComplete.v, RefereeAbi.v, RefereeSurface.v.
   ====================================================================================================== *)
From FFS Require Import Eip712.RefereeComplete Eip712.RefereeAbi Eip712.RefereeSurface.
From Coq Require Import Sorted.

(* 10. Completeness of the representation relation (referee I1).  Theorems 1 and 8 speak about the
       Go-level documents that represent a well-formed specification document; conversely EVERY
       well-formed specification document is represented by a Go-level document, namely its canonical
       rendering [render_doc d] (RefereeComplete.v: type strings by ty_name; integers as JSON numbers in
       canonical decimal, address / bytes<M> / bytes as "0x" + hex digit pairs, bool as a JSON boolean,
       string as a string, a struct as the object of its members, the absent struct as null, arrays as
       arrays) — so no class of well-formed documents (negative integers, empty bytes, empty arrays,
       absent references, ...) is silently outside theorem 1.  Two guards, both necessary (10b, 10c):
       the members of a struct have distinct names, and the domain value is not the absent struct. *)
Theorem C04_every_wf_document_has_a_rendering :
  forall d : doc,
    wf_doc d -> members_distinct (d_types d) -> d_domain d <> VNone ->
    represents_json (render_doc d) d.
Proof. exact render_doc_represents. Qed.
Print Assumptions C04_every_wf_document_has_a_rendering.

(* 10a. ... and therefore hashed to its specification digest (1 + 10 in one statement). *)
Theorem C04_every_wf_document_is_hashed :
  forall (H : bytes -> bytes) (big_other : bytes -> option Z) (d : doc),
    wf_doc d -> types_dims_fit (d_types d) -> members_distinct (d_types d) -> d_domain d <> VNone ->
    represents_json (render_doc d) d /\
    EncodeTypedDataV4 H big_other (Some (render_doc d)) = Ok (digest H d).
Proof. exact every_wf_doc_is_hashed. Qed.
Print Assumptions C04_every_wf_document_is_hashed.

(* 10b. The guard "domain value present" is necessary: [wf_doc] accepts the absent struct at the
        top-level domain position (its "domain separator" would be 32 zero bytes), and no Go-level
        document stands for such a specification document (EncodeTypedDataV4 replaces a nil domain by the
        empty object).  These specification documents are outside theorems 1-9. *)
Theorem C04_absent_domain_not_representable :
  forall (big_other : bytes -> option Z) (td : typed_data) (d : doc),
    d_domain d = VNone -> ~ represents big_other td d.
Proof. exact absent_domain_not_representable. Qed.
Print Assumptions C04_absent_domain_not_representable.

(* 10c. The guard "distinct member names" is necessary: struct T { bool x; string x; } with the value
        (true, "a") is well formed for [wf_doc] and has no Go-level representative. *)
Theorem C04_duplicate_members_not_representable :
  wf_doc dup_doc /\ types_dims_fit (d_types dup_doc) /\ d_domain dup_doc <> VNone /\
  ~ members_distinct (d_types dup_doc) /\
  forall (big_other : bytes -> option Z) (td : typed_data), ~ represents big_other td dup_doc.
Proof. exact duplicate_members_not_representable. Qed.
Print Assumptions C04_duplicate_members_not_representable.

(* non-vacuity of 10: the specification document of the EIP's Mail example, written out by hand
   (ComposeExamples.mail_doc), meets the guards; its rendering parses back to it and — under the
   executable Keccak-256 — hashes to the digest published in the EIP *)
Example C04_nonvacuous_rendering :
  members_distinct (d_types ComposeExamples.mail_doc) /\ d_domain ComposeExamples.mail_doc <> VNone /\
  (forall big_other, parse_doc big_other (render_doc ComposeExamples.mail_doc) = Some ComposeExamples.mail_doc) /\
  (forall big_other, EncodeTypedDataV4 Keccak.keccak256 big_other (Some (render_doc ComposeExamples.mail_doc)) =
                     Ok (Lit.unhex "be609aee343fb3c4b28e1df9e632fca64fcfaede20f02e86244efddf30957bd2")).
Proof.
  destruct C04_nonvacuous_from_json as (_ & Hwf & Hdims & Hall & Hk).
  assert (Hdist : members_distinct (d_types ComposeExamples.mail_doc)).
  { unfold members_distinct. repeat constructor; simpl; intuition discriminate. }
  assert (Hnn : d_domain ComposeExamples.mail_doc <> VNone) by discriminate.
  split; [exact Hdist|]. split; [exact Hnn|]. split.
  - intros big_other. vm_compute. reflexivity.
  - intros big_other.
    destruct (C04_every_wf_document_is_hashed Keccak.keccak256 big_other _ Hwf Hdims Hdist Hnn) as [_ E].
    rewrite E. rewrite <- (Hk big_other). symmetry. apply Hall.
Qed.

(* 11. The ABI clause at the level of the whole document (referee I2a).  With the hypotheses of 6 and
       no struct of the ABI called EIP712Domain: the type set [ts] derived by ABItoTypedDataV4 carries no
       EIP712Domain entry (EncodeTypedDataV4 supplies the empty domain type), and the TypedData document
       built from it — any domain object, any message representing a well-typed value v of the primary
       struct — has the EIP-712 digest of the specification document whose types are the ABI's structs
       plus the empty domain struct ([with_empty_domain sts]); so has the document built from any
       hand-written type set [hand] for the same structs. *)
Theorem C04_abi_document_digest :
  forall (H : bytes -> bytes) (big_other : bytes -> option Z) (re : bytes -> option bytes)
         (sts : types) (tc : atc) (primary : bytes) (hand : typeset)
         (dom msg : option gmap) (v : value),
    wf_types sts -> types_dims_fit sts ->
    describes re sts tc (Struct primary) ->
    (forall n, In n (keys sts) -> reachable sts primary n) ->
    ~ In domain_name (keys sts) ->
    repr_types hand sts -> tlookup domain_name hand = None ->
    let d := {| d_types := with_empty_domain sts; d_primary := primary; d_domain := VStruct []; d_message := v |} in
    repr big_other (with_empty_domain sts) (Struct primary) (match msg with Some m => GMap m | None => GNil end) v ->
    well_typed (with_empty_domain sts) (Struct primary) v = true ->
    exists ts, ABItoTypedDataV4 re tc = Ok (primary, ts) /\ tlookup domain_name ts = None /\
      wf_doc d /\
      EncodeTypedDataV4 H big_other (Some (mkTD (Some ts) primary dom msg)) = Ok (digest H d) /\
      EncodeTypedDataV4 H big_other (Some (mkTD (Some hand) primary dom msg)) = Ok (digest H d).
Proof. exact abi_document_digest. Qed.
Print Assumptions C04_abi_document_digest.

(* non-vacuity of 11: the ABI example of 6 as a whole document, with a domain object holding a key *)
Example C04_nonvacuous_abi_document :
  forall (H : bytes -> bytes) (big_other : bytes -> option Z),
  exists v ts,
    ABItoTypedDataV4 ex_re ex_tc = Ok (bs "Mail", ts) /\
    let d := {| d_types := with_empty_domain ex_sts; d_primary := bs "Mail"; d_domain := VStruct []; d_message := v |} in
    let m := match ex_msg with GMap m => Some m | _ => None end in
    wf_doc d /\
    EncodeTypedDataV4 H big_other (Some (mkTD (Some ts) (bs "Mail") (Some [(bs "name", GString (bs "x"))]) m)) = Ok (digest H d) /\
    EncodeTypedDataV4 H big_other (Some (mkTD (Some ex_hand) (bs "Mail") None m)) = Ok (digest H d).
Proof.
  intros H big_other.
  assert (Es : parse_types ex_hand = Some ex_sts) by (vm_compute; reflexivity).
  assert (Hwb : wf_types_b ex_sts = true) by (vm_compute; reflexivity).
  assert (Hdb : types_dims_fit_b ex_sts = true) by (vm_compute; reflexivity).
  pose proof (wf_types_b_ok _ Hwb) as Hwf. apply types_dims_fit_b_ok in Hdb.
  assert (Hv : exists v, parse_val big_other (with_empty_domain ex_sts) 10 (Struct (bs "Mail")) ex_msg = Some v /\
                         well_typed (with_empty_domain ex_sts) (Struct (bs "Mail")) v = true).
  { eexists. split; [vm_compute; reflexivity | vm_compute; reflexivity]. }
  destruct Hv as (v & Ev & Ht).
  assert (Hd : describes ex_re ex_sts ex_tc (Struct (bs "Mail"))).
  { vm_compute. split; [reflexivity|]. eexists. split; [reflexivity|].
    repeat split; try reflexivity; eexists; (split; [reflexivity|]); repeat split; reflexivity. }
  assert (Hreach : forall n, In n (keys ex_sts) -> reachable ex_sts (bs "Mail") n).
  { intros n [<-|[<-|[]]].
    - eapply reach_step with (b := bs "Mail"); [apply reach_refl | vm_compute; reflexivity | vm_compute; auto].
    - apply reach_refl. }
  assert (Hnd : ~ In domain_name (keys ex_sts)) by (intros [E|[E|[]]]; discriminate E).
  destruct (C04_abi_document_digest H big_other ex_re ex_sts ex_tc (bs "Mail") ex_hand
              (Some [(bs "name", GString (bs "x"))]) (match ex_msg with GMap m => Some m | _ => None end) v
              Hwf Hdb Hd Hreach Hnd (parse_types_repr _ _ Es Hwf) eq_refl
              (parse_val_ok _ _ _ _ _ _ Ev) Ht) as (ts & E1 & _ & Hw & E2 & _).
  destruct (C04_abi_document_digest H big_other ex_re ex_sts ex_tc (bs "Mail") ex_hand
              None (match ex_msg with GMap m => Some m | _ => None end) v
              Hwf Hdb Hd Hreach Hnd (parse_types_repr _ _ Es Hwf) eq_refl
              (parse_val_ok _ _ _ _ _ _ Ev) Ht) as (ts' & E1' & _ & _ & _ & E3).
  exists v, ts. split; [exact E1|]. cbv zeta. split; [exact Hw|]. split; [exact E2|exact E3].
Qed.

(* 12. Facts needed to trust Spec.v, restated (referee I5): the executable dependency list of the
       specification ([Spec.deps]: saturation of the declared names, primary removed, insertion sort) is
       exactly the set of struct types reachable from the primary type other than itself — the inductive
       closure [reachable] — without duplicates and in ascending byte order ([bytes_leb] = Go's string
       order); and the sort shared by specification and model is a sort. *)
Theorem C04_spec_deps_are_reachable_sorted :
  forall (sts : types) (n : bytes),
    wf_types sts -> In n (keys sts) ->
    (forall x, In x (deps sts n) <-> (reachable sts n x /\ x <> n)) /\
    StronglySorted (fun a b => bytes_leb a b = true) (deps sts n) /\
    NoDup (deps sts n).
Proof. exact spec_deps_reachable_sorted. Qed.
Print Assumptions C04_spec_deps_are_reachable_sorted.

Theorem C04_spec_sort_is_a_sort :
  forall l : list bytes,
    StronglySorted (fun a b => bytes_leb a b = true) (Util.sort l) /\ Permutation (Util.sort l) l.
Proof. exact spec_sort_is_a_sort. Qed.
Print Assumptions C04_spec_sort_is_a_sort.

(* 12a. Result classes of the model (referee I5; TotalProofs*.v, also stated for C14): EncodeTypedDataV4
        never panics and never runs out of fuel, on any payload; SignTypedDataV4 never runs out of fuel,
        and never panics when the signer answers |R|, |S| < 2^256.  So "= Ok digest" in theorems 1-11 is
        never an artefact of fuel, and an Err result is a refusal of the implementation. *)
Theorem C04_model_result_classes :
  forall (H : bytes -> bytes) (big_other : bytes -> option Z)
         (sign_direct : bytes -> option (Z * Z * Z)) (payload : option typed_data),
    EncodeTypedDataV4 H big_other payload <> Panic /\
    EncodeTypedDataV4 H big_other payload <> Err EOutOfFuel /\
    SignTypedDataV4 H big_other sign_direct payload <> Err EOutOfFuel /\
    ((forall msg r s v, sign_direct msg = Some (r, s, v) -> (Z.abs r < 2 ^ 256 /\ Z.abs s < 2 ^ 256)%Z) ->
     SignTypedDataV4 H big_other sign_direct payload <> Panic).
Proof. exact model_result_classes. Qed.
Print Assumptions C04_model_result_classes.

(* 12a is not true by construction: the model CAN answer Panic (a signer returning R = 2^256: FillBytes
   on a 32-byte buffer) and Err (nil payload; a document without primary type) *)
Example C04_model_can_panic_and_refuse :
  let H0 := fun _ : bytes => repeat x07 32 in
  SignTypedDataV4 H0 (fun _ => None) (fun _ => Some (2 ^ 256, 1, 27)%Z) (Some ex_td) = Panic /\
  (exists e, EncodeTypedDataV4 H0 (fun _ => None) None = Err e) /\
  (exists e, EncodeTypedDataV4 H0 (fun _ => None) (Some (mkTD None [] None None)) = Err e).
Proof. cbv zeta. split; [vm_compute; reflexivity|]. split; eexists; vm_compute; reflexivity. Qed.

(* non-vacuity of the deep key permutation of 2 (constructor GP_map, referee I5): the message of the
   first example with its top-level keys in another order AND the keys of the nested object "from" in
   another order — a different Go-level value, the same digest *)
Definition ex_from_perm : gval :=
  GMap [(bs "name", GString (bs "Cow"));
        (bs "friends", GSlice [GMap [(bs "name", GString (bs "Eve")); (bs "friends", GSlice []);
                                     (bs "wallet", GString (bs "0x01"))]]);
        (bs "wallet", GString (bs "0xCD2a3d9F938E13CD947Ec05AbC7FE734Df8DD826"))].
Definition ex_msg_perm : gmap :=
  [(bs "from", ex_from_perm);
   (bs "not a member", GNumber (bs "7"));
   (bs "to", GSlice [GNil; GMap [(bs "name", GString (bs "Bob")); (bs "friends", GSlice []);
                                 (bs "wallet", GString (bs "0xbBbBBBBbbBBBbbbBbbBbbbbBBbBbbbbBbBbbBBbB"))]]);
   (bs "ids", GSlice [GSlice [GNumber (bs "65535"); GString (bs "0x10")]]);
   (bs "contents", GString (bs "Hello, Bob!"))].

Example C04_nonvacuous_nested_key_order :
  forall (H : bytes -> bytes) (big_other : bytes -> option Z) (d : doc),
    parse_doc big_other ex_td = Some d -> well_formed_b d = true ->
    let td4 := mkTD (td_types ex_td) (td_primary ex_td) (td_domain ex_td) (Some ex_msg_perm) in
    message_of td4 <> message_of ex_td /\
    EncodeTypedDataV4 H big_other (Some td4) = Ok (digest H d).
Proof.
  intros H big_other d Hp Hw td4.
  pose proof (parse_doc_represents _ _ _ Hp) as Hr.
  unfold well_formed_b in Hw. apply andb_prop in Hw as [Hw Hdm].
  specialize (Hr Hw). apply wf_doc_b_ok in Hw. apply types_dims_fit_b_ok in Hdm.
  split; [discriminate|].
  apply (C04_order_independent H big_other ex_td td4 d Hr Hw Hdm).
  - repeat constructor; simpl; intuition discriminate.
  - apply Permutation_refl.
  - reflexivity.
  - apply GP_refl.
  - unfold message_of, td4, ex_td, ex_msg_perm. cbn [td_message].
    eapply GP_map; [repeat constructor; simpl; intuition discriminate | apply Permutation_rev |].
    cbn [rev app].
    repeat (first [apply Forall2_nil | apply Forall2_cons]); cbn [fst snd]; (split; [reflexivity|]); try apply GP_refl.
    unfold ex_from_perm.
    eapply GP_map; [repeat constructor; simpl; intuition discriminate | apply Permutation_rev |].
    cbn [rev app].
    repeat (first [apply Forall2_nil | apply Forall2_cons]); cbn [fst snd]; (split; [reflexivity|]); apply GP_refl.
Qed.

(* 10d. The executable reader of theorem 1' is complete on renderings (referee I1, second half): for every
        well-formed specification document (guards of 10), [parse_doc] reads [render_doc d] back as d —
        types, primary type, domain value and message value; a domain-only document carries no message
        and is read with VNone in its place.  With ProofsParse.parse_doc_represents (soundness) the
        functional form 1' therefore covers each of these documents. *)
From FFS Require Import Eip712.RefereeParse.
Theorem C04_parse_doc_complete_on_renderings :
  forall (big_other : bytes -> option Z) (d : doc),
    wf_doc d -> members_distinct (d_types d) -> d_domain d <> VNone ->
    parse_doc big_other (render_doc d) =
    Some {| d_types := d_types d; d_primary := d_primary d; d_domain := d_domain d;
            d_message := if bytes_eqb (d_primary d) domain_name then VNone else d_message d |}.
Proof. exact parse_render_doc. Qed.
Print Assumptions C04_parse_doc_complete_on_renderings.

(* 13. Where [wf_doc] follows the implementation rather than the EIP text (referee I4), said as a
       statement: a document WITHOUT message whose primary type is not the domain type is accepted (the
       EIP's reference implementation refuses a null message); its specification value is the absent
       struct and the message part of the digest is 32 zero bytes. *)
Theorem C04_absent_message_convention :
  forall (H : bytes -> bytes) (big_other : bytes -> option Z) (td : typed_data) (d : doc),
    represents big_other td d -> wf_doc d -> types_dims_fit (d_types d) ->
    td_message td = None -> bytes_eqb (d_primary d) domain_name = false ->
    d_message d = VNone /\
    EncodeTypedDataV4 H big_other (Some td) =
      Ok (H ([x19; x01] ++ hashStruct H (d_types d) domain_name (d_domain d) ++ repeat x00 32)).
Proof. exact absent_message_digest. Qed.
Print Assumptions C04_absent_message_convention.

(* non-vacuity of 13: the first example without its message *)
Example C04_nonvacuous_absent_message :
  forall (H : bytes -> bytes) (big_other : bytes -> option Z),
  let td0 := mkTD (td_types ex_td) (td_primary ex_td) (td_domain ex_td) None in
  exists d, parse_doc big_other td0 = Some d /\ well_formed_b d = true /\ d_message d = VNone /\
    EncodeTypedDataV4 H big_other (Some td0) =
      Ok (H ([x19; x01] ++ hashStruct H (d_types d) domain_name (d_domain d) ++ repeat x00 32)).
Proof.
  intros H big_other td0.
  assert (Hp : exists d, parse_doc big_other td0 = Some d /\ well_formed_b d = true /\
                         bytes_eqb (d_primary d) domain_name = false).
  { eexists. split; [vm_compute; reflexivity|]. split; vm_compute; reflexivity. }
  destruct Hp as (d & Hp & Hw & Hprim). exists d. split; [exact Hp|]. split; [exact Hw|].
  pose proof (parse_doc_represents _ _ _ Hp) as Hr.
  unfold well_formed_b in Hw. apply andb_prop in Hw as [Hw Hdm].
  specialize (Hr Hw). apply wf_doc_b_ok in Hw. apply types_dims_fit_b_ok in Hdm.
  apply (C04_absent_message_convention H big_other td0 d Hr Hw Hdm eq_refl Hprim).
Qed.

(* ======================================================================================================
   Wave 6: the ABI clause without the guard "sts holds only what the primary struct reaches", and the
   necessity of the "no valid atomic name is declared" guard as a statement.  Proofs in Eip712/Wave6Abi.v.
   ====================================================================================================== *)
From FFS Require Import Eip712.Wave6Abi.

(* 6'. Theorem 6 for ANY well-formed hand-written type set [sts] that declares the structs the component
       tree describes — and whatever else, reachable from the primary struct or not.  (6 required every
       struct of sts to be reachable from the primary one, because the derived set holds only those.)
       The derived set [ts] holds nothing but renderings of structs of sts, holds every struct the
       primary one reaches, and hashStruct under ts = hashStruct under any Go type set [hand] that
       renders sts = the specification's hashStruct under the WHOLE of sts. *)
Theorem C04_abi_typeset_equiv_any :
  forall (H : bytes -> bytes) (big_other : bytes -> option Z) (re : bytes -> option bytes)
         (sts : types) (tc : atc) (primary : bytes) (hand : typeset) (g : gval) (v : value),
    wf_types sts -> types_dims_fit sts ->
    describes re sts tc (Struct primary) ->
    repr_types hand sts ->
    repr big_other sts (Struct primary) g v -> well_typed sts (Struct primary) v = true ->
    exists ts, ABItoTypedDataV4 re tc = Ok (primary, ts) /\
      (forall n t, tlookup n ts = Some t -> exists def, assoc n sts = Some def /\ t = render_def def) /\
      (forall n, reachable sts primary n -> In n (keys ts)) /\
      HashStruct H big_other primary g ts = Ok (Spec.hashStruct H sts primary v) /\
      HashStruct H big_other primary g hand = Ok (Spec.hashStruct H sts primary v).
Proof. exact abi_typeset_equiv_any. Qed.
Print Assumptions C04_abi_typeset_equiv_any.

(* 11'. Theorem 11 likewise: the whole-document digest, for any well-formed sts without a struct named
        EIP712Domain. *)
Theorem C04_abi_document_digest_any :
  forall (H : bytes -> bytes) (big_other : bytes -> option Z) (re : bytes -> option bytes)
         (sts : types) (tc : atc) (primary : bytes) (hand : typeset)
         (dom msg : option gmap) (v : value),
    wf_types sts -> types_dims_fit sts ->
    describes re sts tc (Struct primary) ->
    ~ In domain_name (keys sts) ->
    repr_types hand sts -> tlookup domain_name hand = None ->
    let d := {| d_types := with_empty_domain sts; d_primary := primary; d_domain := VStruct []; d_message := v |} in
    repr big_other (with_empty_domain sts) (Struct primary) (match msg with Some m => GMap m | None => GNil end) v ->
    well_typed (with_empty_domain sts) (Struct primary) v = true ->
    exists ts, ABItoTypedDataV4 re tc = Ok (primary, ts) /\ tlookup domain_name ts = None /\
      wf_doc d /\
      EncodeTypedDataV4 H big_other (Some (mkTD (Some ts) primary dom msg)) = Ok (digest H d) /\
      EncodeTypedDataV4 H big_other (Some (mkTD (Some hand) primary dom msg)) = Ok (digest H d).
Proof. exact abi_document_digest_any. Qed.
Print Assumptions C04_abi_document_digest_any.

(* non-vacuity of 6' and 11': the hand-written set of the ABI example with one more struct,
   Audit { Mail mail; uint64[2] at; }, which refers to Mail and which Mail does not reach — the guard of
   6 / 11 FAILS for it, the derived set does not hold it, and the hashes agree all the same *)
Definition ex_hand_plus : typeset :=
  ex_hand ++ [(bs "Audit", Some [ex_member (bs "mail") (bs "Mail"); ex_member (bs "at") (bs "uint64[2]")])].
Definition ex_sts_plus : types :=
  ex_sts ++ [(bs "Audit", [ {| sm_name := bs "mail"; sm_ty := Struct (bs "Mail") |};
                            {| sm_name := bs "at"; sm_ty := Arr (Atomic (AUint 64)) (Some 2%N) |} ])].

Example C04_nonvacuous_abi_any :
  forall (H : bytes -> bytes) (big_other : bytes -> option Z),
  parse_types ex_hand_plus = Some ex_sts_plus /\
  ~ (forall n, In n (keys ex_sts_plus) -> reachable ex_sts_plus (bs "Mail") n) /\
  exists v ts,
    ABItoTypedDataV4 ex_re ex_tc = Ok (bs "Mail", ts) /\ tlookup (bs "Audit") ts = None /\
    HashStruct H big_other (bs "Mail") ex_msg ts = Ok (Spec.hashStruct H ex_sts_plus (bs "Mail") v) /\
    HashStruct H big_other (bs "Mail") ex_msg ex_hand_plus = Ok (Spec.hashStruct H ex_sts_plus (bs "Mail") v) /\
    let d := {| d_types := with_empty_domain ex_sts_plus; d_primary := bs "Mail"; d_domain := VStruct []; d_message := v |} in
    let m := match ex_msg with GMap m => Some m | _ => None end in
    EncodeTypedDataV4 H big_other (Some (mkTD (Some ts) (bs "Mail") None m)) = Ok (digest H d) /\
    EncodeTypedDataV4 H big_other (Some (mkTD (Some ex_hand_plus) (bs "Mail") None m)) = Ok (digest H d).
Proof.
  intros H big_other.
  assert (Es : parse_types ex_hand_plus = Some ex_sts_plus) by (vm_compute; reflexivity).
  assert (Hwb : wf_types_b ex_sts_plus = true) by (vm_compute; reflexivity).
  assert (Hdb : types_dims_fit_b ex_sts_plus = true) by (vm_compute; reflexivity).
  pose proof (wf_types_b_ok _ Hwb) as Hwf. apply types_dims_fit_b_ok in Hdb.
  split; [exact Es|]. split.
  { intros Hall. assert (Hin : In (bs "Audit") (keys ex_sts_plus)) by (vm_compute; auto).
    specialize (Hall _ Hin).
    assert (Hm : In (bs "Mail") (keys ex_sts_plus)) by (vm_compute; auto).
    destruct (C04_spec_deps_are_reachable_sorted ex_sts_plus (bs "Mail") Hwf Hm) as (Hd & _).
    assert (Hx : In (bs "Audit") (deps ex_sts_plus (bs "Mail"))) by (apply Hd; split; [exact Hall|discriminate]).
    vm_compute in Hx. destruct Hx as [E|[]]. discriminate E. }
  assert (Hv : exists v, parse_val big_other ex_sts_plus 10 (Struct (bs "Mail")) ex_msg = Some v /\
                         well_typed ex_sts_plus (Struct (bs "Mail")) v = true /\
                         parse_val big_other (with_empty_domain ex_sts_plus) 10 (Struct (bs "Mail")) ex_msg = Some v /\
                         well_typed (with_empty_domain ex_sts_plus) (Struct (bs "Mail")) v = true).
  { eexists. split; [vm_compute; reflexivity|]. split; [vm_compute; reflexivity|]. split; vm_compute; reflexivity. }
  destruct Hv as (v & Ev & Ht & Ev2 & Ht2).
  assert (Hd : describes ex_re ex_sts_plus ex_tc (Struct (bs "Mail"))).
  { vm_compute. split; [reflexivity|]. eexists. split; [reflexivity|].
    repeat split; try reflexivity; eexists; (split; [reflexivity|]); repeat split; reflexivity. }
  assert (Hnd : ~ In domain_name (keys ex_sts_plus)) by (intros [E|[E|[E|[]]]]; discriminate E).
  destruct (C04_abi_typeset_equiv_any H big_other ex_re ex_sts_plus ex_tc (bs "Mail") ex_hand_plus ex_msg v Hwf Hdb Hd
              (parse_types_repr _ _ Es Hwf) (parse_val_ok _ _ _ _ _ _ Ev) Ht) as (ts & E1 & _ & _ & E2 & E3).
  destruct (C04_abi_document_digest_any H big_other ex_re ex_sts_plus ex_tc (bs "Mail") ex_hand_plus
              None (match ex_msg with GMap m => Some m | _ => None end) v
              Hwf Hdb Hd Hnd (parse_types_repr _ _ Es Hwf) eq_refl
              (parse_val_ok _ _ _ _ _ _ Ev2) Ht2) as (ts' & E1' & _ & _ & E4 & E5).
  rewrite E1 in E1'. injection E1' as <-.
  exists v, ts. split; [exact E1|]. split.
  { revert E1. vm_compute. intros Hq. injection Hq as <-. reflexivity. }
  split; [exact E2|]. split; [exact E3|]. cbv zeta. split; [exact E4|exact E5].
Qed.

(* 1b. The guard of theorem 1 "the Go type map declares no entry under the name of a valid atomic type"
       (part of [repr_types]) is necessary, not a proof artefact: a type-map entry named uint256 shadows
       the atomic type.  The document  types {T: [uint256 x], uint256: [bool b]}, message {x: 1}  and the
       same document without the entry uint256 (which is well formed and hashed per theorem 1) get
       DIFFERENT results for every hash function: the second a digest, the first a refusal (the value 1
       is not an object of the "struct" uint256). *)
Definition shadow_td (shadowed : bool) : typed_data :=
  mkTD (Some ((bs "T", Some [ex_member (bs "x") (bs "uint256")]) ::
              (if shadowed then [(bs "uint256", Some [ex_member (bs "b") (bs "bool")])] else [])))
       (bs "T") None (Some [(bs "x", GNumber (bs "1"))]).

Theorem C04_atomic_name_guard_necessary :
  forall (H : bytes -> bytes) (big_other : bytes -> option Z),
    (exists d, parse_doc big_other (shadow_td false) = Some d /\ well_formed_b d = true /\
               EncodeTypedDataV4 H big_other (Some (shadow_td false)) = Ok (digest H d)) /\
    (exists e, EncodeTypedDataV4 H big_other (Some (shadow_td true)) = Err e) /\
    ~ (exists a, wf_atomic a = true /\ tlookup (atomic_name a) (with_domain_type (td_types (shadow_td false))) <> None) /\
    tlookup (atomic_name (AUint 256)) (with_domain_type (td_types (shadow_td true))) <> None.
Proof.
  intros H big_other. split; [|split; [|split]].
  - assert (Hp : exists d, parse_doc big_other (shadow_td false) = Some d /\ well_formed_b d = true).
    { eexists. split; [vm_compute; reflexivity | vm_compute; reflexivity]. }
    destruct Hp as (d & Hp & Hw). exists d. repeat split; auto. apply C04_digest_is_spec_parse; assumption.
  - eexists. vm_compute. reflexivity.
  - intros (a & Hwa & Hne). apply Hne. clear Hne.
    assert (Hp : exists d, parse_doc big_other (shadow_td false) = Some d /\ well_formed_b d = true).
    { eexists. split; [vm_compute; reflexivity | vm_compute; reflexivity]. }
    destruct Hp as (d & Hp & Hw).
    pose proof (parse_doc_represents _ _ _ Hp) as Hr.
    unfold well_formed_b in Hw. apply andb_prop in Hw as [Hw _]. specialize (Hr Hw).
    destruct Hr as ((_ & Ha) & _). apply Ha. exact Hwa.
  - vm_compute. discriminate.
Qed.
Print Assumptions C04_atomic_name_guard_necessary.
