(* C07 — Keystore V3 files round-trip keys, reject wrong passwords, detect tampering.
   Statements only; proofs live in Keystore/Proofs*.v.  Every theorem is parametric in the primitive
   operations [P : prims] (scrypt, PBKDF2, AES-CTR, Keccak, JSON lexer/printer, UUID parser) and uses
   only the laws named in its hypothesis ([crypto_laws P]: output lengths of the KDFs, the slice
   returned by scrypt.Key is a prefix of whole 32-byte blocks, CTR is an involution). *)
From Coq Require Import String.
From Coq Require Import List NArith ZArith Lia Bool Arith.
From Coq Require Import Init.Byte.
From FFS Require Import Base.Res Base.Bytes Base.Lit Keystore.Json Keystore.Prims Keystore.Model Keystore.Spec.
From FFS Require Import Keystore.ProofsFresh Keystore.ProofsMac Keystore.ProofsNew Keystore.Toy.
Import ListNotations.

(* 1. A newly created wallet file is a standard Web3 Secret Storage V3 document.  For every
      constructor (both presets, secp256k1 key pairs and custom secrets of any length), every password
      (any bytes), every random stream and any Metadata()[k] = v assignments made before JSON(): the
      independent V3 specification decrypts the document to exactly the key, and the document declares
      exactly the parameters that were used (scrypt, dklen 32, the preset's n, r = 8, p = 1, the salt;
      ciphertext and MAC are the AES-128-CTR / Keccak values under the key derived from the DECLARED
      parameters). *)
Theorem C07_new_is_standard :
  forall (P : prims), crypto_laws P ->
  forall (c : creation) (rnd : bytes) (w : wallet) (rest : bytes) (extras : list (bytes * json)),
    create P c rnd = Ok (w, rest) ->
    let w' := assign_all w extras in
    v3_decrypt P (JSON_tree w') (pw_of c) = Ok (key_of c) /\
    w_kdfparams w' = KScrypt {| sp_dklen := 32; sp_n := n_of c; sp_p := pDefault; sp_r := defaultR; sp_salt := wallet_salt w' |} /\
    cc_cipher (w_crypto w') = cipherAES128ctr /\ cc_kdf (w_crypto w') = kdfTypeScrypt /\
    cc_ciphertext (w_crypto w') = aes_ctr P (enc_key P w' (pw_of c)) (cc_iv (w_crypto w')) (key_of c) /\
    cc_mac (w_crypto w') = hash P (mac_key P w' (pw_of c) ++ cc_ciphertext (w_crypto w')) /\
    w_private w' = key_of c.
Proof. exact new_is_standard. Qed.
Print Assumptions C07_new_is_standard.

(* ... and creation itself succeeds (no panic) whenever the random source delivers 64 bytes. *)
Theorem C07_create_total :
  forall (P : prims), crypto_laws P ->
  forall (c : creation) (rnd : bytes), (64 <= length rnd)%nat -> exists w rest, create P c rnd = Ok (w, rest).
Proof. exact create_total. Qed.
Print Assumptions C07_create_total.

(* 4. Acceptance needs the MAC.  Whenever ReadWalletFile returns a wallet for (document, password) —
      any document, any password, no hypothesis on the primitives — the wallet's crypto section is what
      encoding/json decodes from the document, the declared cost parameters lie in the KDF's domain,
      the document's MAC equals Keccak(DK[16..32] ++ ciphertext) for DK = KDF(password, declared
      parameters), and the key returned is AES-128-CTR(DK[0..16], iv, ciphertext). *)
Theorem C07_accept_needs_mac :
  forall (P : prims) (t : json) (pw : bytes) (w : wallet),
    read_wallet_tree P t pw = Ok w ->
    decoded_from P t w /\ params_in_domain w /\
    length (derived_key P w pw) = 32%nat /\
    hash P (mac_key P w pw ++ cc_ciphertext (w_crypto w)) = cc_mac (w_crypto w) /\
    length (cc_iv (w_crypto w)) = 16%nat /\
    w_private w = aes_ctr P (enc_key P w pw) (cc_iv (w_crypto w)) (cc_ciphertext (w_crypto w)).
Proof. exact accept_needs_mac. Qed.
Print Assumptions C07_accept_needs_mac.

(* Hence tampering and wrong passwords can only succeed through a hash collision: if two
   (document, password) pairs are both accepted and carry the same MAC — e.g. the original file with the
   right password, and the same file with another password, or with any change to the ciphertext, the
   salt, n, r, p, c, the KDF — then either ciphertext and MAC key (second half of the derived key) are
   the same in both, or two different inputs with the same digest have been exhibited.  (A changed MAC
   must, by the theorem above, equal the Keccak of the MAC key and the ciphertext.) *)
Theorem C07_tamper_needs_collision :
  forall (P : prims) t1 pw1 w1 t2 pw2 w2,
    read_wallet_tree P t1 pw1 = Ok w1 -> read_wallet_tree P t2 pw2 = Ok w2 ->
    cc_mac (w_crypto w1) = cc_mac (w_crypto w2) ->
    (cc_ciphertext (w_crypto w1) = cc_ciphertext (w_crypto w2) /\ mac_key P w1 pw1 = mac_key P w2 pw2)
    \/ collision (hash P).
Proof. exact tamper_needs_collision. Qed.
Print Assumptions C07_tamper_needs_collision.

(* 5. Fresh randomness.  Over any history of creations (any constructors, passwords, keys) drawing from
      one random source, the stream is exactly the concatenation of (salt_i ++ iv_i ++ 16 UUID bytes),
      in order, followed by the unread rest: salt and IV of every file come from disjoint positions, no
      position is read twice, and nothing else (no constant, no reuse) enters a salt or IV. *)
Theorem C07_fresh_randomness :
  forall (P : prims) (cs : list creation) (rnd : bytes) (ws : list wallet) (rest : bytes),
    create_all P cs rnd = Ok (ws, rest) ->
    length ws = length cs /\
    exists raws, length raws = length ws /\ Forall (fun r => length r = 16%nat) raws /\
      Forall (fun w => length (wallet_salt w) = 32%nat /\ length (wallet_iv w) = 16%nat) ws /\
      rnd = concat (map (fun wr => consumed_by (fst wr) (snd wr)) (combine ws raws)) ++ rest.
Proof. exact fresh_randomness. Qed.
Print Assumptions C07_fresh_randomness.

Theorem C07_fresh_positions :
  forall (P : prims) cs rnd ws rest i w,
    create_all P cs rnd = Ok (ws, rest) -> nth_error ws i = Some w ->
    firstn 32 (skipn (64 * i) rnd) = wallet_salt w /\ firstn 16 (skipn (64 * i + 32) rnd) = wallet_iv w.
Proof. exact fresh_positions. Qed.
Print Assumptions C07_fresh_positions.

(* ---- non-vacuity: the laws have an instance, creation and reading succeed on it ---- *)
Example C07_laws_satisfiable : crypto_laws toy.
Proof. exact toy_crypto_laws. Qed.

Local Open Scope string_scope.
Example C07_nonvacuous :
  let pw := ascii_bytes "pässword " in
  let c1 := MkCustomLight pw (unhex "00112233445566778899aabbccddeeff0011223344556677889900") in
  let c2 := MkLight pw {| kp_private := repeat x07 32; kp_address := repeat x0a 20 |} in
  let rnd := map (fun n => n2b (N.of_nat n)) (seq 0 130) in
  match create_all toy [c1; c2] rnd with
  | Ok ([w1; w2], rest) =>
      length rest = 2%nat /\
      (* reading the first file back is accepted: the hypotheses of theorems 4 are met *)
      is_ok (read_wallet_tree toy (JSON_tree (assign_all w1 [(ascii_bytes "note", JStr (ascii_bytes "x"))])) pw) = true /\
      is_ok (read_wallet_tree toy (JSON_tree w2) pw) = true /\
      (* a wrong password is rejected *)
      is_ok (read_wallet_tree toy (JSON_tree w2) (ascii_bytes "pässword")) = false
  | _ => False
  end.
Proof. vm_compute. repeat split. Qed.
