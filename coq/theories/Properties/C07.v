(* C07 — Keystore V3 files round-trip keys, reject wrong passwords, detect tampering.
   Statements only; proofs live in Keystore/Proofs*.v.  Every theorem is parametric in the primitive
   operations [P : prims] (scrypt, PBKDF2, AES-CTR, Keccak, JSON lexer/printer, UUID parser) and uses
   only the laws named in its hypothesis ([crypto_laws P]: output lengths of the KDFs, the slice
   returned by scrypt.Key is a prefix of whole 32-byte blocks, CTR is an involution). *)
From Coq Require Import String.
From Coq Require Import List NArith ZArith Lia Bool Arith.
From Coq Require Import Init.Byte.
From FFS Require Import Base.Res Base.Bytes Keystore.Json Keystore.Prims Keystore.Model Keystore.Spec.
From FFS Require Import Keystore.JsonFacts Keystore.ProofsFresh Keystore.ProofsMac Keystore.ProofsNew Keystore.ProofsRead Keystore.ProofsRound Keystore.ProofsPw Keystore.Toy.
Import ListNotations.

(* 1. A newly created wallet file is a standard Web3 Secret Storage V3 document.  For every
      constructor (both presets, secp256k1 key pairs and custom secrets of any length), every password
      (any bytes), every random stream and any Metadata()[k] = v assignments made before JSON(): the
      independent V3 specification decrypts the document to exactly the key, and the document declares
      exactly the parameters that were used (scrypt, dklen 32, the preset's n, r = 8, p = 1, the salt;
      ciphertext and MAC are the AES-128-CTR / Keccak values under the key derived from the DECLARED
      parameters). *)
Theorem C07_new_is_standard :
  forall (P : prims), crypto_laws P ->
  forall (c : creation) (rnd : bytes) (w : wallet) (rest : bytes) (extras : list (bytes * json)),
    create P c rnd = Ok (w, rest) ->
    let w' := assign_all w extras in
    v3_decrypt P (JSON_tree w') (pw_of c) = Ok (key_of c) /\
    w_kdfparams w' = KScrypt {| sp_dklen := 32; sp_n := n_of c; sp_p := pDefault; sp_r := defaultR; sp_salt := wallet_salt w' |} /\
    cc_cipher (w_crypto w') = cipherAES128ctr /\ cc_kdf (w_crypto w') = kdfTypeScrypt /\
    cc_ciphertext (w_crypto w') = aes_ctr P (enc_key P w' (pw_of c)) (cc_iv (w_crypto w')) (key_of c) /\
    cc_mac (w_crypto w') = hash P (mac_key P w' (pw_of c) ++ cc_ciphertext (w_crypto w')) /\
    w_private w' = key_of c.
Proof. exact new_is_standard. Qed.
Print Assumptions C07_new_is_standard.

(* ... and creation itself succeeds (no panic) whenever the random source delivers 64 bytes. *)
Theorem C07_create_total :
  forall (P : prims), crypto_laws P ->
  forall (c : creation) (rnd : bytes), (64 <= length rnd)%nat -> exists w rest, create P c rnd = Ok (w, rest).
Proof. exact create_total. Qed.
Print Assumptions C07_create_total.

(* 2. Round trip through the bytes.  For every constructor, password, key and random stream: the bytes
      JSON() prints — after any Metadata()[k] = v assignments that satisfy [extra_ok] — are read back by
      ReadWalletFile with the same password to the same private key, the address of that key, the same
      id, and every non-nil metadata entry of the wallet whose key is not one of the protected core
      fields id / version / crypto (those are overwritten by design).
      Laws used beyond [crypto_laws]: json.Marshal output is lexed back to the same tree when all strings
      are UTF-8 and numbers are number literals; uuid.String / UnmarshalText are inverse; an integer
      literal converts to a float64.
      [extra_ok P (k, v)]: k is not a case variant of id / version / crypto (see the known finding
      C07/metadata-casefold-core-field and C07_roundtrip_casefold_refuted below for why this guard is
      needed); k and v are UTF-8 / well-formed numbers; v is already in the form json.Unmarshal gives an
      interface{} (numbers = printed float64, objects = maps), which is what "the same value comes back"
      can mean for map[string]interface{}. *)
Theorem C07_roundtrip :
  forall (P : prims), crypto_laws P ->
  (forall t, json_text_ok t = true -> json_parse P (json_print P t) = Some t) ->
  (forall u, length u = 16%nat -> uuid_parse P (uuid_string u) = Some u) ->
  (forall z, json_num P (print_Z z) <> None) ->
  forall (c : creation) (rnd : bytes) (w : wallet) (rest : bytes) (extras : list (bytes * json)),
    create P c rnd = Ok (w, rest) -> Forall (extra_ok P) extras ->
    let w' := assign_all w extras in
    exists wr, ReadWalletFile P (JSON P w') (pw_of c) = Ok wr /\
      PrivateKey wr = key_of c /\
      kp_address (KeyPair P wr) = address_of_key P (key_of c) /\
      GetID wr = GetID w' /\ GetID wr <> None /\
      forall k v, In (k, v) (Metadata w') -> v <> JNull -> protected_key k = false -> mget k (Metadata wr) = Some v.
Proof. exact roundtrip. Qed.
Print Assumptions C07_roundtrip.

(* The guard on metadata keys cannot be dropped: with a key that differs from a core field only by
   case, a file the package itself wrote cannot be read back (recorded as known finding
   C07/metadata-casefold-core-field; the harness runs this witness against the implementation on
   every run). *)
Theorem C07_roundtrip_casefold_refuted :
  exists (P : prims) (c : creation) (rnd : bytes) (w : wallet) (rest : bytes) (extras : list (bytes * json)),
    crypto_laws P /\ create P c rnd = Ok (w, rest) /\
    Forall (fun e => utf8_valid (fst e) = true /\ json_text_ok (snd e) = true /\ dec_iface P (snd e) = Ok (snd e)) extras /\
    is_err (read_wallet_tree P (JSON_tree (assign_all w extras)) (pw_of c)) = true.
Proof. exact roundtrip_casefold_refuted. Qed.
Print Assumptions C07_roundtrip_casefold_refuted.

(* 3. Standard files produced elsewhere are read correctly.  Every document that the V3 specification
      decrypts with the password (scrypt with any N, r, p in the function's domain, or
      PBKDF2-HMAC-SHA256 with any c >= 1; members in any order, unknown members anywhere, hex of either
      case, secrets of any length) is read by ReadWalletFile to exactly that key, and GetID() is the
      document's id.  Guards, both decidable on the document: [unambiguous] — no member of the document,
      its crypto, cipherparams or kdfparams object has a name that equals a Go struct field name only
      up to letter case (encoding/json would match it too); [nums_ok] — every number in the document
      fits a float64 (the code also unmarshals the whole document into map[string]interface{}).
      Holds with and without the cipher = "aes-128-ctr" requirement of the specification
      (the code never looks at that member: known finding C15/cipher-ignored).
      (referee round) Third guard [doc_alloc_ok]: the document's scrypt n and r satisfy 128*n*r <= 2^48.
      scrypt.Key allocates its work area make([]uint32, 32*N*r) after its parameter test and the Go runtime
      panics beyond 2^48 bytes (a standard file with n = 2^42, r = 1 makes ReadWalletFile panic; the model
      has that panic since this round, see Properties/C15.v); at or below the cap the model assumes the
      allocation succeeds (memory exhaustion is a process death, not modelled).  Documents without a scrypt
      n / r (PBKDF2 files) meet the guard trivially. *)
Theorem C07_read_is_standard :
  forall (P : prims), crypto_laws P -> uuid_accepts_text P ->
  forall (check_cipher : bool) (doc : json) (pw key : bytes),
    v3_decrypt_gen check_cipher P doc pw = Ok key ->
    unambiguous doc = true -> nums_ok P doc = true -> ReadTypes.doc_alloc_ok doc = true ->
    exists w, read_wallet_tree P doc pw = Ok w /\ PrivateKey w = key /\
              exists id, v3_id doc = Some id /\ GetID w = uuid_parse P id /\ GetID w <> None.
Proof. exact read_is_standard. Qed.
Print Assumptions C07_read_is_standard.

(* 4. Acceptance needs the MAC.  Whenever ReadWalletFile returns a wallet for (document, password) —
      any document, any password, no hypothesis on the primitives — the wallet's crypto section is what
      encoding/json decodes from the document, the declared cost parameters lie in the KDF's domain,
      the document's MAC equals Keccak(DK[16..32] ++ ciphertext) for DK = KDF(password, declared
      parameters), and the key returned is AES-128-CTR(DK[0..16], iv, ciphertext). *)
Theorem C07_accept_needs_mac :
  forall (P : prims) (t : json) (pw : bytes) (w : wallet),
    read_wallet_tree P t pw = Ok w ->
    decoded_from P t w /\ params_in_domain w /\
    length (derived_key P w pw) = 32%nat /\
    hash P (mac_key P w pw ++ cc_ciphertext (w_crypto w)) = cc_mac (w_crypto w) /\
    length (cc_iv (w_crypto w)) = 16%nat /\
    w_private w = aes_ctr P (enc_key P w pw) (cc_iv (w_crypto w)) (cc_ciphertext (w_crypto w)).
Proof. exact accept_needs_mac. Qed.
Print Assumptions C07_accept_needs_mac.

(* Hence tampering and wrong passwords can only succeed through a hash collision: if two
   (document, password) pairs are both accepted and carry the same MAC — e.g. the original file with the
   right password, and the same file with another password, or with any change to the ciphertext, the
   salt, n, r, p, c, the KDF — then either ciphertext and MAC key (second half of the derived key) are
   the same in both, or two different inputs with the same digest have been exhibited.  (A changed MAC
   must, by the theorem above, equal the Keccak of the MAC key and the ciphertext.) *)
Theorem C07_tamper_needs_collision :
  forall (P : prims) t1 pw1 w1 t2 pw2 w2,
    read_wallet_tree P t1 pw1 = Ok w1 -> read_wallet_tree P t2 pw2 = Ok w2 ->
    cc_mac (w_crypto w1) = cc_mac (w_crypto w2) ->
    (cc_ciphertext (w_crypto w1) = cc_ciphertext (w_crypto w2) /\ mac_key P w1 pw1 = mac_key P w2 pw2)
    \/ collision (hash P).
Proof. exact tamper_needs_collision. Qed.
Print Assumptions C07_tamper_needs_collision.

(* The wrong-password clause in particular: if the SAME document is accepted under two passwords, both
   runs decoded the same crypto section and KDF parameters, and either the second halves of the two
   derived keys KDF(pw, params), KDF(pw', params) are equal, or a hash collision has been exhibited. *)
Theorem C07_wrong_password_needs_collision :
  forall (P : prims) t pw pw' w w',
    read_wallet_tree P t pw = Ok w -> read_wallet_tree P t pw' = Ok w' ->
    (mac_key P w pw = mac_key P w pw' /\ w_crypto w' = w_crypto w /\ w_kdfparams w' = w_kdfparams w)
    \/ collision (hash P).
Proof. exact wrong_password_needs_collision. Qed.
Print Assumptions C07_wrong_password_needs_collision.

(* 5. Fresh randomness.  Over any history of creations (any constructors, passwords, keys) drawing from
      one random source, the stream is exactly the concatenation of (salt_i ++ iv_i ++ 16 UUID bytes),
      in order, followed by the unread rest: salt and IV of every file come from disjoint positions, no
      position is read twice, and nothing else (no constant, no reuse) enters a salt or IV. *)
Theorem C07_fresh_randomness :
  forall (P : prims) (cs : list creation) (rnd : bytes) (ws : list wallet) (rest : bytes),
    create_all P cs rnd = Ok (ws, rest) ->
    length ws = length cs /\
    exists raws, length raws = length ws /\ Forall (fun r => length r = 16%nat) raws /\
      Forall (fun w => length (wallet_salt w) = 32%nat /\ length (wallet_iv w) = 16%nat) ws /\
      rnd = concat (map (fun wr => consumed_by (fst wr) (snd wr)) (combine ws raws)) ++ rest.
Proof. exact fresh_randomness. Qed.
Print Assumptions C07_fresh_randomness.

Theorem C07_fresh_positions :
  forall (P : prims) cs rnd ws rest i w,
    create_all P cs rnd = Ok (ws, rest) -> nth_error ws i = Some w ->
    firstn 32 (skipn (64 * i) rnd) = wallet_salt w /\ firstn 16 (skipn (64 * i + 32) rnd) = wallet_iv w.
Proof. exact fresh_positions. Qed.
Print Assumptions C07_fresh_positions.

(* ---- non-vacuity: the laws have an instance, creation and reading succeed on it ---- *)
Example C07_laws_satisfiable : crypto_laws toy /\ uuid_accepts_text toy.
Proof. split; [exact toy_crypto_laws | exact toy_uuid_accepts_text]. Qed.

(* all laws C07_roundtrip asks for, including the printer / lexer law, hold of [toy_codec] (a verified
   printer-parser pair, Keystore/Codec.v) *)
Example C07_roundtrip_laws_satisfiable :
  crypto_laws toy_codec /\
  (forall t, json_text_ok t = true -> json_parse toy_codec (json_print toy_codec t) = Some t) /\
  (forall u, length u = 16%nat -> uuid_parse toy_codec (uuid_string u) = Some u) /\
  (forall z, json_num toy_codec (print_Z z) <> None).
Proof. split; [exact toy_codec_crypto_laws | exact toy_codec_laws]. Qed.

Local Open Scope string_scope.
(* ... and the round trip through bytes runs: guards met, file read back, extras returned *)
Example C07_roundtrip_nonvacuous :
  let pw := ascii_bytes "pw" in
  let c := MkStandard pw {| kp_private := repeat x07 32; kp_address := repeat x0a 20 |} in
  let extras := [(ascii_bytes "note", JStr (ascii_bytes "x")); (ascii_bytes "n", JNum (ascii_bytes "5"));
                 (ascii_bytes "address", JNull)] in
  Forall (extra_ok toy_codec) extras /\
  match create toy_codec c (repeat x2a 64) with
  | Ok (w, _) =>
      match ReadWalletFile toy_codec (JSON toy_codec (assign_all w extras)) pw with
      | Ok wr => bytes_eqb (PrivateKey wr) (repeat x07 32) = true /\
                 mget (ascii_bytes "note") (Metadata wr) = Some (JStr (ascii_bytes "x")) /\
                 mget (ascii_bytes "address") (Metadata wr) = None
      | _ => False
      end
  | _ => False
  end.
Proof. split; [repeat constructor|]. vm_compute. repeat split. Qed.

Example C07_nonvacuous :
  let pw := ascii_bytes "pässword " in
  let c1 := MkCustomLight pw (map (fun n => n2b (N.of_nat n)) (seq 17 27)) in
  let c2 := MkLight pw {| kp_private := repeat x07 32; kp_address := repeat x0a 20 |} in
  let rnd := map (fun n => n2b (N.of_nat n)) (seq 0 130) in
  match create_all toy [c1; c2] rnd with
  | Ok ([w1; w2], rest) =>
      length rest = 2%nat /\
      (* reading the first file back is accepted: the hypotheses of theorems 4 are met *)
      is_ok (read_wallet_tree toy (JSON_tree (assign_all w1 [(ascii_bytes "note", JStr (ascii_bytes "x"))])) pw) = true /\
      is_ok (read_wallet_tree toy (JSON_tree w2) pw) = true /\
      (* the hypotheses of theorem 3 are met by that document *)
      is_ok (v3_decrypt toy (JSON_tree w2) pw) = true /\ unambiguous (JSON_tree w2) = true /\ nums_ok toy (JSON_tree w2) = true /\
      ReadTypes.doc_alloc_ok (JSON_tree w2) = true /\
      (* a wrong password is rejected *)
      is_ok (read_wallet_tree toy (JSON_tree w2) (ascii_bytes "pässword")) = false
  | _ => False
  end.
Proof. vm_compute. repeat split. Qed.

(* Tie of the hand-written constants of Keystore/Model.v to the source.  Gen/Consts.v is regenerated
   on every run by the translator harness/cmd/gen_consts from the `const` declarations of
   pkg/keystorev3/{wallet,walletfile,scrypt,pbkdf2}.go as they are NOW (nLight = 1 << 12 is
   evaluated by the translator).  The model keeps its own literals; this theorem is what breaks when
   a scrypt preset, the version, the derived key length or a cipher / kdf / prf name changes in the
   source. *)
From FFS Require Gen.Consts.
Theorem C07_source_constants :
  Gen.Consts.keystorev3_nLight = Keystore.Model.nLight /\
  Gen.Consts.keystorev3_nStandard = Keystore.Model.nStandard /\
  Gen.Consts.keystorev3_pDefault = Keystore.Model.pDefault /\
  Gen.Consts.keystorev3_defaultR = Keystore.Model.defaultR /\
  Gen.Consts.keystorev3_version3 = Keystore.Model.version3 /\
  Gen.Consts.keystorev3_derivedKeyLen = Keystore.Model.derivedKeyLen /\
  ascii_bytes Gen.Consts.keystorev3_cipherAES128ctr = Keystore.Model.cipherAES128ctr /\
  ascii_bytes Gen.Consts.keystorev3_kdfTypeScrypt = Keystore.Model.kdfTypeScrypt /\
  ascii_bytes Gen.Consts.keystorev3_kdfTypePbkdf2 = Keystore.Model.kdfTypePbkdf2 /\
  ascii_bytes Gen.Consts.keystorev3_prfHmacSHA256 = Keystore.Model.prfHmacSHA256.
Proof. vm_compute. repeat split; reflexivity. Qed.
Print Assumptions C07_source_constants.

(* 6. (round 4) Wallets that were READ are written back as standard documents too.  Theorem 1 covers
      wallets made by the constructors; this is the counterpart for every wallet ReadWalletFile returns --
      from a scrypt or a PBKDF2 file, strictly or leniently formed (case variants of member names,
      duplicate members, null members, 0x-prefixed hex: whatever encoding/json reads): JSON() of the
      returned wallet, after any Metadata() assignments, is a document the independent V3 specification
      (the full standard, cipher test included) decrypts to the same key, provided the file declared
      aes-128-ctr (the code copies the cipher member and never checks it: known finding
      C15/cipher-ignored; without that proviso the statement holds for [v3_decrypt_gen false], see
      C15_lenient_read_then_strict).  Laws used: the UUID parser returns 16 bytes. *)
From FFS Require Keystore.TotalProofs6 Keystore.TotalProofs7 Keystore.ProofsReread.

Theorem C07_read_wallet_is_standard :
  forall (P : prims), TotalProofs6.uuid_parse_16 P ->
  forall (t : json) (pw : bytes) (w : wallet) (extras : list (bytes * json)),
    read_wallet_tree P t pw = Ok w -> cc_cipher (w_crypto w) = cipherAES128ctr ->
    v3_decrypt P (JSON_tree (assign_all w extras)) pw = Ok (PrivateKey w).
Proof. exact ProofsReread.read_wallet_is_standard. Qed.
Print Assumptions C07_read_wallet_is_standard.

(* ... and that document is read back to the same key (and, with the String/Parse inverse law of the
   UUID library, the same id): a round trip for read wallets, at the level of trees.  The guards are the
   ones of theorem 3 on the re-marshalled document, i.e. on the metadata only (no entry whose key is a
   case variant of a struct field name -- known finding C07/metadata-casefold-core-field --, numbers
   fit float64); there is no guard on the file the wallet came from. *)
Theorem C07_read_wallet_reread :
  forall (P : prims), crypto_laws P -> uuid_accepts_text P -> TotalProofs6.uuid_parse_16 P ->
  forall (t : json) (pw : bytes) (w : wallet) (extras : list (bytes * json)),
    read_wallet_tree P t pw = Ok w ->
    let w' := assign_all w extras in
    unambiguous (JSON_tree w') = true -> nums_ok P (JSON_tree w') = true ->
    exists w2, read_wallet_tree P (JSON_tree w') pw = Ok w2 /\ PrivateKey w2 = PrivateKey w /\
               ((forall u, length u = 16%nat -> uuid_parse P (uuid_string u) = Some u) -> GetID w2 = GetID w).
Proof. exact ProofsReread.read_wallet_reread. Qed.
Print Assumptions C07_read_wallet_reread.

Example C07_read_wallet_reread_nonvacuous :
  crypto_laws TotalProofs7.toy16 /\ uuid_accepts_text TotalProofs7.toy16 /\ TotalProofs6.uuid_parse_16 TotalProofs7.toy16 /\
  match ProofsReread.lenient_doc2 with
  | Some t =>
      ReadTypes.v3_wellformed t = false /\ v3_decrypt_gen false TotalProofs7.toy16 t [x70; x77] = Err SInvalid /\
      match read_wallet_tree TotalProofs7.toy16 t [x70; x77] with
      | Ok w =>
          let w' := assign_all w [(ascii_bytes "note", JStr (ascii_bytes "x"))] in
          cc_cipher (w_crypto w) = cipherAES128ctr /\
          v3_decrypt TotalProofs7.toy16 (JSON_tree w') [x70; x77] = Ok [x01; x02; x03] /\
          unambiguous (JSON_tree w') = true /\ nums_ok TotalProofs7.toy16 (JSON_tree w') = true /\
          match read_wallet_tree TotalProofs7.toy16 (JSON_tree w') [x70; x77] with
          | Ok w2 => PrivateKey w2 = [x01; x02; x03]
          | _ => False
          end
      | _ => False
      end
  | None => False
  end.
Proof. exact ProofsReread.read_wallet_reread_nonvacuous. Qed.

(* 7. (referee round, design/reviews/C07.md) *)
From FFS Require Keystore.ReadTypes Keystore.ProofsReferee.
Local Open Scope list_scope.

(* I1. The address.  The conjunct [kp_address (KeyPair P wr) = address_of_key P (key_of c)] of C07_roundtrip
       follows from the key conjunct by the definition of KeyPair; what links the file to the address OF THE
       CREATING KEY PAIR is the metadata entry "address": a wallet made from a key pair (either preset), after
       any assignments that leave "address" alone, is read back with that entry = hex of the pair's address;
       and when the pair's address is the address of its private key (what secp256k1.KeyPair guarantees),
       it is the hex of the address of the key pair the read wallet hands out. *)
Theorem C07_roundtrip_address :
  forall (P : prims), crypto_laws P ->
  (forall t, json_text_ok t = true -> json_parse P (json_print P t) = Some t) ->
  (forall u, length u = 16%nat -> uuid_parse P (uuid_string u) = Some u) ->
  (forall z, json_num P (print_Z z) <> None) ->
  forall (light : bool) (pw : bytes) (kp : keypair) (rnd : bytes) (w : wallet) (rest : bytes) (extras : list (bytes * json)),
    let c := if light then MkLight pw kp else MkStandard pw kp in
    create P c rnd = Ok (w, rest) -> Forall (extra_ok P) extras ->
    Forall (fun e => fst e <> ProofsReferee.address_key) extras ->
    exists wr, ReadWalletFile P (JSON P (assign_all w extras)) pw = Ok wr /\
      PrivateKey wr = kp_private kp /\
      mget ProofsReferee.address_key (Metadata wr) = Some (JStr (hex_encode (kp_address kp))) /\
      (kp_address kp = address_of_key P (kp_private kp) ->
       mget ProofsReferee.address_key (Metadata wr) = Some (JStr (hex_encode (kp_address (KeyPair P wr))))).
Proof. exact ProofsReferee.roundtrip_address. Qed.
Print Assumptions C07_roundtrip_address.

(* I2. The colliding pair, named.  [collision (hash P)] in theorems 4 is true of every hash with 32-byte
       output by counting; here the two MAC inputs are the witnesses: equal digests unconditionally, and
       either the same ciphertext and MAC key or two DIFFERENT byte strings -- these two. *)
Theorem C07_tamper_explicit :
  forall (P : prims) t1 pw1 w1 t2 pw2 w2,
    read_wallet_tree P t1 pw1 = Ok w1 -> read_wallet_tree P t2 pw2 = Ok w2 ->
    cc_mac (w_crypto w1) = cc_mac (w_crypto w2) ->
    let x1 := mac_key P w1 pw1 ++ cc_ciphertext (w_crypto w1) in
    let x2 := mac_key P w2 pw2 ++ cc_ciphertext (w_crypto w2) in
    hash P x1 = hash P x2 /\
    ((cc_ciphertext (w_crypto w1) = cc_ciphertext (w_crypto w2) /\ mac_key P w1 pw1 = mac_key P w2 pw2) \/ x1 <> x2).
Proof. exact ProofsReferee.tamper_explicit. Qed.
Print Assumptions C07_tamper_explicit.

Theorem C07_wrong_password_explicit :
  forall (P : prims) t pw pw' w w',
    read_wallet_tree P t pw = Ok w -> read_wallet_tree P t pw' = Ok w' ->
    w_crypto w' = w_crypto w /\ w_kdfparams w' = w_kdfparams w /\
    let ct := cc_ciphertext (w_crypto w) in
    hash P (mac_key P w pw ++ ct) = hash P (mac_key P w pw' ++ ct) /\
    (mac_key P w pw = mac_key P w pw' \/ mac_key P w pw ++ ct <> mac_key P w pw' ++ ct).
Proof. exact ProofsReferee.wrong_password_explicit. Qed.
Print Assumptions C07_wrong_password_explicit.

(* I3. "returns an error".  Reading never panics within the cost cap (this is C15_total; beyond the cap
       scrypt.Key panics in makeslice, see Properties/C15.v) ... *)
Theorem C07_read_never_panics :
  forall (P : prims) (data pw : bytes), ReadTypes.cost_capped_bytes P data = true -> ReadWalletFile P data pw <> Panic.
Proof. exact ProofsReferee.read_never_panics. Qed.
Print Assumptions C07_read_never_panics.

(* ... and tampering / another password is an ERROR (not a key, not a panic) unless the two named MAC
   inputs have the same digest.  (t1, pw1) was accepted; t2 is ANY document within the cap whose decoded MAC
   member still equals the accepted one -- the same file with ciphertext, salt, n, r, p, c, kdf, IV changed
   in any way --, read with any password.  [decode_content] is the model's transcription of
   encoding/json's typed decoding (what "the file with field f changed" decodes to is not proved
   separately).  Nothing is assumed about the hash; for a collision-resistant one the hypothesis holds
   whenever the inputs differ. *)
Theorem C07_tamper_rejected :
  forall (P : prims) t1 pw1 w1 t2 pw2 cf2 cc2 kp2,
    read_wallet_tree P t1 pw1 = Ok w1 ->
    ReadTypes.cost_capped P t2 = true ->
    ReadTypes.decode_content P t2 = Some (cf2, cc2, kp2) ->
    cc_mac cc2 = cc_mac (w_crypto w1) ->
    hash P (skipn 16 (ProofsReferee.dk_of P kp2 pw2) ++ cc_ciphertext cc2)
      <> hash P (mac_key P w1 pw1 ++ cc_ciphertext (w_crypto w1)) ->
    exists e, read_wallet_tree P t2 pw2 = Err e.
Proof. exact ProofsReferee.tamper_rejected. Qed.
Print Assumptions C07_tamper_rejected.

Theorem C07_wrong_password_rejected :
  forall (P : prims) t pw w pw',
    read_wallet_tree P t pw = Ok w ->
    hash P (mac_key P w pw' ++ cc_ciphertext (w_crypto w)) <> hash P (mac_key P w pw ++ cc_ciphertext (w_crypto w)) ->
    exists e, read_wallet_tree P t pw' = Err e.
Proof. exact ProofsReferee.wrong_password_rejected. Qed.
Print Assumptions C07_wrong_password_rejected.

(* I5. The one unconditional rejection: a changed MAC, everything else (ciphertext, KDF parameters,
       password) as in an accepted file, is an error -- no hypothesis on the hash at all. *)
Theorem C07_mac_changed_rejected :
  forall (P : prims) t1 pw w1 t2 cf2 cc2,
    read_wallet_tree P t1 pw = Ok w1 ->
    ReadTypes.decode_content P t2 = Some (cf2, cc2, w_kdfparams w1) ->
    cc_ciphertext cc2 = cc_ciphertext (w_crypto w1) ->
    cc_mac cc2 <> cc_mac (w_crypto w1) ->
    exists e, read_wallet_tree P t2 pw = Err e.
Proof. exact ProofsReferee.mac_changed_rejected. Qed.
Print Assumptions C07_mac_changed_rejected.

Theorem C07_same_input_same_mac :
  forall (P : prims) t1 pw1 w1 t2 pw2 w2,
    read_wallet_tree P t1 pw1 = Ok w1 -> read_wallet_tree P t2 pw2 = Ok w2 ->
    cc_ciphertext (w_crypto w1) = cc_ciphertext (w_crypto w2) -> mac_key P w1 pw1 = mac_key P w2 pw2 ->
    cc_mac (w_crypto w1) = cc_mac (w_crypto w2).
Proof. exact ProofsReferee.same_input_same_mac. Qed.
Print Assumptions C07_same_input_same_mac.

(* I6. Non-vacuity of the PBKDF2 half of theorem 3 and of the error-form statements: a PBKDF2 document
       (c = 1 and c = 4096, members in another order than the writer's) is decrypted by the full standard,
       meets the three guards, is read to the same key; another password is refused by both, and its MAC
       input has another digest (hypothesis of C07_wrong_password_rejected). *)
Example C07_pbkdf2_nonvacuous :
  let pw := [x70; x77] in
  let key := [x01; x02; x03; x04] in
  v3_decrypt toy (ProofsReferee.toy_pbkdf2_doc 1 pw key) pw = Ok key /\
  v3_decrypt toy (ProofsReferee.toy_pbkdf2_doc 4096 pw key) pw = Ok key /\
  unambiguous (ProofsReferee.toy_pbkdf2_doc 4096 pw key) = true /\ nums_ok toy (ProofsReferee.toy_pbkdf2_doc 4096 pw key) = true /\
  ReadTypes.doc_alloc_ok (ProofsReferee.toy_pbkdf2_doc 4096 pw key) = true /\
  match read_wallet_tree toy (ProofsReferee.toy_pbkdf2_doc 4096 pw key) pw with Ok w => PrivateKey w = key | _ => False end /\
  match read_wallet_tree toy (ProofsReferee.toy_pbkdf2_doc 1 pw key) pw with Ok w => PrivateKey w = key | _ => False end /\
  v3_decrypt toy (ProofsReferee.toy_pbkdf2_doc 4096 pw key) [x70] = Err SMac /\
  is_err (read_wallet_tree toy (ProofsReferee.toy_pbkdf2_doc 4096 pw key) [x70]) = true.
Proof. exact ProofsReferee.pbkdf2_read_is_standard_nonvacuous. Qed.

Example C07_wrong_password_rejected_nonvacuous :
  let pw := [x70; x77] in
  let t := ProofsReferee.toy_pbkdf2_doc 4096 pw [x01; x02; x03; x04] in
  match read_wallet_tree toy t pw with
  | Ok w => bytes_eqb (hash toy (mac_key toy w [x70] ++ cc_ciphertext (w_crypto w)))
                      (hash toy (mac_key toy w pw ++ cc_ciphertext (w_crypto w))) = false
  | _ => False
  end.
Proof. exact ProofsReferee.wrong_password_rejected_nonvacuous. Qed.

(* 8. (wave 6, closes referee issue I5 (b)) THE TAMPER CLAUSE ON A CREATED FILE WITH ONE MEMBER CHANGED.
      The statements of section 7 speak about "any document t2 that decodes to (cf2, cc2, kp2)" -- the
      model's own transcription of encoding/json; that the created file with its ciphertext / MAC / salt /
      n / r / p / dklen changed decodes to the changed field was left to the differential run.  Here the
      second document is [edit_doc x (JSON_tree w0)]: the JSON tree JSON() prints for the created wallet
      w0, with the ONE member the edit x names replaced ([ProofsTamper.edit_doc] is a function on JSON trees:
      crypto.ciphertext, crypto.mac, crypto.kdfparams.salt / n / r / p / c / dklen; every other member,
      the metadata, the member order as they were).  No decoder appears in the hypotheses. *)
From FFS Require Keystore.ProofsTamper.

(* Any constructor, password, key, random stream, Metadata() assignments meeting the round-trip guard; x
   any edit other than of the MAC, numbers any int64; the edited parameters within the allocation cap of
   scrypt.Key (128*n*r <= 2^48, see C07_read_never_panics); pw2 ANY password.  The edited document -- and
   any bytes that lex to it -- is refused WITH AN ERROR (not a key, not a panic) unless the MAC input it
   leads to, DK(pw2, edited kdfparams)[16..32] ++ edited ciphertext, has the same digest as the MAC input of
   the file as created.  With an edit that changes nothing (C07_created_tamper_nonvacuous, 5th conjunct)
   this is the wrong-password clause for the created file itself.  Nothing is assumed about the hash. *)
Theorem C07_created_tamper_rejected :
  forall (P : prims), crypto_laws P ->
  forall (c : creation) (rnd : bytes) (w : wallet) (rest : bytes) (extras : list (bytes * json))
         (x : ProofsTamper.tamper) (pw2 : bytes),
    create P c rnd = Ok (w, rest) -> Forall (extra_ok P) extras ->
    let w0 := assign_all w extras in
    let kp' := ProofsTamper.tamper_kdf (w_kdfparams w0) x in
    let ct' := cc_ciphertext (ProofsTamper.tamper_cc (w_crypto w0) x) in
    (forall m, x <> ProofsTamper.TMac m) -> ProofsTamper.tamper_ints x -> ReadTypes.kdf_cost_capped kp' = true ->
    hash P (skipn 16 (ProofsReferee.dk_of P kp' pw2) ++ ct') <> hash P (mac_key P w0 (pw_of c) ++ cc_ciphertext (w_crypto w0)) ->
    (exists e, read_wallet_tree P (ProofsTamper.edit_doc x (JSON_tree w0)) pw2 = Err e) /\
    (forall data, json_parse P data = Some (ProofsTamper.edit_doc x (JSON_tree w0)) -> exists e, ReadWalletFile P data pw2 = Err e).
Proof. exact ProofsTamper.created_doc_tamper_rejected. Qed.
Print Assumptions C07_created_tamper_rejected.

(* The MAC member changed to anything else, password as created: refused unconditionally. *)
Theorem C07_created_mac_tamper_rejected :
  forall (P : prims), crypto_laws P ->
  forall (c : creation) (rnd : bytes) (w : wallet) (rest : bytes) (extras : list (bytes * json)) (m : bytes),
    create P c rnd = Ok (w, rest) -> Forall (extra_ok P) extras ->
    let w0 := assign_all w extras in
    m <> cc_mac (w_crypto w0) ->
    (exists e, read_wallet_tree P (ProofsTamper.edit_doc (ProofsTamper.TMac m) (JSON_tree w0)) (pw_of c) = Err e) /\
    (forall data, json_parse P data = Some (ProofsTamper.edit_doc (ProofsTamper.TMac m) (JSON_tree w0)) ->
                  exists e, ReadWalletFile P data (pw_of c) = Err e).
Proof. exact ProofsTamper.created_doc_mac_tamper_rejected. Qed.
Print Assumptions C07_created_mac_tamper_rejected.

(* The edit on the tree is the edit on the wallet: JSON() of the wallet with that one field replaced IS the
   edited document (so the decoded content of the edited document is not a separate assumption). *)
Theorem C07_edit_doc_is_field_edit :
  forall (w : wallet) (x : ProofsTamper.tamper),
    ProofsTamper.edit_doc x (JSON_tree w) = JSON_tree (ProofsTamper.tamper_wallet w x).
Proof. exact ProofsTamper.edit_doc_marshalled. Qed.
Print Assumptions C07_edit_doc_is_field_edit.

(* Files produced elsewhere: (t, pw) was accepted -- a scrypt or PBKDF2 file, strictly or leniently
   formed -- and gave w0; JSON() of w0 with one member edited (MAC included) is refused with an error
   whenever the edited fields do not satisfy the MAC equation for pw2.  Guard: no metadata key of w0
   (= unknown top-level member of t) is a case variant of id / version / crypto. *)
Theorem C07_read_tamper_rejected :
  forall (P : prims), TotalProofs6.uuid_parse_16 P ->
  forall (t : json) (pw : bytes) (w0 : wallet) (x : ProofsTamper.tamper) (pw2 : bytes),
    read_wallet_tree P t pw = Ok w0 -> ProofsRead.exact_names ProofsRead.top_fields (w_metadata w0) = true ->
    let kp' := ProofsTamper.tamper_kdf (w_kdfparams w0) x in
    let cc' := ProofsTamper.tamper_cc (w_crypto w0) x in
    ProofsTamper.tamper_ints x -> ReadTypes.kdf_cost_capped kp' = true ->
    hash P (skipn 16 (ProofsReferee.dk_of P kp' pw2) ++ cc_ciphertext cc') <> cc_mac cc' ->
    exists e, read_wallet_tree P (ProofsTamper.edit_doc x (JSON_tree w0)) pw2 = Err e.
Proof. exact ProofsTamper.read_doc_tamper_rejected. Qed.
Print Assumptions C07_read_tamper_rejected.

(* The lemma underneath, for any wallet that marshals strictly (constructors, ReadWalletFile): whatever the
   read path accepts from JSON_tree w satisfies the MAC equation on the FIELDS OF w. *)
Theorem C07_marshalled_read_mac :
  forall (P : prims) (w : wallet) (pw : bytes) (w2 : wallet),
    ProofsTamper.strict_wallet w -> read_wallet_tree P (JSON_tree w) pw = Ok w2 ->
    hash P (skipn 16 (ProofsReferee.dk_of P (w_kdfparams w) pw) ++ cc_ciphertext (w_crypto w)) = cc_mac (w_crypto w).
Proof. exact ProofsTamper.marshalled_read_mac. Qed.
Print Assumptions C07_marshalled_read_mac.

(* Non-vacuity ([ProofsTamper.toy_mix]: the toy primitives with a scrypt whose second half depends on N, r,
   p, password and salt; satisfies crypto_laws): a standard-preset file with one metadata assignment is
   created and read back; ciphertext / salt with the first byte changed, n = 2048, r = 4, p = 2 -- each
   edited document meets the cap and the digest hypothesis under the original password and is refused; the
   unedited document under another password likewise; a changed MAC is refused. *)
Example C07_created_tamper_nonvacuous :
  crypto_laws ProofsTamper.toy_mix /\
  match create ProofsTamper.toy_mix ProofsTamper.nv_c (repeat x2a 64) with
  | Ok (w, _) =>
      let w0 := assign_all w [(ascii_bytes "note", JStr (ascii_bytes "x"))] in
      Forall (extra_ok ProofsTamper.toy_mix) [(ascii_bytes "note", JStr (ascii_bytes "x"))] /\
      is_ok (read_wallet_tree ProofsTamper.toy_mix (JSON_tree w0) [x70; x77]) = true /\
      forallb (ProofsTamper.nv_check w0 [x70; x77]) (ProofsTamper.nv_edits w0) = true /\
      ProofsTamper.nv_check w0 [x70] (ProofsTamper.TCiphertext (cc_ciphertext (w_crypto w0))) = true /\
      ProofsTamper.edit_doc (ProofsTamper.TCiphertext (cc_ciphertext (w_crypto w0))) (JSON_tree w0) = JSON_tree w0 /\
      is_err (read_wallet_tree ProofsTamper.toy_mix (ProofsTamper.edit_doc (ProofsTamper.TMac (repeat x00 32)) (JSON_tree w0)) [x70; x77]) = true /\
      bytes_eqb (repeat x00 32) (cc_mac (w_crypto w0)) = false
  | _ => False
  end.
Proof. exact ProofsTamper.created_tamper_nonvacuous. Qed.

(* 9. (wave 6) The guard [nums_ok] of C07_read_is_standard exercised, and shown necessary.  [ProofsNums.toy_num]
      = the toy primitives with a number conversion that refuses literals longer than 8 characters (standing
      for "does not fit a float64", e.g. 1e999); it satisfies the laws of theorem 3.  A created file with a small
      extra number meets every guard and is read; with a refused number it is still decrypted by the
      specification, unambiguous and within the cap, fails nums_ok -- and the read path refuses it. *)
From FFS Require Keystore.ProofsNums.
Example C07_nums_guard_exercised :
  crypto_laws ProofsNums.toy_num /\ uuid_accepts_text ProofsNums.toy_num /\
  let pw := [x70; x77] in
  match create ProofsNums.toy_num (MkStandard pw {| kp_private := repeat x07 32; kp_address := repeat x0a 20 |}) (repeat x2a 64) with
  | Ok (w, _) =>
      let good := JSON_tree (assign_all w [(ascii_bytes "n", JNum (ascii_bytes "5"))]) in
      let bad := JSON_tree (assign_all w [(ascii_bytes "n", JNum (ascii_bytes "123456789012"))]) in
      nums_ok ProofsNums.toy_num good = true /\ is_ok (v3_decrypt ProofsNums.toy_num good pw) = true /\
      is_ok (read_wallet_tree ProofsNums.toy_num good pw) = true /\
      nums_ok ProofsNums.toy_num bad = false /\ is_ok (v3_decrypt ProofsNums.toy_num bad pw) = true /\ unambiguous bad = true /\
      ReadTypes.doc_alloc_ok bad = true /\ is_err (read_wallet_tree ProofsNums.toy_num bad pw) = true
  | _ => False
  end.
Proof.
  split; [exact ProofsNums.toy_num_crypto_laws|]. split; [exact ProofsNums.toy_num_uuid_accepts_text|].
  exact ProofsNums.nums_guard_exercised.
Qed.
