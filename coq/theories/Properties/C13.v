(* C13 -- ABI type strings are accepted exactly when valid, and normalise idempotently.
   Statements only; proofs live in AbiType/Proofs*.v.

   Reading guide.  [Validate : param -> res tcomp] is the model of abi.Parameter.Validate /
   TypeComponentTree (AbiType/Model.v, elementary table from Gen/AbiConsts.v); a [param] is an ABI JSON
   parameter object: type text (ANY byte string) + components (ANY tree).  [ty], [wf_ty] are the shared
   spec types (Abi/Types.v); [spelling t s comps], [canonical t], [dec], [valid_type] the grammar of
   AbiType/Spec.v ([valid_type t = wf_ty t && dims_ok t]; [dims_ok]: fixed array dimensions < 2^32, the
   stated implementation limit).  [ty_of : tcomp -> option ty] (AbiType/Abs.v) reads a type component
   tree as a spec type -- the "tc ~ t" of the property; [normalise tc] is the parameter object that
   spells tc in normal form. *)
From Coq Require Import String.
From Coq Require Import List NArith Bool Arith.
From Coq Require Import Init.Byte.
From FFS Require Import Base.Res Base.Bytes Abi.Types AbiType.Syntax AbiType.Spec AbiType.Model AbiType.Abs
  AbiType.ProofsDec AbiType.ProofsMain AbiType.Run AbiType.ProofsOracle
  AbiType.ProofsArr AbiType.ProofsDims AbiType.ProofsNormal AbiType.ModelSig AbiType.ProofsSig
  AbiType.ModelCache AbiType.ProofsCache
  AbiType.ModelCacheEntry AbiType.ProofsCacheEntry
  AbiType.ProofsReferee AbiType.ModelNil AbiType.ProofsNil AbiType.ModelIdx AbiType.ProofsIdx
  AbiType.ProofsDimsAll AbiType.ModelRune AbiType.ProofsRune AbiType.ProofsRuneEnc AbiType.RunRune.
Import ListNotations.

(* 1. Validation never panics (and the model never runs out of fuel): any bytes as type text, any
      component tree; likewise the signature string and whole-ABI validation. *)
Theorem C13_total :
  (forall p : param, Validate p <> Panic /\ Validate p <> Err EOutOfFuel) /\
  (forall p : param, SignatureString p <> Panic /\ SignatureString p <> Err EOutOfFuel) /\
  (forall a : list entry, ABIValidate a <> Panic /\ ABIValidate a <> Err EOutOfFuel).
Proof. split; [exact validate_total|]. split; [exact signature_total|exact abi_validate_total]. Qed.
Print Assumptions C13_total.

(* 2. A type text (with its components) is accepted as the type t exactly when t is a valid type of
      the grammar and the text is one of its spellings. *)
Theorem C13_accept_iff_grammar :
  forall (s : bytes) (comps : list param) (t : ty),
    (exists tc, Validate (Param s comps) = Ok tc /\ ty_of tc = Some t) <->
    (valid_type t = true /\ spelling t s comps).
Proof. exact accept_iff_grammar_ty. Qed.
Print Assumptions C13_accept_iff_grammar.

(* 2b. Everything accepted is read as some valid type that the input spells ... *)
Theorem C13_accepted_is_typed :
  forall p tc, Validate p = Ok tc ->
    exists t, ty_of tc = Some t /\ valid_type t = true /\ spelling t (p_type p) (p_comps p).
Proof. exact accepted_is_typed. Qed.
Print Assumptions C13_accepted_is_typed.

(* 2c. ... and an error is reported exactly for the inputs that spell no valid type. *)
Theorem C13_reject_iff_not_grammar :
  forall s comps,
    (exists e, Validate (Param s comps) = Err e) <->
    ~ (exists t, valid_type t = true /\ spelling t s comps).
Proof. exact reject_iff_not_grammar. Qed.
Print Assumptions C13_reject_iff_not_grammar.

(* 3. The rendered signature of an accepted type is its canonical spelling. *)
Theorem C13_render_canonical :
  forall p tc t, Validate p = Ok tc -> ty_of tc = Some t ->
    tc_string tc = Ok (canonical t) /\ SignatureString p = Ok (canonical t).
Proof. exact render_canonical. Qed.
Print Assumptions C13_render_canonical.

(* 4. Normalisation is idempotent: the normal form of an accepted type parses to the identical type
      component tree and renders to the same signature.  (For tuples the normal form is "tuple" +
      dimensions with normalised components, since "(a,b)" is a rendering, not an input spelling.) *)
Theorem C13_reparse_idempotent :
  forall p tc, Validate p = Ok tc ->
    exists p', normalise tc = Ok p' /\ Validate p' = Ok tc /\ SignatureString p' = SignatureString p.
Proof. exact reparse_idempotent. Qed.
Print Assumptions C13_reparse_idempotent.

(* 4b. Without tuples, the rendered signature itself parses back to the identical tree (whatever the
      components). *)
Theorem C13_reparse_signature :
  forall p tc, Validate p = Ok tc -> tuple_free tc = true ->
    exists sig, tc_string tc = Ok sig /\ forall comps', Validate (Param sig comps') = Ok tc.
Proof. exact reparse_signature_tuple_free. Qed.
Print Assumptions C13_reparse_signature.

(* 5. The numerals of the grammar are canonical decimal: [dec n] is the one digit string without
      leading zeros whose value is n (so "008", "+8", " 8" spell nothing). *)
Theorem C13_numerals_canonical :
  forall n s, is_dec n s <-> s = dec n.
Proof. exact is_dec_iff. Qed.
Print Assumptions C13_numerals_canonical.

(* 6. The recogniser that the correspondence check uses as its oracle on the implementation's answers
      (AbiType/Run.v: [recognise leaf_table], written from the grammar: split at the first '[', dimensions,
      base looked up in the table of all 5 225 leaf spellings or "tuple" + components) decides the grammar. *)
Theorem C13_oracle_decides_grammar :
  forall p t, recognise leaf_table p = Some t <->
              valid_type t = true /\ spelling t (p_type p) (p_comps p).
Proof. exact recognise_correct. Qed.
Print Assumptions C13_oracle_decides_grammar.

(* 7. Array dimensions, exactly.  For ANY accepted element text s (any type, any spelling) and ANY bytes
      between a trailing '[' and ']' (without ']'): the extended text is accepted exactly when the bytes are
      empty (dynamic array of the element's tree) or the canonical numeral of some k < 2^32 (fixed array of
      length k).  [no_byte c s]: the byte c does not occur in s. *)
Theorem C13_dimension_exact :
  forall (s : bytes) (comps : list param) (tc : tcomp) (body : bytes) (tc' : tcomp),
    Validate (Param s comps) = Ok tc -> no_byte ch_rbrack body ->
    (Validate (Param (s ++ ch_lbrack :: body ++ [ch_rbrack]) comps) = Ok tc' <->
     (body = [] /\ tc' = CDynArr tc) \/
     (exists k, (k < 2 ^ 32)%N /\ body = dec k /\ tc' = CFixedArr tc k)).
Proof. exact dimension_exact. Qed.
Print Assumptions C13_dimension_exact.

(* 7b. The 32-bit limit is sharp at every accepted element text: "[k]" is accepted iff k < 2^32, and from
      2^32 on an error is reported (no panic, no wrap-around to a small length). *)
Theorem C13_dimension_limit :
  forall (s : bytes) (comps : list param) (tc : tcomp) (k : N),
    Validate (Param s comps) = Ok tc ->
    let p := Param (s ++ T "[" ++ dec k ++ T "]") comps in
    ((k < 2 ^ 32)%N -> Validate p = Ok (CFixedArr tc k)) /\
    ((2 ^ 32 <= k)%N -> exists e, Validate p = Err e /\ e <> EOutOfFuel).
Proof. exact dimension_limit. Qed.
Print Assumptions C13_dimension_limit.

(* 7c. A dimension never rescues a refused element text. *)
Theorem C13_dimension_needs_element :
  forall s comps body tc', no_byte ch_rbrack body ->
    Validate (Param (s ++ ch_lbrack :: body ++ [ch_rbrack]) comps) = Ok tc' ->
    exists tc, Validate (Param s comps) = Ok tc.
Proof. exact dimension_needs_element. Qed.
Print Assumptions C13_dimension_needs_element.

(* 8. The normal form through the tuple / components path.  [canonical_param t] (AbiType/ProofsNormal.v) is
      written from the grammar: canonical text for a leaf, one more dimension for an array, "tuple" with the
      canonical objects of the members as components.  The normal form computed from the tree of ANY accepted
      parameter is that object: it depends on the type only, not on the spelling used. *)
Theorem C13_normal_form_canonical :
  forall p tc t, Validate p = Ok tc -> ty_of tc = Some t -> normalise tc = Ok (canonical_param t).
Proof. exact normal_form_canonical. Qed.
Print Assumptions C13_normal_form_canonical.

(* 8b. Normalisation is idempotent at every depth: the normal form is accepted with the identical tree,
      normalising what it parses to gives the same object again, and two accepted parameters of the same
      type have the same normal form. *)
Theorem C13_normalise_idempotent :
  forall p tc p', Validate p = Ok tc -> normalise tc = Ok p' ->
    Validate p' = Ok tc /\
    (forall tc'', Validate p' = Ok tc'' -> normalise tc'' = Ok p') /\
    (forall q tcq, Validate q = Ok tcq -> ty_of tcq = ty_of tc -> normalise tcq = Ok p').
Proof. exact normalise_idempotent. Qed.
Print Assumptions C13_normalise_idempotent.

(* 8c. The components of the normal form of a tuple are the normal forms of its members, in order. *)
Theorem C13_normal_form_members :
  forall p l cs, Validate p = Ok (CTuple cs) -> ty_of (CTuple cs) = Some (TTuple l) ->
    exists ps, normalise (CTuple cs) = Ok (Param (T "tuple") ps) /\
               Forall2 (fun c q => normalise c = Ok q) cs ps /\ ps = map canonical_param l.
Proof. exact normal_form_members. Qed.
Print Assumptions C13_normal_form_members.

(* 8d. The canonical parameter object of every valid type is accepted as that type and renders as the
      canonical signature. *)
Theorem C13_canonical_param_accepted :
  forall t, valid_type t = true ->
    exists tc, Validate (canonical_param t) = Ok tc /\ ty_of tc = Some t /\ tc_of t = Some tc /\
               SignatureString (canonical_param t) = Ok (canonical t).
Proof. exact canonical_param_accepted. Qed.
Print Assumptions C13_canonical_param_accepted.

(* 9. Parameter LISTS end to end (AbiType/ModelSig.v: ParameterArray.TypeComponentTree, Entry.Signature).
      The list view is the parse of the tuple of the parameters ... *)
Theorem C13_param_array_is_tuple :
  forall pa, ParameterArrayTree pa = Validate (Param (T "tuple") pa).
Proof. exact param_array_tree_is_tuple. Qed.
Print Assumptions C13_param_array_is_tuple.

(* 9b. ... the signature is produced exactly when every input spells a valid type ([members ts inputs]:
      input i is a spelling of ts_i), and is then the entry's name followed by the canonical spelling of the
      tuple of those types; otherwise an error is reported; never a panic. *)
Theorem C13_entry_signature :
  forall (name : bytes) (inputs : list param),
    (forall ts, forallb valid_type ts = true -> members ts inputs ->
       EntrySignature name inputs = Ok (name ++ canonical (TTuple ts))) /\
    (forall sig, EntrySignature name inputs = Ok sig ->
       exists ts, forallb valid_type ts = true /\ members ts inputs /\ sig = name ++ canonical (TTuple ts)) /\
    ((exists e, EntrySignature name inputs = Err e) <->
     ~ (exists ts, forallb valid_type ts = true /\ members ts inputs)) /\
    EntrySignature name inputs <> Panic /\ EntrySignature name inputs <> Err EOutOfFuel.
Proof.
  intros name inputs.
  split; [intros ts V M; exact (proj1 (entry_signature_accept name inputs ts V M))|].
  split; [exact (entry_signature_sound name inputs)|].
  split; [exact (entry_signature_reject name inputs)|exact (entry_signature_total name inputs)].
Qed.
Print Assumptions C13_entry_signature.

(* 10. Definitions that change after use (AbiType/ModelCache.v: a parameter OBJECT = definition + the
      unexported cache, with ARBITRARY cache contents at every depth, i.e. any history of earlier uses,
      by-value copies, slice copies).  The parser never looks at a cache ... *)
Theorem C13_parser_ignores_caches :
  forall o : pobj, parseObj false o = Validate (erase o).
Proof. exact parseObj_pure. Qed.
Print Assumptions C13_parser_ignores_caches.

(* 10b. ... so Validate on an edited object answers for its CURRENT definition, and leaves the cache holding
      exactly that tree -- or nothing when it refuses (no stale tree after a refused re-validation) ... *)
Theorem C13_validate_after_edit :
  forall o : pobj,
    let (o', r) := ValidateObj o in
    r = Validate (erase o) /\ erase o' = erase o /\
    o_parsed o' = match Validate (erase o) with Ok tc => Some tc | _ => None end.
Proof. exact validate_obj_pure. Qed.
Print Assumptions C13_validate_after_edit.

(* 10c. ... TypeComponentTree after that Validate serves the current definition, repeatedly; and a list whose
      top-level parameters were validated again has the list view of the current definitions. *)
Theorem C13_tree_after_validate :
  (forall o : pobj,
     let o1 := fst (ValidateObj o) in
     snd (TreeObj o1) = Validate (erase o) /\
     snd (TreeObj (fst (TreeObj o1))) = Validate (erase o) /\
     erase (fst (TreeObj o1)) = erase o) /\
  (forall pa : list pobj,
     ParameterArrayTreeObj (map (fun o => fst (ValidateObj o)) pa) = ParameterArrayTree (map erase pa)).
Proof. split; [exact tree_after_validate|exact param_array_after_validate]. Qed.
Print Assumptions C13_tree_after_validate.

(* 10d. What is NOT promised, by witness: without the Validate the old tree is served (the documented
      behaviour of the API); and a parser that takes the members' cached trees (seed C02-4) answers for a
      definition the member no longer has. *)
Theorem C13_stale_refuted :
  (snd (TreeObj ex_stale) <> Validate (erase ex_stale) /\
   snd (TreeObj (fst (ValidateObj ex_stale))) = Validate (erase ex_stale)) /\
  (parseObj true ex_member_edited <> Validate (erase ex_member_edited) /\
   parseObj false ex_member_edited = Validate (erase ex_member_edited)).
Proof. split; [exact tree_without_validate_is_stale|exact member_cache_refuted]. Qed.
Print Assumptions C13_stale_refuted.

(* ---------- non-vacuity ---------- *)
Definition ex_param : param :=
  Param (T "tuple[2][]") [Param (T "uint") []; Param (T "fixed128x18[3]") [];
                          Param (T "tuple") [Param (T "bytes32") []; Param (T "string[]") [Param (T "junk") []]]].
Definition ex_ty : ty :=
  TDynArr (TFixedArr (TTuple [TUInt 256; TFixedArr (TFixed 128 18) 3; TTuple [TBytesN 32; TDynArr TString]]) 2).

Example C13_nonvacuous_accept :
  exists tc, Validate ex_param = Ok tc /\ ty_of tc = Some ex_ty /\ valid_type ex_ty = true /\
             tuple_free tc = false /\
             SignatureString ex_param = Ok (T "(uint256,fixed128x18[3],(bytes32,string[]))[2][]").
Proof. eexists. split; [vm_compute; reflexivity|]. repeat split; vm_compute; reflexivity. Qed.

Example C13_nonvacuous_grammar :
  valid_type (TFixedArr (TUInt 256) 7) = true /\ spelling (TFixedArr (TUInt 256) 7) (T "uint[7]") [].
Proof.
  split; [reflexivity|]. cbn [spelling]. exists (T "uint"). split; [right; split; reflexivity|].
  vm_compute. reflexivity.
Qed.

Example C13_nonvacuous_tuple_free :
  exists tc, Validate (Param (T "ufixed[4294967295][]") []) = Ok tc /\ tuple_free tc = true /\
             tc_string tc = Ok (T "ufixed128x18[4294967295][]").
Proof. eexists. split; [vm_compute; reflexivity|]. split; vm_compute; reflexivity. Qed.

Example C13_nonvacuous_oracle : exists t, recognise leaf_table ex_param = Some t /\ t = ex_ty.
Proof. eexists. split; [vm_compute; reflexivity|reflexivity]. Qed.

(* the former defects D13a / D13b and the other malformed classes of the quantifier are rejected *)
Example C13_nonvacuous_reject :
  forallb (fun s => is_err (Validate (Param (T s) [Param (T "uint8") []])))
    ["uint008"; "bytes01"; "fixed128x018"; "uint256[007]"; "tuple7"; "tuple7[2]"; "uint0"; "uint7"; "uint264";
     "uint65536"; "bytes0"; "bytes33"; "fixed8x81"; "fixed8x0"; "uint+8"; "uint 8"; "Uint8"; "uint8[";
     "uint8[-1]"; "uint8[4294967296]"; "uint8[x]"; "address1"; "string32"; ""; "(uint8)"]%string = true.
Proof. vm_compute. reflexivity. Qed.

(* dimensions: the limit on a tuple element with an alias spelling inside *)
Example C13_nonvacuous_dimension :
  exists tc, Validate ex_param = Ok tc /\
    Validate (Param (p_type ex_param ++ T "[4294967295]") (p_comps ex_param)) = Ok (CFixedArr tc 4294967295) /\
    is_err (Validate (Param (p_type ex_param ++ T "[4294967296]") (p_comps ex_param))) = true /\
    is_err (Validate (Param (p_type ex_param ++ T "[007]") (p_comps ex_param))) = true /\
    no_byte ch_rbrack (T "4294967295").
Proof.
  eexists. split; [vm_compute; reflexivity|]. split; [vm_compute; reflexivity|].
  split; [vm_compute; reflexivity|]. split; [vm_compute; reflexivity|].
  repeat (constructor; [reflexivity|]). constructor.
Qed.

(* normal form: aliases resolved in the components, "junk" components of a leaf dropped; a fixed point *)
Example C13_nonvacuous_normal_form :
  canonical_param ex_ty =
    Param (T "tuple[2][]") [Param (T "uint256") []; Param (T "fixed128x18[3]") [];
                            Param (T "tuple") [Param (T "bytes32") []; Param (T "string[]") []]] /\
  canonical_param ex_ty <> ex_param /\
  exists tc, Validate ex_param = Ok tc /\ normalise tc = Ok (canonical_param ex_ty) /\
             Validate (canonical_param ex_ty) = Ok tc.
Proof.
  split; [vm_compute; reflexivity|]. split; [vm_compute; discriminate|].
  eexists. split; [vm_compute; reflexivity|]. split; vm_compute; reflexivity.
Qed.

(* lists: a signature with a tuple input, and a refused one *)
Example C13_nonvacuous_signature :
  EntrySignature (T "transfer") [Param (T "address") []; ex_param] =
    Ok (T "transfer(address,(uint256,fixed128x18[3],(bytes32,string[]))[2][])") /\
  members [TAddress; ex_ty] [Param (T "address") []; ex_param] /\
  is_err (EntrySignature (T "transfer") [Param (T "address") []; Param (T "uint008") []]) = true /\
  EntrySignature (T "f") [] = Ok (T "f()").
Proof.
  split; [vm_compute; reflexivity|]. split.
  - cbn [members]. split; [reflexivity|]. split; [|exact I].
    apply (proj1 (C13_oracle_decides_grammar ex_param ex_ty)). vm_compute. reflexivity.
  - split; vm_compute; reflexivity.
Qed.

(* objects with a history: caches that belong to other definitions at two depths; Validate answers for the
   current one *)
Example C13_nonvacuous_edit :
  exists stale_u256 stale_tuple tc,
    Validate (Param (T "uint256") []) = Ok stale_u256 /\
    Validate (Param (T "tuple") [Param (T "bool") []]) = Ok stale_tuple /\
    let o := PObj (T "tuple[2]") [PObj (T "uint8") [] (Some stale_u256); PObj (T "string") [] None] (Some stale_tuple) in
    ValidateObj o = (set_parsed o (Some tc), Ok tc) /\
    tc_string tc = Ok (T "(uint8,string)[2]") /\
    snd (TreeObj o) = Ok stale_tuple.
Proof.
  eexists. eexists. eexists. split; [vm_compute; reflexivity|]. split; [vm_compute; reflexivity|].
  cbv zeta. split; [vm_compute; reflexivity|]. split; vm_compute; reflexivity.
Qed.

(* ====================================================================================================
   Answers to the referee report (design/reviews/C13.md); see design/C13.md "Referee report and answers".
   ==================================================================================================== *)

(* 11. (I5) Whole ABI documents.  [abi_params a]: every parameter of the document in the order ABI.Validate
      visits them (entries in order, inputs before outputs).  Validation succeeds exactly when every one of
      them is accepted, i.e. spells a valid type of the grammar ... *)
Theorem C13_abi_validate_accept_iff :
  forall a : list entry,
    (ABIValidate a = Ok tt <-> Forall accepted (abi_params a)) /\
    (ABIValidate a = Ok tt <-> Forall in_grammar (abi_params a)).
Proof. exact abi_validate_accept_iff. Qed.
Print Assumptions C13_abi_validate_accept_iff.

(* 11b. ... and otherwise reports the error of the FIRST refused parameter in that order (never a panic, never
      out of fuel); Entry.Validate is the same over its own parameters. *)
Theorem C13_abi_validate_first_error :
  (forall a : list entry,
     (forall e, ABIValidate a = Err e <->
        exists pre p post, abi_params a = pre ++ p :: post /\ Forall accepted pre /\ Validate p = Err e) /\
     (ABIValidate a = Ok tt \/ exists e, ABIValidate a = Err e /\ e <> EOutOfFuel)) /\
  (forall e : entry, EntryValidate e = ABIValidate [e]) /\
  (forall p : param, accepted p <-> in_grammar p).
Proof.
  split; [exact abi_validate_first_error|]. split; [|exact accepted_iff_grammar].
  intros e. cbn [ABIValidate]. destruct (EntryValidate e) as [[]| |]; reflexivity.
Qed.
Print Assumptions C13_abi_validate_first_error.

(* 12. (I3) The last clause of the property read LITERALLY -- "parsing the rendered signature again yields the
      same tree" -- is FALSE for every type with a tuple on its array spine: the signature starts with '(' and
      is refused as a type text, whatever the components.  (4b is the tuple-free half; 4 / 8 use the normal
      form instead.) *)
Theorem C13_reparse_signature_tuple_refused :
  forall tc, tuple_free tc = false ->
    exists sig, tc_string tc = Ok sig /\ forall comps, Validate (Param sig comps) = Err EUnsupportedType.
Proof. exact reparse_signature_tuple_refused. Qed.
Print Assumptions C13_reparse_signature_tuple_refused.

(* 12b. Both halves: for an accepted type the rendered signature re-parses to the identical tree exactly when
      the type is tuple-free, and is refused exactly when it is not. *)
Theorem C13_reparse_signature_iff :
  forall p tc, Validate p = Ok tc ->
    exists sig, tc_string tc = Ok sig /\
      ((forall comps, Validate (Param sig comps) = Ok tc) <-> tuple_free tc = true) /\
      ((forall comps, Validate (Param sig comps) = Err EUnsupportedType) <-> tuple_free tc = false).
Proof. exact reparse_signature_iff. Qed.
Print Assumptions C13_reparse_signature_iff.

(* 13. (I2) Nil pointers (AbiType/ModelNil.v: components / list members may be a nil Parameter pointer, entries a
      nil Entry pointer, with the dereference explicit).  The objects without nil at any depth are exactly the
      images of the pure syntax, and on them the nullable model IS the pure model -- so clause 1 holds under
      the hypothesis "no nil at any depth", stated here ... *)
Theorem C13_nil_free_is_pure_model :
  (forall p : param, ValidateN (embed p) = Validate p) /\
  (forall a : list entry, ABIValidateN (map embed_entry a) = ABIValidate a) /\
  (forall q : nparam, nil_free q = true <-> exists p, q = embed p).
Proof. split; [exact parseN_embed|]. split; [exact abi_validateN_embed|exact nil_free_is_embed]. Qed.
Print Assumptions C13_nil_free_is_pure_model.

Theorem C13_nil_free_total :
  (forall q : nparam, nil_free q = true ->
     (exists p, q = embed p /\ ValidateN q = Validate p) /\
     ValidateN q <> Panic /\ ValidateN q <> Err EOutOfFuel) /\
  (forall a : list (option nentry), forallb nil_free_entry a = true ->
     (exists a', a = map embed_entry a' /\ ABIValidateN a = ABIValidate a') /\
     ABIValidateN a <> Panic /\ ABIValidateN a <> Err EOutOfFuel).
Proof. split; [exact validateN_nil_free|exact abi_validateN_nil_free]. Qed.
Print Assumptions C13_nil_free_total.

(* 13b. ... and the hypothesis cannot be dropped: a nil member reached by the member loop of a tuple, a nil
      parameter of an entry and a nil entry PANIC (as the Go code does; the harness runs these ten objects on
      the implementation every time); a nil that is not dereferenced does no harm. *)
Theorem C13_nil_refuted :
  (ValidateN NNil = Panic /\
   ValidateN (NParam (T "tuple") [NNil]) = Panic /\
   ValidateN (NParam (T "tuple[2]") [NParam (T "uint8") []; NParam (T "tuple") [NNil]]) = Panic /\
   ABIValidateN [None] = Panic /\
   ABIValidateN [Some (NEntry [NNil] [])] = Panic /\
   ABIValidateN [Some (NEntry [] [NParam (T "tuple") [NNil]])] = Panic) /\
  (is_ok (ValidateN (NParam (T "uint256") [NNil])) = true /\
   is_err (ValidateN (NParam (T "tuple7") [NNil])) = true /\
   is_err (ValidateN (NParam (T "tuple") [NParam (T "uint7") []; NNil])) = true /\
   is_err (ABIValidateN [Some (NEntry [NParam (T "uint7") []] []); None]) = true).
Proof. split; [exact nil_panics|exact nil_not_reached]. Qed.
Print Assumptions C13_nil_refuted.

(* 14. (I1) Every partial operation explicit (AbiType/ModelIdx.v: each index read s[pos] is a bounds-checked
      read, the remainder m % mMod panics on a zero divisor, slices as before; loop guards and short-circuits
      as in the Go source).  That transcription computes exactly the functions of Model.v, function by
      function and for the whole parser -- so the `<> Panic` of C13_total covers every index read, slice and
      remainder of the parser, not only the two slices Model.v keeps explicit. *)
Theorem C13_index_explicit_parser :
  (forall s pos, splitElementaryTypeSuffix_idx s pos = Ok (splitElementaryTypeSuffix s pos)) /\
  (forall et suffix, parseMSuffix_idx et suffix = parseMSuffix et suffix) /\
  (forall et suffix, parseMxNSuffix_idx et suffix = parseMxNSuffix et suffix) /\
  (forall fuel child suffix, parseArrays_idx fuel child suffix = parseArrays fuel child suffix) /\
  (forall p : param, parse_idx p = Validate p) /\
  (forall p : param, parse_idx p <> Panic /\ parse_idx p <> Err EOutOfFuel).
Proof.
  split; [exact splitElementaryTypeSuffix_idx_eq|]. split; [exact parseMSuffix_idx_eq|].
  split; [exact parseMxNSuffix_idx_eq|]. split; [exact parseArrays_idx_eq|].
  split; [exact parse_idx_eq|exact parse_idx_total].
Qed.
Print Assumptions C13_index_explicit_parser.

(* 14b. The partial operations of that transcription do panic when misused -- what the loop guards, the
      guard  pos >= len(suffix)-1  and the test  mMod != 0  prevent. *)
Theorem C13_partial_operations_can_panic :
  index (T "8") 1 = Panic /\
  mod_go 8 0 = Panic /\
  slice_from (T "8") (length (until ch_x (T "8")) + 1) = Panic /\
  match lookup_et (T "fixed") with
  | Some et => parseMxNSuffix_idx et (T "8") = Err EInvalidSuffix
  | None => False
  end.
Proof. exact idx_operations_can_panic. Qed.
Print Assumptions C13_partial_operations_can_panic.

(* ---------- non-vacuity of 11 - 14 and the gaps the referee listed ---------- *)

(* a document that is accepted, and one whose FIRST refused parameter (an output of the first entry) decides
   the error although a later entry is refused differently *)
Example C13_nonvacuous_abi :
  ABIValidate [Entry [Param (T "address") []; ex_param] [Param (T "bool") []]; Entry [] []] = Ok tt /\
  abi_params [Entry [Param (T "address") []] [Param (T "uint7") []]; Entry [Param (T "tuple7") []] []] =
    [Param (T "address") []; Param (T "uint7") []; Param (T "tuple7") []] /\
  ABIValidate [Entry [Param (T "address") []] [Param (T "uint7") []]; Entry [Param (T "tuple7") []] []] =
    Err EInvalidSuffix /\
  Validate (Param (T "uint7") []) = Err EInvalidSuffix /\
  Validate (Param (T "tuple7") []) = Err EUnsupportedSuffix.
Proof. repeat split; vm_compute; reflexivity. Qed.

(* the signature of ex_param (a tuple array) is refused as a type text *)
Example C13_nonvacuous_tuple_signature_refused :
  exists tc, Validate ex_param = Ok tc /\ tuple_free tc = false /\
    tc_string tc = Ok (T "(uint256,fixed128x18[3],(bytes32,string[]))[2][]") /\
    Validate (Param (T "(uint256,fixed128x18[3],(bytes32,string[]))[2][]") (p_comps ex_param)) =
      Err EUnsupportedType.
Proof. eexists. split; [vm_compute; reflexivity|]. repeat split; vm_compute; reflexivity. Qed.

(* C13_normal_form_members with a non-trivial top-level tuple (alias member, nested tuple) *)
Example C13_nonvacuous_normal_form_members :
  exists cs, Validate (Param (T "tuple") [Param (T "int") []; Param (T "tuple[]") [Param (T "ufixed") []]]) = Ok (CTuple cs) /\
    ty_of (CTuple cs) = Some (TTuple [TInt 256; TDynArr (TTuple [TUFixed 128 18])]) /\
    length cs = 2%nat /\
    map canonical_param [TInt 256; TDynArr (TTuple [TUFixed 128 18])] =
      [Param (T "int256") []; Param (T "tuple[]") [Param (T "ufixed128x18") []]].
Proof. eexists. split; [vm_compute; reflexivity|]. repeat split; vm_compute; reflexivity. Qed.

(* M out of range for fixed / ufixed (the reject list above had only N out of range) *)
Example C13_nonvacuous_reject_fixed_M :
  forallb (fun s => is_err (Validate (Param (T s) [])))
    ["fixed7x18"; "fixed264x18"; "fixed0x18"; "ufixed12x18"; "ufixed264x0"; "fixed256x81"; "fixed8"; "fixedx18"]%string = true /\
  forallb (fun s => is_ok (Validate (Param (T s) [])))
    ["fixed8x1"; "fixed256x80"; "ufixed8x80"; "ufixed256x1"]%string = true.
Proof. split; vm_compute; reflexivity. Qed.

(* 15. (I7) parseArrayM stores the length as  int(val) ; the model keeps it in N.  Every fixed length in an
      accepted tree is < 2^32, so the conversion is exact when Go's  int  has 64 bits (declared platform
      assumption, props/C13.json); it is not always < 2^31: with a 32-bit int the lengths 2^31 .. 2^32-1
      would wrap and clauses 4-5 would fail there.  [tc_lengths_lt b tc]: every fixed array length in tc,
      at every depth, is < b. *)
Theorem C13_array_lengths_fit_int :
  (forall p tc, Validate p = Ok tc -> tc_lengths_lt (2 ^ 32) tc = true) /\
  (exists tc, Validate (Param (T "uint8[2147483648]") []) = Ok tc /\ tc_lengths_lt (2 ^ 31) tc = false).
Proof. split; [exact accepted_lengths_fit_int64|exact accepted_lengths_exceed_int32]. Qed.
Print Assumptions C13_array_lengths_fit_int.

(* 16. (I4) Entry.Validate / Entry.Signature over parameter OBJECTS with a history (AbiType/ModelCacheEntry.v;
      both go through the caches in the Go code).  Entry.Validate answers as the pure Entry.Validate of the
      CURRENT definitions and keeps them; after a successful one, Entry.Signature and the list views of the
      inputs and of the outputs answer for the current definitions.  The loop validates a prefix and leaves
      the rest untouched.  (Like 10a-c these are statements about the MODEL's bookkeeping; that the Go code
      behaves so is what the edit sessions of the harness test.) *)
Theorem C13_entry_validate_after_edit :
  (forall (name : bytes) (i o : list pobj),
     let r := snd (EntryValidateObj i o) in
     let i' := fst (fst (EntryValidateObj i o)) in
     let o' := snd (fst (EntryValidateObj i o)) in
     r = EntryValidate (Entry (map erase i) (map erase o)) /\
     map erase i' = map erase i /\ map erase o' = map erase o /\
     (r = Ok tt ->
        EntrySignatureObj name i' = EntrySignature name (map erase i) /\
        ParameterArrayTreeObj i' = ParameterArrayTree (map erase i) /\
        ParameterArrayTreeObj o' = ParameterArrayTree (map erase o))) /\
  (forall l : list pobj,
     snd (validate_objs l) = validate_params (map erase l) /\
     map erase (fst (validate_objs l)) = map erase l /\
     (exists n, fst (validate_objs l) = map (fun o => fst (ValidateObj o)) (firstn n l) ++ skipn n l) /\
     (snd (validate_objs l) = Ok tt -> Forall fresh (fst (validate_objs l)))).
Proof. split; [exact entry_validate_obj_spec|exact validate_objs_spec]. Qed.
Print Assumptions C13_entry_validate_after_edit.

(* 16b. What is NOT promised, by witness: a REFUSED Entry.Validate returns at the first refused parameter; the
      outputs were not validated again and their list view still answers (successfully) for a definition
      they no longer have. *)
Theorem C13_entry_stale_refuted :
  let o' := snd (fst (EntryValidateObj ex_entry_inputs ex_entry_outputs)) in
  is_err (snd (EntryValidateObj ex_entry_inputs ex_entry_outputs)) = true /\
  o' = ex_entry_outputs /\
  ParameterArrayTreeObj o' <> ParameterArrayTree (map erase ex_entry_outputs) /\
  is_ok (ParameterArrayTreeObj o') = true /\ is_ok (ParameterArrayTree (map erase ex_entry_outputs)) = true.
Proof. exact entry_validate_refused_leaves_stale. Qed.
Print Assumptions C13_entry_stale_refuted.

(* objects with stale caches at two depths as inputs and outputs: accepted, signature for the current text *)
Example C13_nonvacuous_entry_edit :
  exists stale_u256,
    Validate (Param (T "uint256") []) = Ok stale_u256 /\
    let i := [PObj (T "tuple") [PObj (T "uint8") [] (Some stale_u256)] (Some stale_u256); PObj (T "bool") [] None] in
    let o := [PObj (T "string") [] (Some stale_u256)] in
    snd (EntryValidateObj i o) = Ok tt /\
    EntrySignatureObj (T "f") (fst (fst (EntryValidateObj i o))) = Ok (T "f((uint8),bool)") /\
    EntrySignatureObj (T "f") i = Ok (T "f(uint256,bool)").
Proof.
  eexists. split; [vm_compute; reflexivity|]. cbv zeta. repeat split; vm_compute; reflexivity.
Qed.

(* ====================================================================================================
   Wave 6 (design/C13.md "Wave 6").
   ==================================================================================================== *)

(* 17. Array dimensions WITHOUT the guard of 7 / 7c ("the body holds no ']'").  For ANY accepted element text s
      and ANY bytes r after an appended '[': the extended text is accepted exactly when "[" ++ r is the
      rendering of a list of well-formed dimensions ([dim] = option N: None is "[]", Some k is "[k]" in canonical
      decimal; [dim_ok]: k < 2^32), and the tree is the element's tree wrapped once per dimension, innermost
      first.  7 is the case of a one-element list. *)
Theorem C13_dimensions_exact :
  forall (s : bytes) (comps : list param) (tc : tcomp) (r : bytes) (tc' : tcomp),
    Validate (Param s comps) = Ok tc ->
    (Validate (Param (s ++ ch_lbrack :: r) comps) = Ok tc' <->
     exists ds, forallb dim_ok ds = true /\ ch_lbrack :: r = render_dims ds /\ tc' = wrap_tc tc ds).
Proof. exact dimensions_exact. Qed.
Print Assumptions C13_dimensions_exact.

(* 17b. Whatever follows a '[' never rescues a refused text before it (7c without its guard): an accepted text
      that continues with '[' has an accepted text before that '['; a refused one stays refused, with an
      error (no panic, not out of fuel). *)
Theorem C13_dimensions_need_element :
  (forall s comps r tc', Validate (Param (s ++ ch_lbrack :: r) comps) = Ok tc' ->
     exists tc, Validate (Param s comps) = Ok tc) /\
  (forall s comps r, (exists e, Validate (Param s comps) = Err e) ->
     exists e, Validate (Param (s ++ ch_lbrack :: r) comps) = Err e /\ e <> EOutOfFuel).
Proof. split; [exact dimensions_need_element|exact refused_stays_refused]. Qed.
Print Assumptions C13_dimensions_need_element.

(* 17c. Over dimension LISTS the answer is a function of the list: after an accepted text a rendered non-empty
      list is accepted (with the wrapped tree) when every dimension is below 2^32 and refused with an error
      when one of them, at any position, is not; and the rendering determines the list. *)
Theorem C13_dimension_lists :
  (forall s comps tc ds, Validate (Param s comps) = Ok tc -> forallb dim_ok ds = true ->
     Validate (Param (s ++ render_dims ds) comps) = Ok (wrap_tc tc ds)) /\
  (forall s comps tc ds, Validate (Param s comps) = Ok tc -> ds <> [] -> forallb dim_ok ds = false ->
     exists e, Validate (Param (s ++ render_dims ds) comps) = Err e /\ e <> EOutOfFuel) /\
  (forall ds ds', render_dims ds = render_dims ds' -> ds = ds').
Proof. split; [exact dimensions_intro|]. split; [exact dimensions_bad_refused|exact render_dims_inj]. Qed.
Print Assumptions C13_dimension_lists.

(* 18. The base-name scan as the Go source writes it -- over the RUNES of the type text, each accepted rune
      written back with WriteRune (AbiType/ModelRune.v: [decode_rune] transcribes utf8.DecodeRuneInString, the
      semantics of the range statement; [encode_rune] utf8.AppendRune; [etStr] the loop with fuel len(s)) --
      computes, for EVERY byte string (valid UTF-8 or not), the byte scan [take_lower] that the parser model
      uses; it never runs out of fuel.  This was a declared assumption before wave 6. *)
Theorem C13_rune_scan_is_byte_scan :
  (forall s : bytes, etStr s = Ok (take_lower s)) /\
  (forall f s, (length s <= f)%nat -> etStr_runes f s = Ok (take_lower s)) /\
  (forall b0 r, (128 <= b2n b0)%N ->
     let rn := fst (decode_rune (b0 :: r)) in ((97 <=? rn) && (rn <=? 122))%N = false).
Proof. split; [exact etStr_is_take_lower|]. split; [exact etStr_runes_eq|exact nonascii_never_lower]. Qed.
Print Assumptions C13_rune_scan_is_byte_scan.

(* 18b. The range statement over any byte string terminates within the fuel len(s), consumes exactly the
      string, advances 1..4 bytes at every step and yields Unicode scalar values only (no surrogates, nothing
      above U+10FFFF; overlong forms decode to RuneError).  The (rune, width) sequence is what the harness
      compares with the Go runtime on UTF-8 boundary strings (code 7). *)
Theorem C13_range_loop_total :
  forall s : bytes,
    exists l, runes s = Ok l /\ total_width l = length s /\
              Forall (fun rw => (1 <= snd rw <= 4)%nat /\ scalar_value (fst rw) = true) l.
Proof. exact runes_total. Qed.
Print Assumptions C13_range_loop_total.

(* 18c. The two transcriptions agree with each other: whatever the decoder accepts (every answer but
      (RuneError, 1)) is written back by WriteRune as the very bytes that were read. *)
Theorem C13_decode_encode_roundtrip :
  forall b0 r rn w, decode_rune (b0 :: r) = (rn, w) -> (rn, w) <> (rune_error, 1%nat) ->
    encode_rune rn = firstn w (b0 :: r).
Proof. exact decode_encode_roundtrip. Qed.
Print Assumptions C13_decode_encode_roundtrip.

(* ---------- non-vacuity of 17 - 18 ---------- *)

(* several dimensions at once after a tuple array with alias spellings inside: a body with ']' in it (outside
   the guard of 7), accepted; the same with one dimension at the limit, refused; junk after a ']' refused *)
Example C13_nonvacuous_dimensions :
  exists tc, Validate ex_param = Ok tc /\
    T "[2][][4294967295]" = render_dims [Some 2; None; Some 4294967295]%N /\
    ~ no_byte ch_rbrack (T "2][][4294967295") /\
    Validate (Param (p_type ex_param ++ T "[2][][4294967295]") (p_comps ex_param)) =
      Ok (CFixedArr (CDynArr (CFixedArr tc 2)) 4294967295) /\
    wrap_tc tc [Some 2; None; Some 4294967295]%N = CFixedArr (CDynArr (CFixedArr tc 2)) 4294967295 /\
    is_err (Validate (Param (p_type ex_param ++ T "[2][4294967296][]") (p_comps ex_param))) = true /\
    is_err (Validate (Param (p_type ex_param ++ T "[2]x[3]") (p_comps ex_param))) = true /\
    is_err (Validate (Param (T "uint7[2][3]") [])) = true.
Proof.
  eexists. split; [vm_compute; reflexivity|]. split; [vm_compute; reflexivity|]. split.
  { intros H. do 1 apply Forall_inv_tail in H. apply Forall_inv in H. vm_compute in H. discriminate. }
  repeat split; vm_compute; reflexivity.
Qed.

(* runes: "é" (C3 A9) after a base name stops the scan; an overlong 'a' (C1 A1), a surrogate (ED A0 80) and a
   truncated sequence decode to RuneError with width 1; U+10FFFF is the last scalar value *)
Example C13_nonvacuous_runes :
  etStr (T "uint" ++ [xc3; xa9] ++ T "a") = Ok (T "uint") /\
  runes (T "a" ++ [xc3; xa9]) = Ok [(97, 1%nat); (233, 2%nat)]%N /\
  runes [xc1; xa1] = Ok [(65533, 1%nat); (65533, 1%nat)]%N /\
  runes [xed; xa0; x80] = Ok [(65533, 1%nat); (65533, 1%nat); (65533, 1%nat)]%N /\
  runes [xe2; x82] = Ok [(65533, 1%nat); (65533, 1%nat)]%N /\
  runes [xf4; x8f; xbf; xbf] = Ok [(1114111, 4%nat)]%N /\
  runes [xf4; x90; x80; x80] = Ok [(65533, 1%nat); (65533, 1%nat); (65533, 1%nat); (65533, 1%nat)]%N /\
  decode_rune [xe2; x82; xac] = (8364, 3%nat)%N /\ encode_rune 8364 = [xe2; x82; xac] /\
  check_rcase (CRunes (Base.Lit.BLit "617a7b") [(97, 1); (122, 1); (123, 1)]%N (Base.Lit.BLit "617a")) = 0%N /\
  check_rcase (CRunes (Base.Lit.BLit "617a7b") [(97, 1); (122, 1); (123, 2)]%N (Base.Lit.BLit "617a")) = 7%N.
Proof. repeat split; vm_compute; reflexivity. Qed.
