(* C13 -- ABI type strings are accepted exactly when valid, and normalise idempotently.
   Statements only; proofs live in AbiType/Proofs*.v. *)
From Coq Require Import List NArith Bool Arith.
From Coq Require Import Init.Byte.
From FFS Require Import Base.Res Base.Bytes Abi.Types AbiType.Syntax AbiType.Spec AbiType.Model AbiType.Abs AbiType.Proofs.
Import ListNotations.

Theorem C13_empty_type_rejected : forall comps, Validate (Param [] comps) = Err EUnsupportedType.
Proof. exact empty_type_rejected. Qed.
Print Assumptions C13_empty_type_rejected.
