(* C13 -- ABI type strings are accepted exactly when valid, and normalise idempotently.
   Statements only; proofs live in AbiType/Proofs*.v.

   Reading guide.  [Validate : param -> res tcomp] is the model of abi.Parameter.Validate /
   TypeComponentTree (AbiType/Model.v, elementary table from Gen/AbiConsts.v); a [param] is an ABI JSON
   parameter object: type text (ANY byte string) + components (ANY tree).  [ty], [wf_ty] are the shared
   spec types (Abi/Types.v); [spelling t s comps], [canonical t], [dec], [valid_type] the grammar of
   AbiType/Spec.v ([valid_type t = wf_ty t && dims_ok t]; [dims_ok]: fixed array dimensions < 2^32, the
   stated implementation limit).  [ty_of : tcomp -> option ty] (AbiType/Abs.v) reads a type component
   tree as a spec type -- the "tc ~ t" of the property; [normalise tc] is the parameter object that
   spells tc in normal form. *)
From Coq Require Import String.
From Coq Require Import List NArith Bool Arith.
From Coq Require Import Init.Byte.
From FFS Require Import Base.Res Base.Bytes Abi.Types AbiType.Syntax AbiType.Spec AbiType.Model AbiType.Abs
  AbiType.ProofsDec AbiType.ProofsMain AbiType.Run AbiType.ProofsOracle.
Import ListNotations.

(* 1. Validation never panics (and the model never runs out of fuel): any bytes as type text, any
      component tree; likewise the signature string and whole-ABI validation. *)
Theorem C13_total :
  (forall p : param, Validate p <> Panic /\ Validate p <> Err EOutOfFuel) /\
  (forall p : param, SignatureString p <> Panic /\ SignatureString p <> Err EOutOfFuel) /\
  (forall a : list entry, ABIValidate a <> Panic /\ ABIValidate a <> Err EOutOfFuel).
Proof. split; [exact validate_total|]. split; [exact signature_total|exact abi_validate_total]. Qed.
Print Assumptions C13_total.

(* 2. A type text (with its components) is accepted as the type t exactly when t is a valid type of
      the grammar and the text is one of its spellings. *)
Theorem C13_accept_iff_grammar :
  forall (s : bytes) (comps : list param) (t : ty),
    (exists tc, Validate (Param s comps) = Ok tc /\ ty_of tc = Some t) <->
    (valid_type t = true /\ spelling t s comps).
Proof. exact accept_iff_grammar_ty. Qed.
Print Assumptions C13_accept_iff_grammar.

(* 2b. Everything accepted is read as some valid type that the input spells ... *)
Theorem C13_accepted_is_typed :
  forall p tc, Validate p = Ok tc ->
    exists t, ty_of tc = Some t /\ valid_type t = true /\ spelling t (p_type p) (p_comps p).
Proof. exact accepted_is_typed. Qed.
Print Assumptions C13_accepted_is_typed.

(* 2c. ... and an error is reported exactly for the inputs that spell no valid type. *)
Theorem C13_reject_iff_not_grammar :
  forall s comps,
    (exists e, Validate (Param s comps) = Err e) <->
    ~ (exists t, valid_type t = true /\ spelling t s comps).
Proof. exact reject_iff_not_grammar. Qed.
Print Assumptions C13_reject_iff_not_grammar.

(* 3. The rendered signature of an accepted type is its canonical spelling. *)
Theorem C13_render_canonical :
  forall p tc t, Validate p = Ok tc -> ty_of tc = Some t ->
    tc_string tc = Ok (canonical t) /\ SignatureString p = Ok (canonical t).
Proof. exact render_canonical. Qed.
Print Assumptions C13_render_canonical.

(* 4. Normalisation is idempotent: the normal form of an accepted type parses to the identical type
      component tree and renders to the same signature.  (For tuples the normal form is "tuple" +
      dimensions with normalised components, since "(a,b)" is a rendering, not an input spelling.) *)
Theorem C13_reparse_idempotent :
  forall p tc, Validate p = Ok tc ->
    exists p', normalise tc = Ok p' /\ Validate p' = Ok tc /\ SignatureString p' = SignatureString p.
Proof. exact reparse_idempotent. Qed.
Print Assumptions C13_reparse_idempotent.

(* 4b. Without tuples, the rendered signature itself parses back to the identical tree (whatever the
      components). *)
Theorem C13_reparse_signature :
  forall p tc, Validate p = Ok tc -> tuple_free tc = true ->
    exists sig, tc_string tc = Ok sig /\ forall comps', Validate (Param sig comps') = Ok tc.
Proof. exact reparse_signature_tuple_free. Qed.
Print Assumptions C13_reparse_signature.

(* 5. The numerals of the grammar are canonical decimal: [dec n] is the one digit string without
      leading zeros whose value is n (so "008", "+8", " 8" spell nothing). *)
Theorem C13_numerals_canonical :
  forall n s, is_dec n s <-> s = dec n.
Proof. exact is_dec_iff. Qed.
Print Assumptions C13_numerals_canonical.

(* 6. The recogniser that the correspondence check uses as its oracle on the implementation's answers
      (AbiType/Run.v: [recognise leaf_table], written from the grammar: split at the first '[', dimensions,
      base looked up in the table of all 5 225 leaf spellings or "tuple" + components) decides the grammar. *)
Theorem C13_oracle_decides_grammar :
  forall p t, recognise leaf_table p = Some t <->
              valid_type t = true /\ spelling t (p_type p) (p_comps p).
Proof. exact recognise_correct. Qed.
Print Assumptions C13_oracle_decides_grammar.

(* ---------- non-vacuity ---------- *)
Definition ex_param : param :=
  Param (T "tuple[2][]") [Param (T "uint") []; Param (T "fixed128x18[3]") [];
                          Param (T "tuple") [Param (T "bytes32") []; Param (T "string[]") [Param (T "junk") []]]].
Definition ex_ty : ty :=
  TDynArr (TFixedArr (TTuple [TUInt 256; TFixedArr (TFixed 128 18) 3; TTuple [TBytesN 32; TDynArr TString]]) 2).

Example C13_nonvacuous_accept :
  exists tc, Validate ex_param = Ok tc /\ ty_of tc = Some ex_ty /\ valid_type ex_ty = true /\
             tuple_free tc = false /\
             SignatureString ex_param = Ok (T "(uint256,fixed128x18[3],(bytes32,string[]))[2][]").
Proof. eexists. split; [vm_compute; reflexivity|]. repeat split; vm_compute; reflexivity. Qed.

Example C13_nonvacuous_grammar :
  valid_type (TFixedArr (TUInt 256) 7) = true /\ spelling (TFixedArr (TUInt 256) 7) (T "uint[7]") [].
Proof.
  split; [reflexivity|]. cbn [spelling]. exists (T "uint"). split; [right; split; reflexivity|].
  vm_compute. reflexivity.
Qed.

Example C13_nonvacuous_tuple_free :
  exists tc, Validate (Param (T "ufixed[4294967295][]") []) = Ok tc /\ tuple_free tc = true /\
             tc_string tc = Ok (T "ufixed128x18[4294967295][]").
Proof. eexists. split; [vm_compute; reflexivity|]. split; vm_compute; reflexivity. Qed.

Example C13_nonvacuous_oracle : exists t, recognise leaf_table ex_param = Some t /\ t = ex_ty.
Proof. eexists. split; [vm_compute; reflexivity|reflexivity]. Qed.

(* the former defects D13a / D13b and the other malformed classes of the quantifier are rejected *)
Example C13_nonvacuous_reject :
  forallb (fun s => is_err (Validate (Param (T s) [Param (T "uint8") []])))
    ["uint008"; "bytes01"; "fixed128x018"; "uint256[007]"; "tuple7"; "tuple7[2]"; "uint0"; "uint7"; "uint264";
     "uint65536"; "bytes0"; "bytes33"; "fixed8x81"; "fixed8x0"; "uint+8"; "uint 8"; "Uint8"; "uint8[";
     "uint8[-1]"; "uint8[4294967296]"; "uint8[x]"; "address1"; "string32"; ""; "(uint8)"]%string = true.
Proof. vm_compute. reflexivity. Qed.
