(* C03 — ABI decode inverts the specification encoding; JSON output denotes the value in every
   serializer mode.  Statements only; proofs live in Abi/DecProofs*.v, Abi/SerProofs.v. *)
From Coq Require Import List NArith ZArith Bool Lia.
From Coq Require Import Init.Byte.
From FFS Require Import Base.Res Base.Bytes Abi.Types Abi.Spec Abi.ModelTypes.
From FFS Require Import Abi.DecModel Abi.DecSpec Abi.SerModel Abi.SerSpec Abi.DecProofs.
Import ListNotations.

(* The decoder's type-driven notion of "dynamic" is the specification's, on every component tree
   the type parser can build that has no zero-length fixed array (there isDynamicType says "static"
   whatever the element type is). *)
Theorem C03_dynamic_agree :
  forall c : tcomp, tc_consistent c = true -> tc_no_zero_len c = true ->
    isDynamicType c = dynamic (ty_of c).
Proof. exact isDynamicType_dynamic. Qed.
Print Assumptions C03_dynamic_agree.

Example C03_dynamic_agree_nonvacuous :
  let c := TCTuple [TCFixedArr 2 (TCTuple [TCElem EUInt [x38] 8 0 []; TCElem EBytes [] 0 0 []] []) []] [] in
  tc_consistent c = true /\ tc_no_zero_len c = true /\ isDynamicType c = true.
Proof. vm_compute. repeat split. Qed.
