(* C03 — ABI decode inverts the specification encoding; JSON output denotes the value in every
   serializer mode.  Statements only; proofs live in Abi/DecProofs*.v, Abi/SerProofs*.v. *)
From Coq Require Import List NArith ZArith Bool Lia.
From Coq Require Import Init.Byte.
From FFS Require Import Base.Res Base.Bytes Abi.Types Abi.Spec Abi.ModelTypes.
From FFS Require Import Abi.DecModel Abi.DecSpec Abi.SerModel Abi.SerSpec.
From FFS Require Import Abi.DecProofs Abi.DecProofs2 Abi.DecProofs3 Abi.DecProofs4.
Import ListNotations.
Local Open Scope Z_scope.

(* 1. The decoder's type-driven notion of "dynamic" is the specification's, on every component tree
      the type parser can build that has no zero-length fixed array (there isDynamicType says
      "static" whatever the element type is). *)
Theorem C03_dynamic_agree :
  forall c : tcomp, tc_consistent c = true -> tc_no_zero_len c = true ->
    isDynamicType c = dynamic (ty_of c).
Proof. exact isDynamicType_dynamic. Qed.
Print Assumptions C03_dynamic_agree.

(* 2. Decoding the specification encoding of any well-typed value of any valid parameter list,
      placed after arbitrary bytes and followed by arbitrary bytes, returns exactly that value:
      [cv_of c v] is the tree with the same integers, bytes, strings, array lengths and tuple
      structure, every node carrying its component.  Guards: the component tree is what the type
      parser builds for a valid type ([tc_consistent], [wf_ty]), no fixed-point type, no T[0] (the
      quantifier's exclusions), and the sizes the decoder's 32-bit count/offset reader accepts. *)
Theorem C03_decode_encode :
  forall (children : list tcomp) (k : bytes) (v : val) (pre post : bytes),
    let c := TCTuple children k in
    tc_consistent c = true -> wf_ty (ty_of c) = true ->
    tc_no_fixed_point c = true -> tc_no_zero_len c = true ->
    well_typed (ty_of c) v = true ->
    zlen (enc (ty_of c) v) < 2 ^ 32 -> counts_ok v = true ->
    DecodeABIData c (pre ++ enc (ty_of c) v ++ post) (zlen pre) = Ok (cv_of c v).
Proof. exact DecodeABIData_enc. Qed.
Print Assumptions C03_decode_encode.

(* 2'. ... and that tree denotes v. *)
Theorem C03_decode_returns_value :
  forall (children : list tcomp) (k : bytes) (v : val) (pre post : bytes),
    let c := TCTuple children k in
    tc_consistent c = true -> wf_ty (ty_of c) = true ->
    tc_no_fixed_point c = true -> tc_no_zero_len c = true ->
    well_typed (ty_of c) v = true ->
    zlen (enc (ty_of c) v) < 2 ^ 32 -> counts_ok v = true ->
    exists x, DecodeABIData c (pre ++ enc (ty_of c) v ++ post) (zlen pre) = Ok x /\ val_of x = v.
Proof. exact decode_returns_value. Qed.
Print Assumptions C03_decode_returns_value.

(* 3. The same for every element at any nesting depth, over an arbitrary block (the generalisation
      the induction needs): a static element whose encoding sits at the head position is read in
      place, whatever the head start is; a dynamic element is found through the offset word at the
      head position, relative to the head start. *)
Theorem C03_decode_element :
  forall (block : bytes) (c : tcomp) (v : val),
    good c = true -> well_typed (ty_of c) v = true -> sizes_ok (ty_of c) v ->
    if dynamic (ty_of c) then
      forall hs hp o, 0 <= o < 2 ^ 32 -> embedded block hp (word o) ->
                      embedded block (hs + o) (enc (ty_of c) v) ->
                      decodeABIElement block c hs hp = Ok (32, cv_of c v)
    else
      forall hs hp, embedded block hp (enc (ty_of c) v) ->
                    decodeABIElement block c hs hp = Ok (zlen (enc (ty_of c) v), cv_of c v).
Proof. intros block c v Hg Hwt Hs. exact (decodeABIElement_enc block c Hg v Hwt Hs). Qed.
Print Assumptions C03_decode_element.

(* 4. With the 4-byte selector in front (Entry.DecodeCallData). *)
Theorem C03_decode_call_data :
  forall (id : bytes) (children : list tcomp) (k : bytes) (v : val) (post : bytes),
    let c := TCTuple children k in
    length id = 4%nat ->
    tc_consistent c = true -> wf_ty (ty_of c) = true ->
    tc_no_fixed_point c = true -> tc_no_zero_len c = true ->
    well_typed (ty_of c) v = true ->
    zlen (enc (ty_of c) v) < 2 ^ 32 -> counts_ok v = true ->
    DecodeCallData id c (id ++ enc (ty_of c) v ++ post) = Ok (cv_of c v).
Proof. exact DecodeCallData_enc. Qed.
Print Assumptions C03_decode_call_data.

(* non-vacuity: a dynamic tuple inside a fixed array next to a string, named and unnamed members,
   decoded after a selector and before trailing bytes *)
Example C03_decode_nonvacuous :
  let u8 := TCElem EUInt [x38] 8 0 [x61] in
  let byt := TCElem EBytes [] 0 0 [] in
  let st := TCElem EString [] 0 0 [x73] in
  let i16 := TCElem EInt [x31; x36] 16 0 [] in
  let c := TCTuple [TCFixedArr 2 (TCTuple [u8; byt] [x74]) [x74]; st; TCDynArr i16 []] [] in
  let v := VList [VList [VList [VNum 255; VBytes [x01; x02; x03]]; VList [VNum 0; VBytes []]];
                  VBytes [x68; x69]; VList [VNum (-1); VNum 32767; VNum (-32768)]] in
  tc_consistent c = true /\ wf_ty (ty_of c) = true /\ tc_no_fixed_point c = true /\ tc_no_zero_len c = true /\
  well_typed (ty_of c) v = true /\ zlen (enc (ty_of c) v) < 2 ^ 32 /\ counts_ok v = true /\
  dynamic (ty_of c) = true /\
  DecodeABIData c ([x00; x01; x02; x03] ++ enc (ty_of c) v ++ [xff]) 4 = Ok (cv_of c v) /\
  val_of (cv_of c v) = v.
Proof. vm_compute. repeat split; try reflexivity. Qed.

Example C03_dynamic_agree_nonvacuous :
  let c := TCTuple [TCFixedArr 2 (TCTuple [TCElem EUInt [x38] 8 0 []; TCElem EBytes [] 0 0 []] []) []] [] in
  tc_consistent c = true /\ tc_no_zero_len c = true /\ isDynamicType c = true.
Proof. vm_compute. repeat split. Qed.
