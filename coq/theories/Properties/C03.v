(* C03 — ABI decode inverts the specification encoding; JSON output denotes the value in every
   serializer mode.  Statements only; proofs live in Abi/DecProofs*.v, Abi/SerProofs*.v. *)
From Coq Require Import List NArith ZArith Bool Lia.
From Coq Require Import Init.Byte.
From FFS Require Import Base.Res Base.Bytes Abi.Types Abi.Spec Abi.ModelTypes.
From FFS Require Import Abi.DecModel Abi.DecSpec Abi.SerModel Abi.SerSpec.
From FFS Require Import Abi.DecProofs Abi.DecProofs2 Abi.DecProofs3 Abi.DecProofs4.
From FFS Require Import Abi.Render Abi.SerProofs Abi.SerProofs2 Abi.SerProofs3.
From FFS Require Import Abi.InputModel Abi.EncProofs3 Abi.SerRoundTrip.
Import ListNotations.
Local Open Scope Z_scope.

(* 1. The decoder's type-driven notion of "dynamic" is the specification's, on every component tree
      the type parser can build that has no zero-length fixed array (there isDynamicType says
      "static" whatever the element type is). *)
Theorem C03_dynamic_agree :
  forall c : tcomp, tc_consistent c = true -> tc_no_zero_len c = true ->
    isDynamicType c = dynamic (ty_of c).
Proof. exact isDynamicType_dynamic. Qed.
Print Assumptions C03_dynamic_agree.

(* 2. Decoding the specification encoding of any well-typed value of any valid parameter list,
      placed after arbitrary bytes and followed by arbitrary bytes, returns exactly that value:
      [cv_of c v] is the tree with the same integers, bytes, strings, array lengths and tuple
      structure, every node carrying its component.  Guards: the component tree is what the type
      parser builds for a valid type ([tc_consistent], [wf_ty]), no fixed-point type, no T[0] (the
      quantifier's exclusions), and the sizes the decoder's 32-bit count/offset reader accepts. *)
Theorem C03_decode_encode :
  forall (children : list tcomp) (k : bytes) (v : val) (pre post : bytes),
    let c := TCTuple children k in
    tc_consistent c = true -> wf_ty (ty_of c) = true ->
    tc_no_fixed_point c = true -> tc_no_zero_len c = true ->
    well_typed (ty_of c) v = true ->
    zlen (enc (ty_of c) v) < 2 ^ 32 -> counts_ok v = true ->
    DecodeABIData c (pre ++ enc (ty_of c) v ++ post) (zlen pre) = Ok (cv_of c v).
Proof. exact DecodeABIData_enc. Qed.
Print Assumptions C03_decode_encode.

(* 2'. ... and that tree denotes v. *)
Theorem C03_decode_returns_value :
  forall (children : list tcomp) (k : bytes) (v : val) (pre post : bytes),
    let c := TCTuple children k in
    tc_consistent c = true -> wf_ty (ty_of c) = true ->
    tc_no_fixed_point c = true -> tc_no_zero_len c = true ->
    well_typed (ty_of c) v = true ->
    zlen (enc (ty_of c) v) < 2 ^ 32 -> counts_ok v = true ->
    exists x, DecodeABIData c (pre ++ enc (ty_of c) v ++ post) (zlen pre) = Ok x /\ val_of x = v.
Proof. exact decode_returns_value. Qed.
Print Assumptions C03_decode_returns_value.

(* 3. The same for every element at any nesting depth, over an arbitrary block (the generalisation
      the induction needs): a static element whose encoding sits at the head position is read in
      place, whatever the head start is; a dynamic element is found through the offset word at the
      head position, relative to the head start. *)
Theorem C03_decode_element :
  forall (block : bytes) (c : tcomp) (v : val),
    good c = true -> well_typed (ty_of c) v = true -> sizes_ok (ty_of c) v ->
    if dynamic (ty_of c) then
      forall hs hp o, 0 <= o < 2 ^ 32 -> embedded block hp (word o) ->
                      embedded block (hs + o) (enc (ty_of c) v) ->
                      decodeABIElement block c hs hp = Ok (32, cv_of c v)
    else
      forall hs hp, embedded block hp (enc (ty_of c) v) ->
                    decodeABIElement block c hs hp = Ok (zlen (enc (ty_of c) v), cv_of c v).
Proof. intros block c v Hg Hwt Hs. exact (decodeABIElement_enc block c Hg v Hwt Hs). Qed.
Print Assumptions C03_decode_element.

(* 4. With the 4-byte selector in front (Entry.DecodeCallData). *)
Theorem C03_decode_call_data :
  forall (id : bytes) (children : list tcomp) (k : bytes) (v : val) (post : bytes),
    let c := TCTuple children k in
    length id = 4%nat ->
    tc_consistent c = true -> wf_ty (ty_of c) = true ->
    tc_no_fixed_point c = true -> tc_no_zero_len c = true ->
    well_typed (ty_of c) v = true ->
    zlen (enc (ty_of c) v) < 2 ^ 32 -> counts_ok v = true ->
    DecodeCallData id c (id ++ enc (ty_of c) v ++ post) = Ok (cv_of c v).
Proof. exact DecodeCallData_enc. Qed.
Print Assumptions C03_decode_call_data.

(* 5. Serialising the tree of a well-typed value to JSON, in every formatting mode (objects, flat
      arrays, self-describing arrays) with every built-in integer (base-10 string, 0x-hex, JSON
      number, number-if-fits), byte (hex, 0x-hex, base64) and address (none, 0x, plain, checksum)
      serializer, succeeds and yields JSON that denotes the same value: [denotes] (Abi/SerSpec.v) reads
      the document back — integers / bytes / addresses through parsers of the renderings, tuple members
      under their ABI names (default = decimal index) in object mode, in ABI order in the array modes,
      with {"name","type","value"} entries whose type label is the canonical ABI type string in the
      self-describing mode.  [ser_ok]: the component tree is what the type parser builds (consistent,
      well-formed, canonical suffix literals), has no fixed-point type, and — for object mode only —
      the effective member names of every tuple are pairwise distinct.  [H] is Keccak-256 (EIP-55). *)
Theorem C03_serialize_denotes :
  forall (H : bytes -> bytes), (forall x, length (H x) = 32%nat) ->
  forall (fs : bfloat -> jv) (s : serializer), ts s <> FormatOther ->
  forall (c : tcomp) (v : val), ser_ok s c = true -> well_typed (ty_of c) v = true ->
    exists j, SerializeJSON H fs NumericDefaultNameGenerator s (cv_of c v) = Ok j /\ denotes H s c v j = true.
Proof. exact serialize_denotes. Qed.
Print Assumptions C03_serialize_denotes.

(* 5'. ... in particular for the value decoded from a specification encoding. *)
Theorem C03_decode_then_serialize :
  forall (H : bytes -> bytes), (forall x, length (H x) = 32%nat) ->
  forall (fs : bfloat -> jv) (s : serializer), ts s <> FormatOther ->
  forall (children : list tcomp) (k : bytes) (v : val) (pre post : bytes),
    let c := TCTuple children k in
    ser_ok s c = true -> tc_no_zero_len c = true -> well_typed (ty_of c) v = true ->
    zlen (enc (ty_of c) v) < 2 ^ 32 -> counts_ok v = true ->
    exists x j, DecodeABIData c (pre ++ enc (ty_of c) v ++ post) (zlen pre) = Ok x /\
                SerializeJSON H fs NumericDefaultNameGenerator s x = Ok j /\ denotes H s c v j = true.
Proof. exact decode_then_serialize. Qed.
Print Assumptions C03_decode_then_serialize.

(* 6. The number-if-fits integer serializer emits a JSON number exactly when |i| <= 2^53 - 1 (the
      integers every float64 consumer reads back exactly), and then the number token is the decimal
      text of i; otherwise it emits the base-10 string. *)
Theorem C03_number_if_fits :
  forall H fs dn (s : serializer) l e su m n k (i : Z),
    is_ s = NumberIfFitsOrBase10StringIntSerializer -> (e = EInt \/ e = EUInt) ->
    SerializeJSON H fs dn s (CV (Some (TCElem e su m n k)) l (GBigInt i)) =
    Ok (if (Z.abs i <=? 2 ^ 53 - 1) then JNumber (Z_dec i) else JStr (Z_dec i)).
Proof. exact number_if_fits_serialized. Qed.
Print Assumptions C03_number_if_fits.

(* 7. JSON round trip.  In the object and flat-array formatting modes, with every integer rendering
      (base-10 string, 0x-hex string, JSON number, number-if-fits), the hexadecimal byte renderings (plain
      and 0x; base64 is not an input format) and every address rendering (none, 0x, plain, checksum):
      serialising the tree of a well-typed value and handing the document back to the input walk
      (ParseJSON / EncodeABIDataJSON: b-c02's model of inputparsing.go; [ext_of j] is what encoding/json
      returns for the document it wrote, numbers as json.Number) encodes to exactly the specification
      encoding of the value - the original bytes.  [bifs] is ethtypes.BigIntegerFromString (external to
      pkg/abi, property C19's subject) with the two laws the round trip uses: it reads back the canonical
      decimal text and the (signed) 0x-hex text of every integer (for the executable model of that
      function these are C02_decimal_and_hex_text_exact up to the digit-list form of the renderings).
      Guards: [ser_ok] (tree as the type parser builds it, no fixed-point, distinct effective member
      names in object mode), no T[0], tuples of at most 1024 members ([widths_ok]: strconv.Itoa and the
      serializer's default member name agree there by computation), C02's size guard. *)
Theorem C03_json_roundtrip :
  forall (H : bytes -> bytes), (forall x, length (H x) = 32%nat) ->
  forall (fs : bfloat -> jv) (s : serializer) (bifs : bytes -> res Z),
    (forall z, bifs (Z_dec z) = Ok z) ->
    (forall z, bifs ((if z <? 0 then [x2d] else []) ++ x30 :: x78 :: N_hex (Z.abs_N z))%list = Ok z) ->
    ts s = FormatAsFlatArrays \/ ts s = FormatAsObjects ->
    bs s <> Base64ByteSerializer ->
  forall (children : list tcomp) (v : val),
    let c := root_of children in
    ser_ok s c = true -> widths_ok c = true -> tc_wf c = true -> tc_no_zero_len c = true ->
    well_typed (ty_of c) v = true -> weight_ok v ->
    exists j, SerializeJSON H fs NumericDefaultNameGenerator s (cv_of c v) = Ok j /\
              EncodeABIDataValues bifs children (ext_of j) = Ok (enc (ty_of c) v).
Proof. exact json_roundtrip. Qed.
Print Assumptions C03_json_roundtrip.

(* 8. (composition with property C19) The two parser laws of theorem 7 are theorems about the
      executable models of ethtypes.BigIntegerFromString - property C19's (EthTypes/Model.v) and the
      local copy of C02 (Abi/InputModel.v): both read the base-10 text [Z_dec z] and the signed 0x-hex
      text [Z_0xhex z] = ["-"] "0x" hex(|z|) of EVERY integer z back as z.  No size guard: both texts
      are read by the big.Int.SetString(s, 0) branch, which has no limit; C19's guards (|exponent| <=
      10^6, text shorter than 2^28) belong to the ParseFloat / Rat.SetString branch, which these
      renderings never reach.  Moreover the base-10 text of every z, and the 0x-hex text of every
      z >= 0, are spellings of C19's quantifier denoting z ("-0x.." is not one of C19's classes; the
      model is shown to read it all the same).  Proof: the digit-list form of N.to_uint /
      N.to_hex_uint (Abi/SerRoundTripDigits.v: Pos.of_uint_acc is the Horner scheme, normal forms
      have no leading zero), then C19's set_string_dec / set_string_neg_dec / set_string_hex and
      C02's decimal_text_exact / hex_text_exact. *)
From FFS Require Abi.InputC19 Abi.SerRoundTripC19 EthTypes.Model EthTypes.Spec.
Theorem C03_parser_reads_renderings :
  forall z : Z,
    EthTypes.Model.BigIntegerFromString (Z_dec z) = Ok z /\
    EthTypes.Model.BigIntegerFromString (SerRoundTripC19.Z_0xhex z) = Ok z /\
    InputModel.BigIntegerFromString (Z_dec z) = Ok z /\
    InputModel.BigIntegerFromString (SerRoundTripC19.Z_0xhex z) = Ok z /\
    EthTypes.Spec.denotes (Z_dec z) z 0 /\ (0 <= z -> EthTypes.Spec.denotes (SerRoundTripC19.Z_0xhex z) z 0).
Proof. exact SerRoundTripC19.parser_reads_renderings. Qed.
Print Assumptions C03_parser_reads_renderings.

(* 9. JSON round trip, UNCONDITIONAL in the parser: theorem 7 with property C19's model of
      ethtypes.BigIntegerFromString in the place of [bifs] - same guards on the serializer, the type
      and the value, no hypothesis about the text parser left.  (Remaining assumptions are the ones
      of the statement itself: [H] has 32-byte outputs; [ext_of] is what encoding/json hands back.) *)
Theorem C03_json_roundtrip_c19 :
  forall (H : bytes -> bytes), (forall x, length (H x) = 32%nat) ->
  forall (fs : bfloat -> jv) (s : serializer),
    ts s = FormatAsFlatArrays \/ ts s = FormatAsObjects ->
    bs s <> Base64ByteSerializer ->
  forall (children : list tcomp) (v : val),
    let c := root_of children in
    ser_ok s c = true -> widths_ok c = true -> tc_wf c = true -> tc_no_zero_len c = true ->
    well_typed (ty_of c) v = true -> weight_ok v ->
    exists j, SerializeJSON H fs NumericDefaultNameGenerator s (cv_of c v) = Ok j /\
              EncodeABIDataValues EthTypes.Model.BigIntegerFromString children (ext_of j) = Ok (enc (ty_of c) v).
Proof. exact SerRoundTripC19.json_roundtrip_c19. Qed.
Print Assumptions C03_json_roundtrip_c19.

(* 9'. The same for the local copy of the parser that the correspondence run evaluates. *)
Theorem C03_json_roundtrip_local :
  forall (H : bytes -> bytes), (forall x, length (H x) = 32%nat) ->
  forall (fs : bfloat -> jv) (s : serializer),
    ts s = FormatAsFlatArrays \/ ts s = FormatAsObjects ->
    bs s <> Base64ByteSerializer ->
  forall (children : list tcomp) (v : val),
    let c := root_of children in
    ser_ok s c = true -> widths_ok c = true -> tc_wf c = true -> tc_no_zero_len c = true ->
    well_typed (ty_of c) v = true -> weight_ok v ->
    exists j, SerializeJSON H fs NumericDefaultNameGenerator s (cv_of c v) = Ok j /\
              EncodeABIDataValues InputModel.BigIntegerFromString children (ext_of j) = Ok (enc (ty_of c) v).
Proof. exact SerRoundTripC19.json_roundtrip_local. Qed.
Print Assumptions C03_json_roundtrip_local.

(* non-vacuity: a dynamic tuple inside a fixed array next to a string, named and unnamed members,
   decoded after a selector and before trailing bytes *)
Example C03_decode_nonvacuous :
  let u8 := TCElem EUInt [x38] 8 0 [x61] in
  let byt := TCElem EBytes [] 0 0 [] in
  let st := TCElem EString [] 0 0 [x73] in
  let i16 := TCElem EInt [x31; x36] 16 0 [] in
  let c := TCTuple [TCFixedArr 2 (TCTuple [u8; byt] [x74]) [x74]; st; TCDynArr i16 []] [] in
  let v := VList [VList [VList [VNum 255; VBytes [x01; x02; x03]]; VList [VNum 0; VBytes []]];
                  VBytes [x68; x69]; VList [VNum (-1); VNum 32767; VNum (-32768)]] in
  tc_consistent c = true /\ wf_ty (ty_of c) = true /\ tc_no_fixed_point c = true /\ tc_no_zero_len c = true /\
  well_typed (ty_of c) v = true /\ zlen (enc (ty_of c) v) < 2 ^ 32 /\ counts_ok v = true /\
  dynamic (ty_of c) = true /\
  DecodeABIData c ([x00; x01; x02; x03] ++ enc (ty_of c) v ++ [xff]) 4 = Ok (cv_of c v) /\
  val_of (cv_of c v) = v.
Proof. vm_compute. repeat split; try reflexivity. Qed.

Example C03_dynamic_agree_nonvacuous :
  let c := TCTuple [TCFixedArr 2 (TCTuple [TCElem EUInt [x38] 8 0 []; TCElem EBytes [] 0 0 []] []) []] [] in
  tc_consistent c = true /\ tc_no_zero_len c = true /\ isDynamicType c = true.
Proof. vm_compute. repeat split. Qed.

(* non-vacuity of the serializer theorem: object mode with a named, an unnamed and an index-named
   member (distinct effective names "a", "1", "0x"), number-if-fits at the threshold, checksum address *)
Example C03_serialize_nonvacuous :
  let H := fun _ : bytes => repeat x00 32 in
  let s := {| ts := FormatAsObjects; is_ := NumberIfFitsOrBase10StringIntSerializer;
              bs := HexByteSerializer0xPrefix; ad := Some ChecksumAddrSerializer |} in
  let c := TCTuple [TCElem EUInt [x36; x34] 64 0 [x61]; TCElem EAddress [] 160 0 [];
                    TCDynArr (TCElem EInt [x36; x34] 64 0 [x30; x78]) [x30; x78]] [] in
  let v := VList [VNum 9007199254740992; VNum 255; VList [VNum (-1); VNum 9007199254740991]] in
  ser_ok s c = true /\ well_typed (ty_of c) v = true /\
  exists j, SerializeJSON H (fun _ => JNull) NumericDefaultNameGenerator s (cv_of c v) = Ok j /\ denotes H s c v j = true.
Proof. cbv zeta. split; [vm_compute; reflexivity|]. split; [vm_compute; reflexivity|]. eexists. split; vm_compute; reflexivity. Qed.

(* non-vacuity of the round trip: the conclusion holds by computation for the executable model of
   ethtypes.BigIntegerFromString in object mode (0x-hex integers, 0x-hex bytes, checksum addresses; a
   named, an unnamed and an index-named member, negative integers) and in flat-array mode (number-if-fits
   on both sides of the threshold), and that function satisfies the two laws on sample integers *)
Example C03_json_roundtrip_nonvacuous :
  let H := fun _ : bytes => repeat x00 32 in
  let s1 := {| ts := FormatAsObjects; is_ := HexIntSerializer0xPrefix;
               bs := HexByteSerializer0xPrefix; ad := Some ChecksumAddrSerializer |} in
  let s2 := {| ts := FormatAsFlatArrays; is_ := NumberIfFitsOrBase10StringIntSerializer;
               bs := HexByteSerializer; ad := None |} in
  let children := [TCElem EUInt [x36; x34] 64 0 [x61]; TCElem EAddress [] 160 0 [];
                   TCDynArr (TCElem EInt [x36; x34] 64 0 [x30; x78]) [x30; x78];
                   TCTuple [TCElem EString [] 0 0 [x73]; TCElem EBytes [] 0 0 []] [x74]] in
  let c := root_of children in
  let v := VList [VNum 9007199254740992; VNum 255; VList [VNum (-1); VNum 9007199254740991];
                  VList [VBytes [x68; x69]; VBytes [x00; xff]]] in
  ser_ok s1 c = true /\ ser_ok s2 c = true /\ widths_ok c = true /\ tc_wf c = true /\ tc_no_zero_len c = true /\
  well_typed (ty_of c) v = true /\
  (exists j, SerializeJSON H (fun _ => JNull) NumericDefaultNameGenerator s1 (cv_of c v) = Ok j /\
             EncodeABIDataValues BigIntegerFromString children (ext_of j) = Ok (enc (ty_of c) v)) /\
  (exists j, SerializeJSON H (fun _ => JNull) NumericDefaultNameGenerator s2 (cv_of c v) = Ok j /\
             EncodeABIDataValues BigIntegerFromString children (ext_of j) = Ok (enc (ty_of c) v)) /\
  forallb (fun z => match BigIntegerFromString (Z_dec z),
                          BigIntegerFromString ((if z <? 0 then [x2d] else []) ++ x30 :: x78 :: N_hex (Z.abs_N z))%list with
                    | Ok a, Ok b => (a =? z) && (b =? z)
                    | _, _ => false
                    end) [0; 1; -1; 255; -256; 2 ^ 53; 2 ^ 255; - 2 ^ 255; 2 ^ 256 - 1; 10 ^ 30] = true.
Proof.
  cbv zeta. do 6 (split; [vm_compute; reflexivity|]).
  split; [eexists; split; [vm_compute; reflexivity|vm_compute; reflexivity]|].
  split; [eexists; split; [vm_compute; reflexivity|vm_compute; reflexivity]|].
  vm_compute. reflexivity.
Qed.

(* non-vacuity of theorems 8 / 9: the guards hold and the conclusion is checked by computation with
   C19's model of BigIntegerFromString, for uint256 / int256 at their extremes (2^256-1, -2^255: texts
   of 78 digits / 64 hex digits, far beyond any machine word) in object mode with 0x-hex integers and
   in flat-array mode with base-10 strings and JSON numbers; the renderings of -2^255 are the texts
   "-578960...968" and "-0x8000...0" *)
Example C03_json_roundtrip_c19_nonvacuous :
  let H := fun _ : bytes => repeat x00 32 in
  let s1 := {| ts := FormatAsObjects; is_ := HexIntSerializer0xPrefix;
               bs := HexByteSerializer0xPrefix; ad := Some ChecksumAddrSerializer |} in
  let s2 := {| ts := FormatAsFlatArrays; is_ := Base10StringIntSerializer;
               bs := HexByteSerializer; ad := None |} in
  let s3 := {| ts := FormatAsFlatArrays; is_ := JSONNumberIntSerializer;
               bs := HexByteSerializer; ad := None |} in
  let children := [TCElem EUInt [x32; x35; x36] 256 0 [x61]; TCElem EAddress [] 160 0 [];
                   TCDynArr (TCElem EInt [x32; x35; x36] 256 0 [x30; x78]) [x30; x78];
                   TCTuple [TCElem EString [] 0 0 [x73]; TCElem EBytes [] 0 0 []] [x74]] in
  let c := root_of children in
  let v := VList [VNum (2 ^ 256 - 1); VNum 255; VList [VNum (- 2 ^ 255); VNum 9007199254740991; VNum 0];
                  VList [VBytes [x68; x69]; VBytes [x00; xff]]] in
  ser_ok s1 c = true /\ ser_ok s2 c = true /\ ser_ok s3 c = true /\ widths_ok c = true /\ tc_wf c = true /\
  tc_no_zero_len c = true /\ well_typed (ty_of c) v = true /\
  (exists j, SerializeJSON H (fun _ => JNull) NumericDefaultNameGenerator s1 (cv_of c v) = Ok j /\
             EncodeABIDataValues EthTypes.Model.BigIntegerFromString children (ext_of j) = Ok (enc (ty_of c) v)) /\
  (exists j, SerializeJSON H (fun _ => JNull) NumericDefaultNameGenerator s2 (cv_of c v) = Ok j /\
             EncodeABIDataValues EthTypes.Model.BigIntegerFromString children (ext_of j) = Ok (enc (ty_of c) v)) /\
  (exists j, SerializeJSON H (fun _ => JNull) NumericDefaultNameGenerator s3 (cv_of c v) = Ok j /\
             EncodeABIDataValues EthTypes.Model.BigIntegerFromString children (ext_of j) = Ok (enc (ty_of c) v)) /\
  length (Z_dec (- 2 ^ 255)) = 78%nat /\ length (SerRoundTripC19.Z_0xhex (- 2 ^ 255)) = 67%nat /\
  EthTypes.Model.BigIntegerFromString (SerRoundTripC19.Z_0xhex (- 2 ^ 255)) = Ok (- 2 ^ 255).
Proof.
  cbv zeta. do 7 (split; [vm_compute; reflexivity|]).
  do 3 (split; [eexists; split; [vm_compute; reflexivity|vm_compute; reflexivity]|]).
  split; [vm_compute; reflexivity|]. split; [vm_compute; reflexivity|]. vm_compute; reflexivity.
Qed.

(* ==================================================================================================
   Answers to the referee's review of the statements above (design/reviews/C03.md; proofs in
   Abi/SerWire.v, SerWireProofs.v, Base64Dec.v, SerReferee.v).  Nothing above is changed.
   ================================================================================================== *)
From FFS Require Import Base.Keccak Abi.SerWire Abi.SerWireProofs Abi.Base64Dec Abi.SerReferee.

(* --- Issue 1: Go strings that are not valid UTF-8.  [SerModel.wire] (used by theorems 5-9) keeps a
   Go string verbatim; json.Marshal does that only for valid UTF-8 and writes U+FFFD for every byte at
   which no valid encoding starts.  [SerWire.wire_go] / [SerializeJSON_go] model that faithfully
   ([rune_width] = utf8.DecodeRune's table, [json_text] = what a JSON reader gets back; the
   correspondence run now evaluates THIS entry point, on strings at every edge of UTF-8 validity).
   Theorems 5-9 therefore speak about the implementation only under the guard stated here. *)

(* 10. json.Marshal's view is the verbatim one on every tree whose strings and keys are valid UTF-8. *)
Theorem C03_json_marshal_verbatim :
  forall j : jv, json_utf8 j = true -> wire_go j = wire j.
Proof. exact wire_go_verbatim. Qed.
Print Assumptions C03_json_marshal_verbatim.

(* 11. Everything the serializer itself emits (decimal / hex / base64 / EIP-55 renderings, default member
       names) is ASCII: if the Go strings held by the tree handed to it, and the member names / type labels
       of its components, are valid UTF-8 ([cval_utf8]; fixed-point values excluded), the faithful entry
       point and the one used by theorems 5-9 return the same result, in every mode, for every tree. *)
Theorem C03_serialize_go_same :
  forall (H : bytes -> bytes) (fs : bfloat -> jv) (s : serializer) (x : cval),
    cval_utf8 x = true ->
    SerializeJSON_go H fs NumericDefaultNameGenerator s x = SerializeJSON H fs NumericDefaultNameGenerator s x.
Proof. exact SerializeJSON_go_same. Qed.
Print Assumptions C03_serialize_go_same.

(* 12. The guard in terms of the specification value: every value of type string is valid UTF-8
       ([strings_utf8]) and the names / labels of the component tree are ([names_utf8], always true of a
       tree parsed from an ABI JSON document). *)
Theorem C03_utf8_guard_from_value :
  forall (c : tcomp) (v : val),
    names_utf8 c = true -> strings_utf8 (ty_of c) v = true -> cval_utf8 (cv_of c v) = true.
Proof. exact cval_utf8_cv_of. Qed.
Print Assumptions C03_utf8_guard_from_value.

(* 13. Theorem 5 for the faithful entry point, with the guard. *)
Theorem C03_serialize_denotes_utf8 :
  forall (H : bytes -> bytes), (forall x, length (H x) = 32%nat) ->
  forall (fs : bfloat -> jv) (s : serializer), ts s <> FormatOther ->
  forall (c : tcomp) (v : val), ser_ok s c = true -> well_typed (ty_of c) v = true ->
    names_utf8 c = true -> strings_utf8 (ty_of c) v = true ->
    exists j, SerializeJSON_go H fs NumericDefaultNameGenerator s (cv_of c v) = Ok j /\ denotes H s c v j = true.
Proof. exact serialize_go_denotes_strings. Qed.
Print Assumptions C03_serialize_denotes_utf8.

(* 13'. ... with the concrete Keccak-256 (Base/Keccak.v): no hypothesis about the hash. *)
Theorem C03_serialize_denotes_keccak :
  forall (fs : bfloat -> jv) (s : serializer), ts s <> FormatOther ->
  forall (c : tcomp) (v : val), ser_ok s c = true -> well_typed (ty_of c) v = true ->
    cval_utf8 (cv_of c v) = true ->
    exists j, SerializeJSON_go keccak256 fs NumericDefaultNameGenerator s (cv_of c v) = Ok j /\
              denotes keccak256 s c v j = true.
Proof. exact serialize_go_denotes_keccak. Qed.
Print Assumptions C03_serialize_denotes_keccak.

(* 14. Theorem 9 for the faithful entry point, with the guard. *)
Theorem C03_json_roundtrip_utf8 :
  forall (H : bytes -> bytes), (forall x, length (H x) = 32%nat) ->
  forall (fs : bfloat -> jv) (s : serializer),
    ts s = FormatAsFlatArrays \/ ts s = FormatAsObjects ->
    bs s <> Base64ByteSerializer ->
  forall (children : list tcomp) (v : val),
    let c := root_of children in
    ser_ok s c = true -> widths_ok c = true -> tc_wf c = true -> tc_no_zero_len c = true ->
    well_typed (ty_of c) v = true -> weight_ok v -> cval_utf8 (cv_of c v) = true ->
    exists j, SerializeJSON_go H fs NumericDefaultNameGenerator s (cv_of c v) = Ok j /\
              EncodeABIDataValues EthTypes.Model.BigIntegerFromString children (ext_of j) = Ok (enc (ty_of c) v).
Proof. exact json_roundtrip_go_c19. Qed.
Print Assumptions C03_json_roundtrip_utf8.

(* --- Issue 5: clause E literally - from the bytes, through the decoder's output, the serializer, the
   JSON parser and the encoder, back to the bytes; union of the guards of theorems 2 and 9 + issue 1. *)
Theorem C03_decode_serialize_parse_encode :
  forall (H : bytes -> bytes), (forall x, length (H x) = 32%nat) ->
  forall (fs : bfloat -> jv) (s : serializer),
    ts s = FormatAsFlatArrays \/ ts s = FormatAsObjects ->
    bs s <> Base64ByteSerializer ->
  forall (children : list tcomp) (v : val) (pre post : bytes),
    let c := root_of children in
    ser_ok s c = true -> widths_ok c = true -> tc_wf c = true -> tc_no_zero_len c = true ->
    well_typed (ty_of c) v = true -> weight_ok v ->
    names_utf8 c = true -> strings_utf8 (ty_of c) v = true ->
    zlen (enc (ty_of c) v) < 2 ^ 32 -> counts_ok v = true ->
    exists x j, DecodeABIData c (pre ++ enc (ty_of c) v ++ post) (zlen pre) = Ok x /\
                SerializeJSON_go H fs NumericDefaultNameGenerator s x = Ok j /\
                EncodeABIDataValues EthTypes.Model.BigIntegerFromString children (ext_of j) = Ok (enc (ty_of c) v).
Proof. exact decode_serialize_parse_encode_strings. Qed.
Print Assumptions C03_decode_serialize_parse_encode.

(* 15'. In the implication form: whatever tree the decoder returned and whatever document the serializer
        wrote for it, parsing and encoding that document gives back the specification encoding. *)
Theorem C03_decode_serialize_parse_encode_any :
  forall (H : bytes -> bytes), (forall x, length (H x) = 32%nat) ->
  forall (fs : bfloat -> jv) (s : serializer),
    ts s = FormatAsFlatArrays \/ ts s = FormatAsObjects ->
    bs s <> Base64ByteSerializer ->
  forall (children : list tcomp) (v : val) (pre post : bytes),
    let c := root_of children in
    ser_ok s c = true -> widths_ok c = true -> tc_wf c = true -> tc_no_zero_len c = true ->
    well_typed (ty_of c) v = true -> weight_ok v -> cval_utf8 (cv_of c v) = true ->
    zlen (enc (ty_of c) v) < 2 ^ 32 -> counts_ok v = true ->
    forall x j, DecodeABIData c (pre ++ enc (ty_of c) v ++ post) (zlen pre) = Ok x ->
                SerializeJSON_go H fs NumericDefaultNameGenerator s x = Ok j ->
                EncodeABIDataValues EthTypes.Model.BigIntegerFromString children (ext_of j) = Ok (enc (ty_of c) v).
Proof. exact decode_serialize_parse_encode_any. Qed.
Print Assumptions C03_decode_serialize_parse_encode_any.

(* 15''. With the concrete Keccak-256: the only things left abstract are [fs] (fixed-point rendering, not
         reachable: no fixed-point type) and encoding/json's read-back [ext_of]. *)
Theorem C03_decode_serialize_parse_encode_keccak :
  forall (fs : bfloat -> jv) (s : serializer),
    ts s = FormatAsFlatArrays \/ ts s = FormatAsObjects ->
    bs s <> Base64ByteSerializer ->
  forall (children : list tcomp) (v : val) (pre post : bytes),
    let c := root_of children in
    ser_ok s c = true -> widths_ok c = true -> tc_wf c = true -> tc_no_zero_len c = true ->
    well_typed (ty_of c) v = true -> weight_ok v -> cval_utf8 (cv_of c v) = true ->
    zlen (enc (ty_of c) v) < 2 ^ 32 -> counts_ok v = true ->
    exists x j, DecodeABIData c (pre ++ enc (ty_of c) v ++ post) (zlen pre) = Ok x /\
                SerializeJSON_go keccak256 fs NumericDefaultNameGenerator s x = Ok j /\
                EncodeABIDataValues EthTypes.Model.BigIntegerFromString children (ext_of j) = Ok (enc (ty_of c) v).
Proof. exact decode_serialize_parse_encode_keccak. Qed.
Print Assumptions C03_decode_serialize_parse_encode_keccak.

(* 16. (issue 1, refutation) Without the guard the two serializer clauses are FALSE of the faithful
       model (and of the Go code: known finding C03/string-invalid-utf8, run by the harness every time):
       type (string), value the byte ff satisfies every hypothesis of theorems 5 and 9, json.Marshal
       writes U+FFFD, the document does not denote the value and parsing it back encodes other bytes -
       in every formatting mode and with every integer / byte / address serializer. *)
Theorem C03_invalid_utf8_refuted :
  forall (H : bytes -> bytes) (fs : bfloat -> jv) (s : serializer), ts s <> FormatOther ->
    let c := root_of bad_children in
    ser_ok s c = true /\ widths_ok c = true /\ tc_wf c = true /\ tc_no_zero_len c = true /\
    well_typed (ty_of c) bad_value = true /\ cval_utf8 (cv_of c bad_value) = false /\
    exists j, SerializeJSON_go H fs NumericDefaultNameGenerator s (cv_of c bad_value) = Ok j /\
              denotes H s c bad_value j = false /\
              EncodeABIDataValues EthTypes.Model.BigIntegerFromString bad_children (ext_of j) <> Ok (enc (ty_of c) bad_value).
Proof. exact invalid_utf8_refuted. Qed.
Print Assumptions C03_invalid_utf8_refuted.

(* --- Issue 2: the object-mode guard [names_distinct] inside [ser_ok] is a narrowing of the property
   (declared in props/C03.json).  17. Refutation without it: for (uint256 a, uint256 a) and for
   (uint8 "1", uint8 <unnamed, index 1>) every other part of [ser_ok] holds, the Go map assignment
   overwrites, the document has ONE entry and does not denote the value (1, 2). *)
Theorem C03_object_collision_refuted :
  forall (H : bytes -> bytes) (fs : bfloat -> jv),
    collision_facts H fs dup_tuple (VList [VNum 1; VNum 2]) (JObj [([x61], JStr [x32])]) /\
    collision_facts H fs idx_tuple (VList [VNum 1; VNum 2]) (JObj [([x31], JStr [x32])]).
Proof. exact object_collision_refuted. Qed.
Print Assumptions C03_object_collision_refuted.

(* --- Issue 4: clause F ("numbers only when exactly representable") is proved for number-if-fits
   (theorem 6).  18. JSONNumberIntSerializer emits a number token for EVERY integer, 2^256-1 included
   (json.Number of arbitrary size): by design that serializer does not satisfy the clause. *)
Theorem C03_json_number_always_number :
  forall H fs dn (s : serializer) l e su m n k (i : Z),
    is_ s = JSONNumberIntSerializer -> (e = EInt \/ e = EUInt) ->
    SerializeJSON H fs dn s (CV (Some (TCElem e su m n k)) l (GBigInt i)) = Ok (JNumber (Z_dec i)) /\
    SerializeJSON_go H fs dn s (CV (Some (TCElem e su m n k)) l (GBigInt i)) = Ok (JNumber (Z_dec i)).
Proof. exact json_number_serialized. Qed.
Print Assumptions C03_json_number_always_number.

(* --- Issue 3: base64.  [denotes] compares a base64 leaf with [Render.base64] itself.  19. An
   independent RFC 4648 reader (Abi/Base64Dec.v: strict, canonical, shares no code with the encoder;
   RFC section 10 vectors as Examples there) reads every encoder output back; hence 20. a bytes /
   function leaf that [denotes] accepts in base64 mode, and 21. an address leaf under the nil address
   serializer, are read by that decoder as the value's bytes. *)
Theorem C03_base64_read_back :
  forall b : bytes, base64_decode (base64 b) = Some b.
Proof. exact base64_decode_encode. Qed.
Print Assumptions C03_base64_read_back.

Theorem C03_base64_leaf_decodes :
  forall (b : bytes) (j : jv),
    denotes_bytes Base64ByteSerializer b j = true -> exists t, j = JStr t /\ base64_decode t = Some b.
Proof. exact denotes_bytes_base64_decodes. Qed.
Print Assumptions C03_base64_leaf_decodes.

Theorem C03_base64_address_decodes :
  forall (H : bytes -> bytes) (s : serializer) (z : Z) (j : jv),
    ad s = None -> bs s = Base64ByteSerializer -> denotes_addr H s z j = true ->
    exists t a, j = JStr t /\ base64_decode t = Some a /\ is_addr_of z a = true.
Proof. exact denotes_addr_base64_decodes. Qed.
Print Assumptions C03_base64_address_decodes.

(* 22. ... and conversely (Abi/Base64DecInj.v: the strict decoder accepts only the canonical text): for
       bytes / function leaves the base64 case of the denotation IS the independent reader - a leaf is
       accepted exactly when the RFC 4648 decoder reads it as the value's bytes. *)
From FFS Require Import Abi.Base64DecInj.
Theorem C03_base64_leaf_iff :
  forall (b : bytes) (j : jv),
    denotes_bytes Base64ByteSerializer b j = true <-> exists t, j = JStr t /\ base64_decode t = Some b.
Proof. exact denotes_bytes_base64_iff. Qed.
Print Assumptions C03_base64_leaf_iff.

Theorem C03_base64_address_iff :
  forall (H : bytes -> bytes) (s : serializer) (z : Z) (j : jv),
    ad s = None -> bs s = Base64ByteSerializer ->
    (denotes_addr H s z j = true <->
     exists t a, j = JStr t /\ base64_decode t = Some a /\ is_addr_of z a = true).
Proof. exact denotes_addr_base64_iff. Qed.
Print Assumptions C03_base64_address_iff.

Theorem C03_base64_decoder_canonical :
  forall t b : bytes, base64_decode t = Some b <-> t = base64 b.
Proof. exact base64_decode_iff. Qed.
Print Assumptions C03_base64_decoder_canonical.

(* ---------------- non-vacuity of the additions ---------------- *)
(* the UTF-8 guard: true for 1- to 4-byte encodings at the range ends (U+0080, U+07FF, U+0800, U+D7FF,
   U+E000, U+FFFD, U+10000, U+10FFFF), false for ff, a truncated sequence, an overlong form, a surrogate,
   a code point above U+10FFFF; what a JSON reader gets back in those cases *)
Example C03_utf8_guard_nonvacuous :
  let st := TCElem EString [] 0 0 [x73] in
  let c := TCTuple [st; TCDynArr st []] [] in
  let good := [xc2; x80; xdf; xbf; xe0; xa0; x80; xed; x9f; xbf; xee; x80; x80; xef; xbf; xbd;
               xf0; x90; x80; x80; xf4; x8f; xbf; xbf; x41] in
  names_utf8 c = true /\
  strings_utf8 (ty_of c) (VList [VBytes good; VList [VBytes []; VBytes good]]) = true /\
  cval_utf8 (cv_of c (VList [VBytes good; VList [VBytes []; VBytes good]])) = true /\
  strings_utf8 (ty_of c) (VList [VBytes good; VList [VBytes [xff]]]) = false /\
  forallb (fun b => negb (utf8_ok b))
          [[xff]; [xc3]; [xe2; x82]; [xc0; xaf]; [xed; xa0; x80]; [xf4; x90; x80; x80]; [xf0; x9f; x98]; [x80]] = true /\
  json_text good = good /\
  json_text [x61; xff; x62] = [x61; xef; xbf; xbd; x62] /\
  json_text [xed; xa0; x80] = [xef; xbf; xbd; xef; xbf; xbd; xef; xbf; xbd] /\
  json_text [xe2; x82; x41] = [xef; xbf; xbd; xef; xbf; xbd; x41].
Proof. vm_compute. repeat split; reflexivity. Qed.

(* theorems 13-15 in the self-describing and the flat-array mode (the referee's "cheap addition"), with
   the concrete Keccak-256, a checksum address, a non-ASCII string, base64 bytes; and the whole chain
   bytes -> decode -> serialize -> parse -> encode -> bytes evaluated on an instance of theorem 15 *)
Example C03_serialize_modes_nonvacuous :
  let sd := {| ts := FormatAsSelfDescribingArrays; is_ := NumberIfFitsOrBase10StringIntSerializer;
               bs := Base64ByteSerializer; ad := Some ChecksumAddrSerializer |} in
  let fl := {| ts := FormatAsFlatArrays; is_ := JSONNumberIntSerializer;
               bs := HexByteSerializer0xPrefix; ad := None |} in
  let children := [TCElem EUInt [x32; x35; x36] 256 0 [x61]; TCElem EAddress [] 160 0 [];
                   TCDynArr (TCElem EString [] 0 0 []) [x73];
                   TCTuple [TCElem EBytes [] 0 0 [x62]; TCElem EBool [] 8 0 []] [x74]] in
  let c := root_of children in
  let v := VList [VNum (2 ^ 256 - 1); VNum 0x5aaeb6053f3e94c9b9a09f33669435e7ef1beaed;
                  VList [VBytes [x63; x61; x66; xc3; xa9]; VBytes []];
                  VList [VBytes [x66; x6f; x6f; x62]; VNum 1]] in
  ser_ok sd c = true /\ ser_ok fl c = true /\ widths_ok c = true /\ tc_wf c = true /\ tc_no_zero_len c = true /\
  well_typed (ty_of c) v = true /\ names_utf8 c = true /\ strings_utf8 (ty_of c) v = true /\
  zlen (enc (ty_of c) v) < 2 ^ 32 /\ counts_ok v = true /\
  (exists j, SerializeJSON_go keccak256 (fun _ => JNull) NumericDefaultNameGenerator sd (cv_of c v) = Ok j /\
             denotes keccak256 sd c v j = true) /\
  (exists x j, DecodeABIData c ([x01; x02; x03; x04] ++ enc (ty_of c) v ++ [xff]) 4 = Ok x /\
               SerializeJSON_go keccak256 (fun _ => JNull) NumericDefaultNameGenerator fl x = Ok j /\
               denotes keccak256 fl c v j = true /\
               EncodeABIDataValues EthTypes.Model.BigIntegerFromString children (ext_of j) = Ok (enc (ty_of c) v)).
Proof.
  cbv zeta. do 8 (split; [vm_compute; reflexivity|]). split; [vm_compute; reflexivity|]. split; [vm_compute; reflexivity|].
  split; [eexists; split; [vm_compute; reflexivity|vm_compute; reflexivity]|].
  eexists; eexists. split; [vm_compute; reflexivity|]. split; [vm_compute; reflexivity|].
  split; [vm_compute; reflexivity|vm_compute; reflexivity].
Qed.

(* theorem 18: 2^256-1 leaves JSONNumberIntSerializer as a 78-digit number token although it is not
   exactly representable (number-if-fits writes it as a string); theorem 20 on a serialized leaf *)
Example C03_number_and_base64_nonvacuous :
  let s := {| ts := FormatAsFlatArrays; is_ := JSONNumberIntSerializer; bs := Base64ByteSerializer; ad := None |} in
  let u := TCElem EUInt [x32; x35; x36] 256 0 [] in
  SerializeJSON_go keccak256 (fun _ => JNull) NumericDefaultNameGenerator s (CV (Some u) [] (GBigInt (2 ^ 256 - 1)))
    = Ok (JNumber (Z_dec (2 ^ 256 - 1))) /\
  length (Z_dec (2 ^ 256 - 1)) = 78%nat /\ (Z.abs (2 ^ 256 - 1) <=? 2 ^ 53 - 1) = false /\
  SerializeJSON_go keccak256 (fun _ => JNull) NumericDefaultNameGenerator s
    (CV (Some (TCElem EBytes [] 0 0 [])) [] (GBytes [x66; x6f; x6f; x62; x61])) = Ok (JStr [x5a; x6d; x39; x76; x59; x6d; x45; x3d]) /\
  base64_decode [x5a; x6d; x39; x76; x59; x6d; x45; x3d] = Some [x66; x6f; x6f; x62; x61] /\
  base64_decode [x5a; x6d; x39; x76; x59; x6d; x46; x3d] = None.
Proof. vm_compute. repeat split; reflexivity. Qed.

(* ==================================================================================================
   Wave 6: the tuple-width guard [widths_ok] (tuples of at most 1024 members) is REMOVED from the round
   trip (proofs in Abi/SerRoundTripWide.v; nothing above is changed, theorems 7-9, 14, 15 are instances
   of the ones below).  The guard came from comparing strconv.Itoa (the input walk's default member key,
   a div/mod loop) with strconv.FormatInt (the serializer's default member name, N.to_uint) by
   computation on 0..1024.
   ================================================================================================== *)
From FFS Require Abi.ReprSpec Abi.SerRoundTripWide.

(* 23. For EVERY index the input walk's default key is the serializer's default member name, and both
       are the canonical decimal text of the index in the sense of the independent specification
       ReprSpec.dec_text (most significant digit first, no leading zero, "0" for zero). *)
Theorem C03_default_key_is_default_name :
  forall i : nat,
    InputModel.itoa i = NumericDefaultNameGenerator i /\
    ReprSpec.dec_text (N.of_nat i) (InputModel.itoa i) /\ ReprSpec.dec_text (N.of_nat i) (NumericDefaultNameGenerator i).
Proof. exact SerRoundTripWide.default_key_is_default_name. Qed.
Print Assumptions C03_default_key_is_default_name.

(* 24. Theorem 9 (C19's model of the text parser, no parser hypothesis) without the width guard. *)
Theorem C03_json_roundtrip_wide :
  forall (H : bytes -> bytes), (forall x, length (H x) = 32%nat) ->
  forall (fs : bfloat -> jv) (s : serializer),
    ts s = FormatAsFlatArrays \/ ts s = FormatAsObjects ->
    bs s <> Base64ByteSerializer ->
  forall (children : list tcomp) (v : val),
    let c := root_of children in
    ser_ok s c = true -> tc_wf c = true -> tc_no_zero_len c = true ->
    well_typed (ty_of c) v = true -> weight_ok v ->
    exists j, SerializeJSON H fs NumericDefaultNameGenerator s (cv_of c v) = Ok j /\
              EncodeABIDataValues EthTypes.Model.BigIntegerFromString children (ext_of j) = Ok (enc (ty_of c) v).
Proof. exact SerRoundTripWide.json_roundtrip_wide_c19. Qed.
Print Assumptions C03_json_roundtrip_wide.

(* 25. Theorem 14 (faithful json.Marshal entry point, UTF-8 guard) without the width guard. *)
Theorem C03_json_roundtrip_wide_utf8 :
  forall (H : bytes -> bytes), (forall x, length (H x) = 32%nat) ->
  forall (fs : bfloat -> jv) (s : serializer),
    ts s = FormatAsFlatArrays \/ ts s = FormatAsObjects ->
    bs s <> Base64ByteSerializer ->
  forall (children : list tcomp) (v : val),
    let c := root_of children in
    ser_ok s c = true -> tc_wf c = true -> tc_no_zero_len c = true ->
    well_typed (ty_of c) v = true -> weight_ok v -> cval_utf8 (cv_of c v) = true ->
    exists j, SerializeJSON_go H fs NumericDefaultNameGenerator s (cv_of c v) = Ok j /\
              EncodeABIDataValues EthTypes.Model.BigIntegerFromString children (ext_of j) = Ok (enc (ty_of c) v).
Proof. exact SerRoundTripWide.json_roundtrip_wide_go_c19. Qed.
Print Assumptions C03_json_roundtrip_wide_utf8.

(* 26. Theorem 15 (bytes -> decode -> serialize -> parse -> encode -> the same bytes) without the width
       guard: guards on the type (ser_ok, tc_wf, no T[0], names valid UTF-8) and on the value only. *)
Theorem C03_decode_serialize_parse_encode_wide :
  forall (H : bytes -> bytes), (forall x, length (H x) = 32%nat) ->
  forall (fs : bfloat -> jv) (s : serializer),
    ts s = FormatAsFlatArrays \/ ts s = FormatAsObjects ->
    bs s <> Base64ByteSerializer ->
  forall (children : list tcomp) (v : val) (pre post : bytes),
    let c := root_of children in
    ser_ok s c = true -> tc_wf c = true -> tc_no_zero_len c = true ->
    well_typed (ty_of c) v = true -> weight_ok v ->
    names_utf8 c = true -> strings_utf8 (ty_of c) v = true ->
    zlen (enc (ty_of c) v) < 2 ^ 32 -> counts_ok v = true ->
    exists x j, DecodeABIData c (pre ++ enc (ty_of c) v ++ post) (zlen pre) = Ok x /\
                SerializeJSON_go H fs NumericDefaultNameGenerator s x = Ok j /\
                EncodeABIDataValues EthTypes.Model.BigIntegerFromString children (ext_of j) = Ok (enc (ty_of c) v).
Proof. exact SerRoundTripWide.decode_serialize_parse_encode_wide_strings. Qed.
Print Assumptions C03_decode_serialize_parse_encode_wide.

(* 26'. The implication form (whatever the decoder returned and the serializer wrote). *)
Theorem C03_decode_serialize_parse_encode_wide_any :
  forall (H : bytes -> bytes), (forall x, length (H x) = 32%nat) ->
  forall (fs : bfloat -> jv) (s : serializer),
    ts s = FormatAsFlatArrays \/ ts s = FormatAsObjects ->
    bs s <> Base64ByteSerializer ->
  forall (children : list tcomp) (v : val) (pre post : bytes),
    let c := root_of children in
    ser_ok s c = true -> tc_wf c = true -> tc_no_zero_len c = true ->
    well_typed (ty_of c) v = true -> weight_ok v -> cval_utf8 (cv_of c v) = true ->
    zlen (enc (ty_of c) v) < 2 ^ 32 -> counts_ok v = true ->
    forall x j, DecodeABIData c (pre ++ enc (ty_of c) v ++ post) (zlen pre) = Ok x ->
                SerializeJSON_go H fs NumericDefaultNameGenerator s x = Ok j ->
                EncodeABIDataValues EthTypes.Model.BigIntegerFromString children (ext_of j) = Ok (enc (ty_of c) v).
Proof. exact SerRoundTripWide.decode_serialize_parse_encode_wide_any. Qed.
Print Assumptions C03_decode_serialize_parse_encode_wide_any.

(* 26''. With the concrete Keccak-256. *)
Theorem C03_decode_serialize_parse_encode_wide_keccak :
  forall (fs : bfloat -> jv) (s : serializer),
    ts s = FormatAsFlatArrays \/ ts s = FormatAsObjects ->
    bs s <> Base64ByteSerializer ->
  forall (children : list tcomp) (v : val) (pre post : bytes),
    let c := root_of children in
    ser_ok s c = true -> tc_wf c = true -> tc_no_zero_len c = true ->
    well_typed (ty_of c) v = true -> weight_ok v -> cval_utf8 (cv_of c v) = true ->
    zlen (enc (ty_of c) v) < 2 ^ 32 -> counts_ok v = true ->
    exists x j, DecodeABIData c (pre ++ enc (ty_of c) v ++ post) (zlen pre) = Ok x /\
                SerializeJSON_go keccak256 fs NumericDefaultNameGenerator s x = Ok j /\
                EncodeABIDataValues EthTypes.Model.BigIntegerFromString children (ext_of j) = Ok (enc (ty_of c) v).
Proof. exact SerRoundTripWide.decode_serialize_parse_encode_wide_keccak. Qed.
Print Assumptions C03_decode_serialize_parse_encode_wide_keccak.

(* non-vacuity of 23-26: a parameter list of 1031 members (a string named "s", 1030 unnamed uint8 with the
   default keys "1" .. "1030"), object mode with 0x-hex integers: [widths_ok] is FALSE (theorems 7-9, 14, 15
   say nothing), every guard of theorems 24-26 holds, and the chain of theorem 26 with 4 bytes before and one
   after gives back the bytes.  Evaluated once in Abi/SerRoundTripWide.v (11 s of vm_compute); restated here. *)
Example C03_wide_nonvacuous :
  let s1 := {| ts := FormatAsObjects; is_ := HexIntSerializer0xPrefix;
               bs := HexByteSerializer0xPrefix; ad := Some ChecksumAddrSerializer |} in
  let c := root_of SerRoundTripWide.wide_children in
  let v := SerRoundTripWide.wide_value in
  length SerRoundTripWide.wide_children = 1031%nat /\
  widths_ok c = false /\ ser_ok s1 c = true /\ tc_wf c = true /\ tc_no_zero_len c = true /\
  well_typed (ty_of c) v = true /\ names_utf8 c = true /\ strings_utf8 (ty_of c) v = true /\
  (zlen (enc (ty_of c) v) <? 2 ^ 32) = true /\ counts_ok v = true /\
  (match DecodeABIData c ([x01; x02; x03; x04] ++ enc (ty_of c) v ++ [xff]) 4 with
   | Ok x => match SerializeJSON_go keccak256 (fun _ => JNull) NumericDefaultNameGenerator s1 x with
             | Ok j => match EncodeABIDataValues EthTypes.Model.BigIntegerFromString SerRoundTripWide.wide_children (ext_of j) with
                       | Ok b => bytes_eqb b (enc (ty_of c) v)
                       | _ => false end
             | _ => false end
   | _ => false end) = true /\
  InputModel.itoa (N.to_nat 1030) = [x31; x30; x33; x30] /\
  effective_name (N.to_nat 1030) (TCElem EUInt [x38] 8 0 []) = [x31; x30; x33; x30].
Proof. split; [vm_compute; reflexivity|]. exact SerRoundTripWide.wide_nonvacuous. Qed.
