(* C09 — the proxy signs eth_sendTransaction for `from` and relays everything else unchanged.
   Statements only; proofs live in Rpc/Proofs*.v.

   The model (Rpc/Model.v) is parametric in: the integer parser (property C19), the JSON lexer,
   the wallet — an address list and a signing function, constrained only by [wallet_sound], the
   conclusion of C08 ∘ C01 — the backend (ANY function from the frame it sees to an HTTP reply or a
   transport failure) and the chain id.  Every theorem below holds for all of them, for all request
   trees, and — for batches — for every completion order of the member goroutines.  Section 8
   (theorems C09_fswallet_...) instantiates the wallet with property C08's model of pkg/fswallet and derives the
   wallet hypotheses from C08's theorems (proofs in Rpc/WithWallet.v).

   Vocabulary: [count_frame a] is eth_getTransactionCount(a, "pending"); [raw_frame raw] is
   eth_sendRawTransaction("0x" ++ hex raw); [raw_recovers_to H ecrecover raw chain from fm f] says raw
   is exactly the EIP-155 / EIP-1559 wire format (Tx/Spec.v) of the fields f with a signature whose
   recovery on the Keccak of the signing pre-image yields from. *)
From Coq Require Import String.
From Coq Require Import List NArith ZArith Bool Arith Permutation.
From Coq Require Import Init.Byte.
From FFS Require Import Base.Res Base.Bytes Rlp.Spec Tx.Spec Rpc.Json Rpc.Model Rpc.Spec
  Rpc.ProofsBatch Rpc.Proofs Rpc.ProofsHandler.
Import ListNotations.
Local Open Scope string_scope.
Local Open Scope list_scope.

(* 1. eth_sendTransaction.  If the parameter decodes and `from` parses to an address a, then either
      exactly one raw transaction is submitted — after exactly one pending-count query iff no nonce
      was supplied, and nothing else — and it recovers under the chain id to a, which the wallet
      holds, with the requested fields and the nonce supplied or reported by the backend, the reply
      being the backend's answer to that submission under the caller's id;  or nothing is submitted
      (only the count query, if any, was made) and the reply is an error object under the caller's id. *)
Theorem C09_send_tx :
  forall parse_int accounts sign_with backend chain H ecrecover,
    wallet_sound H ecrecover accounts sign_with chain ->
    forall rq id p0 rest tx f a,
    (forall a t c, sign_with a t c <> Panic) ->
    rq_id rq = Some id -> rq_method rq = bs "eth_sendTransaction" -> rq_params rq = p0 :: rest ->
    decode_transaction parse_int p0 = Ok tx -> tx_from tx = Some f -> dec_address f = Ok a ->
    exists resp err frames,
      processRPC parse_int accounts sign_with backend chain (Some rq) = Ok (Some resp, err, frames) /\
      rs_id resp = Some id /\
      let pre := match tx_nonce tx with Some _ => [] | None => [count_frame a] end in
      ((exists nonce raw,
          frames = pre ++ [raw_frame raw] /\
          nonce_source parse_int backend tx a nonce pre /\
          In a accounts /\
          raw_recovers_to H ecrecover raw (Z.to_N chain) a (requested_format tx)
                          (requested_fields (set_nonce tx nonce)) /\
          (resp, err) = fst (SyncRequest backend (send_raw_request rq raw)))
       \/ (frames = pre /\ err = true /\ is_proxy_error resp (Some id))).
Proof. exact send_tx. Qed.
Print Assumptions C09_send_tx.

(* 1b. The success path, fully determined.  With a nonce in the request and a wallet that signs:
       exactly the one raw-transaction frame.  Without a nonce, a backend that answers the count
       query with a result v (any echoed id) that parses to n, and a wallet that signs the
       transaction carrying nonce n: exactly the count query followed by the raw transaction. *)
Theorem C09_send_tx_exact :
  forall parse_int accounts sign_with backend chain rq id p0 rest tx f a,
    rq_id rq = Some id -> rq_method rq = bs "eth_sendTransaction" -> rq_params rq = p0 :: rest ->
    decode_transaction parse_int p0 = Ok tx -> tx_from tx = Some f -> dec_address f = Ok a ->
    (forall n raw,
       tx_nonce tx = Some n -> sign_with a tx chain = Ok raw ->
       exists resp err,
         processRPC parse_int accounts sign_with backend chain (Some rq) = Ok (Some resp, err, [raw_frame raw]) /\
         (resp, err) = fst (SyncRequest backend (send_raw_request rq raw))) /\
    (forall echo v n raw,
       tx_nonce tx = None -> backend (count_frame a) = reply_result echo v -> v <> JNull ->
       dec_hexint parse_int v = Ok n -> sign_with a (set_nonce tx (Some n)) chain = Ok raw ->
       exists resp err,
         processRPC parse_int accounts sign_with backend chain (Some rq)
         = Ok (Some resp, err, [count_frame a; raw_frame raw]) /\
         (resp, err) = fst (SyncRequest backend (send_raw_request rq raw))).
Proof. exact send_tx_exact. Qed.
Print Assumptions C09_send_tx_exact.

(* 1c. ... and from the bytes on the wire: a body that lexes to the request object
       {jsonrpc, id, "eth_sendTransaction", [p0, ...]} yields one HTTP reply carrying the id and
       exactly the frames of theorem 1 (or, on failure, no submission, status 500 and no result). *)
Theorem C09_send_tx_end_to_end :
  forall parse_int lex accounts sign_with backend chain H ecrecover body order ver id p0 rest tx f a,
    wallet_sound H ecrecover accounts sign_with chain ->
    (forall a t c, sign_with a t c <> Panic) ->
    (b2n (sniffFirstByte body) =? 91)%N = false ->
    lex body = Some (request_tree ver id (bs "eth_sendTransaction") (p0 :: rest)) -> id <> JNull ->
    decode_transaction parse_int p0 = Ok tx -> tx_from tx = Some f -> dec_address f = Ok a ->
    exists status tree frames,
      rpcHandler parse_int lex accounts sign_with backend chain body order = Ok (status, tree, [frames]) /\
      tree_member (bs "id") tree = Some id /\
      let pre := match tx_nonce tx with Some _ => [] | None => [count_frame a] end in
      ((exists nonce raw,
          frames = pre ++ [raw_frame raw] /\
          nonce_source parse_int backend tx a nonce pre /\
          In a accounts /\
          raw_recovers_to H ecrecover raw (Z.to_N chain) a (requested_format tx)
                          (requested_fields (set_nonce tx nonce)))
       \/ (frames = pre /\ status = 500%N /\ tree_member (bs "result") tree = None)).
Proof. exact send_tx_end_to_end. Qed.
Print Assumptions C09_send_tx_end_to_end.

(* 2. Nothing is submitted on failure.  (a) A raw-transaction frame leaves the proxy for an
      eth_sendTransaction request ONLY IF the parameter decoded, `from` parsed to an address the
      wallet holds, the wallet signed, and the bytes recover to that address with the requested
      fields.  (b) Spelt out: no parameters, an undecodable parameter, no / unparsable `from`, a
      `from` the wallet does not hold, or a wallet that fails to sign — no raw-transaction frame at
      all, HTTP 500, and an error object under the caller's id. *)
Theorem C09_nothing_on_failure :
  forall parse_int accounts sign_with backend chain H ecrecover,
    wallet_sound H ecrecover accounts sign_with chain ->
    (forall rq o fr,
       rq_method rq = bs "eth_sendTransaction" ->
       processRPC parse_int accounts sign_with backend chain (Some rq) = Ok o ->
       In fr (o_frames o) -> is_raw_frame fr = true ->
       exists p0 rest tx f a nonce raw,
         rq_params rq = p0 :: rest /\ decode_transaction parse_int p0 = Ok tx /\
         tx_from tx = Some f /\ dec_address f = Ok a /\ In a accounts /\
         nonce_source parse_int backend tx a nonce (match tx_nonce tx with Some _ => [] | None => [count_frame a] end) /\
         sign_with a (set_nonce tx nonce) chain = Ok raw /\ fr = raw_frame raw /\
         raw_recovers_to H ecrecover raw (Z.to_N chain) a (requested_format tx) (requested_fields (set_nonce tx nonce)))
    /\
    (forall rq id o,
       rq_id rq = Some id -> rq_method rq = bs "eth_sendTransaction" ->
       processRPC parse_int accounts sign_with backend chain (Some rq) = Ok o ->
       (rq_params rq = []
        \/ exists p0 rest, rq_params rq = p0 :: rest /\
             ((exists e, decode_transaction parse_int p0 = Err e)
              \/ exists tx, decode_transaction parse_int p0 = Ok tx /\
                   (tx_from tx = None
                    \/ exists f, tx_from tx = Some f /\
                         ((exists e, dec_address f = Err e)
                          \/ exists a, dec_address f = Ok a /\
                               (~ In a accounts \/ forall t raw, sign_with a t chain <> Ok raw))))) ->
       (forall fr, In fr (o_frames o) -> is_raw_frame fr = false) /\
       o_err o = true /\ exists resp, o_resp o = Some resp /\ is_proxy_error resp (Some id)).
Proof.
  intros parse_int accounts sign_with backend chain H ecrecover W. split.
  - exact (raw_only_if parse_int accounts sign_with backend chain H ecrecover W).
  - exact (nothing_on_failure parse_int accounts sign_with backend chain H ecrecover W).
Qed.
Print Assumptions C09_nothing_on_failure.

(* 3. eth_accounts / personal_accounts: the wallet's addresses, under the caller's id, nothing sent. *)
Theorem C09_accounts :
  forall parse_int accounts sign_with backend chain rq id,
    rq_id rq = Some id ->
    rq_method rq = bs "eth_accounts" \/ rq_method rq = bs "personal_accounts" ->
    processRPC parse_int accounts sign_with backend chain (Some rq)
    = Ok (Some (mkResp (bs "2.0") (Some id) (Some (JArr (map address_json accounts))) None [] None), false, []).
Proof. exact accounts_spec. Qed.
Print Assumptions C09_accounts.

(* 4. Every other method: exactly one frame, the same method and the same parameter list (an absent
      params member is the empty list — the only normalisation), and the reply is what SyncRequest
      makes of the backend's answer, under the caller's id. *)
Theorem C09_passthrough :
  forall parse_int accounts sign_with backend chain rq id,
    rq_id rq = Some id -> special_method (rq_method rq) = false ->
    exists resp err,
      processRPC parse_int accounts sign_with backend chain (Some rq)
      = Ok (Some resp, err, [mkFrame (rq_method rq) (rq_params rq)]) /\
      rs_id resp = Some id /\ (resp, err) = fst (SyncRequest backend rq).
Proof. exact passthrough_spec. Qed.
Print Assumptions C09_passthrough.

(* 4b. ... from the bytes on the wire to the frame at the backend: a body that lexes to the request
       object {jsonrpc, id, method, params} with a non-null id and a method other than the three
       special ones yields exactly the frame (method, params), and a reply carrying that id. *)
Theorem C09_passthrough_end_to_end :
  forall parse_int lex accounts sign_with backend chain body order ver id m ps,
    (b2n (sniffFirstByte body) =? 91)%N = false ->
    lex body = Some (request_tree ver id m ps) -> id <> JNull -> special_method m = false ->
    exists status tree,
      rpcHandler parse_int lex accounts sign_with backend chain body order = Ok (status, tree, [[mkFrame m ps]]) /\
      tree_member (bs "id") tree = Some id.
Proof. exact passthrough_end_to_end. Qed.
Print Assumptions C09_passthrough_end_to_end.

(* 5. Ids.  Whatever the method, the backend (so: whatever id it echoes) and the wallet, a request
      carrying an id is answered by an object whose id member is that id — for a single request and
      for every member of a batch under every completion order; and a backend result, or JSON-RPC
      error with non-zero code, is relayed unchanged under that id. *)
Theorem C09_ids :
  forall parse_int lex accounts sign_with backend chain,
    (forall body order t rq id o,
       (b2n (sniffFirstByte body) =? 91)%N = false ->
       lex body = Some t -> decode_request t = Ok rq -> rq_id rq = Some id ->
       processRPC parse_int accounts sign_with backend chain (Some rq) = Ok o ->
       exists status tree traces,
         rpcHandler parse_int lex accounts sign_with backend chain body order = Ok (status, tree, traces) /\
         tree_member (bs "id") tree = Some id)
    /\
    (forall body t members outs order,
       (b2n (sniffFirstByte body) =? 91)%N = true ->
       lex body = Some t -> decode_batch t = Ok members -> members <> [] ->
       run_members parse_int accounts sign_with backend chain members = Ok outs ->
       Permutation order (seq 0 (length members)) ->
       exists status trees traces,
         rpcHandler parse_int lex accounts sign_with backend chain body order = Ok (status, JArr trees, traces) /\
         Forall2 (fun m tree => forall rq id, m = Some rq -> rq_id rq = Some id -> tree_member (bs "id") tree = Some id)
                 members trees)
    /\
    (forall rq id echo v,
       rq_id rq = Some id -> special_method (rq_method rq) = false ->
       backend (mkFrame (rq_method rq) (rq_params rq)) = reply_result echo v ->
       processRPC parse_int accounts sign_with backend chain (Some rq)
       = Ok (Some (mkResp (bs "2.0") (Some id) (Some v) None [] None), false, [mkFrame (rq_method rq) (rq_params rq)]))
    /\
    (forall rq id status echo code_text code msg,
       rq_id rq = Some id -> special_method (rq_method rq) = false ->
       backend (mkFrame (rq_method rq) (rq_params rq)) = error_reply status echo code_text msg ->
       parse_int64 code_text = Some code -> code <> 0%Z ->
       (status =? 204)%N = false -> is_success status || is_error status = true ->
       processRPC parse_int accounts sign_with backend chain (Some rq)
       = Ok (Some (mkResp (bs "2.0") (Some id) None (Some (mkErr code msg true None)) [] None), true,
             [mkFrame (rq_method rq) (rq_params rq)])).
Proof.
  intros parse_int lex accounts sign_with backend chain. repeat split.
  - exact (ids_single parse_int lex accounts sign_with backend chain).
  - exact (ids_batch parse_int lex accounts sign_with backend chain).
  - exact (passthrough_relays_result parse_int accounts sign_with backend chain).
  - exact (passthrough_relays_error parse_int accounts sign_with backend chain).
Qed.
Print Assumptions C09_ids.

(* 6. Batch alignment: for EVERY order in which the member goroutines complete (any permutation of
      the member indices) the reply is the array whose i-th element is the response computed for
      the i-th request, and the status is 500 iff some member failed. *)
Theorem C09_batch_alignment :
  forall parse_int lex accounts sign_with backend chain body t members outs order,
    lex body = Some t -> decode_batch t = Ok members -> members <> [] ->
    run_members parse_int accounts sign_with backend chain members = Ok outs ->
    Permutation order (seq 0 (length members)) ->
    handleRPCBatch parse_int lex accounts sign_with backend chain body order
    = Ok (if existsb o_err outs then 500%N else 200%N,
          JArr (map (fun o => response_opt_tree (o_resp o)) outs),
          map (fun o => snd o) outs)
    /\ Forall2 (fun m o => processRPC parse_int accounts sign_with backend chain m = Ok o) members outs.
Proof. exact batch_alignment. Qed.
Print Assumptions C09_batch_alignment.

(* 7. Chain id: a configured id (>= 0) is used as is and the backend is not asked; otherwise exactly
      one net_version query is made at start and its result (string or number, through the integer
      parser; Go's Int64(), the identity below 2^63) is the chain id; if
      the query fails the process does not come up.  (Theorems 1 and 2 hold for every chain id, in
      particular for the one Start returns.)
      Referee round: the guard [Z.of_N n < 2^63] in the third clause is new.  Before fix 0c95e98 of /repo
      a larger result was truncated to its low 64 bits (2^64+5 => 5, 2^63 => a negative id) and the
      clause held without the guard for that behaviour; the repaired code refuses such a result
      (C09_chain_id_decided, section 10k), and the model is the model of the repaired code. *)
Theorem C09_chain_id :
  forall parse_int backend,
    (forall c, (0 <= c)%Z -> Start parse_int backend c = (Ok c, []))
    /\ (forall c, (c < 0)%Z -> snd (Start parse_int backend c) = [net_version_frame])
    /\ (forall c echo v n,
          (c < 0)%Z -> backend net_version_frame = reply_result echo v -> v <> JNull ->
          dec_hexint parse_int v = Ok n -> (Z.of_N n < 9223372036854775808)%Z ->
          Start parse_int backend c = (Ok (wrap64 (Z.of_N n)), [net_version_frame]))
    /\ (forall z, (0 <= z < 9223372036854775808)%Z -> wrap64 z = z)
    /\ (forall c, (c < 0)%Z -> fst (CallRPC backend (bs "net_version") []) = inr tt ->
                  fst (Start parse_int backend c) = Err EStart).
Proof.
  intros parse_int backend. repeat split.
  - exact (start_configured parse_int backend).
  - exact (start_discover_frames parse_int backend).
  - exact (start_discovered parse_int backend).
  - exact wrap64_small.
  - exact (start_discovery_fails parse_int backend).
Qed.
Print Assumptions C09_chain_id.

(* ---------- non-vacuity ---------- *)

(* a toy wallet that meets [wallet_sound]: it holds one address and "signs" with a fixed signature
   that a toy ecrecover maps back to that address *)
Definition ex_addr : bytes := repeat x11 20.
Definition ex_sign (a : bytes) (t : transaction) (c : Z) : res bytes :=
  if bytes_eqb a ex_addr then Ok (spec_signed (requested_format t) (requested_fields t) (Z.to_N c) 1 5 7) else Err ESign.
Definition ex_ecrecover (_ : bytes) (y r s : N) : option bytes :=
  if ((y =? 1) && (r =? 5) && (s =? 7))%N then Some ex_addr else None.

Example C09_wallet_hypothesis_satisfiable :
  wallet_sound (fun _ => []) ex_ecrecover [ex_addr] ex_sign 2022%Z /\ (forall a t c, ex_sign a t c <> Panic).
Proof.
  split.
  - intros a t raw Hs. unfold ex_sign in Hs. destruct (bytes_eqb_spec a ex_addr) as [->|]; [|discriminate].
    injection Hs as <-. split; [left; reflexivity|]. exists 1%N, 5%N, 7%N. repeat split; reflexivity.
  - intros a t c. unfold ex_sign. destruct (bytes_eqb a ex_addr); discriminate.
Qed.

Definition ex_parse (s : bytes) : option Z :=       (* "0x" ++ hex digits only *)
  match s with
  | _ :: _ :: ds => match hex_decode (if Nat.even (length ds) then ds else x30 :: ds) with
                    | Some b => Some (Z.of_N (fold_left (fun acc x => acc * 256 + b2n x)%N b 0%N))
                    | None => None
                    end
  | _ => None
  end.

(* a backend that reports pending count 0x2a and accepts the raw transaction *)
Definition ex_backend (f : frame) : backend_reply :=
  if bytes_eqb (f_method f) (bs "eth_getTransactionCount") then reply_result (JStr (bs "000000001")) (JStr (bs "0x2a"))
  else reply_result (JNum (bs "99")) (JStr (bs "0xhash")).

Definition ex_tx : json :=
  JObj [(bs "from", JStr (hex0x ex_addr)); (bs "to", JStr (hex0x (repeat x22 20)));
        (bs "gas", JStr (bs "0x5208")); (bs "maxFeePerGas", JStr (bs "0x64")); (bs "data", JStr (bs "0xfeed"))].
Definition ex_request : rpc_request :=
  mkReq (bs "2.0") (Some (JNum (bs "18446744073709551617"))) (bs "eth_sendTransaction") [ex_tx].

(* the hypotheses of theorem 1 hold for it, no nonce is supplied, and the model indeed sends the
   count query followed by one EIP-1559 transaction carrying nonce 0x2a, answering with the
   backend's result under the caller's (large-integer) id although the backend echoed another id *)
Example C09_send_tx_nonvacuous :
  exists tx,
    decode_transaction ex_parse ex_tx = Ok tx /\
    (tx_from tx = Some (JStr (hex0x ex_addr)) /\
     dec_address (JStr (hex0x ex_addr)) = Ok ex_addr /\ tx_nonce tx = None /\
     requested_format tx = Eip1559 /\
     processRPC ex_parse [ex_addr] ex_sign ex_backend 2022%Z (Some ex_request)
     = Ok (Some (mkResp (bs "2.0") (Some (JNum (bs "18446744073709551617"))) (Some (JStr (bs "0xhash"))) None [] None),
           false,
           [count_frame ex_addr;
            raw_frame (spec_signed Eip1559 (requested_fields (set_nonce tx (Some 42%N))) 2022 1 5 7)])).
Proof.
  eexists. split; [vm_compute; reflexivity|].
  vm_compute. repeat split; reflexivity.
Qed.

(* a batch of three (pass-through, accounts, a request without id) completing in the order 2,0,1:
   the hypotheses of theorems 5/6 hold and the reply is aligned *)
Example C09_batch_nonvacuous :
  let body := ascii_bytes "[..]" in
  let t := JArr [JObj [(bs "id", JStr (bs "a")); (bs "method", JStr (bs "eth_blockNumber"))];
                 JObj [(bs "id", JNum (bs "2")); (bs "method", JStr (bs "eth_accounts"))];
                 JObj [(bs "method", JStr (bs "eth_call"))]] in
  exists members outs,
    decode_batch t = Ok members /\ members <> [] /\
    run_members ex_parse [ex_addr] ex_sign ex_backend 2022%Z members = Ok outs /\
    Permutation [2; 0; 1]%nat (seq 0 (length members)) /\
    exists trees traces,
      rpcHandler ex_parse (fun _ => Some t) [ex_addr] ex_sign ex_backend 2022%Z body [2; 0; 1]%nat
      = Ok (500%N, JArr trees, traces) /\
      map (tree_member (bs "id")) trees = [Some (JStr (bs "a")); Some (JNum (bs "2")); Some JNull].
Proof.
  cbv zeta. eexists. eexists. split; [vm_compute; reflexivity|]. split; [discriminate|].
  split; [vm_compute; reflexivity|]. split.
  - change (Permutation (2 :: [0; 1]) ([0; 1] ++ 2 :: []))%nat. apply Permutation_cons_app. apply Permutation_refl.
  - eexists. eexists. split; vm_compute; reflexivity.
Qed.

(* chain id discovery: "0x7e6" gives 2022 *)
Example C09_chain_id_nonvacuous :
  Start ex_parse (fun _ => reply_result JNull (JStr (bs "0x7e6"))) (-1)%Z = (Ok 2022%Z, [net_version_frame]).
Proof. vm_compute. reflexivity. Qed.

(* =================================================================================================
   8. (round 4) C09 ∘ C08: the proxy with the wallet it really runs — the file-system wallet of
      pkg/fswallet as modelled for property C08 (Wallet/Model.v).  Rpc/WithWallet.v DEFINES the abstract
      wallet of Rpc/Model.v from a state s of that wallet,
          accounts  := fs_accounts s            = fswallet.GetAccounts
          sign_with := fs_sign_with E c s       = getSignerForAddr (GetWalletFile), then the external
                                                  signer sign_tx (Transaction.Sign(keypair, chainID)),
      and the theorems below hold in EVERY state [fs_state E c fs h]: a fresh wallet over any file system
      fs followed by any history h of wallet operations (scans, earlier requests and their cache fills,
      any change of the file system, listener events, cache evictions).  The wallet hypotheses of
      theorems 1 and 2 (wallet_sound; sign_with <> Panic) are no longer assumed but derived from C08's
      theorems; what remains is named in each statement:
        signer_sound E H ecrecover   the external signer's law (ECDSA + wire format, property C01): what
                                     key k signs is the EIP wire format of the requested fields and
                                     recovers to the address of k
        ext_nopanic E                the keystore reader (C15) and the signers do not panic
        fs_nopanic fs, ops_ok h      the OS calls (ReadDir, ReadFile) do not panic, on the initial file
                                     system and on every later one
      (E is Wallet.Model.ext at tx := transaction * Z, stx := bytes; c the wallet configuration.) *)
From FFS Require Import Rpc.WithWallet.

(* 8a. The hypothesis [wallet_sound] of theorems 1 / 1c / 2, for the concrete wallet. *)
Theorem C09_fswallet_wallet_sound :
  forall (key doc tsig : Type) (E : W.ext key (transaction * Z) bytes doc tsig) (c : W.config) H ecrecover,
    signer_sound E H ecrecover ->
    forall fs h chain,
      wallet_sound H ecrecover (fs_accounts (fs_state E c fs h)) (fs_sign_with E c (fs_state E c fs h)) chain.
Proof. exact (@fs_wallet_sound). Qed.
Print Assumptions C09_fswallet_wallet_sound.

(* 8b. The hypothesis [sign_with <> Panic] of theorems 1 / 1c (and of C16's totality theorem). *)
Theorem C09_fswallet_sign_never_panics :
  forall (key doc tsig : Type) (E : W.ext key (transaction * Z) bytes doc tsig) (c : W.config) fs h,
    WP3.ext_nopanic key (transaction * Z)%type bytes doc tsig E -> WP3.fs_nopanic fs -> ops_ok h ->
    forall a t chain, fs_sign_with E c (fs_state E c fs h) a t chain <> Panic.
Proof. exact (@fs_sign_nopanic). Qed.
Print Assumptions C09_fswallet_sign_never_panics.

(* 8c. "A signature returned for address a is by the key of a": the bytes are what the external signer
       returned for a key k whose address is a, a is listed, and k is the entry cached under a's string or
       the key read from the file the directory scan associated with a (key_of_from). *)
Theorem C09_fswallet_signature_by_key_of_from :
  forall (key doc tsig : Type) (E : W.ext key (transaction * Z) bytes doc tsig) (c : W.config) fs h a t chain raw,
    fs_sign_with E c (fs_state E c fs h) a t chain = Ok raw ->
    exists k, key_of_from E c (fs_state E c fs h) a k /\ W.sign_tx key (transaction * Z)%type bytes doc tsig E k (t, chain) = Ok raw.
Proof. exact (@fs_sign_key). Qed.
Print Assumptions C09_fswallet_signature_by_key_of_from.

(* 8d. The two models meet.  Both transcribe ethtypes.Address0xHex.SetString and they agree; hence the
       proxy model's wallet_Sign (its own parse of `from`, then sign_with) gives the same class of result,
       and the same bytes, as the wallet model's Sign on the raw `from` (its own parse), where raw is any
       text that encoding/json decodes to the string the tree f holds (json_string_law). *)
Theorem C09_fswallet_models_meet :
  (forall s, address_of_string s = match W.parse_address s with Some a => Ok a | None => Err EJson end) /\
  (forall (key doc tsig : Type) (E : W.ext key (transaction * Z) bytes doc tsig) (c : W.config)
          (s : W.state key) chain tx f raw,
     tx_from tx = Some f -> json_string_law E f raw ->
     res_same (wallet_Sign (fs_sign_with E c s) chain tx)
              (snd (W.Sign key (transaction * Z)%type bytes doc tsig E c s raw (tx, chain)))).
Proof. split; [exact address_parsers_agree|exact (@wallet_Sign_is_Sign)]. Qed.
Print Assumptions C09_fswallet_models_meet.

(* 8e. Theorem 1 for the concrete wallet: additionally the submitted bytes are the external signer's
       output for the key file owning `from`. *)
Theorem C09_fswallet_send_tx :
  forall (key doc tsig : Type) (E : W.ext key (transaction * Z) bytes doc tsig) (c : W.config)
         parse_int backend chain H ecrecover fs h rq id p0 rest tx f a,
    let s := fs_state E c fs h in
    signer_sound E H ecrecover ->
    WP3.ext_nopanic key (transaction * Z)%type bytes doc tsig E -> WP3.fs_nopanic fs -> ops_ok h ->
    rq_id rq = Some id -> rq_method rq = bs "eth_sendTransaction" -> rq_params rq = p0 :: rest ->
    decode_transaction parse_int p0 = Ok tx -> tx_from tx = Some f -> dec_address f = Ok a ->
    exists resp err frames,
      fs_processRPC E c parse_int backend chain s (Some rq) = Ok (Some resp, err, frames) /\
      rs_id resp = Some id /\
      ((exists nonce raw k,
          frames = pre_frames tx a ++ [raw_frame raw] /\
          nonce_source parse_int backend tx a nonce (pre_frames tx a) /\
          key_of_from E c s a k /\
          W.sign_tx key (transaction * Z)%type bytes doc tsig E k (set_nonce tx nonce, chain) = Ok raw /\
          raw_recovers_to H ecrecover raw (Z.to_N chain) a (requested_format tx)
                          (requested_fields (set_nonce tx nonce)) /\
          (resp, err) = fst (SyncRequest backend (send_raw_request rq raw)))
       \/ (frames = pre_frames tx a /\ err = true /\ is_proxy_error resp (Some id))).
Proof. exact (@fs_send_tx). Qed.
Print Assumptions C09_fswallet_send_tx.

(* 8f. Only-if, with NO hypothesis: in every wallet state, a raw-transaction frame of an
       eth_sendTransaction request was signed by the key file owning its `from` (signed_by_owner: first
       parameter decoded, `from` parsed to a, nonce supplied or backend-reported, key_of_from s a k, bytes =
       signer's output for k).  With the signer's law they recover to `from` with the requested fields. *)
Theorem C09_fswallet_raw_only_if_owner :
  forall (key doc tsig : Type) (E : W.ext key (transaction * Z) bytes doc tsig) (c : W.config)
         parse_int backend chain,
    (forall fs h rq o fr,
       let s := fs_state E c fs h in
       rq_method rq = bs "eth_sendTransaction" ->
       fs_processRPC E c parse_int backend chain s (Some rq) = Ok o -> In fr (o_frames o) -> is_raw_frame fr = true ->
       signed_by_owner E c parse_int backend chain s rq fr)
    /\
    (forall H ecrecover s rq fr,
       signer_sound E H ecrecover -> signed_by_owner E c parse_int backend chain s rq fr ->
       exists p0 rest tx f a nonce raw,
         rq_params rq = p0 :: rest /\ decode_transaction parse_int p0 = Ok tx /\
         tx_from tx = Some f /\ dec_address f = Ok a /\ In a (fs_accounts s) /\ fr = raw_frame raw /\
         raw_recovers_to H ecrecover raw (Z.to_N chain) a (requested_format tx) (requested_fields (set_nonce tx nonce))).
Proof.
  intros key doc tsig E c parse_int backend chain. split.
  - exact (fs_raw_only_if_owner E c parse_int backend chain).
  - exact (signed_by_owner_recovers E c parse_int backend chain).
Qed.
Print Assumptions C09_fswallet_raw_only_if_owner.

(* 8g. Nothing is submitted when the wallet refuses — whatever the reason (GetWalletFile does not return a
       key: not listed, file gone / unreadable, no or wrong password, not a key file, another address's
       key): only the pending-count query (iff no nonce was supplied) was made, no raw frame, error object
       under the caller's id.  Spelt out for C08's two named cases: an address GetAccounts does not list
       (C08_unlisted_address_refused, any reachable state) and a listed address whose file holds another
       address's key (C08_foreign_key_refused, any state). *)
Theorem C09_fswallet_nothing_when_refused :
  forall (key doc tsig : Type) (E : W.ext key (transaction * Z) bytes doc tsig) (c : W.config)
         parse_int backend chain rq id o p0 rest tx f a,
    rq_id rq = Some id -> rq_method rq = bs "eth_sendTransaction" ->
    rq_params rq = p0 :: rest -> decode_transaction parse_int p0 = Ok tx ->
    tx_from tx = Some f -> dec_address f = Ok a ->
    let conclusion :=
      o_frames o = pre_frames tx a /\ (forall fr, In fr (o_frames o) -> is_raw_frame fr = false) /\
      o_err o = true /\ exists resp, o_resp o = Some resp /\ is_proxy_error resp (Some id) in
    (forall s : W.state key,
       fs_processRPC E c parse_int backend chain s (Some rq) = Ok o ->
       (forall k, snd (W.GetWalletFile key (transaction * Z)%type bytes doc tsig E c s a) <> Ok k) -> conclusion)
    /\
    (forall fs h,
       let s := fs_state E c fs h in
       fs_processRPC E c parse_int backend chain s (Some rq) = Ok o -> ~ In a (fs_accounts s) -> conclusion)
    /\
    (forall (s : W.state key) fn k,
       fs_processRPC E c parse_int backend chain s (Some rq) = Ok o ->
       W.assoc_get (W.addr_string a) (W.st_cache key s) = None ->
       W.assoc_get a (W.st_map key s) = Some fn ->
       W.loadWalletFile key (transaction * Z)%type bytes doc tsig E c (W.st_fs key s) a
                        (W.path_join key (transaction * Z)%type bytes doc tsig E (W.c_path c) fn) = Ok k ->
       W.addr_of key (transaction * Z)%type bytes doc tsig E k <> a -> conclusion).
Proof.
  intros key doc tsig E c parse_int backend chain rq id o p0 rest tx f a Hi Hm Hp Hd Hf Ha. cbv zeta. split; [|split].
  - intros s Ho Hr. exact (fs_nothing_when_refused E c parse_int backend chain s rq id o p0 rest tx f a Hi Hm Ho Hp Hd Hf Ha Hr).
  - intros fs h Ho Hn. exact (fs_nothing_when_unlisted E c parse_int backend chain fs h rq id o p0 rest tx f a Hi Hm Ho Hp Hd Hf Ha Hn).
  - intros s fn k Ho H1 H2 H3 H4.
    exact (fs_nothing_when_foreign_key E c parse_int backend chain s rq id o p0 rest tx f a fn k Hi Hm Ho Hp Hd Hf Ha H1 H2 H3 H4).
Qed.
Print Assumptions C09_fswallet_nothing_when_refused.

(* 8h. Theorem 3 for the concrete wallet: eth_accounts answers with fswallet.GetAccounts, which never
       holds a duplicate (C08_accounts_no_duplicates) and, on a wallet directory that does not change, is
       exactly the addresses named by the matching regular files once a scan has happened
       (C08_accounts_exact_any_history; regex_law / constructed / names_ok as there). *)
Theorem C09_fswallet_accounts :
  forall (key doc tsig : Type) (E : W.ext key (transaction * Z) bytes doc tsig) (c : W.config)
         parse_int backend chain fs h rq id,
    let s := fs_state E c fs h in
    rq_id rq = Some id ->
    rq_method rq = bs "eth_accounts" \/ rq_method rq = bs "personal_accounts" ->
    fs_processRPC E c parse_int backend chain s (Some rq)
    = Ok (Some (mkResp (bs "2.0") (Some id) (Some (JArr (map address_json (fs_accounts s)))) None [] None), false, [])
    /\ NoDup (fs_accounts s)
    /\ (forall files,
          WP2.regex_law key (transaction * Z)%type bytes doc tsig E ->
          WP2.constructed key (transaction * Z)%type bytes doc tsig E c ->
          W.fs_readdir fs (W.c_path c) = Ok files -> WP2.names_ok files ->
          WP2.static (transaction * Z)%type doc h = true ->
          fs_accounts s = if WP2.refreshed (transaction * Z)%type doc h
                          then WS.spec_accounts (WP2.rule_of key (transaction * Z)%type bytes doc tsig E c) files else []).
Proof. exact (@fs_accounts_reply). Qed.
Print Assumptions C09_fswallet_accounts.

(* 8i. No panic: every body, every backend, every completion order that is a permutation of the members of
       the batch the body decodes to (order_ok), in every wallet state. *)
Theorem C09_fswallet_no_panic :
  forall (key doc tsig : Type) (E : W.ext key (transaction * Z) bytes doc tsig) (c : W.config)
         parse_int lex backend chain fs h body order,
    WP3.ext_nopanic key (transaction * Z)%type bytes doc tsig E -> WP3.fs_nopanic fs -> ops_ok h ->
    order_ok lex body order ->
    fs_rpcHandler E c parse_int lex backend chain (fs_state E c fs h) body order <> Panic.
Proof. exact (@fs_handler_total). Qed.
Print Assumptions C09_fswallet_no_panic.

(* 8j. Request histories.  A history is a list of (what happened to the wallet since the previous request —
       ANY list of wallet operations, which covers the cache fills of the earlier requests —, body,
       completion order); [serve] threads the wallet state through it and answers each body with the proxy
       model over the wallet in the state reached.  For EVERY history against a fresh wallet over any file
       system: each state met is a reachable one, no request panics, and every eth_sendRawTransaction frame
       that reached the backend is justified (raw_frame_justified): it is a caller's own
       eth_sendRawTransaction request relayed unchanged, or the submission of an eth_sendTransaction member
       of that body signed by the key file owning its `from` in the state the request met (8f) — so when
       the wallet refuses, nothing was submitted. *)
Theorem C09_fswallet_history :
  forall (key doc tsig : Type) (E : W.ext key (transaction * Z) bytes doc tsig) (c : W.config)
         parse_int lex backend chain fs (hist : list request),
    WP3.ext_nopanic key (transaction * Z)%type bytes doc tsig E -> WP3.fs_nopanic fs -> history_ok lex hist ->
    Forall (reply_safe E c parse_int lex backend chain fs)
           (serve E c parse_int lex backend chain (W.init_state key fs) hist).
Proof. exact (@fs_history_safe). Qed.
Print Assumptions C09_fswallet_history.

(* ---------- non-vacuity of section 8: a concrete file-system wallet behind the proxy ----------
   Keys are identified with their address; a key file's content is the address of the key it holds; every
   password file must read "pw"; the external signer is the toy signer of C09_wallet_hypothesis_satisfiable
   (only the key of A = 0x11…11 signs, with the fixed signature the toy ecrecover maps back to A).  The
   directory k holds  1111…11.key (the key of A, correct)  and  2222…22.key (again the key of A, stored
   under B's name), with their password files. *)
Definition wA : bytes := ex_addr.
Definition wB : bytes := repeat x22 20.
Definition wA' : bytes := repeat x11 19 ++ [x10].          (* differs from A in the last digit: not listed *)
Definition whexA : bytes := repeat x31 40.
Definition whexB : bytes := repeat x32 40.

Definition wE : W.ext bytes (transaction * Z) bytes unit unit :=
  {| W.re_compile := fun _ => Some 2%nat;
     W.re_find := fun _ name => Some [name; name];
     W.tmpl_parse_ok := fun _ => true;
     W.meta_parse := fun _ _ => true;
     W.tmpl_exec := fun _ _ t => (t, true);
     W.json_string := fun raw => Some raw;
     W.trim_space := fun s => s;
     W.path_join := fun a b => a ++ bs "/" ++ b;
     W.read_wallet := fun content pw => if bytes_eqb pw (bs "pw") then Ok content else Err 1%nat;
     W.addr_of := fun k => k;
     W.sign_tx := fun k tc => ex_sign k (fst tc) (snd tc);
     W.sign_td := fun _ _ => Ok tt |}.

Definition wc : W.config :=
  {| W.c_path := bs "k"; W.c_default_pw_file := []; W.c_regex := []; W.c_primary_ext := bs ".key";
     W.c_pw_ext := bs ".pw"; W.c_pw_path := []; W.c_pw_trim := true; W.c_with0x := false;
     W.c_meta_format := bs "auto"; W.c_key_prop := []; W.c_pw_prop := [] |}.

Definition wfiles : list (bytes * bool) :=
  [ (whexA ++ bs ".key", false); (whexA ++ bs ".pw", false);
    (whexB ++ bs ".key", false); (whexB ++ bs ".pw", false); (bs "sub", true) ].

Definition wfs : W.fsys :=
  {| W.fs_readdir := fun d => if bytes_eqb d (bs "k") then Ok wfiles else Err 1%nat;
     W.fs_readfile := fun p =>
       if bytes_eqb p (bs "k/" ++ whexA ++ bs ".key") then Ok wA
       else if bytes_eqb p (bs "k/" ++ whexB ++ bs ".key") then Ok wA
       else if bytes_eqb p (bs "k/" ++ whexA ++ bs ".pw") then Ok (bs "pw")
       else if bytes_eqb p (bs "k/" ++ whexB ++ bs ".pw") then Ok (bs "pw")
       else Err 1%nat |}.

Definition w_tx (from : bytes) (nonce : list (bytes * json)) : json :=
  JObj ([(bs "from", JStr (hex0x from)); (bs "to", JStr (hex0x (repeat x22 20)));
         (bs "gas", JStr (bs "0x5208")); (bs "maxFeePerGas", JStr (bs "0x64"))] ++ nonce).
Definition w_send (id : String.string) (from : bytes) (nonce : list (bytes * json)) : json :=
  request_tree (bs "2.0") (JNum (bs id)) (bs "eth_sendTransaction") [w_tx from nonce].
Definition w_own_raw : json :=
  request_tree (bs "2.0") (JNum (bs "40")) (bs "eth_sendRawTransaction") [JStr (bs "0xf86b")].

(* the lexer of the example: the bodies "1", "2", "3" are single requests, "[4" is a batch of two *)
Definition w_lex (body : bytes) : option json :=
  if bytes_eqb body (bs "1") then Some (w_send "1" wA [])
  else if bytes_eqb body (bs "2") then Some (w_send "2" wB [])
  else if bytes_eqb body (bs "3") then Some (w_send "3" wA' [])
  else if bytes_eqb body (bs "[4") then Some (JArr [w_own_raw; w_send "41" wA [(bs "nonce", JStr (bs "0x7"))]])
  else None.

(* scan; request from A; [A's key is now cached]; request from B (its file holds A's key); request from
   the unlisted A'; a batch completing in the order 1,0: the caller's own raw transaction and a request from
   A with a nonce *)
Definition w_hist : list (@request unit) :=
  [ ([W.ORefresh _ _], bs "1", []);
    ([W.OGetWalletFile _ _ wA], bs "2", []);
    ([], bs "3", []);
    ([W.OEvict _ _ (W.addr_string wA)], bs "[4", [1; 0]%nat) ].

Definition w_summary (x : W.state bytes * bytes * res http_reply) : option (N * list (list bytes)) :=
  match snd x with
  | Ok (status, _, traces) => Some (status, map (map f_method) traces)
  | _ => None
  end.

(* the hypotheses of 8a–8j hold for it ... *)
Example C09_fswallet_hypotheses_satisfiable :
  signer_sound wE (fun _ => []) ex_ecrecover /\
  WP3.ext_nopanic _ _ _ _ _ wE /\ WP3.fs_nopanic wfs /\ history_ok w_lex w_hist.
Proof.
  split; [|split; [|split]].
  - intros k t chain raw Hs. cbn [W.sign_tx wE fst snd] in Hs. unfold ex_sign in Hs.
    destruct (bytes_eqb_spec k ex_addr) as [->|]; [|discriminate].
    injection Hs as <-. exists 1%N, 5%N, 7%N. repeat split; reflexivity.
  - split; [|split].
    + intros content pw. cbn [W.read_wallet wE]. destruct (bytes_eqb pw (bs "pw")); discriminate.
    + intros k t. cbn [W.sign_tx wE]. unfold ex_sign. destruct (bytes_eqb k ex_addr); discriminate.
    + intros k d. discriminate.
  - split.
    + intros d. cbn [W.fs_readdir wfs]. destruct (bytes_eqb d (bs "k")); discriminate.
    + intros p. cbn [W.fs_readfile wfs]. repeat (match goal with |- context [if ?b then _ else _] => destruct b end; try discriminate).
  - repeat constructor; try exact I;
      intros t ms Hl Hd; vm_compute in Hl; injection Hl as <-; vm_compute in Hd; try discriminate.
    injection Hd as <-.
    change (Permutation (1 :: [0]) ([0] ++ 1 :: []))%nat. apply Permutation_cons_app. apply Permutation_refl.
Qed.

(* ... and the history goes as the theorems say: A's request makes the count query and one submission; B's
   (foreign key) and the unlisted address's make the count query only and fail; in the batch the caller's
   own raw transaction is relayed and A's request (nonce supplied) is submitted without a count query.
   The key that signed for A is the one key_of_from names. *)
Example C09_fswallet_history_nonvacuous :
  map w_summary (serve wE wc ex_parse w_lex ex_backend 2022%Z (W.init_state bytes wfs) w_hist) =
  [ Some (200%N, [[bs "eth_getTransactionCount"; bs "eth_sendRawTransaction"]]);
    Some (500%N, [[bs "eth_getTransactionCount"]]);
    Some (500%N, [[bs "eth_getTransactionCount"]]);
    Some (200%N, [[bs "eth_sendRawTransaction"]; [bs "eth_sendRawTransaction"]]) ] /\
  key_of_from wE wc (fs_state wE wc wfs [W.ORefresh _ _]) wA wA /\
  fs_accounts (fs_state wE wc wfs [W.ORefresh _ _]) = [wA; wB] /\
  (forall k, snd (W.GetWalletFile _ _ _ _ _ wE wc (fs_state wE wc wfs [W.ORefresh _ _; W.OGetWalletFile _ _ wA]) wB) <> Ok k).
Proof.
  split; [vm_compute; reflexivity|]. split; [|split].
  - split; [reflexivity|]. split; [vm_compute; auto|].
    right. exists (whexA ++ bs ".key"). repeat split; vm_compute; reflexivity.
  - vm_compute. reflexivity.
  - intros k. vm_compute. discriminate.
Qed.

(* Tie of the hand-written JSON-RPC error codes of Rpc/Model.v to the source.  Gen/Consts.v is
   regenerated on every run by the translator harness/cmd/gen_consts from the `const` declarations
   of pkg/rpcbackend/backend.go as they are NOW (internal/rpcserver declares no codes of its own, it
   uses these).  The model keeps its own literals; this theorem is what breaks when a code changes
   in the source. *)
From FFS Require Gen.Consts.
Theorem C09_source_constants :
  Gen.Consts.rpcbackend_RPCCodeParseError = Rpc.Model.RPCCodeParseError /\
  Gen.Consts.rpcbackend_RPCCodeInvalidRequest = Rpc.Model.RPCCodeInvalidRequest /\
  Gen.Consts.rpcbackend_RPCCodeInternalError = Rpc.Model.RPCCodeInternalError.
Proof. vm_compute. repeat split; reflexivity. Qed.
Print Assumptions C09_source_constants.

(* ================= 9. C09 ∘ C08 ∘ C01: the signer is property C01's Transaction.Sign =================
   Section 8 left one law about firefly-signer code as a hypothesis: signer_sound ("what key k signs is the
   EIP wire format of the requested fields and recovers to the address of k").  Here the wallet's external
   signer is DEFINED (Rpc/WithSigner.v, [with_signer o H nonce fuel E0]):
        keys          private scalars d : N
        addr_of d     the address of d*G            (C05: Secp.Proofs.addr_of, via Tx/SignProofs3.secp_address)
        sign_tx d (t, chain)
                      Tx.Model.Sign (to_tx t) (KeyPair d) chain — C01's model of Transaction.Sign in its
                      automatic mode (EIP-1559 when a fee field is positive, else EIP-155) with C05's model
                      of KeyPair.SignDirect over the abstract ECDSA group o of Crypto/Ecdsa.v, hash H,
                      nonce stream [nonce];  [to_tx] is the type bridge from the transaction record of the
                      proxy model (decoded ethsigner.Transaction) to Tx.Model's
        everything else (regexp, templates, keystore reader, typed-data signer) stays the parameter E0
   and signer_sound is PROVED from C01's end-to-end theorem under C01's guards ([c01_guards]):
        1 <= d < n o, 0 <= chain <= 2^53, 20-byte destination, every integer field below 2^256, data of at
        most 2^31-1024 bytes, and V in {27,28} for the one digest signed ([v_legacy_for]: fails only when
        x(kG) >= n, probability about 2^-128 on secp256k1), given [laws o], n o < 2^256, |H x| = 32.
   [ecrecover] of the specification is C05's model of SignatureData.RecoverDirect on V = 27 + yParity
   ([secp_ecrecover o H]).  A second form (9b') replaces every bound on fields and chain id by ONE guard on
   the result, "the signed bytes are shorter than 2^64 bytes" (true of every Go slice).  The corollaries of
   section 8 are then restated without signer_sound, with the weaker guards of 9b'. *)
From Coq Require Import Lia Arith.
From FFS Require Import Crypto.Ecdsa.
From FFS Require Tx.Model Tx.Norm Tx.SignProofs Tx.SignProofs4 Secp.Model.
From FFS Require Import Rpc.WithSigner Rpc.WithSignerShort Rpc.WithSignerE2E.

(* 9a. The type bridge.  The field tuple / format C01's theorems speak about ([norm], [format_of Auto] of
       the bridged transaction) are the ones C09's specification speaks about; the decoder yields 20-byte
       destinations; the range guard stated on the request ([fields_in_range]) gives C01's [in_range]. *)
Theorem C09_type_bridge :
  (forall t, Tx.Norm.norm (to_tx t) = requested_fields t) /\
  (forall t, Tx.Norm.format_of Tx.Model.Auto (to_tx t) = requested_format t) /\
  (forall parse_int p t, decode_transaction parse_int p = Ok t -> to_len_ok t) /\
  (forall t, to_len_ok t -> fields_in_range t -> Tx.SignProofs4.in_range (to_tx t)).
Proof. exact (conj norm_to_tx (conj format_to_tx (conj decode_transaction_to_ok in_range_to_tx))). Qed.
Print Assumptions C09_type_bridge.

(* 9b. signer_sound, proved: what key d signs for (t, chain) is the specification encoding of the requested
       fields of t in the requested format under chain, with a signature that recovers to the address of d. *)
Theorem C09_signer_sound_from_C01 :
  forall (o : group_ops) (H : bytes -> bytes) (nonce : Z -> bytes -> nat -> Z) (fuel : nat),
    laws o -> (n o < Secp.Model.two256)%Z -> (forall x, length (H x) = 32%nat) ->
    forall d t chain raw,
      c01_guards o H nonce fuel d t chain ->
      c01_sign o H nonce fuel d (t, chain) = Ok raw ->
      raw_recovers_to H (secp_ecrecover o H) raw (Z.to_N chain) (c01_addr o H d) (requested_format t) (requested_fields t).
Proof. exact c01_signer_sound. Qed.
Print Assumptions C09_signer_sound_from_C01.

(* 9b'. The same with the weakest size guard.  No bound on the fields, on the data or on the chain id beyond
        chain >= 0: key in [1, n-1], V in {27,28} for the digest signed, and the returned bytes shorter than
        2^64 bytes.  (C01's one-guard theorem needs V's legality before it knows that the payload is the
        specification's preimage; C05's shape theorem — V is always in 27..30 — breaks the circle.)  The
        guards of 9b imply these (second part). *)
Theorem C09_signer_sound_short :
  forall (o : group_ops) (H : bytes -> bytes) (nonce : Z -> bytes -> nat -> Z) (fuel : nat),
    laws o -> (n o < Secp.Model.two256)%Z -> (forall x, length (H x) = 32%nat) ->
    forall d t chain raw,
      ((1 <= Z.of_N d < n o)%Z /\ (0 <= chain)%Z /\ v_legacy_for o H nonce fuel d t chain ->
       c01_sign o H nonce fuel d (t, chain) = Ok raw ->
       (N.of_nat (length raw) < 2 ^ 64)%N ->
       raw_recovers_to H (secp_ecrecover o H) raw (Z.to_N chain) (c01_addr o H d) (requested_format t) (requested_fields t))
      /\
      (c01_guards o H nonce fuel d t chain -> c01_sign o H nonce fuel d (t, chain) = Ok raw ->
       ((1 <= Z.of_N d < n o)%Z /\ (0 <= chain)%Z /\ v_legacy_for o H nonce fuel d t chain) /\
       (N.of_nat (length raw) < 2 ^ 64)%N).
Proof.
  exact (fun o H nonce fuel L nf HL d t chain raw =>
           conj (c01_signer_sound_short o H nonce fuel L nf HL d t chain raw)
                (c01_guards_short o H nonce fuel L nf HL d t chain raw)).
Qed.
Print Assumptions C09_signer_sound_short.

(* ... and the bytes spelt out: the signature inside is the one C05's SignDirect answers over the hash of the
   specification's preimage; it is canonical (low S) and verifies against d*G *)
Theorem C09_signer_bytes_are_spec :
  forall (o : group_ops) (H : bytes -> bytes) (nonce : Z -> bytes -> nat -> Z) (fuel : nat),
    laws o -> (n o < Secp.Model.two256)%Z -> (forall x, length (H x) = 32%nat) ->
    forall d t chain raw,
      c01_guards o H nonce fuel d t chain -> c01_sign o H nonce fuel d (t, chain) = Ok raw ->
      let fm := requested_format t in
      let f := requested_fields t in
      let pre := spec_preimage fm f (Z.to_N chain) in
      exists v r s,
        Secp.Model.SignDirect o nonce fuel (Z.of_N d) (H pre) = Ok {| Secp.Model.sV := v; Secp.Model.sR := r; Secp.Model.sS := s |} /\
        (1 <= r < n o)%Z /\ (1 <= s < n o)%Z /\ (2 * s <= n o)%Z /\
        ecdsa_verify o (pub o (Z.of_N d)) (Secp.Model.hash_to_z (H pre)) r s = true /\
        raw = spec_signed fm f (Z.to_N chain) (Tx.SignProofs.y_of v) (Z.to_N r) (Z.to_N s).
Proof. exact c01_sign_is_spec. Qed.
Print Assumptions C09_signer_bytes_are_spec.

(* 9c. The guards, unfolded (so that they can be read here), and the signer never panics. *)
Theorem C09_signer_guards_mean :
  forall (o : group_ops) (H : bytes -> bytes) (nonce : Z -> bytes -> nat -> Z) (fuel : nat) d t chain,
    (c01_guards o H nonce fuel d t chain <->
     (1 <= Z.of_N d < n o)%Z /\ (0 <= chain <= 2 ^ 53)%Z /\
     match tx_to t with Some a => length a = 20%nat | None => True end /\
     ((nz (tx_nonce t) < 2 ^ 256)%N /\ (nz (tx_gasPrice t) < 2 ^ 256)%N /\
      (nz (tx_maxPriorityFeePerGas t) < 2 ^ 256)%N /\ (nz (tx_maxFeePerGas t) < 2 ^ 256)%N /\
      (nz (tx_gas t) < 2 ^ 256)%N /\ (nz (tx_value t) < 2 ^ 256)%N /\
      (N.of_nat (length (tx_data t)) <= 2147482624)%N) /\
     (forall sg,
        Secp.Model.SignDirect o nonce fuel (Z.of_N d)
          (H (spec_preimage (requested_format t) (requested_fields t) (Z.to_N chain))) = Ok sg ->
        Secp.Model.sV sg = 27%Z \/ Secp.Model.sV sg = 28%Z)) /\
    (forall tc, c01_sign o H nonce fuel d tc <> Panic).
Proof. exact (fun o H nonce fuel d t chain => conj (iff_refl _) (c01_sign_nopanic o H nonce fuel d)). Qed.
Print Assumptions C09_signer_guards_mean.

(* 9d. Every key the wallet signs with came out of the keystore reader: a property P of all keys the reader
       yields holds of the key file owning `from` in every reachable wallet state (used with P := 1 <= d < n). *)
Theorem C09_wallet_keys_come_from_reader :
  forall (doc tsig : Type) (E : W.ext N (transaction * Z) bytes doc tsig) (c : W.config) (P : N -> Prop),
    reader_yields E P ->
    forall fs h a k, key_of_from E c (fs_state E c fs h) a k -> P k.
Proof. exact (@key_of_from_yields). Qed.
Print Assumptions C09_wallet_keys_come_from_reader.

(* what "the frame fr is the submission request rq asked for, as specified" means *)
Theorem C09_submission_specified_means :
  forall (doc tsig : Type) (o : group_ops) (H : bytes -> bytes) (nonce : Z -> bytes -> nat -> Z) (fuel : nat)
         (E0 : W.ext N (transaction * Z) bytes doc tsig) (c : W.config) parse_int backend chain s rq fr,
    submission_specified o H nonce fuel E0 c parse_int backend chain s rq fr <->
    exists p0 rest tx f a nonce_used raw d,
      rq_params rq = p0 :: rest /\ decode_transaction parse_int p0 = Ok tx /\
      tx_from tx = Some f /\ dec_address f = Ok a /\
      nonce_source parse_int backend tx a nonce_used (pre_frames tx a) /\
      key_of_from (with_signer o H nonce fuel E0) c s a d /\ c01_addr o H d = a /\ In a (fs_accounts s) /\
      fr = raw_frame raw /\
      c01_sign o H nonce fuel d (set_nonce tx nonce_used, chain) = Ok raw /\
      ((N.of_nat (length raw) < 2 ^ 64)%N -> v_legacy_for o H nonce fuel d (set_nonce tx nonce_used) chain ->
       raw_recovers_to H (secp_ecrecover o H) raw (Z.to_N chain) a
                       (requested_format tx) (requested_fields (set_nonce tx nonce_used))).
Proof. exact (fun doc tsig o H nonce fuel E0 c parse_int backend chain s rq fr => iff_refl _). Qed.
Print Assumptions C09_submission_specified_means.

(* 9e. Only-if, per request, in every reachable wallet state, with wallet and signer concrete: a
       raw-transaction frame of an eth_sendTransaction request is its submission as specified. *)
Theorem C09_end_to_end_per_request :
  forall (doc tsig : Type) (o : group_ops) (H : bytes -> bytes) (nonce : Z -> bytes -> nat -> Z) (fuel : nat)
         (E0 : W.ext N (transaction * Z) bytes doc tsig) (c : W.config) parse_int backend chain,
    laws o -> (n o < Secp.Model.two256)%Z -> (forall x, length (H x) = 32%nat) ->
    (0 <= chain)%Z ->
    reader_yields (with_signer o H nonce fuel E0) (key_in_range o) ->
    forall fs h rq out fr,
      let E := with_signer o H nonce fuel E0 in
      let s := fs_state E c fs h in
      rq_method rq = bs "eth_sendTransaction" ->
      fs_processRPC E c parse_int backend chain s (Some rq) = Ok out -> In fr (o_frames out) -> is_raw_frame fr = true ->
      submission_specified o H nonce fuel E0 c parse_int backend chain s rq fr.
Proof. exact (@e2e_raw_only_if). Qed.
Print Assumptions C09_end_to_end_per_request.

(* 9f. Theorem 1 with wallet and signer concrete: a decodable eth_sendTransaction whose `from` parses is
       answered under the caller's id; either the frames are the count query (iff no nonce was supplied)
       followed by exactly one submission as specified, whose backend answer is relayed, or only the count
       query was made and the reply is a proxy error. *)
Theorem C09_end_to_end_send_tx :
  forall (doc tsig : Type) (o : group_ops) (H : bytes -> bytes) (nonce : Z -> bytes -> nat -> Z) (fuel : nat)
         (E0 : W.ext N (transaction * Z) bytes doc tsig) (c : W.config) parse_int backend chain,
    laws o -> (n o < Secp.Model.two256)%Z -> (forall x, length (H x) = 32%nat) ->
    (0 <= chain)%Z ->
    reader_yields (with_signer o H nonce fuel E0) (key_in_range o) ->
    forall fs h rq id p0 rest tx f a,
      let E := with_signer o H nonce fuel E0 in
      let s := fs_state E c fs h in
      WP3.ext_nopanic N (transaction * Z)%type bytes doc tsig E0 -> WP3.fs_nopanic fs -> ops_ok h ->
      rq_id rq = Some id -> rq_method rq = bs "eth_sendTransaction" -> rq_params rq = p0 :: rest ->
      decode_transaction parse_int p0 = Ok tx -> tx_from tx = Some f -> dec_address f = Ok a ->
      exists resp err frames,
        fs_processRPC E c parse_int backend chain s (Some rq) = Ok (Some resp, err, frames) /\
        rs_id resp = Some id /\
        ((exists raw,
            frames = pre_frames tx a ++ [raw_frame raw] /\
            submission_specified o H nonce fuel E0 c parse_int backend chain s rq (raw_frame raw) /\
            (resp, err) = fst (SyncRequest backend (send_raw_request rq raw)))
         \/ (frames = pre_frames tx a /\ err = true /\ is_proxy_error resp (Some id))).
Proof. exact (@e2e_send_tx). Qed.
Print Assumptions C09_end_to_end_send_tx.

(* 9g. END TO END.  For every history of requests (any wallet operations in between — scans, cache fills,
       file-system changes, listener events, evictions —, any bodies, any completion orders) against the proxy
       model over a fresh file-system wallet on any file system, with the C01 signer, whatever the backend
       answers: every state met is a reachable wallet state, and every eth_sendRawTransaction frame sent to
       the backend is either the caller's own eth_sendRawTransaction relayed unchanged, or stems from an
       eth_sendTransaction member rq of that body and is its submission as specified (9d'): the first
       parameter of rq decodes to tx, `from` parses to a, the nonce is the one rq supplied or the pending
       count the backend reported, the key d is that of the key file owning a (address a, listed), the bytes
       are Transaction.Sign's output for d, and — being shorter than 2^64 bytes, for V in {27,28} — they are the
       specification encoding (Tx/Spec.v) of exactly those fields in the requested format for the configured
       chain id and recover to a. *)
Theorem C09_end_to_end :
  forall (doc tsig : Type) (o : group_ops) (H : bytes -> bytes) (nonce : Z -> bytes -> nat -> Z) (fuel : nat)
         (E0 : W.ext N (transaction * Z) bytes doc tsig) (c : W.config) parse_int lex backend chain,
    laws o -> (n o < Secp.Model.two256)%Z -> (forall x, length (H x) = 32%nat) ->
    (0 <= chain)%Z ->
    reader_yields (with_signer o H nonce fuel E0) (key_in_range o) ->
    forall fs (hist : list request),
      let E := with_signer o H nonce fuel E0 in
      Forall (fun x : W.state N * bytes * res http_reply =>
                let '(s, body, reply) := x in
                (exists h, s = fs_state E c fs h) /\
                forall status tree traces frames fr,
                  reply = Ok (status, tree, traces) -> In frames traces -> In fr frames -> is_raw_frame fr = true ->
                  exists rq, In (Some rq) (members_of lex body) /\
                    ((rq_method rq = bs "eth_sendRawTransaction" /\ fr = mkFrame (rq_method rq) (rq_params rq)) \/
                     (rq_method rq = bs "eth_sendTransaction" /\
                      submission_specified o H nonce fuel E0 c parse_int backend chain s rq fr)))
             (serve E c parse_int lex backend chain (W.init_state N fs) hist).
Proof. exact (@end_to_end). Qed.
Print Assumptions C09_end_to_end.

(* 9h. ... and no request of such a history panics (8j with the signer's no-panic law discharged). *)
Theorem C09_end_to_end_no_panic :
  forall (doc tsig : Type) (o : group_ops) (H : bytes -> bytes) (nonce : Z -> bytes -> nat -> Z) (fuel : nat)
         (E0 : W.ext N (transaction * Z) bytes doc tsig) (c : W.config) parse_int lex backend chain fs (hist : list request),
    WP3.ext_nopanic N (transaction * Z)%type bytes doc tsig E0 -> WP3.fs_nopanic fs -> history_ok lex hist ->
    Forall (fun x : W.state N * bytes * res http_reply => snd x <> Panic)
           (serve (with_signer o H nonce fuel E0) c parse_int lex backend chain (W.init_state N fs) hist).
Proof. exact (@end_to_end_total). Qed.
Print Assumptions C09_end_to_end_no_panic.

(* ---------- non-vacuity of section 9 ----------
   The 13-element toy group of Crypto/Ecdsa.v (it satisfies the laws: Toy.toy_laws), a 32-byte "hash", the
   constant nonce 2.  The address of key d is 19 zero bytes and min(d, 13-d).  The key directory holds
   ..05.key with key 5 (correct) and ..03.key holding key 5 as well (a foreign key under B's name). *)

Definition gH (x : bytes) : bytes := firstn 32 (x ++ repeat x00 32).
Lemma gH_len x : length (gH x) = 32%nat.
Proof. unfold gH. rewrite firstn_length, app_length, repeat_length. apply Nat.min_l. apply Nat.le_add_l. Qed.
Definition gnonce : Z -> bytes -> nat -> Z := fun _ _ _ => 2%Z.

Definition gA : bytes := repeat x00 19 ++ [x05].     (* the address of keys 5 (and 8) in the toy group *)
Definition gB : bytes := repeat x00 19 ++ [x03].     (* the address of keys 3 (and 10) *)
Definition ghex (a : bytes) : bytes := skipn 2 (hex0x a).

Definition gE0 : W.ext N (transaction * Z) bytes unit unit :=
  {| W.re_compile := fun _ => Some 2%nat;
     W.re_find := fun _ name => Some [name; name];
     W.tmpl_parse_ok := fun _ => true;
     W.meta_parse := fun _ _ => true;
     W.tmpl_exec := fun _ _ t => (t, true);
     W.json_string := fun raw => Some raw;
     W.trim_space := fun s => s;
     W.path_join := fun a b => a ++ bs "/" ++ b;
     W.read_wallet := fun content pw =>
       if bytes_eqb pw (bs "pw") then
         match content with
         | [b] => if ((1 <=? b2n b) && (b2n b <? 13))%N then Ok (b2n b) else Err 1%nat
         | _ => Err 1%nat
         end
       else Err 1%nat;
     W.addr_of := fun _ => [];
     W.sign_tx := fun _ _ => Err 1%nat;
     W.sign_td := fun _ _ => Ok tt |}.

Definition gE := with_signer Toy.ops gH gnonce 1 gE0.

Definition gfiles : list (bytes * bool) :=
  [ (ghex gA ++ bs ".key", false); (ghex gA ++ bs ".pw", false);
    (ghex gB ++ bs ".key", false); (ghex gB ++ bs ".pw", false) ].

Definition gfs : W.fsys :=
  {| W.fs_readdir := fun d => if bytes_eqb d (bs "k") then Ok gfiles else Err 1%nat;
     W.fs_readfile := fun p =>
       if bytes_eqb p (bs "k/" ++ ghex gA ++ bs ".key") then Ok [x05]
       else if bytes_eqb p (bs "k/" ++ ghex gB ++ bs ".key") then Ok [x05]
       else if bytes_eqb p (bs "k/" ++ ghex gA ++ bs ".pw") then Ok (bs "pw")
       else if bytes_eqb p (bs "k/" ++ ghex gB ++ bs ".pw") then Ok (bs "pw")
       else Err 1%nat |}.

Definition g_tx155 (from : bytes) : json :=
  JObj [(bs "from", JStr (hex0x from)); (bs "to", JStr (hex0x (repeat x22 20)));
        (bs "gas", JStr (bs "0x5208")); (bs "gasPrice", JStr (bs "0x3b9aca00")); (bs "value", JStr (bs "0x1"));
        (bs "nonce", JStr (bs "0x7")); (bs "data", JStr (bs "0xfeed"))].
Definition g_send155 (id : String.string) (from : bytes) : json :=
  request_tree (bs "2.0") (JNum (bs id)) (bs "eth_sendTransaction") [g_tx155 from].

Definition g_lex (body : bytes) : option json :=
  if bytes_eqb body (bs "1") then Some (w_send "1" gA [])
  else if bytes_eqb body (bs "2") then Some (g_send155 "2" gA)
  else if bytes_eqb body (bs "3") then Some (w_send "3" gB [])
  else None.

Definition g_hist : list (@request unit) :=
  [ ([W.ORefresh _ _], bs "1", []); ([], bs "2", []); ([], bs "3", []) ].

Definition g_t1 : transaction :=
  mkTx (Some (JStr (hex0x gA))) (Some 42%N) None None (Some 100%N) (Some 21000%N) (Some (repeat x22 20)) None [].
Definition g_t2 : transaction :=
  mkTx (Some (JStr (hex0x gA))) (Some 7%N) (Some 1000000000%N) None None (Some 21000%N) (Some (repeat x22 20)) (Some 1%N) [xfe; xed].

Definition g_summary (x : W.state N * bytes * res http_reply) : option (N * list (list frame)) :=
  match snd x with
  | Ok (status, _, traces) => Some (status, traces)
  | _ => None
  end.

(* what Transaction.Sign returns for key 5 on the two transactions (computed once) *)
Definition g_raw1 : bytes :=
  Eval vm_compute in match c01_sign Toy.ops gH gnonce 1 5 (g_t1, 2022%Z) with Ok r => r | _ => [] end.
Definition g_raw2 : bytes :=
  Eval vm_compute in match c01_sign Toy.ops gH gnonce 1 5 (g_t2, 2022%Z) with Ok r => r | _ => [] end.

Example C09_end_to_end_hypotheses_satisfiable :
  laws Toy.ops /\ (n Toy.ops < Secp.Model.two256)%Z /\ (forall x, length (gH x) = 32%nat) /\ (0 <= 2022 <= 2 ^ 53)%Z /\
  reader_yields gE (key_in_range Toy.ops) /\
  WP3.ext_nopanic _ _ _ _ _ gE0 /\ WP3.fs_nopanic gfs /\ history_ok g_lex g_hist.
Proof.
  split; [exact Toy.toy_laws|]. split; [reflexivity|]. split; [exact gH_len|]. split; [lia|].
  split; [|split; [|split]].
  - intros content pw k. cbn [W.read_wallet gE with_signer gE0].
    destruct (bytes_eqb pw (bs "pw")); [|discriminate]. destruct content as [|b [|? ?]]; try discriminate.
    destruct ((1 <=? b2n b) && (b2n b <? 13))%N eqn:Eb; [|discriminate]. intros Hk. injection Hk as <-.
    apply andb_prop in Eb as [E1 E2]. apply N.leb_le in E1. apply N.ltb_lt in E2.
    unfold key_in_range. change (n Toy.ops) with 13%Z. lia.
  - split; [|split].
    + intros content pw. cbn [W.read_wallet gE0]. destruct (bytes_eqb pw (bs "pw")); [|discriminate].
      destruct content as [|b [|? ?]]; try discriminate. destruct (_ && _); discriminate.
    + intros k t. discriminate.
    + intros k d. discriminate.
  - split.
    + intros d. cbn [W.fs_readdir gfs]. destruct (bytes_eqb d (bs "k")); discriminate.
    + intros p. cbn [W.fs_readfile gfs]. repeat (match goal with |- context [if ?b then _ else _] => destruct b end; try discriminate).
  - repeat constructor; try exact I;
      intros t ms Hl Hd; vm_compute in Hl; injection Hl as <-; vm_compute in Hd; discriminate.
Qed.

Example C09_end_to_end_nonvacuous :
  (map g_summary (serve gE wc ex_parse g_lex ex_backend 2022%Z (W.init_state N gfs) g_hist) =
     [ Some (200%N, [[count_frame gA; raw_frame g_raw1]]);
       Some (200%N, [[raw_frame g_raw2]]);
       Some (500%N, [[count_frame gB]]) ] /\
     c01_sign Toy.ops gH gnonce 1 5 (g_t1, 2022%Z) = Ok g_raw1 /\
     c01_sign Toy.ops gH gnonce 1 5 (g_t2, 2022%Z) = Ok g_raw2 /\
     raw_recovers_to gH (secp_ecrecover Toy.ops gH) g_raw1 2022 gA Eip1559 (requested_fields g_t1) /\
     raw_recovers_to gH (secp_ecrecover Toy.ops gH) g_raw2 2022 gA Eip155 (requested_fields g_t2)) /\
  decode_transaction ex_parse (w_tx gA []) = Ok (set_nonce g_t1 None) /\
  decode_transaction ex_parse (g_tx155 gA) = Ok g_t2 /\
  c01_guards Toy.ops gH gnonce 1 5 g_t1 2022 /\ c01_guards Toy.ops gH gnonce 1 5 g_t2 2022 /\
  (N.of_nat (length g_raw1) < 2 ^ 64)%N /\ (N.of_nat (length g_raw2) < 2 ^ 64)%N /\
  requested_format g_t1 = Eip1559 /\ requested_format g_t2 = Eip155 /\
  key_of_from gE wc (fs_state gE wc gfs [W.ORefresh _ _]) gA 5%N /\
  fs_accounts (fs_state gE wc gfs [W.ORefresh _ _]) = [gA; gB].
Proof.
  assert (G1 : c01_guards Toy.ops gH gnonce 1 5 g_t1 2022).
  { split; [vm_compute; split; congruence|]. split; [lia|]. split; [reflexivity|]. split.
    - unfold fields_in_range. repeat split; try (vm_compute; reflexivity). vm_compute; discriminate.
    - intros sg Hs. vm_compute in Hs. injection Hs as <-. vm_compute. auto. }
  assert (G2 : c01_guards Toy.ops gH gnonce 1 5 g_t2 2022).
  { split; [vm_compute; split; congruence|]. split; [lia|]. split; [reflexivity|]. split.
    - unfold fields_in_range. repeat split; try (vm_compute; reflexivity). vm_compute; discriminate.
    - intros sg Hs. vm_compute in Hs. injection Hs as <-. vm_compute. auto. }
  split.
  - split; [vm_compute; reflexivity|].
    split; [vm_compute; reflexivity|]. split; [vm_compute; reflexivity|]. split.
    + apply (c01_signer_sound Toy.ops gH gnonce 1 Toy.toy_laws eq_refl gH_len 5 g_t1 2022%Z _ G1). vm_compute. reflexivity.
    + apply (c01_signer_sound Toy.ops gH gnonce 1 Toy.toy_laws eq_refl gH_len 5 g_t2 2022%Z _ G2). vm_compute. reflexivity.
  - split; [vm_compute; reflexivity|]. split; [vm_compute; reflexivity|].
    split; [exact G1|]. split; [exact G2|]. split; [vm_compute; reflexivity|]. split; [vm_compute; reflexivity|].
    split; [reflexivity|]. split; [reflexivity|]. split.
    + split; [vm_compute; reflexivity|]. split; [vm_compute; auto|].
      right. exists (ghex gA ++ bs ".key"). repeat split; vm_compute; reflexivity.
    + vm_compute. reflexivity.
Qed.

(* ================= 10. Answers to the referee report (design/reviews/C09.md) =================
   Proofs in Rpc/RefReply.v, RefSend.v, RefWire.v, RefMore.v, RefTotal.v.  Nothing above is changed.
   Vocabulary added:
     reply_value rep            which value, if any, the backend's reply reports to the proxy — a function of the
                                reply alone (status, content type, body);
     nonce_decision tx a        the nonce that gets signed — from the request, or from reply_value of the
                                backend's answer to eth_getTransactionCount(a,"pending"): None = no nonce to be
                                had, Some None = the backend said null (nonce left unset = 0; DECLARED, props/C09.json),
                                Some (Some n) = supplied or reported;
     chain_decision c           the chain id Start comes up with (None = does not come up); a null result gives 0,
                                a result of 2^63 or more is refused (fix 0c95e98);
     internal_error rq          the proxy's fresh -32603 error object under rq's id, err = true, the one frame;
     reply_well_formed id resp err / tree_answers id err tree
                                the reply carries id and a result (err = false) or an error object with a
                                non-zero code (err = true) — as a struct / as the JSON tree the client reads. *)
From FFS Require Import Rpc.RefReply Rpc.RefSend Rpc.RefWire Rpc.RefMore Rpc.RefTotal.
From FFS Require Import Base.Keccak.

(* 10a (ISSUE 1). Whatever the backend does — any reply or none — SyncRequest's response carries the caller's
        id, exactly one frame was sent, and the response has a result and no error of non-zero code (err = false)
        or an error object with a non-zero code (err = true).  There is no third shape. *)
Theorem C09_reply_shape_any_backend :
  forall backend rq resp err frames,
    SyncRequest backend rq = (resp, err, frames) ->
    rs_id resp = rq_id rq /\ frames = [frame_of rq] /\
    (err = false -> (exists v, rs_result resp = Some v) /\ error_code_nonzero resp = false) /\
    (err = true -> exists e, rs_error resp = Some e /\ e_code e <> 0%Z).
Proof. exact sync_reply_shape. Qed.
Print Assumptions C09_reply_shape_any_backend.

(* 10b (ISSUE 1). The uncooperative backends, one by one (the branches of the repaired defects D09a / D09c):
        transport failure; invalid JSON on 2xx or >= 400; HTTP >= 400 with a non-JSON content type; 2xx with the
        literal null; 2xx with JSON of the wrong type; HTTP >= 400 with JSON but no JSON-RPC error of non-zero
        code — each: the fresh -32603 error object under the caller's id, err = true, the one frame. *)
Theorem C09_uncooperative_backend :
  forall backend rq,
    let rep := backend (frame_of rq) in
    (rep = BConnFail -> SyncRequest backend rq = internal_error rq) /\
    (forall s, rep = BHttp s BBadJson -> (s =? 204)%N = false -> is_success s || is_error s = true ->
               SyncRequest backend rq = internal_error rq) /\
    (forall s, rep = BHttp s BNotJson -> is_error s = true -> SyncRequest backend rq = internal_error rq) /\
    (forall s, rep = BHttp s (BJson JNull) -> (s =? 204)%N = false -> is_success s = true ->
               SyncRequest backend rq = internal_error rq) /\
    (forall s t, rep = BHttp s (BJson t) -> (s =? 204)%N = false -> is_success s = true -> t <> JNull ->
                 snd (decode_response t zero_response) = true -> SyncRequest backend rq = internal_error rq) /\
    (forall s t, rep = BHttp s (BJson t) -> is_error s = true ->
                 error_code_nonzero (fst (decode_response t zero_response)) = false ->
                 SyncRequest backend rq = internal_error rq).
Proof. exact sync_uncooperative. Qed.
Print Assumptions C09_uncooperative_backend.

(* 10c (declared behaviour, not in the property text). HTTP 204, and a non-JSON content type on a status below
        400, are read as the result null: the reply is {"jsonrpc":"","id":id,"result":null}, err = false. *)
Theorem C09_degenerate_success :
  forall backend rq,
    let rep := backend (frame_of rq) in
    (forall s b, rep = BHttp s b -> (s =? 204)%N = true ->
                 SyncRequest backend rq = (mkResp [] (rq_id rq) (Some JNull) None [] None, false, [frame_of rq])) /\
    (forall s, rep = BHttp s BNotJson -> is_error s = false ->
               SyncRequest backend rq = (mkResp [] (rq_id rq) (Some JNull) None [] None, false, [frame_of rq])).
Proof. exact sync_degenerate_success. Qed.
Print Assumptions C09_degenerate_success.

(* 10d (ISSUE 1, all methods). Every request carrying an id — whatever the method, the backend and the wallet —
        is answered with a well-formed reply: the id, and a result or an error object with a non-zero code. *)
Theorem C09_reply_well_formed :
  forall parse_int accounts sign_with backend chain rq id o,
    rq_id rq = Some id -> processRPC parse_int accounts sign_with backend chain (Some rq) = Ok o ->
    exists resp, o_resp o = Some resp /\
      rs_id resp = Some id /\
      (o_err o = false -> exists v, rs_result resp = Some v) /\
      (o_err o = true -> exists e, rs_error resp = Some e /\ e_code e <> 0%Z).
Proof. exact reply_shape. Qed.
Print Assumptions C09_reply_well_formed.

(* 10e (ISSUE 1 + 5, on the wire).  For ANY tree the lexer yields and whatever request it decodes to (absent
        params, any member order, duplicate or case-folded member names): the HTTP reply is 200/500 with the
        marshalled response, and that tree carries the id and a result (200) or an error object with a non-zero
        code (500).  For a batch: the same at every position, under every completion order. *)
Theorem C09_reply_on_the_wire :
  forall parse_int lex accounts sign_with backend chain,
    (forall body order t rq id o,
       (b2n (sniffFirstByte body) =? 91)%N = false ->
       lex body = Some t -> decode_request t = Ok rq -> rq_id rq = Some id ->
       processRPC parse_int accounts sign_with backend chain (Some rq) = Ok o ->
       rpcHandler parse_int lex accounts sign_with backend chain body order
       = Ok (if o_err o then 500%N else 200%N, response_opt_tree (o_resp o), [o_frames o]) /\
       tree_answers id (o_err o) (response_opt_tree (o_resp o)))
    /\
    (forall body t members outs order,
       (b2n (sniffFirstByte body) =? 91)%N = true ->
       lex body = Some t -> decode_batch t = Ok members -> members <> [] ->
       run_members parse_int accounts sign_with backend chain members = Ok outs ->
       Permutation order (seq 0 (length members)) ->
       exists status trees traces,
         rpcHandler parse_int lex accounts sign_with backend chain body order = Ok (status, JArr trees, traces) /\
         Forall2 (fun m tree => forall rq id, m = Some rq -> rq_id rq = Some id -> exists err, tree_answers id err tree)
                 members trees).
Proof.
  intros parse_int lex accounts sign_with backend chain. split.
  - exact (reply_wire parse_int lex accounts sign_with backend chain).
  - exact (reply_batch_wire parse_int lex accounts sign_with backend chain).
Qed.
Print Assumptions C09_reply_on_the_wire.

(* what tree_answers says, unfolded *)
Theorem C09_tree_answers_means :
  forall id err tree,
    tree_answers id err tree <->
    tree_member (bs "id") tree = Some id /\
    (err = false -> exists v, tree_member (bs "result") tree = Some v) /\
    (err = true -> exists e, e_code e <> 0%Z /\ tree_member (bs "error") tree = Some (error_tree e)).
Proof. exact (fun id err tree => iff_refl _). Qed.
Print Assumptions C09_tree_answers_means.

(* 10f (ISSUE 2). "Backend-reported", defined on the backend's reply and not through the model: CallRPC yields
        exactly reply_value of the reply to the frame it sent; hence the nonce_source of theorems 1 / 2 / 8 / 9 is
        nonce_decision. *)
Theorem C09_backend_reported_means :
  (forall backend m ps,
     CallRPC backend m ps = (match reply_value (backend (mkFrame m ps)) with Some v => inl v | None => inr tt end,
                             [mkFrame m ps])) /\
  (forall echo v, reply_value (reply_result echo v) = Some v) /\
  (forall parse_int backend tx a nonce,
     nonce_source parse_int backend tx a nonce (pre_of tx a) <-> nonce_decision parse_int backend tx a = Some nonce).
Proof. exact (conj CallRPC_value (conj reply_value_result nonce_source_iff)). Qed.
Print Assumptions C09_backend_reported_means.

(* reply_value / nonce_decision / chain_decision, unfolded so that they can be read here *)
Theorem C09_decisions_mean :
  (forall rep, reply_value rep =
     match rep with
     | BConnFail => None
     | BHttp s body =>
         if (s =? 204)%N then Some JNull
         else if is_error s then None
         else match body with
              | BNotJson => Some JNull
              | BBadJson => if is_success s then None else Some JNull
              | BJson t =>
                  if is_success s then
                    match t with
                    | JNull => None
                    | _ => let '(r, bad) := decode_response t zero_response in
                           if bad then None
                           else if error_code_nonzero r then None
                           else Some (match rs_result r with Some v => v | None => JNull end)
                    end
                  else Some JNull
              end
     end) /\
  (forall parse_int backend tx a, nonce_decision parse_int backend tx a =
     match tx_nonce tx with
     | Some n => Some (Some n)
     | None => match reply_value (backend (count_frame a)) with
               | None => None
               | Some JNull => Some None
               | Some v => match dec_hexint parse_int v with Ok n => Some (Some n) | _ => None end
               end
     end) /\
  (forall parse_int backend c, chain_decision parse_int backend c =
     if (c <? 0)%Z then
       match reply_value (backend net_version_frame) with
       | None => None
       | Some JNull => Some 0%Z
       | Some v => match dec_hexint parse_int v with
                   | Ok n => if (Z.of_N n <? 9223372036854775808)%Z then Some (Z.of_N n) else None
                   | _ => None
                   end
       end
     else Some c).
Proof. exact (conj (fun rep => eq_refl) (conj (fun parse_int backend tx a => eq_refl) (fun parse_int backend c => eq_refl))). Qed.
Print Assumptions C09_decisions_mean.

(* 10g (ISSUE 2). Theorem 1 without the open disjunction and without any hypothesis on the wallet: a decodable
        eth_sendTransaction whose from parses is DECIDED by the request, the backend's reply to the count query and
        the wallet's answer — submission iff a nonce is had and the wallet signs. *)
Theorem C09_send_tx_decided :
  forall parse_int accounts sign_with backend chain rq id p0 rest tx f a,
    rq_id rq = Some id -> rq_method rq = bs "eth_sendTransaction" -> rq_params rq = p0 :: rest ->
    decode_transaction parse_int p0 = Ok tx -> tx_from tx = Some f -> dec_address f = Ok a ->
    match nonce_decision parse_int backend tx a with
    | None => processRPC parse_int accounts sign_with backend chain (Some rq)
              = Ok (Some (RPCErrorResponse (Some id) RPCCodeInternalError), true, pre_of tx a)
    | Some nonce =>
        match sign_with a (set_nonce tx nonce) chain with
        | Ok raw => exists resp err,
                      processRPC parse_int accounts sign_with backend chain (Some rq)
                      = Ok (Some resp, err, pre_of tx a ++ [raw_frame raw]) /\
                      (resp, err) = fst (SyncRequest backend (send_raw_request rq raw))
        | Err _ => processRPC parse_int accounts sign_with backend chain (Some rq)
                   = Ok (Some (RPCErrorResponse (Some id) RPCCodeInternalError), true, pre_of tx a)
        | Panic => processRPC parse_int accounts sign_with backend chain (Some rq) = Panic
        end
    end.
Proof. exact send_tx_decided. Qed.
Print Assumptions C09_send_tx_decided.

(* 10h (ISSUE 3). The backend's answer to the SUBMISSION is relayed under the caller's id: a result; a JSON-RPC
        error with non-zero code, without and with a data member; an uncooperative answer gives -32603. *)
Theorem C09_send_tx_relays :
  forall parse_int accounts sign_with backend chain rq id p0 rest tx f a nonce raw,
    rq_id rq = Some id -> rq_method rq = bs "eth_sendTransaction" -> rq_params rq = p0 :: rest ->
    decode_transaction parse_int p0 = Ok tx -> tx_from tx = Some f -> dec_address f = Ok a ->
    nonce_decision parse_int backend tx a = Some nonce -> sign_with a (set_nonce tx nonce) chain = Ok raw ->
    (forall echo v,
       backend (raw_frame raw) = reply_result echo v ->
       processRPC parse_int accounts sign_with backend chain (Some rq)
       = Ok (Some (mkResp (bs "2.0") (Some id) (Some v) None [] None), false, pre_of tx a ++ [raw_frame raw])) /\
    (forall status echo code_text code msg,
       backend (raw_frame raw) = error_reply status echo code_text msg ->
       parse_int64 code_text = Some code -> code <> 0%Z ->
       (status =? 204)%N = false -> is_success status || is_error status = true ->
       processRPC parse_int accounts sign_with backend chain (Some rq)
       = Ok (Some (mkResp (bs "2.0") (Some id) None (Some (mkErr code msg true None)) [] None), true,
             pre_of tx a ++ [raw_frame raw])) /\
    (forall status echo code_text code msg data,
       backend (raw_frame raw) = error_reply_data status echo code_text msg data ->
       parse_int64 code_text = Some code -> code <> 0%Z ->
       (status =? 204)%N = false -> is_success status || is_error status = true ->
       processRPC parse_int accounts sign_with backend chain (Some rq)
       = Ok (Some (mkResp (bs "2.0") (Some id) None (Some (mkErr code msg true (Some data))) [] None), true,
             pre_of tx a ++ [raw_frame raw])) /\
    (SyncRequest backend (send_raw_request rq raw) = internal_error (send_raw_request rq raw) ->
       processRPC parse_int accounts sign_with backend chain (Some rq)
       = Ok (Some (RPCErrorResponse (Some id) RPCCodeInternalError), true, pre_of tx a ++ [raw_frame raw])).
Proof. exact send_tx_relays. Qed.
Print Assumptions C09_send_tx_relays.

(* 10i (ISSUE 3, general). Not only the canonical shapes: ANY JSON answer that decodes (members in any order,
        extra members, error with data, method / params members) is relayed member for member with only the id
        replaced by the caller's (an absent result filled with null on success) — for a pass-through request, with
        the error-with-data case spelt out, and for the submission of an eth_sendTransaction. *)
Theorem C09_relay_general :
  forall parse_int accounts sign_with backend chain,
    (forall rq id s t r,
       rq_id rq = Some id -> special_method (rq_method rq) = false ->
       backend (mkFrame (rq_method rq) (rq_params rq)) = BHttp s (BJson t) -> (s =? 204)%N = false -> t <> JNull ->
       decode_response t zero_response = (r, false) ->
       (is_success s = true -> error_code_nonzero r = false ->
        processRPC parse_int accounts sign_with backend chain (Some rq)
        = Ok (Some (fill_result (set_id r (Some id))), false, [mkFrame (rq_method rq) (rq_params rq)])) /\
       (is_success s || is_error s = true -> error_code_nonzero r = true ->
        processRPC parse_int accounts sign_with backend chain (Some rq)
        = Ok (Some (set_id r (Some id)), true, [mkFrame (rq_method rq) (rq_params rq)])))
    /\
    (forall rq id status echo code_text code msg data,
       rq_id rq = Some id -> special_method (rq_method rq) = false ->
       backend (mkFrame (rq_method rq) (rq_params rq)) = error_reply_data status echo code_text msg data ->
       parse_int64 code_text = Some code -> code <> 0%Z ->
       (status =? 204)%N = false -> is_success status || is_error status = true ->
       processRPC parse_int accounts sign_with backend chain (Some rq)
       = Ok (Some (mkResp (bs "2.0") (Some id) None (Some (mkErr code msg true (Some data))) [] None), true,
             [mkFrame (rq_method rq) (rq_params rq)]))
    /\
    (forall rq id p0 rest tx f a nonce raw s t r,
       rq_id rq = Some id -> rq_method rq = bs "eth_sendTransaction" -> rq_params rq = p0 :: rest ->
       decode_transaction parse_int p0 = Ok tx -> tx_from tx = Some f -> dec_address f = Ok a ->
       nonce_decision parse_int backend tx a = Some nonce -> sign_with a (set_nonce tx nonce) chain = Ok raw ->
       backend (raw_frame raw) = BHttp s (BJson t) -> (s =? 204)%N = false -> t <> JNull ->
       decode_response t zero_response = (r, false) ->
       (is_success s = true -> error_code_nonzero r = false ->
        processRPC parse_int accounts sign_with backend chain (Some rq)
        = Ok (Some (fill_result (set_id r (Some id))), false, pre_of tx a ++ [raw_frame raw])) /\
       (is_success s || is_error s = true -> error_code_nonzero r = true ->
        processRPC parse_int accounts sign_with backend chain (Some rq)
        = Ok (Some (set_id r (Some id)), true, pre_of tx a ++ [raw_frame raw]))).
Proof.
  intros parse_int accounts sign_with backend chain. split; [|split].
  - exact (relay_passthrough parse_int accounts sign_with backend chain).
  - exact (relay_passthrough_error_data parse_int accounts sign_with backend chain).
  - exact (relay_send_tx parse_int accounts sign_with backend chain).
Qed.
Print Assumptions C09_relay_general.

(* 10j (ISSUE 5). Theorems 4b and 1c for ANY tree: the request is whatever decode_request makes of the tree the
        lexer yields (not only the canonical four-member object). *)
Theorem C09_passthrough_wire :
  forall parse_int lex accounts sign_with backend chain body order t rq id,
    (b2n (sniffFirstByte body) =? 91)%N = false ->
    lex body = Some t -> decode_request t = Ok rq -> rq_id rq = Some id ->
    special_method (rq_method rq) = false ->
    exists (resp : rpc_response) (err : bool),
      rpcHandler parse_int lex accounts sign_with backend chain body order
      = Ok (if err then 500%N else 200%N, response_tree resp, [[mkFrame (rq_method rq) (rq_params rq)]]) /\
      (resp, err) = fst (SyncRequest backend rq) /\
      tree_answers id err (response_tree resp).
Proof. exact passthrough_wire. Qed.
Print Assumptions C09_passthrough_wire.

Theorem C09_send_tx_wire :
  forall parse_int lex accounts sign_with backend chain body order t rq id p0 rest tx f a,
    (b2n (sniffFirstByte body) =? 91)%N = false ->
    lex body = Some t -> decode_request t = Ok rq -> rq_id rq = Some id ->
    rq_method rq = bs "eth_sendTransaction" -> rq_params rq = p0 :: rest ->
    decode_transaction parse_int p0 = Ok tx -> tx_from tx = Some f -> dec_address f = Ok a ->
    let refused := Ok (500%N, response_tree (RPCErrorResponse (Some id) RPCCodeInternalError), [pre_of tx a]) in
    match nonce_decision parse_int backend tx a with
    | None => rpcHandler parse_int lex accounts sign_with backend chain body order = refused
    | Some nonce =>
        match sign_with a (set_nonce tx nonce) chain with
        | Ok raw => exists (resp : rpc_response) (err : bool),
                      rpcHandler parse_int lex accounts sign_with backend chain body order
                      = Ok (if err then 500%N else 200%N, response_tree resp, [pre_of tx a ++ [raw_frame raw]]) /\
                      (resp, err) = fst (SyncRequest backend (send_raw_request rq raw)) /\
                      tree_answers id err (response_tree resp)
        | Err _ => rpcHandler parse_int lex accounts sign_with backend chain body order = refused
        | Panic => rpcHandler parse_int lex accounts sign_with backend chain body order = Panic
        end
    end.
Proof. exact send_tx_wire. Qed.
Print Assumptions C09_send_tx_wire.

(* 10k (ISSUE 6). Start, completely: outcome and frames as a function of the configuration and of the backend's
        reply to net_version; the cases theorem 7 left out (null => 0; not an integer => no start; no usable
        answer => no start); a result below 2^63 is the chain id AS IT IS, a result of 2^63 or more is refused
        (the defect found in this round: it was truncated — fixed in /repo by 0c95e98); hence a chain id Start
        comes up with after discovery is never negative (the hypothesis 0 <= chain of section 9 holds for it);
        and the link: the chain id Start returns is the one theorem 1 then holds for. *)
Theorem C09_chain_id_decided :
  forall parse_int backend,
    (forall c, Start parse_int backend c
               = (match chain_decision parse_int backend c with Some z => Ok z | None => Err EStart end,
                  if (c <? 0)%Z then [net_version_frame] else [])) /\
    (forall c echo, (c < 0)%Z -> backend net_version_frame = reply_result echo JNull ->
                    Start parse_int backend c = (Ok 0%Z, [net_version_frame])) /\
    (forall c echo v, (c < 0)%Z -> backend net_version_frame = reply_result echo v -> v <> JNull ->
                      (forall n, dec_hexint parse_int v <> Ok n) ->
                      Start parse_int backend c = (Err EStart, [net_version_frame])) /\
    (forall c, (c < 0)%Z -> reply_value (backend net_version_frame) = None ->
               Start parse_int backend c = (Err EStart, [net_version_frame])) /\
    (forall c echo v n, (c < 0)%Z -> backend net_version_frame = reply_result echo v -> v <> JNull ->
                        dec_hexint parse_int v = Ok n -> (Z.of_N n < 9223372036854775808)%Z ->
                        Start parse_int backend c = (Ok (Z.of_N n), [net_version_frame])) /\
    (forall c echo v n, (c < 0)%Z -> backend net_version_frame = reply_result echo v -> v <> JNull ->
                        dec_hexint parse_int v = Ok n -> (9223372036854775808 <= Z.of_N n)%Z ->
                        Start parse_int backend c = (Err EStart, [net_version_frame])) /\
    (forall c z fr, Start parse_int backend c = (Ok z, fr) -> (0 <= c)%Z \/ (0 <= z < 9223372036854775808)%Z).
Proof. exact (fun parse_int backend => conj (start_decided parse_int backend) (start_cases parse_int backend)). Qed.
Print Assumptions C09_chain_id_decided.

Theorem C09_chain_id_linked :
  forall parse_int backend configured chain frames0,
    Start parse_int backend configured = (Ok chain, frames0) ->
    chain_decision parse_int backend configured = Some chain /\
    ((0 <= configured)%Z -> chain = configured /\ frames0 = []) /\
    forall accounts sign_with H ecrecover,
      wallet_sound H ecrecover accounts sign_with chain ->
      forall rq id p0 rest tx f a,
      (forall a t c, sign_with a t c <> Panic) ->
      rq_id rq = Some id -> rq_method rq = bs "eth_sendTransaction" -> rq_params rq = p0 :: rest ->
      decode_transaction parse_int p0 = Ok tx -> tx_from tx = Some f -> dec_address f = Ok a ->
      exists resp err frames,
        processRPC parse_int accounts sign_with backend chain (Some rq) = Ok (Some resp, err, frames) /\
        rs_id resp = Some id /\
        ((exists nonce raw,
            frames = pre_of tx a ++ [raw_frame raw] /\
            nonce_decision parse_int backend tx a = Some nonce /\
            In a accounts /\
            raw_recovers_to H ecrecover raw (Z.to_N chain) a (requested_format tx)
                            (requested_fields (set_nonce tx nonce)) /\
            (resp, err) = fst (SyncRequest backend (send_raw_request rq raw)))
         \/ (frames = pre_of tx a /\ err = true /\ is_proxy_error resp (Some id))).
Proof. exact start_then_send_tx. Qed.
Print Assumptions C09_chain_id_linked.

(* 10l (ISSUE 8). Ok, not merely "no panic": with a wallet that returns, the handler returns Ok for every body,
        backend and completion order; over the file-system wallet (8i / 8j) and with C01's signer (9h) every
        request of every history is answered with Ok. *)
Theorem C09_handler_returns_ok :
  forall parse_int lex accounts sign_with backend chain body order,
    (forall a t c, sign_with a t c <> Panic) ->
    (forall t ms, lex body = Some t -> decode_batch t = Ok ms -> Permutation order (seq 0 (length ms))) ->
    exists r, rpcHandler parse_int lex accounts sign_with backend chain body order = Ok r.
Proof. exact rpcHandler_ok. Qed.
Print Assumptions C09_handler_returns_ok.

Theorem C09_fswallet_returns_ok :
  forall (key doc tsig : Type) (E : W.ext key (transaction * Z) bytes doc tsig) (c : W.config)
         parse_int lex backend chain fs,
    WP3.ext_nopanic key (transaction * Z)%type bytes doc tsig E -> WP3.fs_nopanic fs ->
    (forall h body order, ops_ok h -> order_ok lex body order ->
       exists r, fs_rpcHandler E c parse_int lex backend chain (fs_state E c fs h) body order = Ok r) /\
    (forall hist : list request, history_ok lex hist ->
       Forall (fun x : W.state key * bytes * res http_reply => exists r, snd x = Ok r)
              (serve E c parse_int lex backend chain (W.init_state key fs) hist)).
Proof.
  intros key doc tsig E c parse_int lex backend chain fs Hext Hfs. split.
  - intros h body order Hops Hord. exact (fs_handler_ok E c parse_int lex backend chain fs h body order Hext Hfs Hops Hord).
  - intros hist Hh. exact (fs_history_ok E c parse_int lex backend chain fs hist Hext Hfs Hh).
Qed.
Print Assumptions C09_fswallet_returns_ok.

Theorem C09_end_to_end_returns_ok :
  forall (doc tsig : Type) (o : group_ops) (H : bytes -> bytes) (nonce : Z -> bytes -> nat -> Z) (fuel : nat)
         (E0 : W.ext N (transaction * Z) bytes doc tsig) (c : W.config) parse_int lex backend chain fs (hist : list request),
    WP3.ext_nopanic N (transaction * Z)%type bytes doc tsig E0 -> WP3.fs_nopanic fs -> history_ok lex hist ->
    Forall (fun x : W.state N * bytes * res http_reply => exists r, snd x = Ok r)
           (serve (with_signer o H nonce fuel E0) c parse_int lex backend chain (W.init_state N fs) hist).
Proof. exact (@end_to_end_ok). Qed.
Print Assumptions C09_end_to_end_returns_ok.

(* 10m. C09_end_to_end with the hash instantiated by the executable Keccak-256 (Base/Keccak.v): the length law is a
        theorem there, one hypothesis fewer. *)
Theorem C09_end_to_end_keccak :
  forall (doc tsig : Type) (o : group_ops) (nonce : Z -> bytes -> nat -> Z) (fuel : nat)
         (E0 : W.ext N (transaction * Z) bytes doc tsig) (c : W.config) parse_int lex backend chain,
    laws o -> (n o < Secp.Model.two256)%Z -> (0 <= chain)%Z ->
    reader_yields (with_signer o keccak256 nonce fuel E0) (key_in_range o) ->
    forall fs (hist : list request),
      let E := with_signer o keccak256 nonce fuel E0 in
      Forall (fun x : W.state N * bytes * res http_reply =>
                let '(s, body, reply) := x in
                (exists h, s = fs_state E c fs h) /\
                forall status tree traces frames fr,
                  reply = Ok (status, tree, traces) -> In frames traces -> In fr frames -> is_raw_frame fr = true ->
                  exists rq, In (Some rq) (members_of lex body) /\
                    ((rq_method rq = bs "eth_sendRawTransaction" /\ fr = mkFrame (rq_method rq) (rq_params rq)) \/
                     (rq_method rq = bs "eth_sendTransaction" /\
                      submission_specified o keccak256 nonce fuel E0 c parse_int backend chain s rq fr)))
             (serve E c parse_int lex backend chain (W.init_state N fs) hist).
Proof. exact end_to_end_keccak. Qed.
Print Assumptions C09_end_to_end_keccak.

(* ---------- non-vacuity of section 10 (and of the theorems the review found without an Example) ---------- *)

Definition r_id : json := JStr (bs "caller-7").
Definition r_call : json := request_tree (bs "2.0") r_id (bs "eth_blockNumber") [].
Definition r_rq : rpc_request := mkReq (bs "2.0") (Some r_id) (bs "eth_blockNumber") [].
Definition r_refused : json := response_tree (RPCErrorResponse (Some r_id) RPCCodeInternalError).

(* 10a/10b: seven uncooperative backends (transport failure; HTTP 500 with an empty / invalid body; 200 with an
   invalid body; 502 text/html; 200 null; 200 with a result member of... a jsonrpc member of the wrong type; 500
   with JSON but no error object): each is answered 500 with the -32603 object under the caller's id, one frame.
   Two degenerate successes (204; 200 text/plain): 200 with result null (10c). *)
Example C09_uncooperative_nonvacuous :
  map (fun rep => rpcHandler ex_parse (fun _ => Some r_call) [ex_addr] ex_sign (fun _ => rep) 2022%Z (bs "x") [])
      [ BConnFail; BHttp 500 BBadJson; BHttp 200 BBadJson; BHttp 502 BNotJson; BHttp 200 (BJson JNull);
        BHttp 200 (BJson (JObj [(bs "jsonrpc", JNum (bs "2"))]));
        BHttp 500 (BJson (JObj [(bs "message", JStr (bs "overloaded"))])) ]
  = repeat (Ok (500%N, r_refused, [[mkFrame (bs "eth_blockNumber") []]])) 7 /\
  tree_member (bs "error") r_refused = Some (error_tree (mkErr RPCCodeInternalError proxy_text false None)) /\
  tree_member (bs "result") r_refused = None /\
  map (fun rep => rpcHandler ex_parse (fun _ => Some r_call) [ex_addr] ex_sign (fun _ => rep) 2022%Z (bs "x") [])
      [ BHttp 204 BBadJson; BHttp 200 BNotJson ]
  = repeat (Ok (200%N, JObj [(bs "jsonrpc", JStr []); (bs "id", r_id); (bs "result", JNull)],
                [[mkFrame (bs "eth_blockNumber") []]])) 2.
Proof. vm_compute. repeat split; reflexivity. Qed.

(* C09_ids (4) and 10i: a JSON-RPC error on HTTP 500 is relayed under the caller's id — without and with a data
   member, and with the members in another order plus a foreign member (the general relay, hypotheses shown) *)
Example C09_error_relay_nonvacuous :
  processRPC ex_parse [ex_addr] ex_sign (fun _ => error_reply 500 (JNum (bs "000000042")) (bs "-32000") (bs "nonce too low")) 2022%Z (Some r_rq)
  = Ok (Some (mkResp (bs "2.0") (Some r_id) None (Some (mkErr (-32000) (bs "nonce too low") true None)) [] None), true,
        [mkFrame (bs "eth_blockNumber") []]) /\
  processRPC ex_parse [ex_addr] ex_sign
             (fun _ => error_reply_data 200 JNull (bs "3") (bs "execution reverted") (JStr (bs "0x08c379a0"))) 2022%Z (Some r_rq)
  = Ok (Some (mkResp (bs "2.0") (Some r_id) None
                (Some (mkErr 3 (bs "execution reverted") true (Some (JStr (bs "0x08c379a0"))))) [] None), true,
        [mkFrame (bs "eth_blockNumber") []]) /\
  let t := JObj [(bs "error", JObj [(bs "data", JArr []); (bs "message", JStr (bs "m")); (bs "code", JNum (bs "-5"))]);
                 (bs "extra", JBool true); (bs "ID", JNum (bs "9")); (bs "jsonrpc", JStr (bs "2.0"))] in
  let r := mkResp (bs "2.0") (Some (JNum (bs "9"))) None (Some (mkErr (-5) (bs "m") true (Some (JArr [])))) [] None in
  decode_response t zero_response = (r, false) /\ error_code_nonzero r = true /\
  processRPC ex_parse [ex_addr] ex_sign (fun _ => BHttp 400 (BJson t)) 2022%Z (Some r_rq)
  = Ok (Some (set_id r (Some r_id)), true, [mkFrame (bs "eth_blockNumber") []]).
Proof. vm_compute. repeat split; reflexivity. Qed.

(* C09_nothing_on_failure (b) over the abstract wallet: a from the wallet does not hold (the hypothesis
   ~ In a accounts holds) — only the count query, no submission, -32603 under the caller's id *)
Example C09_nothing_on_failure_nonvacuous :
  exists tx,
    decode_transaction ex_parse (w_tx wB []) = Ok tx /\ tx_from tx = Some (JStr (hex0x wB)) /\
    dec_address (JStr (hex0x wB)) = Ok wB /\ ~ In wB [ex_addr] /\
    processRPC ex_parse [ex_addr] ex_sign ex_backend 2022%Z
               (Some (mkReq (bs "2.0") (Some r_id) (bs "eth_sendTransaction") [w_tx wB []]))
    = Ok (Some (RPCErrorResponse (Some r_id) RPCCodeInternalError), true, [count_frame wB]).
Proof.
  eexists. split; [vm_compute; reflexivity|]. split; [reflexivity|]. split; [vm_compute; reflexivity|].
  split; [|vm_compute; reflexivity].
  intros [E|[]]. vm_compute in E. discriminate.
Qed.

(* theorems 1c / 4b and 10g / 10j from the body on the wire: the canonical tree, and a tree with the members in
   another order, a case-folded name, a duplicate id (the last wins) and NO params member *)
Example C09_wire_nonvacuous :
  (exists tree,
     rpcHandler ex_parse (fun _ => Some (request_tree (bs "2.0") r_id (bs "eth_sendTransaction") [ex_tx]))
                [ex_addr] ex_sign ex_backend 2022%Z (bs "x") []
     = Ok (200%N, tree, [[count_frame ex_addr;
                          raw_frame (spec_signed Eip1559 (mkFields 42 0 0 100 21000 (Some (repeat x22 20)) 0 [xfe; xed]) 2022 1 5 7)]]) /\
     tree_member (bs "id") tree = Some r_id /\ tree_member (bs "result") tree = Some (JStr (bs "0xhash"))) /\
  (exists tx, decode_transaction ex_parse ex_tx = Ok tx /\ nonce_decision ex_parse ex_backend tx ex_addr = Some (Some 42%N) /\
              nonce_decision ex_parse (fun _ => reply_result JNull JNull) tx ex_addr = Some None /\
              nonce_decision ex_parse (fun _ => BConnFail) tx ex_addr = None /\
              nonce_decision ex_parse (fun _ => reply_result JNull (JBool true)) tx ex_addr = None) /\
  rpcHandler ex_parse (fun _ => Some r_call) [ex_addr] ex_sign ex_backend 2022%Z (bs "x") []
  = Ok (200%N, response_tree (mkResp (bs "2.0") (Some r_id) (Some (JStr (bs "0xhash"))) None [] None),
        [[mkFrame (bs "eth_blockNumber") []]]) /\
  let odd := JObj [(bs "METHOD", JStr (bs "eth_chainId")); (bs "id", JNum (bs "1")); (bs "Id", JStr (bs "last"))] in
  decode_request odd = Ok (mkReq [] (Some (JStr (bs "last"))) (bs "eth_chainId") []) /\
  rpcHandler ex_parse (fun _ => Some odd) [ex_addr] ex_sign ex_backend 2022%Z (bs "x") []
  = Ok (200%N, response_tree (mkResp (bs "2.0") (Some (JStr (bs "last"))) (Some (JStr (bs "0xhash"))) None [] None),
        [[mkFrame (bs "eth_chainId") []]]).
Proof.
  split; [eexists; vm_compute; repeat split; reflexivity|].
  split; [eexists; vm_compute; repeat split; reflexivity|].
  vm_compute. repeat split; reflexivity.
Qed.

(* the conclusions "<> Panic" / "= Ok" (8i, 8j, 9h, 10l) are not true by construction: the model DOES panic when
   the wallet panics, and when the completion order is not a permutation of the members (a slot index out of range) *)
Example C09_model_can_panic :
  processRPC ex_parse [ex_addr] (fun _ _ _ => Panic) ex_backend 2022%Z (Some ex_request) = Panic /\
  rpcHandler ex_parse (fun _ => Some (JArr [r_call])) [ex_addr] ex_sign ex_backend 2022%Z (bs "[x") [3%nat] = Panic /\
  rpcHandler ex_parse (fun _ => Some (JArr [r_call])) [ex_addr] ex_sign ex_backend 2022%Z (bs "[x") [0%nat]
  = Ok (200%N, JArr [response_tree (mkResp (bs "2.0") (Some r_id) (Some (JStr (bs "0xhash"))) None [] None)],
        [[mkFrame (bs "eth_blockNumber") []]]).
Proof. vm_compute. repeat split; reflexivity. Qed.

(* 10k: null gives 0; 2^63 - 1 is used as it is; 2^63 and 2^64 + 5 are refused (before fix 0c95e98: a negative chain
   id and 5); a boolean or no answer: the process does not come up *)
Example C09_chain_id_cases_nonvacuous :
  Start ex_parse (fun _ => reply_result JNull JNull) (-1)%Z = (Ok 0%Z, [net_version_frame]) /\
  Start ex_parse (fun _ => reply_result JNull (JStr (bs "0x7fffffffffffffff"))) (-1)%Z
  = (Ok 9223372036854775807%Z, [net_version_frame]) /\
  Start ex_parse (fun _ => reply_result JNull (JStr (bs "0x8000000000000000"))) (-1)%Z = (Err EStart, [net_version_frame]) /\
  Start ex_parse (fun _ => reply_result JNull (JStr (bs "0x10000000000000005"))) (-1)%Z = (Err EStart, [net_version_frame]) /\
  Start ex_parse (fun _ => reply_result JNull (JBool true)) (-1)%Z = (Err EStart, [net_version_frame]) /\
  Start ex_parse (fun _ => BHttp 503 BNotJson) (-1)%Z = (Err EStart, [net_version_frame]) /\
  Start ex_parse (fun _ => BConnFail) 2022%Z = (Ok 2022%Z, []).
Proof. vm_compute. repeat split; reflexivity. Qed.

(* ================================================================================================
   11. Wave 6.
   (a) The hypothesis [0 <= chain] of section 9 replaced by one on the inputs only: "the process came up"
       — Start, for the configuration and whatever backend answered during start-up, returned this chain id.
   (b) REFEREE 4: batch alignment over an interleaving machine with an EXPLICIT shared slot array
       (Rpc/BatchMachine.v).  Each member goroutine is the three-instruction program of rpchandler.go
       (compute into registers; store into rpcResponses[i]; send on the channel), a schedule is ANY list of
       goroutine numbers, the handler replies with the array as it is at its last receive.  The theorem is
       about this program, not about the machine: the same machine runs the two historical seeds (send before
       store; append in completion order) and they break alignment (Example C09_batch_machine_discriminates).
       The machine is also run in the correspondence check (code 8) under a schedule built from the forced
       completion order.
   ================================================================================================ *)
From FFS Require Import Rpc.W6Chain Rpc.BatchMachine.

(* 11a. A chain id the process comes up with is never negative: it lies in [0, 2^63), or it is the configured
        (non-negative) one. *)
Theorem C09_started_chain_in_range :
  forall parse_int backend0 configured chain frames0,
    Start parse_int backend0 configured = (Ok chain, frames0) ->
    (0 <= chain < 9223372036854775808)%Z \/ ((0 <= configured)%Z /\ chain = configured).
Proof. exact started_nonneg. Qed.
Print Assumptions C09_started_chain_in_range.

(* 11b. C09_end_to_end without [0 <= chain]: for the chain id Start returned (backend0 = the backend as it
        answered during start-up; it need not be the backend of the later requests). *)
Theorem C09_end_to_end_started :
  forall (doc tsig : Type) (o : group_ops) (H : bytes -> bytes) (nonce : Z -> bytes -> nat -> Z) (fuel : nat)
         (E0 : W.ext N (transaction * Z) bytes doc tsig) (c : W.config) parse_int lex backend0 configured backend chain frames0,
    laws o -> (n o < Secp.Model.two256)%Z -> (forall x, length (H x) = 32%nat) ->
    Start parse_int backend0 configured = (Ok chain, frames0) ->
    reader_yields (with_signer o H nonce fuel E0) (key_in_range o) ->
    forall fs (hist : list request),
      let E := with_signer o H nonce fuel E0 in
      Forall (fun x : W.state N * bytes * res http_reply =>
                let '(s, body, reply) := x in
                (exists h, s = fs_state E c fs h) /\
                forall status tree traces frames fr,
                  reply = Ok (status, tree, traces) -> In frames traces -> In fr frames -> is_raw_frame fr = true ->
                  exists rq, In (Some rq) (members_of lex body) /\
                    ((rq_method rq = bs "eth_sendRawTransaction" /\ fr = mkFrame (rq_method rq) (rq_params rq)) \/
                     (rq_method rq = bs "eth_sendTransaction" /\
                      submission_specified o H nonce fuel E0 c parse_int backend chain s rq fr)))
             (serve E c parse_int lex backend chain (W.init_state N fs) hist).
Proof. exact end_to_end_started. Qed.
Print Assumptions C09_end_to_end_started.

(* 11c. ... and with the hash instantiated by the executable Keccak-256: hypotheses left are laws o, n o < 2^256,
        the process came up, reader_yields. *)
Theorem C09_end_to_end_keccak_started :
  forall (doc tsig : Type) (o : group_ops) (nonce : Z -> bytes -> nat -> Z) (fuel : nat)
         (E0 : W.ext N (transaction * Z) bytes doc tsig) (c : W.config) parse_int lex backend0 configured backend chain frames0,
    laws o -> (n o < Secp.Model.two256)%Z ->
    Start parse_int backend0 configured = (Ok chain, frames0) ->
    reader_yields (with_signer o keccak256 nonce fuel E0) (key_in_range o) ->
    forall fs (hist : list request),
      let E := with_signer o keccak256 nonce fuel E0 in
      Forall (fun x : W.state N * bytes * res http_reply =>
                let '(s, body, reply) := x in
                (exists h, s = fs_state E c fs h) /\
                forall status tree traces frames fr,
                  reply = Ok (status, tree, traces) -> In frames traces -> In fr frames -> is_raw_frame fr = true ->
                  exists rq, In (Some rq) (members_of lex body) /\
                    ((rq_method rq = bs "eth_sendRawTransaction" /\ fr = mkFrame (rq_method rq) (rq_params rq)) \/
                     (rq_method rq = bs "eth_sendTransaction" /\
                      submission_specified o keccak256 nonce fuel E0 c parse_int backend chain s rq fr)))
             (serve E c parse_int lex backend chain (W.init_state N fs) hist).
Proof. exact end_to_end_keccak_started. Qed.
Print Assumptions C09_end_to_end_keccak_started.

(* 11d. The machine, for the program of rpchandler.go and EVERY schedule (any list of goroutine numbers, any
        interleaving of the members' computes, stores and sends): it never panics (every index is in range), and
        if the handler replied, it replied with slot i = the response of member i for every i and status 500 iff
        some member failed.  [outs] are the members' outcomes (11e supplies them). *)
Theorem C09_batch_machine_aligned :
  forall (outs : list outcome) (sch : list nat),
    mrun real_prog outs sch (minit (length outs)) <> Panic /\
    forall st, mrun real_prog outs sch (minit (length outs)) = Ok st ->
      forall s sl, m_reply st = Some (s, sl) ->
        s = (if existsb o_err outs then 500%N else 200%N) /\ sl = map o_resp outs.
Proof. exact machine_aligned. Qed.
Print Assumptions C09_batch_machine_aligned.

(* 11e. Batch alignment for every interleaving: the batch handler over the machine, any schedule that lets the
        handler reply. *)
Theorem C09_batch_alignment_any_interleaving :
  forall parse_int lex accounts sign_with backend chain body t members sch r,
    lex body = Some t -> decode_batch t = Ok members -> members <> [] ->
    handleRPCBatch_m parse_int lex accounts sign_with backend chain real_prog body sch = Ok r ->
    exists outs,
      Forall2 (fun m o => processRPC parse_int accounts sign_with backend chain m = Ok o) members outs /\
      r = (if existsb o_err outs then 500%N else 200%N,
           JArr (map (fun o => response_opt_tree (o_resp o)) outs),
           map (fun o => snd o) outs).
Proof. exact batch_alignment_m. Qed.
Print Assumptions C09_batch_alignment_any_interleaving.

(* 11f. The machine and the sequential model of Rpc/Model.v (the one every other theorem speaks about) agree:
        whatever the machine handler answers under any schedule, rpcHandler answers under every completion order. *)
Theorem C09_batch_machine_agrees :
  forall parse_int lex accounts sign_with backend chain body sch r,
    rpcHandler_m parse_int lex accounts sign_with backend chain real_prog body sch = Ok r ->
    forall order,
      (forall t ms, lex body = Some t -> decode_batch t = Ok ms -> Permutation order (seq 0 (length ms))) ->
      rpcHandler parse_int lex accounts sign_with backend chain body order = Ok r.
Proof. exact handler_m_agrees. Qed.
Print Assumptions C09_batch_machine_agrees.

(* non-vacuity of 11d-11f: the batch of C09_batch_nonvacuous under an interleaved schedule (member 2 computes and
   stores first, member 0 computes, member 1 runs to its end, ...; receives in the order 1, 2, 0) and under the
   schedule the correspondence run builds for the completion order 2,0,1: the handler replies, aligned. *)
Example C09_batch_machine_nonvacuous :
  let body := ascii_bytes "[..]" in
  let t := JArr [JObj [(bs "id", JStr (bs "a")); (bs "method", JStr (bs "eth_blockNumber"))];
                 JObj [(bs "id", JNum (bs "2")); (bs "method", JStr (bs "eth_accounts"))];
                 JObj [(bs "method", JStr (bs "eth_call"))]] in
  exists trees traces,
    rpcHandler_m ex_parse (fun _ => Some t) [ex_addr] ex_sign ex_backend 2022%Z real_prog body [2; 2; 0; 1; 1; 1; 2; 0; 0]%nat
    = Ok (500%N, JArr trees, traces) /\
    rpcHandler_m ex_parse (fun _ => Some t) [ex_addr] ex_sign ex_backend 2022%Z real_prog body (sched_of_order [2; 0; 1]%nat)
    = Ok (500%N, JArr trees, traces) /\
    map (tree_member (bs "id")) trees = [Some (JStr (bs "a")); Some (JNum (bs "2")); Some JNull] /\
    (* a schedule that is not a behaviour (member 0 moves four times) and an incomplete one are reported as such *)
    rpcHandler_m ex_parse (fun _ => Some t) [ex_addr] ex_sign ex_backend 2022%Z real_prog body [0; 0; 0; 0]%nat = Err ESched /\
    rpcHandler_m ex_parse (fun _ => Some t) [ex_addr] ex_sign ex_backend 2022%Z real_prog body [0; 0; 0; 1; 1; 1]%nat = Err ESched.
Proof.
  cbv zeta. eexists. eexists.
  split; [vm_compute; reflexivity|].
  split; [vm_compute; reflexivity|].
  split; [vm_compute; reflexivity|].
  split; vm_compute; reflexivity.
Qed.

(* the conclusion of 11d is not true by construction of the machine: two other programs on the same machine.
   Send before store (seed #19): both members send, the handler replies, and only then the stores happen — the
   client gets two nulls.  Append in completion order (seed #2): member 1 finishes first and its response lands in
   slot 0. *)
Example C09_batch_machine_discriminates :
  let o0 : outcome := (Some (RPCErrorResponse (Some (JNum (bs "10"))) RPCCodeInternalError), true, []) in
  let o1 : outcome := (Some (RPCErrorResponse (Some (JNum (bs "11"))) RPCCodeInvalidRequest), false, []) in
  (exists st, mrun prog_send_first [o0; o1] [0; 1; 0; 1; 0; 1]%nat (minit 2) = Ok st /\
              m_reply st = Some (500%N, [None; None]) /\ m_slots st = [o_resp o0; o_resp o1]) /\
  (exists st, mrun prog_append [o0; o1] [1; 1; 1; 0; 0; 0]%nat (minit 2) = Ok st /\
              m_reply st = Some (500%N, [o_resp o1; o_resp o0])) /\
  (exists st, mrun real_prog [o0; o1] [1; 1; 1; 0; 0; 0]%nat (minit 2) = Ok st /\
              m_reply st = Some (500%N, [o_resp o0; o_resp o1])).
Proof.
  cbv zeta. split; [|split].
  - eexists. split; [vm_compute; reflexivity|]. split; vm_compute; reflexivity.
  - eexists. split; [vm_compute; reflexivity|]. vm_compute; reflexivity.
  - eexists. split; [vm_compute; reflexivity|]. vm_compute; reflexivity.
Qed.
