(* C09 — the proxy signs eth_sendTransaction for `from` and relays everything else unchanged.
   Statements only; proofs live in Rpc/Proofs*.v.

   The model (Rpc/Model.v) is parametric in: the integer parser (property C19), the JSON lexer,
   the wallet — an address list and a signing function, constrained only by [wallet_sound], the
   conclusion of C08 ∘ C01 — the backend (ANY function from the frame it sees to an HTTP reply or a
   transport failure) and the chain id.  Every theorem below holds for all of them, for all request
   trees, and — for batches — for every completion order of the member goroutines.

   Vocabulary: [count_frame a] is eth_getTransactionCount(a, "pending"); [raw_frame raw] is
   eth_sendRawTransaction("0x" ++ hex raw); [raw_recovers_to H ecrecover raw chain from fm f] says raw
   is exactly the EIP-155 / EIP-1559 wire format (Tx/Spec.v) of the fields f with a signature whose
   recovery on the Keccak of the signing pre-image yields from. *)
From Coq Require Import String.
From Coq Require Import List NArith ZArith Bool Arith Permutation.
From Coq Require Import Init.Byte.
From FFS Require Import Base.Res Base.Bytes Rlp.Spec Tx.Spec Rpc.Json Rpc.Model Rpc.Spec
  Rpc.ProofsBatch Rpc.Proofs Rpc.ProofsHandler.
Import ListNotations.
Local Open Scope string_scope.
Local Open Scope list_scope.

(* 1. eth_sendTransaction.  If the parameter decodes and `from` parses to an address a, then either
      exactly one raw transaction is submitted — after exactly one pending-count query iff no nonce
      was supplied, and nothing else — and it recovers under the chain id to a, which the wallet
      holds, with the requested fields and the nonce supplied or reported by the backend, the reply
      being the backend's answer to that submission under the caller's id;  or nothing is submitted
      (only the count query, if any, was made) and the reply is an error object under the caller's id. *)
Theorem C09_send_tx :
  forall parse_int accounts sign_with backend chain H ecrecover,
    wallet_sound H ecrecover accounts sign_with chain ->
    forall rq id p0 rest tx f a,
    (forall a t c, sign_with a t c <> Panic) ->
    rq_id rq = Some id -> rq_method rq = bs "eth_sendTransaction" -> rq_params rq = p0 :: rest ->
    decode_transaction parse_int p0 = Ok tx -> tx_from tx = Some f -> dec_address f = Ok a ->
    exists resp err frames,
      processRPC parse_int accounts sign_with backend chain (Some rq) = Ok (Some resp, err, frames) /\
      rs_id resp = Some id /\
      let pre := match tx_nonce tx with Some _ => [] | None => [count_frame a] end in
      ((exists nonce raw,
          frames = pre ++ [raw_frame raw] /\
          nonce_source parse_int backend tx a nonce pre /\
          In a accounts /\
          raw_recovers_to H ecrecover raw (Z.to_N chain) a (requested_format tx)
                          (requested_fields (set_nonce tx nonce)) /\
          (resp, err) = fst (SyncRequest backend (send_raw_request rq raw)))
       \/ (frames = pre /\ err = true /\ is_proxy_error resp (Some id))).
Proof. exact send_tx. Qed.
Print Assumptions C09_send_tx.

(* 1b. The success path, fully determined.  With a nonce in the request and a wallet that signs:
       exactly the one raw-transaction frame.  Without a nonce, a backend that answers the count
       query with a result v (any echoed id) that parses to n, and a wallet that signs the
       transaction carrying nonce n: exactly the count query followed by the raw transaction. *)
Theorem C09_send_tx_exact :
  forall parse_int accounts sign_with backend chain rq id p0 rest tx f a,
    rq_id rq = Some id -> rq_method rq = bs "eth_sendTransaction" -> rq_params rq = p0 :: rest ->
    decode_transaction parse_int p0 = Ok tx -> tx_from tx = Some f -> dec_address f = Ok a ->
    (forall n raw,
       tx_nonce tx = Some n -> sign_with a tx chain = Ok raw ->
       exists resp err,
         processRPC parse_int accounts sign_with backend chain (Some rq) = Ok (Some resp, err, [raw_frame raw]) /\
         (resp, err) = fst (SyncRequest backend (send_raw_request rq raw))) /\
    (forall echo v n raw,
       tx_nonce tx = None -> backend (count_frame a) = reply_result echo v -> v <> JNull ->
       dec_hexint parse_int v = Ok n -> sign_with a (set_nonce tx (Some n)) chain = Ok raw ->
       exists resp err,
         processRPC parse_int accounts sign_with backend chain (Some rq)
         = Ok (Some resp, err, [count_frame a; raw_frame raw]) /\
         (resp, err) = fst (SyncRequest backend (send_raw_request rq raw))).
Proof. exact send_tx_exact. Qed.
Print Assumptions C09_send_tx_exact.

(* 1c. ... and from the bytes on the wire: a body that lexes to the request object
       {jsonrpc, id, "eth_sendTransaction", [p0, ...]} yields one HTTP reply carrying the id and
       exactly the frames of theorem 1 (or, on failure, no submission, status 500 and no result). *)
Theorem C09_send_tx_end_to_end :
  forall parse_int lex accounts sign_with backend chain H ecrecover body order ver id p0 rest tx f a,
    wallet_sound H ecrecover accounts sign_with chain ->
    (forall a t c, sign_with a t c <> Panic) ->
    (b2n (sniffFirstByte body) =? 91)%N = false ->
    lex body = Some (request_tree ver id (bs "eth_sendTransaction") (p0 :: rest)) -> id <> JNull ->
    decode_transaction parse_int p0 = Ok tx -> tx_from tx = Some f -> dec_address f = Ok a ->
    exists status tree frames,
      rpcHandler parse_int lex accounts sign_with backend chain body order = Ok (status, tree, [frames]) /\
      tree_member (bs "id") tree = Some id /\
      let pre := match tx_nonce tx with Some _ => [] | None => [count_frame a] end in
      ((exists nonce raw,
          frames = pre ++ [raw_frame raw] /\
          nonce_source parse_int backend tx a nonce pre /\
          In a accounts /\
          raw_recovers_to H ecrecover raw (Z.to_N chain) a (requested_format tx)
                          (requested_fields (set_nonce tx nonce)))
       \/ (frames = pre /\ status = 500%N /\ tree_member (bs "result") tree = None)).
Proof. exact send_tx_end_to_end. Qed.
Print Assumptions C09_send_tx_end_to_end.

(* 2. Nothing is submitted on failure.  (a) A raw-transaction frame leaves the proxy for an
      eth_sendTransaction request ONLY IF the parameter decoded, `from` parsed to an address the
      wallet holds, the wallet signed, and the bytes recover to that address with the requested
      fields.  (b) Spelt out: no parameters, an undecodable parameter, no / unparsable `from`, a
      `from` the wallet does not hold, or a wallet that fails to sign — no raw-transaction frame at
      all, HTTP 500, and an error object under the caller's id. *)
Theorem C09_nothing_on_failure :
  forall parse_int accounts sign_with backend chain H ecrecover,
    wallet_sound H ecrecover accounts sign_with chain ->
    (forall rq o fr,
       rq_method rq = bs "eth_sendTransaction" ->
       processRPC parse_int accounts sign_with backend chain (Some rq) = Ok o ->
       In fr (o_frames o) -> is_raw_frame fr = true ->
       exists p0 rest tx f a nonce raw,
         rq_params rq = p0 :: rest /\ decode_transaction parse_int p0 = Ok tx /\
         tx_from tx = Some f /\ dec_address f = Ok a /\ In a accounts /\
         nonce_source parse_int backend tx a nonce (match tx_nonce tx with Some _ => [] | None => [count_frame a] end) /\
         sign_with a (set_nonce tx nonce) chain = Ok raw /\ fr = raw_frame raw /\
         raw_recovers_to H ecrecover raw (Z.to_N chain) a (requested_format tx) (requested_fields (set_nonce tx nonce)))
    /\
    (forall rq id o,
       rq_id rq = Some id -> rq_method rq = bs "eth_sendTransaction" ->
       processRPC parse_int accounts sign_with backend chain (Some rq) = Ok o ->
       (rq_params rq = []
        \/ exists p0 rest, rq_params rq = p0 :: rest /\
             ((exists e, decode_transaction parse_int p0 = Err e)
              \/ exists tx, decode_transaction parse_int p0 = Ok tx /\
                   (tx_from tx = None
                    \/ exists f, tx_from tx = Some f /\
                         ((exists e, dec_address f = Err e)
                          \/ exists a, dec_address f = Ok a /\
                               (~ In a accounts \/ forall t raw, sign_with a t chain <> Ok raw))))) ->
       (forall fr, In fr (o_frames o) -> is_raw_frame fr = false) /\
       o_err o = true /\ exists resp, o_resp o = Some resp /\ is_proxy_error resp (Some id)).
Proof.
  intros parse_int accounts sign_with backend chain H ecrecover W. split.
  - exact (raw_only_if parse_int accounts sign_with backend chain H ecrecover W).
  - exact (nothing_on_failure parse_int accounts sign_with backend chain H ecrecover W).
Qed.
Print Assumptions C09_nothing_on_failure.

(* 3. eth_accounts / personal_accounts: the wallet's addresses, under the caller's id, nothing sent. *)
Theorem C09_accounts :
  forall parse_int accounts sign_with backend chain rq id,
    rq_id rq = Some id ->
    rq_method rq = bs "eth_accounts" \/ rq_method rq = bs "personal_accounts" ->
    processRPC parse_int accounts sign_with backend chain (Some rq)
    = Ok (Some (mkResp (bs "2.0") (Some id) (Some (JArr (map address_json accounts))) None [] None), false, []).
Proof. exact accounts_spec. Qed.
Print Assumptions C09_accounts.

(* 4. Every other method: exactly one frame, the same method and the same parameter list (an absent
      params member is the empty list — the only normalisation), and the reply is what SyncRequest
      makes of the backend's answer, under the caller's id. *)
Theorem C09_passthrough :
  forall parse_int accounts sign_with backend chain rq id,
    rq_id rq = Some id -> special_method (rq_method rq) = false ->
    exists resp err,
      processRPC parse_int accounts sign_with backend chain (Some rq)
      = Ok (Some resp, err, [mkFrame (rq_method rq) (rq_params rq)]) /\
      rs_id resp = Some id /\ (resp, err) = fst (SyncRequest backend rq).
Proof. exact passthrough_spec. Qed.
Print Assumptions C09_passthrough.

(* 4b. ... from the bytes on the wire to the frame at the backend: a body that lexes to the request
       object {jsonrpc, id, method, params} with a non-null id and a method other than the three
       special ones yields exactly the frame (method, params), and a reply carrying that id. *)
Theorem C09_passthrough_end_to_end :
  forall parse_int lex accounts sign_with backend chain body order ver id m ps,
    (b2n (sniffFirstByte body) =? 91)%N = false ->
    lex body = Some (request_tree ver id m ps) -> id <> JNull -> special_method m = false ->
    exists status tree,
      rpcHandler parse_int lex accounts sign_with backend chain body order = Ok (status, tree, [[mkFrame m ps]]) /\
      tree_member (bs "id") tree = Some id.
Proof. exact passthrough_end_to_end. Qed.
Print Assumptions C09_passthrough_end_to_end.

(* 5. Ids.  Whatever the method, the backend (so: whatever id it echoes) and the wallet, a request
      carrying an id is answered by an object whose id member is that id — for a single request and
      for every member of a batch under every completion order; and a backend result, or JSON-RPC
      error with non-zero code, is relayed unchanged under that id. *)
Theorem C09_ids :
  forall parse_int lex accounts sign_with backend chain,
    (forall body order t rq id o,
       (b2n (sniffFirstByte body) =? 91)%N = false ->
       lex body = Some t -> decode_request t = Ok rq -> rq_id rq = Some id ->
       processRPC parse_int accounts sign_with backend chain (Some rq) = Ok o ->
       exists status tree traces,
         rpcHandler parse_int lex accounts sign_with backend chain body order = Ok (status, tree, traces) /\
         tree_member (bs "id") tree = Some id)
    /\
    (forall body t members outs order,
       (b2n (sniffFirstByte body) =? 91)%N = true ->
       lex body = Some t -> decode_batch t = Ok members -> members <> [] ->
       run_members parse_int accounts sign_with backend chain members = Ok outs ->
       Permutation order (seq 0 (length members)) ->
       exists status trees traces,
         rpcHandler parse_int lex accounts sign_with backend chain body order = Ok (status, JArr trees, traces) /\
         Forall2 (fun m tree => forall rq id, m = Some rq -> rq_id rq = Some id -> tree_member (bs "id") tree = Some id)
                 members trees)
    /\
    (forall rq id echo v,
       rq_id rq = Some id -> special_method (rq_method rq) = false ->
       backend (mkFrame (rq_method rq) (rq_params rq)) = reply_result echo v ->
       processRPC parse_int accounts sign_with backend chain (Some rq)
       = Ok (Some (mkResp (bs "2.0") (Some id) (Some v) None [] None), false, [mkFrame (rq_method rq) (rq_params rq)]))
    /\
    (forall rq id status echo code_text code msg,
       rq_id rq = Some id -> special_method (rq_method rq) = false ->
       backend (mkFrame (rq_method rq) (rq_params rq)) = error_reply status echo code_text msg ->
       parse_int64 code_text = Some code -> code <> 0%Z ->
       (status =? 204)%N = false -> is_success status || is_error status = true ->
       processRPC parse_int accounts sign_with backend chain (Some rq)
       = Ok (Some (mkResp (bs "2.0") (Some id) None (Some (mkErr code msg true None)) [] None), true,
             [mkFrame (rq_method rq) (rq_params rq)])).
Proof.
  intros parse_int lex accounts sign_with backend chain. repeat split.
  - exact (ids_single parse_int lex accounts sign_with backend chain).
  - exact (ids_batch parse_int lex accounts sign_with backend chain).
  - exact (passthrough_relays_result parse_int accounts sign_with backend chain).
  - exact (passthrough_relays_error parse_int accounts sign_with backend chain).
Qed.
Print Assumptions C09_ids.

(* 6. Batch alignment: for EVERY order in which the member goroutines complete (any permutation of
      the member indices) the reply is the array whose i-th element is the response computed for
      the i-th request, and the status is 500 iff some member failed. *)
Theorem C09_batch_alignment :
  forall parse_int lex accounts sign_with backend chain body t members outs order,
    lex body = Some t -> decode_batch t = Ok members -> members <> [] ->
    run_members parse_int accounts sign_with backend chain members = Ok outs ->
    Permutation order (seq 0 (length members)) ->
    handleRPCBatch parse_int lex accounts sign_with backend chain body order
    = Ok (if existsb o_err outs then 500%N else 200%N,
          JArr (map (fun o => response_opt_tree (o_resp o)) outs),
          map (fun o => snd o) outs)
    /\ Forall2 (fun m o => processRPC parse_int accounts sign_with backend chain m = Ok o) members outs.
Proof. exact batch_alignment. Qed.
Print Assumptions C09_batch_alignment.

(* 7. Chain id: a configured id (>= 0) is used as is and the backend is not asked; otherwise exactly
      one net_version query is made at start and its result (string or number, through the integer
      parser; truncated to 64 bits like Go's Int64(), the identity below 2^63) is the chain id; if
      the query fails the process does not come up.  (Theorems 1 and 2 hold for every chain id, in
      particular for the one Start returns.) *)
Theorem C09_chain_id :
  forall parse_int backend,
    (forall c, (0 <= c)%Z -> Start parse_int backend c = (Ok c, []))
    /\ (forall c, (c < 0)%Z -> snd (Start parse_int backend c) = [net_version_frame])
    /\ (forall c echo v n,
          (c < 0)%Z -> backend net_version_frame = reply_result echo v -> v <> JNull ->
          dec_hexint parse_int v = Ok n ->
          Start parse_int backend c = (Ok (wrap64 (Z.of_N n)), [net_version_frame]))
    /\ (forall z, (0 <= z < 9223372036854775808)%Z -> wrap64 z = z)
    /\ (forall c, (c < 0)%Z -> fst (CallRPC backend (bs "net_version") []) = inr tt ->
                  fst (Start parse_int backend c) = Err EStart).
Proof.
  intros parse_int backend. repeat split.
  - exact (start_configured parse_int backend).
  - exact (start_discover_frames parse_int backend).
  - exact (start_discovered parse_int backend).
  - exact wrap64_small.
  - exact (start_discovery_fails parse_int backend).
Qed.
Print Assumptions C09_chain_id.

(* ---------- non-vacuity ---------- *)

(* a toy wallet that meets [wallet_sound]: it holds one address and "signs" with a fixed signature
   that a toy ecrecover maps back to that address *)
Definition ex_addr : bytes := repeat x11 20.
Definition ex_sign (a : bytes) (t : transaction) (c : Z) : res bytes :=
  if bytes_eqb a ex_addr then Ok (spec_signed (requested_format t) (requested_fields t) (Z.to_N c) 1 5 7) else Err ESign.
Definition ex_ecrecover (_ : bytes) (y r s : N) : option bytes :=
  if ((y =? 1) && (r =? 5) && (s =? 7))%N then Some ex_addr else None.

Example C09_wallet_hypothesis_satisfiable :
  wallet_sound (fun _ => []) ex_ecrecover [ex_addr] ex_sign 2022%Z /\ (forall a t c, ex_sign a t c <> Panic).
Proof.
  split.
  - intros a t raw Hs. unfold ex_sign in Hs. destruct (bytes_eqb_spec a ex_addr) as [->|]; [|discriminate].
    injection Hs as <-. split; [left; reflexivity|]. exists 1%N, 5%N, 7%N. repeat split; reflexivity.
  - intros a t c. unfold ex_sign. destruct (bytes_eqb a ex_addr); discriminate.
Qed.

Definition ex_parse (s : bytes) : option Z :=       (* "0x" ++ hex digits only *)
  match s with
  | _ :: _ :: ds => match hex_decode (if Nat.even (length ds) then ds else x30 :: ds) with
                    | Some b => Some (Z.of_N (fold_left (fun acc x => acc * 256 + b2n x)%N b 0%N))
                    | None => None
                    end
  | _ => None
  end.

(* a backend that reports pending count 0x2a and accepts the raw transaction *)
Definition ex_backend (f : frame) : backend_reply :=
  if bytes_eqb (f_method f) (bs "eth_getTransactionCount") then reply_result (JStr (bs "000000001")) (JStr (bs "0x2a"))
  else reply_result (JNum (bs "99")) (JStr (bs "0xhash")).

Definition ex_tx : json :=
  JObj [(bs "from", JStr (hex0x ex_addr)); (bs "to", JStr (hex0x (repeat x22 20)));
        (bs "gas", JStr (bs "0x5208")); (bs "maxFeePerGas", JStr (bs "0x64")); (bs "data", JStr (bs "0xfeed"))].
Definition ex_request : rpc_request :=
  mkReq (bs "2.0") (Some (JNum (bs "18446744073709551617"))) (bs "eth_sendTransaction") [ex_tx].

(* the hypotheses of theorem 1 hold for it, no nonce is supplied, and the model indeed sends the
   count query followed by one EIP-1559 transaction carrying nonce 0x2a, answering with the
   backend's result under the caller's (large-integer) id although the backend echoed another id *)
Example C09_send_tx_nonvacuous :
  exists tx,
    decode_transaction ex_parse ex_tx = Ok tx /\
    (tx_from tx = Some (JStr (hex0x ex_addr)) /\
     dec_address (JStr (hex0x ex_addr)) = Ok ex_addr /\ tx_nonce tx = None /\
     requested_format tx = Eip1559 /\
     processRPC ex_parse [ex_addr] ex_sign ex_backend 2022%Z (Some ex_request)
     = Ok (Some (mkResp (bs "2.0") (Some (JNum (bs "18446744073709551617"))) (Some (JStr (bs "0xhash"))) None [] None),
           false,
           [count_frame ex_addr;
            raw_frame (spec_signed Eip1559 (requested_fields (set_nonce tx (Some 42%N))) 2022 1 5 7)])).
Proof.
  eexists. split; [vm_compute; reflexivity|].
  vm_compute. repeat split; reflexivity.
Qed.

(* a batch of three (pass-through, accounts, a request without id) completing in the order 2,0,1:
   the hypotheses of theorems 5/6 hold and the reply is aligned *)
Example C09_batch_nonvacuous :
  let body := ascii_bytes "[..]" in
  let t := JArr [JObj [(bs "id", JStr (bs "a")); (bs "method", JStr (bs "eth_blockNumber"))];
                 JObj [(bs "id", JNum (bs "2")); (bs "method", JStr (bs "eth_accounts"))];
                 JObj [(bs "method", JStr (bs "eth_call"))]] in
  exists members outs,
    decode_batch t = Ok members /\ members <> [] /\
    run_members ex_parse [ex_addr] ex_sign ex_backend 2022%Z members = Ok outs /\
    Permutation [2; 0; 1]%nat (seq 0 (length members)) /\
    exists trees traces,
      rpcHandler ex_parse (fun _ => Some t) [ex_addr] ex_sign ex_backend 2022%Z body [2; 0; 1]%nat
      = Ok (500%N, JArr trees, traces) /\
      map (tree_member (bs "id")) trees = [Some (JStr (bs "a")); Some (JNum (bs "2")); Some JNull].
Proof.
  cbv zeta. eexists. eexists. split; [vm_compute; reflexivity|]. split; [discriminate|].
  split; [vm_compute; reflexivity|]. split.
  - change (Permutation (2 :: [0; 1]) ([0; 1] ++ 2 :: []))%nat. apply Permutation_cons_app. apply Permutation_refl.
  - eexists. eexists. split; vm_compute; reflexivity.
Qed.

(* chain id discovery: "0x7e6" gives 2022 *)
Example C09_chain_id_nonvacuous :
  Start ex_parse (fun _ => reply_result JNull (JStr (bs "0x7e6"))) (-1)%Z = (Ok 2022%Z, [net_version_frame]).
Proof. vm_compute. reflexivity. Qed.

(* Tie of the hand-written JSON-RPC error codes of Rpc/Model.v to the source.  Gen/Consts.v is
   regenerated on every run by the translator harness/cmd/gen_consts from the `const` declarations
   of pkg/rpcbackend/backend.go as they are NOW (internal/rpcserver declares no codes of its own, it
   uses these).  The model keeps its own literals; this theorem is what breaks when a code changes
   in the source. *)
From FFS Require Gen.Consts.
Theorem C09_source_constants :
  Gen.Consts.rpcbackend_RPCCodeParseError = Rpc.Model.RPCCodeParseError /\
  Gen.Consts.rpcbackend_RPCCodeInvalidRequest = Rpc.Model.RPCCodeInvalidRequest /\
  Gen.Consts.rpcbackend_RPCCodeInternalError = Rpc.Model.RPCCodeInternalError.
Proof. vm_compute. repeat split; reflexivity. Qed.
Print Assumptions C09_source_constants.
