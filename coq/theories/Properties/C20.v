(* C20 — ABI <-> FFI conversion preserves signatures and is total on arbitrary schemas.
   Statements only; proofs live in Ffi/Proofs*.v.  The model (Ffi/Model.v) is the model of
   pkg/ffi2abi after the fix commits listed in its header. *)
From Coq Require Import String.
From Coq Require Import List NArith ZArith Bool Arith Permutation.
From Coq Require Import Init.Byte.
From FFS Require Import Base.Res Base.Bytes AbiType.Syntax AbiType.Model Ffi.Model Ffi.Spec
     Ffi.Proofs Ffi.ProofsSpec.
Import ListNotations.
Local Open Scope string_scope.

(* 1. Converting an arbitrary interface definition to ABI never panics: for every name, every list
      of parameters / returns, every verdict of the jsonschema compile and every value (error, nil,
      any struct) that json.Unmarshal may yield for each parameter schema. *)
Theorem C20_total :
  forall (name : bytes) (params returns : list pin),
    ConvertFFIMethodToABI name params returns <> Panic /\
    ConvertFFIEventDefinitionToABI name params <> Panic /\
    ConvertFFIErrorDefinitionToABI name params <> Panic.
Proof. exact conversion_total. Qed.
Print Assumptions C20_total.

(* 2a. A parameter schema that is structurally inconsistent in the sense of Spec.consistent -- no
      details; an "array" schema without items at some dimension; a nil member; a member without a
      position, or positions that are not exactly 0..n-1 each once (out of range, negative,
      colliding) -- at any depth, or that is nil itself, is reported as an error (not Ok, not
      Panic), whatever the jsonschema verdict. *)
Theorem C20_inconsistent_rejected :
  forall name verdict os,
    match os with None => True | Some s => consistent s = false end ->
    exists e, convertFFIParam (mkPin name verdict (Some os)) = Err e.
Proof. exact inconsistent_structure_rejected. Qed.
Print Assumptions C20_inconsistent_rejected.

(* non-vacuity: witnesses of the defects D20a (no items) and D20b (positions 0,0) are inconsistent,
   a well-formed tuple schema is consistent and converts *)
Example C20_inconsistent_nonvacuous :
  let det t i := Some (mkDetails (str t) [] false i) in
  let leaf i := Some (Schema (str "string") None (det "string" (Some i)) [] None) in
  consistent (Schema (str "array") None (det "uint256[]" None) [] None) = false /\
  consistent (Schema (str "object") None (det "tuple" None) [(str "a", leaf 0%Z); (str "b", leaf 0%Z)] None) = false /\
  consistent (Schema (str "object") None (det "tuple" None) [(str "a", leaf 1%Z); (str "b", leaf 0%Z)] None) = true /\
  is_ok (convertFFIParam (mkPin (str "x") true
     (Some (Some (Schema (str "object") None (det "tuple" None) [(str "a", leaf 1%Z); (str "b", leaf 0%Z)] None))))) = true.
Proof. vm_compute. repeat split. Qed.
