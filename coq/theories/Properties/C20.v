(* C20 — ABI <-> FFI conversion preserves signatures and is total on arbitrary schemas.
   Statements only; proofs live in Ffi/Proofs*.v.  The model (Ffi/Model.v) is the model of
   pkg/ffi2abi after the fix commits listed in its header. *)
From Coq Require Import String.
From Coq Require Import List NArith ZArith Bool Arith Permutation.
From Coq Require Import Init.Byte.
From FFS Require Import Base.Res Base.Bytes AbiType.Syntax AbiType.Model Ffi.Model Ffi.Spec Ffi.SpecExact
     Ffi.Proofs Ffi.ProofsSpec Ffi.ProofsRound Ffi.ProofsSig Ffi.ProofsOrder Ffi.ProofsRound3
     Ffi.ProofsExact Ffi.ProofsNames Ffi.ProofsAbiExact Ffi.ProofsDescribed Ffi.ProofsGenerated Ffi.ProofsElements Ffi.SpecRead Ffi.ProofsRead.
Import ListNotations.
Local Open Scope string_scope.

(* Vocabulary (Ffi/Spec.v): [parses p] the ABI type parser of pkg/abi accepts the parameter;
   [wf_names p] member names distinct in every components list; [valid_params l] both, for every
   parameter of l; [norm p] p with the components under non-tuple types (which no ABI function reads)
   dropped -- [norm p = p] for [clean] p; [faithful pin (name, schema)] the oracle inputs of the way
   back say: the jsonschema compile accepts the schema and json.Unmarshal yields the struct that was
   marshalled; [named e] the entry has a name. *)

(* 0a. Round trip of a function: ABI -> FFI succeeds and the FFI method converts back to the entry
       with the same name, the same parameter trees (names, types, internal types, indexed flags,
       nesting; inputs and outputs) and hence the same signature.  Events and errors alike. *)
Theorem C20_roundtrip :
  forall e,
    (valid_params (e_inputs e) -> valid_params (e_outputs e) ->
     exists m, convertABIFunctionToFFIMethod e = Ok m /\ m_name m = e_name e /\
       forall pins rets, Forall2 faithful pins (m_params m) -> Forall2 faithful rets (m_returns m) ->
         let e' := mkEntry EFunction (e_name e) (map norm (e_inputs e)) (map norm (e_outputs e)) in
         ConvertFFIMethodToABI (m_name m) pins rets = Ok e' /\ SignatureCtx e' = SignatureCtx e) /\
    (valid_params (e_inputs e) ->
     exists m, convertABIEventToFFIEvent e = Ok m /\ m_name m = e_name e /\
       forall pins, Forall2 faithful pins (m_params m) ->
         let e' := mkEntry EEvent (e_name e) (map norm (e_inputs e)) [] in
         ConvertFFIEventDefinitionToABI (m_name m) pins = Ok e' /\ SignatureCtx e' = SignatureCtx e) /\
    (valid_params (e_inputs e) ->
     exists m, convertABIErrorToFFIError e = Ok m /\ m_name m = e_name e /\
       forall pins, Forall2 faithful pins (m_params m) ->
         let e' := mkEntry EError (e_name e) (map norm (e_inputs e)) [] in
         ConvertFFIErrorDefinitionToABI (m_name m) pins = Ok e' /\ SignatureCtx e' = SignatureCtx e).
Proof.
  intros e. split; [exact (roundtrip_function e)|]. split; [exact (roundtrip_event e)|exact (roundtrip_error e)].
Qed.
Print Assumptions C20_roundtrip.

(* 0b. [norm] changes nothing on parameters without stray components. *)
Theorem C20_roundtrip_identity : forall p, clean p -> norm p = p.
Proof. exact norm_clean. Qed.
Print Assumptions C20_roundtrip_identity.

(* 0c. Whole ABIs with distinct entry names: ConvertABIToFFI succeeds and holds the converted
       method / event / error of every named entry, in whatever order Go ranges over the maps
       returned by Functions() / Events() / Errors() (any permutation). *)
Theorem C20_roundtrip_abi :
  forall abi,
    NoDup (map e_name (filter named abi)) ->
    (forall e, In e abi -> valid_entry e) ->
    forall fs evs ers,
      Permutation fs (Functions abi) -> Permutation evs (Events abi) -> Permutation ers (Errors abi) ->
      exists ffi, ConvertABIToFFI_ord fs evs ers = Ok ffi /\
        forall e, In e abi -> e_name e <> [] ->
          (IsFunction e = true -> exists m, In m (f_methods ffi) /\ convertABIFunctionToFFIMethod e = Ok m) /\
          (e_type e = EEvent -> exists m, In m (f_events ffi) /\ convertABIEventToFFIEvent e = Ok m) /\
          (e_type e = EError -> exists m, In m (f_errors ffi) /\ convertABIErrorToFFIError e = Ok m).
Proof. exact roundtrip_abi. Qed.
Print Assumptions C20_roundtrip_abi.

(* 0c'. Go map order on the way back.  [sperm s s'] (Spec.v): s' is s with the entries of every
       Properties map, at every depth, in another order.  The conversion of a parameter gives the
       same class, and the same parameter when Ok, for s and s' ([requiv]; only which member an error
       names may differ) -- for every schema value and verdict, not only generated ones. *)
Theorem C20_map_order_independent :
  forall name verdict s s',
    sperm s s' ->
    requiv (convertFFIParam (mkPin name verdict (Some (Some s))))
           (convertFFIParam (mkPin name verdict (Some (Some s')))).
Proof. exact map_order_convert. Qed.
Print Assumptions C20_map_order_independent.

(* 0c''. Hence the round trip 0a holds for every order in which the maps are ranged over
        ([faithful_upto]: the unmarshalled struct is the marshalled one up to [sperm]). *)
Theorem C20_roundtrip_any_order :
  forall e,
  (valid_params (e_inputs e) -> valid_params (e_outputs e) ->
   exists m, convertABIFunctionToFFIMethod e = Ok m /\
     forall pins rets, Forall2 faithful_upto pins (m_params m) -> Forall2 faithful_upto rets (m_returns m) ->
       ConvertFFIMethodToABI (m_name m) pins rets =
       Ok (mkEntry EFunction (e_name e) (map norm (e_inputs e)) (map norm (e_outputs e)))) /\
  (valid_params (e_inputs e) ->
   exists m, convertABIEventToFFIEvent e = Ok m /\
     forall pins, Forall2 faithful_upto pins (m_params m) ->
       ConvertFFIEventDefinitionToABI (m_name m) pins = Ok (mkEntry EEvent (e_name e) (map norm (e_inputs e)) [])) /\
  (valid_params (e_inputs e) ->
   exists m, convertABIErrorToFFIError e = Ok m /\
     forall pins, Forall2 faithful_upto pins (m_params m) ->
       ConvertFFIErrorDefinitionToABI (m_name m) pins = Ok (mkEntry EError (e_name e) (map norm (e_inputs e)) [])).
Proof. exact roundtrip_any_order. Qed.
Print Assumptions C20_roundtrip_any_order.

(* non-vacuity of [sperm]: a two-member tuple schema with its members swapped *)
Example C20_map_order_nonvacuous :
  let det t i := Some (mkDetails (str t) [] false i) in
  let leaf t i := Some (Schema (str "string") None (det t (Some i)) [] None) in
  let s := Schema (str "object") None (det "tuple" None) [(str "a", leaf "string" 0%Z); (str "b", leaf "bytes" 1%Z)] None in
  let s' := Schema (str "object") None (det "tuple" None) [(str "b", leaf "bytes" 1%Z); (str "a", leaf "string" 0%Z)] None in
  sperm s s' /\ s <> s' /\ is_ok (convertFFIParam (mkPin (str "x") true (Some (Some s')))) = true.
Proof.
  cbv zeta. split; [|split; [discriminate|vm_compute; reflexivity]].
  cbn. repeat split.
  eexists. split; [apply perm_swap|]. cbn. repeat split; try reflexivity; exists []; split; constructor.
Qed.

(* 0d. The stand-alone signature helper returns the entry's own signature, on parameters the parser
       accepts and that spell every type with explicit widths (no "int", "uint", "fixed", "ufixed"
       alias at any depth) -- the type trees of C02. *)
Theorem C20_signature_helper :
  forall e,
    Forall parses (e_inputs e) -> forallb explicit_widths (e_inputs e) = true ->
    SignatureCtx e = Ok (ABIMethodToSignature e).
Proof. exact signature_helper. Qed.
Print Assumptions C20_signature_helper.

(* 0e. The validity hypothesis [parses] of 0a-0d is membership in the type grammar of Abi/Types.v
       (the type trees of C02): the parameter's type text and components spell a valid [ty]
       (spelling / valid_type: the specification of C13). *)
Theorem C20_valid_is_type_grammar :
  forall p, parses p <->
    exists t, AbiType.Spec.valid_type t = true /\ AbiType.Spec.spelling t (fp_type p) (map erase (fp_comps p)).
Proof. exact parses_iff_grammar. Qed.
Print Assumptions C20_valid_is_type_grammar.

(* non-vacuity: f(p tuple[][] {a uint256, b tuple {c bool}}) -> (q uint8) meets the hypotheses; the
   whole chain computes.  The alias "uint" is outside the guard [explicit_widths] of 0d; until fix 35b0f19
   the helper returned "g(uint)" for g(uint x) (the last conjunct said so); it now writes aliases in full
   and the guard is no longer needed: theorem 8 *)
Example C20_roundtrip_nonvacuous :
  let P n t cs := FParam (str n) (str t) [] false cs in
  let p := P "p" "tuple[][]" [P "a" "uint256" []; P "b" "tuple" [P "c" "bool" []]] in
  let e := mkEntry EFunction (str "f") [p] [P "q" "uint8" []] in
  (exists tc, parseABIParameterComponents (erase p) = Ok tc) /\
  match convertABIFunctionToFFIMethod e with
  | Ok m =>
      let pin ns := mkPin (fst ns) true (Some (Some (snd ns))) in
      match ConvertFFIMethodToABI (m_name m) (map pin (m_params m)) (map pin (m_returns m)) with
      | Ok e' => SignatureCtx e' = Ok (str "f((uint256,(bool))[][])") /\
                 ABIMethodToSignature e' = str "f((uint256,(bool))[][])"
      | _ => False
      end
  | _ => False
  end /\
  explicit_widths p = true /\
  explicit_widths (P "x" "uint" []) = false /\
  SignatureCtx (mkEntry EFunction (str "g") [P "x" "uint" []] []) = Ok (str "g(uint256)") /\
  ABIMethodToSignature (mkEntry EFunction (str "g") [P "x" "uint" []] []) = str "g(uint256)".
Proof. vm_compute. split; [eexists; reflexivity|]. repeat split. Qed.

(* 1. Converting an arbitrary interface definition to ABI never panics: for every name, every list
      of parameters / returns, every verdict of the jsonschema compile and every value (error, nil,
      any struct) that json.Unmarshal may yield for each parameter schema. *)
Theorem C20_total :
  forall (name : bytes) (params returns : list pin),
    ConvertFFIMethodToABI name params returns <> Panic /\
    ConvertFFIEventDefinitionToABI name params <> Panic /\
    ConvertFFIErrorDefinitionToABI name params <> Panic.
Proof. exact conversion_total. Qed.
Print Assumptions C20_total.

(* 1b. Neither does the ABI -> FFI direction, for any ABI (valid or not), in any map order: the model's
       own partial operations there (tuple children against components, Details of a child schema)
       are never out of their domain. *)
Theorem C20_total_forward :
  forall fs evs ers, ConvertABIToFFI_ord fs evs ers <> Panic.
Proof. exact forward_total. Qed.
Print Assumptions C20_total_forward.

(* 2. Inconsistent schemas are errors.  [pin_inconsistent] (Spec.v; the oracle the correspondence
      run applies to the implementation, code 13): the schema passed the jsonschema compile and
      unmarshalled, and is nil, or not [consistent].  [consistent] fails when, at any depth: there
      are no details; the JSON type is at odds with the Ethereum type of the details; an "array"
      schema has no items at some dimension; a member is nil; a member has no position, or the
      positions are not exactly 0..n-1 each once (negative, too large, colliding). *)
Theorem C20_inconsistent_rejected :
  forall p, pin_inconsistent p = true -> exists e, convertFFIParam p = Err e.
Proof. exact inconsistent_rejected. Qed.
Print Assumptions C20_inconsistent_rejected.

(* 2b. The same whatever the jsonschema verdict says. *)
Theorem C20_inconsistent_rejected_any_verdict :
  forall name verdict os,
    match os with None => True | Some s => consistent s = false end ->
    exists e, convertFFIParam (mkPin name verdict (Some os)) = Err e.
Proof. exact inconsistent_any_verdict_rejected. Qed.
Print Assumptions C20_inconsistent_rejected_any_verdict.

(* non-vacuity: witnesses of the defects D20a (no items), D20b (positions 0,0), D20c (string against
   an array type) and D20i (a member's JSON type boolean against uint256) are inconsistent; a
   well-formed tuple schema is consistent and converts *)
Example C20_inconsistent_nonvacuous :
  let det t i := Some (mkDetails (str t) [] false i) in
  let leaf i := Some (Schema (str "string") None (det "string" (Some i)) [] None) in
  consistent (Schema (str "array") None (det "uint256[]" None) [] None) = false /\
  consistent (Schema (str "object") None (det "tuple" None) [(str "a", leaf 0%Z); (str "b", leaf 0%Z)] None) = false /\
  consistent (Schema (str "object") None (det "tuple" None) [(str "a", leaf 1%Z); (str "b", leaf 0%Z)] None) = true /\
  is_ok (convertFFIParam (mkPin (str "x") true
     (Some (Some (Schema (str "object") None (det "tuple" None) [(str "a", leaf 1%Z); (str "b", leaf 0%Z)] None))))) = true /\
  pin_inconsistent (mkPin (str "x") true (Some (Some (Schema (str "string") None (det "uint256[]" None) [] None)))) = true /\
  pin_inconsistent (mkPin (str "x") true (Some (Some (Schema (str "string") None (det "uint256" None) [] None)))) = false /\
  consistent (Schema (str "object") None (det "tuple" None)
                [(str "a", Some (Schema (str "boolean") None (det "uint256" (Some 0%Z)) [] None))] None) = false.
Proof. vm_compute. repeat split. Qed.

(* 0f. The two halves composed: the stand-alone helper applied to the entry that comes back from the
       interface format returns the signature of the original entry (explicit widths, as in 0d);
       functions, events and errors. *)
Theorem C20_roundtrip_then_helper :
  forall e,
  forallb explicit_widths (e_inputs e) = true ->
  (valid_params (e_inputs e) -> valid_params (e_outputs e) ->
   exists m, convertABIFunctionToFFIMethod e = Ok m /\
     forall pins rets, Forall2 faithful pins (m_params m) -> Forall2 faithful rets (m_returns m) ->
       exists e', ConvertFFIMethodToABI (m_name m) pins rets = Ok e' /\
                  SignatureCtx e = Ok (ABIMethodToSignature e') /\ ABIMethodToSignature e' = ABIMethodToSignature e) /\
  (valid_params (e_inputs e) ->
   exists m, convertABIEventToFFIEvent e = Ok m /\
     forall pins, Forall2 faithful pins (m_params m) ->
       exists e', ConvertFFIEventDefinitionToABI (m_name m) pins = Ok e' /\
                  SignatureCtx e = Ok (ABIMethodToSignature e') /\ ABIMethodToSignature e' = ABIMethodToSignature e) /\
  (valid_params (e_inputs e) ->
   exists m, convertABIErrorToFFIError e = Ok m /\
     forall pins, Forall2 faithful pins (m_params m) ->
       exists e', ConvertFFIErrorDefinitionToABI (m_name m) pins = Ok e' /\
                  SignatureCtx e = Ok (ABIMethodToSignature e') /\ ABIMethodToSignature e' = ABIMethodToSignature e).
Proof. exact roundtrip_then_helper. Qed.
Print Assumptions C20_roundtrip_then_helper.

(* 3. Every parameter is converted on its own: the entry that comes back holds, position by position,
      the conversion of each parameter -- a function of that parameter's (name, verdict, decoded
      schema) alone, not of its position, its neighbours, the entry's name or kind, or of standing
      among the inputs or the outputs -- and a definition is refused exactly when one of its
      parameters is.  (What the repeated / renamed / reordered / concurrent conversions of the
      correspondence run search a counterexample for on the implementation.) *)
Theorem C20_per_parameter :
  forall name params returns,
  (forall e, ConvertFFIMethodToABI name params returns = Ok e <->
     exists ins outs, Forall2 (fun p x => convertFFIParam p = Ok x) params ins /\
                      Forall2 (fun p x => convertFFIParam p = Ok x) returns outs /\
                      e = mkEntry EFunction name ins outs) /\
  (forall e, ConvertFFIEventDefinitionToABI name params = Ok e <->
     exists ins, Forall2 (fun p x => convertFFIParam p = Ok x) params ins /\ e = mkEntry EEvent name ins []) /\
  (forall e, ConvertFFIErrorDefinitionToABI name params = Ok e <->
     exists ins, Forall2 (fun p x => convertFFIParam p = Ok x) params ins /\ e = mkEntry EError name ins []) /\
  ((forall e, ConvertFFIMethodToABI name params returns <> Ok e) <->
     Exists (fun p => forall x, convertFFIParam p <> Ok x) (params ++ returns)) /\
  ((forall e, ConvertFFIEventDefinitionToABI name params <> Ok e) <->
     Exists (fun p => forall x, convertFFIParam p <> Ok x) params).
Proof. exact conversion_per_parameter. Qed.
Print Assumptions C20_per_parameter.

(* non-vacuity: a good parameter converts to the same value wherever it stands; a bad one beside it
   makes the definition an error *)
Example C20_per_parameter_nonvacuous :
  let det t := Some (mkDetails (str t) [] false None) in
  let good := mkPin (str "a") true (Some (Some (Schema (str "string") None (det "string") [] None))) in
  let bad := mkPin (str "b") true (Some (Some (Schema (str "string") None (det "uint256[]") [] None))) in
  let x := FParam (str "a") (str "string") [] false [] in
  convertFFIParam good = Ok x /\ is_ok (convertFFIParam bad) = false /\
  ConvertFFIMethodToABI (str "f") [good] [good; good] = Ok (mkEntry EFunction (str "f") [x] [x; x]) /\
  ConvertFFIEventDefinitionToABI (str "g") [good; good] = Ok (mkEntry EEvent (str "g") [x; x] []) /\
  is_ok (ConvertFFIMethodToABI (str "f") [good; bad] []) = false /\
  is_ok (ConvertFFIMethodToABI (str "f") [good] [good; bad]) = false.
Proof. vm_compute. repeat split. Qed.

(* 4. The accepted parameter schemas, exactly.  Vocabulary (Ffi/SpecExact.v):
      [members_of s] the members a schema describes ("object": its properties; "array": the members of
      its innermost element description, through [items] at every dimension; otherwise none);
      [describes name s ap] ap is the parameter s describes under that name, valid at every level:
      name = the name it stands under (parameter name / property key); type, internalType, indexed =
      the details; one component per member, the member recorded at position z being component z,
      described by its member schema under its key; and the ABI type parser accepts it ([parses], the
      type grammar of C13, see 0e);
      [json_type_declared s] the domain of the JSON type oracle of Spec.v: at every level that
      describes a parameter the schema declares one JSON type ("type", or a "oneOf" with exactly one
      alternative other than "string" -- the only form the FireFly base meta-schema admits).

   4a. The converse of 2, read as "accepted => consistent", with what comes out (no guard; every
       verdict, every decoded value): an accepted parameter passed the jsonschema compile, decoded to
       a schema that is [consistent] -- at every level: details present, JSON type not at odds with the
       Ethereum type, items at every dimension, member positions exactly 0..n-1 -- and the result is
       the parameter that schema describes. *)
Theorem C20_accepted_described :
  forall p ap, convertFFIParam p = Ok ap ->
    pi_verdict p = true /\
    exists s, pi_unm p = Some (Some s) /\ consistent s = true /\ describes (pi_name p) s ap.
Proof. exact accepted_described. Qed.
Print Assumptions C20_accepted_described.

(* 4b. The converse of 2, read as "consistent => accepted": a schema that passed the jsonschema
       compile, is consistent and describes a valid parameter is accepted, with exactly that
       parameter. *)
Theorem C20_consistent_accepted :
  forall p s ap,
    pi_verdict p = true -> pi_unm p = Some (Some s) -> json_type_declared s ->
    consistent s = true -> describes (pi_name p) s ap -> convertFFIParam p = Ok ap.
Proof. exact consistent_accepted. Qed.
Print Assumptions C20_consistent_accepted.

(* 4c. 2 and its converse packaged: the exact characterisation of the accepted schemas and of the
       result, and of the refused ones (an error, never a panic). *)
Theorem C20_accepted_iff_consistent :
  forall p s, pi_unm p = Some (Some s) -> json_type_declared s ->
    (forall ap, convertFFIParam p = Ok ap <->
                pi_verdict p = true /\ consistent s = true /\ describes (pi_name p) s ap) /\
    ((exists e, convertFFIParam p = Err e) <->
     ~ (pi_verdict p = true /\ consistent s = true /\ exists ap, describes (pi_name p) s ap)).
Proof. intros p s U JD. split; [exact (accepted_iff_consistent p s U JD)|exact (rejected_iff p s U JD)]. Qed.
Print Assumptions C20_accepted_iff_consistent.

(* 4d. [describes] is not a restatement of the conversion's choice among several candidates: a
       consistent schema describes at most one parameter. *)
Theorem C20_described_unique :
  forall s name a b,
    json_type_declared s -> consistent s = true -> describes name s a -> describes name s b -> a = b.
Proof. exact described_unique. Qed.
Print Assumptions C20_described_unique.

(* 4e. What [consistent] says, one clause per line ([members_of], [items_complete], [positions]:
       SpecExact.v): details are present; the JSON type is not at odds with the Ethereum type; an
       "array" schema describes its elements ([items] at every dimension); the member positions are a
       permutation of 0..n-1; every member is present and consistent itself.  With 4a: every
       parameter schema the conversion accepts has all five, at every depth. *)
Theorem C20_consistent_spelled_out :
  forall s, consistent s = true <->
    (exists d, s_details s = Some d) /\
    type_at_odds s = false /\
    items_complete s = true /\
    Permutation (map member_index (members_of s)) (positions (length (members_of s))) /\
    Forall (fun km => exists m, snd km = Some m /\ consistent m = true) (members_of s).
Proof. exact consistent_spelled. Qed.
Print Assumptions C20_consistent_spelled_out.

(* non-vacuity of 4: a two-member tuple schema with positions 1, 0 (one member through oneOf) meets
   every hypothesis and converts to the members in position order; the guard of 4b/4c is needed (a
   "oneOf" of "string" alone: consistent, describes uint256, refused) and so is the validity of the
   Ethereum types inside [describes] (uint257: consistent, JSON type declared, refused); outside the
   guard a schema with two alternatives besides "string" is still accepted (4a applies). *)
Example C20_accepted_iff_nonvacuous :
  let det t i := Some (mkDetails (str t) [] false i) in
  let a := Schema (str "string") None (det "string" (Some 1%Z)) [] None in
  let b := Schema [] (Some [str "string"; str "integer"]) (det "uint256" (Some 0%Z)) [] None in
  let s := Schema (str "object") None (det "tuple" None) [(str "a", Some a); (str "b", Some b)] None in
  let P n t cs := FParam (str n) (str t) [] false cs in
  let s1 := Schema [] (Some [str "string"]) (det "uint256" None) [] None in
  let s2 := Schema (str "string") None (det "uint257" None) [] None in
  let s3 := Schema [] (Some [str "string"; str "integer"; str "boolean"]) (det "bool" None) [] None in
  (json_type_declared s /\ consistent s = true /\
   convertFFIParam (mkPin (str "x") true (Some (Some s))) = Ok (P "x" "tuple" [P "b" "uint256" []; P "a" "string" []])) /\
  (consistent s1 = true /\ describes (str "x") s1 (P "x" "uint256" []) /\
   is_ok (convertFFIParam (mkPin (str "x") true (Some (Some s1)))) = false) /\
  (consistent s2 = true /\ json_type_declared s2 /\
   is_ok (convertFFIParam (mkPin (str "x") true (Some (Some s2)))) = false) /\
  (declared_json_type s3 = None /\ is_ok (convertFFIParam (mkPin (str "x") true (Some (Some s3)))) = true).
Proof.
  cbv zeta. split; [|split; [|split]].
  - split; [|split; vm_compute; reflexivity].
    constructor; [vm_compute; discriminate|intros ? E; injection E as <-; vm_compute; exact I|].
    apply Forall_cons; [|apply Forall_cons; [|apply Forall_nil]]; cbn [snd]; intros m E; injection E as <-;
      (constructor; [vm_compute; discriminate|intros ? E; injection E as <-; vm_compute; exact I|apply Forall_nil]).
  - split; [vm_compute; reflexivity|]. split; [|vm_compute; reflexivity].
    apply (Describes (str "x") [] (Some [str "string"]) (mkDetails (str "uint256") [] false None) [] None []).
    + reflexivity.
    + constructor.
    + eexists. vm_compute. reflexivity.
  - split; [vm_compute; reflexivity|]. split; [|vm_compute; reflexivity].
    constructor; [vm_compute; discriminate|intros ? E; injection E as <-; vm_compute; exact I|apply Forall_nil].
  - split; vm_compute; reflexivity.
Qed.

(* 5. Names do not matter.  [pin_rename p p'] (SpecExact.v): the same verdict and the same decoded
      schema up to the parameter name and the property keys at every depth ([srename]; keys may even
      repeat).  Then the two conversions have the same outcome -- Ok / the same error class -- and,
      when Ok, results that are equal once every name is blanked ([unnamed]: types, internal types,
      indexed flags, nesting); so have whole definitions (any entry name, parameters and returns),
      and blanking names changes neither the entry's signature nor the helper's text.  The names
      themselves are carried exactly: the result bears the parameter's name (member names = property
      keys: [describes], 4a).  The escaping of names for the schema resource (fixes 305065f, 5469ed5)
      is inside the verdict oracle, which the model computes under a fixed resource name. *)
Theorem C20_names_irrelevant :
  (forall p p', pin_rename p p' ->
     rmap unnamed (convertFFIParam p) = rmap unnamed (convertFFIParam p')) /\
  (forall name ps ps' rs rs', Forall2 pin_rename ps ps' -> Forall2 pin_rename rs rs' ->
     rmap unnamed_entry (ConvertFFIMethodToABI name ps rs) = rmap unnamed_entry (ConvertFFIMethodToABI name ps' rs') /\
     rmap unnamed_entry (ConvertFFIEventDefinitionToABI name ps) = rmap unnamed_entry (ConvertFFIEventDefinitionToABI name ps') /\
     rmap unnamed_entry (ConvertFFIErrorDefinitionToABI name ps) = rmap unnamed_entry (ConvertFFIErrorDefinitionToABI name ps')) /\
  (forall e, SignatureCtx (unnamed_entry e) = SignatureCtx e /\
             ABIMethodToSignature (unnamed_entry e) = ABIMethodToSignature e) /\
  (forall p ap, convertFFIParam p = Ok ap -> fp_name ap = pi_name p).
Proof.
  split; [exact rename_convert|]. split; [exact rename_definitions|].
  split; [exact signature_strip|exact convert_name].
Qed.
Print Assumptions C20_names_irrelevant.

(* non-vacuity: the same tuple schema under the names x / a,b and "y y" / b,b (a repeated key):
   both convert, to different parameters that agree once names are blanked *)
Example C20_names_nonvacuous :
  let det t i := Some (mkDetails (str t) [] false i) in
  let leaf t i := Some (Schema (str "string") None (det t (Some i)) [] None) in
  let s := Schema (str "object") None (det "tuple" None) [(str "a", leaf "string" 1%Z); (str "b", leaf "bytes" 0%Z)] None in
  let s' := Schema (str "object") None (det "tuple" None) [(str "b", leaf "string" 1%Z); (str "b", leaf "bytes" 0%Z)] None in
  let p := mkPin (str "x") true (Some (Some s)) in
  let p' := mkPin (str "y y") true (Some (Some s')) in
  pin_rename p p' /\ is_ok (convertFFIParam p) = true /\ convertFFIParam p <> convertFFIParam p' /\
  rmap unnamed (convertFFIParam p) = rmap unnamed (convertFFIParam p').
Proof.
  cbv zeta. split; [|split; [vm_compute; reflexivity|split; [vm_compute; discriminate|vm_compute; reflexivity]]].
  unfold pin_rename. cbn. repeat split.
Qed.

(* 0c-bis. "Each resulting method, event and error": the interface that ConvertABIToFFI returns holds
       nothing else than the conversions of the named entries of the ABI -- every method / event /
       error in it is the conversion of a named function / event / error entry of the ABI and converts
       back to that entry (the statement of 0a for it), and there are exactly as many as there are
       such entries -- whatever order Go ranged over the maps in. *)
Theorem C20_roundtrip_abi_each :
  forall abi,
  NoDup (map e_name (filter named abi)) ->
  (forall e, In e abi -> valid_entry e) ->
  forall fs evs ers,
    Permutation fs (Functions abi) -> Permutation evs (Events abi) -> Permutation ers (Errors abi) ->
    forall ffi, ConvertABIToFFI_ord fs evs ers = Ok ffi ->
    (forall m, In m (f_methods ffi) ->
       exists e, In e abi /\ IsFunction e = true /\ e_name e <> [] /\
         convertABIFunctionToFFIMethod e = Ok m /\ m_name m = e_name e /\
         forall pins rets, Forall2 faithful pins (m_params m) -> Forall2 faithful rets (m_returns m) ->
           let e' := mkEntry EFunction (e_name e) (map norm (e_inputs e)) (map norm (e_outputs e)) in
           ConvertFFIMethodToABI (m_name m) pins rets = Ok e' /\ SignatureCtx e' = SignatureCtx e) /\
    (forall m, In m (f_events ffi) ->
       exists e, In e abi /\ e_type e = EEvent /\ e_name e <> [] /\
         convertABIEventToFFIEvent e = Ok m /\ m_name m = e_name e /\
         forall pins, Forall2 faithful pins (m_params m) ->
           let e' := mkEntry EEvent (e_name e) (map norm (e_inputs e)) [] in
           ConvertFFIEventDefinitionToABI (m_name m) pins = Ok e' /\ SignatureCtx e' = SignatureCtx e) /\
    (forall m, In m (f_errors ffi) ->
       exists e, In e abi /\ e_type e = EError /\ e_name e <> [] /\
         convertABIErrorToFFIError e = Ok m /\ m_name m = e_name e /\
         forall pins, Forall2 faithful pins (m_params m) ->
           let e' := mkEntry EError (e_name e) (map norm (e_inputs e)) [] in
           ConvertFFIErrorDefinitionToABI (m_name m) pins = Ok e' /\ SignatureCtx e' = SignatureCtx e) /\
    length (f_methods ffi) = length (filter (fun e => named e && IsFunction e) abi) /\
    length (f_events ffi) = length (filter (fun e => named e && is_event e) abi) /\
    length (f_errors ffi) = length (filter (fun e => named e && is_error e) abi).
Proof. exact roundtrip_abi_each. Qed.
Print Assumptions C20_roundtrip_abi_each.

(* non-vacuity: a function, an event and an unnamed constructor give one method and one event *)
Example C20_roundtrip_abi_nonvacuous :
  let P n t := FParam (str n) (str t) [] false [] in
  let abi := [mkEntry EFunction (str "f") [P "a" "uint256"] [P "r" "bool"];
              mkEntry EEvent (str "g") [P "b" "bytes32"] [];
              mkEntry EConstructor [] [P "c" "address"] []] in
  NoDup (map e_name (filter named abi)) /\
  match ConvertABIToFFI abi with
  | Ok ffi => map m_name (f_methods ffi) = [str "f"] /\ map m_name (f_events ffi) = [str "g"] /\ f_errors ffi = []
  | _ => False
  end.
Proof.
  cbv zeta. split; [|vm_compute; repeat split].
  cbn. repeat constructor; cbn; intuition discriminate.
Qed.

(* 4f. The described parameter is computable.  [described name s] (SpecExact.v): type, internalType,
       indexed from the details, the members' own described parameters in position order;
       [types_valid ap]: the ABI type parser accepts ap and every component at every depth.  For a
       consistent schema, [describes] says no more and no less. *)
Theorem C20_described_computed :
  forall s name ap, consistent s = true ->
    (describes name s ap <-> ap = described name s /\ types_valid (described name s) = true).
Proof. exact describes_iff_described. Qed.
Print Assumptions C20_described_computed.

(* 4g. Hence 4c with a right-hand side that is a computation: a parameter schema is accepted exactly
       when it passed the jsonschema compile, is consistent, and the Ethereum types of the parameter
       it describes are valid; the result is that parameter.  The last part needs no guard. *)
Theorem C20_accepted_decided :
  (forall p s, pi_unm p = Some (Some s) -> json_type_declared s ->
     (forall ap, convertFFIParam p = Ok ap <->
                 pi_verdict p = true /\ consistent s = true /\
                 types_valid (described (pi_name p) s) = true /\ ap = described (pi_name p) s) /\
     is_ok (convertFFIParam p) = pi_verdict p && consistent s && types_valid (described (pi_name p) s)) /\
  (forall p ap, convertFFIParam p = Ok ap ->
     exists s, pi_unm p = Some (Some s) /\ ap = described (pi_name p) s /\ types_valid ap = true).
Proof. split; [exact accepted_decided|exact accepted_is_described]. Qed.
Print Assumptions C20_accepted_decided.

(* non-vacuity of 4f/4g: the tuple schema of the Example of 4 (positions 1, 0): its described
   parameter has the members in position order and valid types; uint257 is described but not valid *)
Example C20_accepted_decided_nonvacuous :
  let det t i := Some (mkDetails (str t) [] false i) in
  let a := Schema (str "string") None (det "string" (Some 1%Z)) [] None in
  let b := Schema [] (Some [str "string"; str "integer"]) (det "uint256" (Some 0%Z)) [] None in
  let s := Schema (str "object") None (det "tuple" None) [(str "a", Some a); (str "b", Some b)] None in
  let P n t cs := FParam (str n) (str t) [] false cs in
  let s2 := Schema (str "string") None (det "uint257" None) [] None in
  described (str "x") s = P "x" "tuple" [P "b" "uint256" []; P "a" "string" []] /\
  consistent s = true /\ types_valid (described (str "x") s) = true /\
  convertFFIParam (mkPin (str "x") true (Some (Some s))) = Ok (described (str "x") s) /\
  described (str "x") s2 = P "x" "uint257" [] /\ consistent s2 = true /\
  types_valid (described (str "x") s2) = false /\
  is_ok (convertFFIParam (mkPin (str "x") true (Some (Some s2)))) = false.
Proof. vm_compute. repeat split. Qed.

(* 4h. The characterisation 4b/4c/4g is not about an empty corner: every parameter schema that the
       ABI -> FFI direction generates (for any parameter it accepts at all) declares one JSON type at
       every level -- the guard of 4 -- and, for distinct member names, is consistent and describes
       the very parameter it was generated from ([norm], see 0b), whose types are valid. *)
Theorem C20_generated_in_domain :
  forall p ns, paramToFFI p = Ok ns ->
    json_type_declared (snd ns) /\
    (wf_names p ->
     consistent (snd ns) = true /\ described (fst ns) (snd ns) = norm p /\ types_valid (norm p) = true).
Proof. exact generated_in_domain. Qed.
Print Assumptions C20_generated_in_domain.

(* non-vacuity: tuple[][] over (uint256, (bool)) is converted; its schema describes it *)
Example C20_generated_nonvacuous :
  let P n t cs := FParam (str n) (str t) [] false cs in
  let p := P "p" "tuple[][]" [P "a" "uint256" []; P "b" "tuple" [P "c" "bool" []]] in
  match paramToFFI p with
  | Ok ns => described (fst ns) (snd ns) = p /\ consistent (snd ns) = true
  | _ => False
  end.
Proof. vm_compute. split; reflexivity. Qed.

(* 1c. Totality over what encoding/json decodes an arbitrary interface definition to: a parameter list
       may hold null entries ("params":[null] -> a nil *FFIParam; [None] here).  The three conversions
       never panic on such lists either, a definition with a null entry anywhere (inputs or outputs, any
       position) is an error, and on lists without one the conversions are those of 0a-3. *)
Theorem C20_total_nil_params :
  forall (name : bytes) (params returns : list (option pin)),
    ConvertFFIMethodToABI_opt name params returns <> Panic /\
    ConvertFFIEventDefinitionToABI_opt name params <> Panic /\
    ConvertFFIErrorDefinitionToABI_opt name params <> Panic.
Proof. exact conversion_total_nil_params. Qed.
Print Assumptions C20_total_nil_params.

Theorem C20_nil_param_rejected :
  forall (name : bytes) (params returns : list (option pin)),
    (In None (params ++ returns) -> exists e, ConvertFFIMethodToABI_opt name params returns = Err e) /\
    (In None params -> exists e, ConvertFFIEventDefinitionToABI_opt name params = Err e) /\
    (In None params -> exists e, ConvertFFIErrorDefinitionToABI_opt name params = Err e).
Proof. exact nil_param_rejected. Qed.
Print Assumptions C20_nil_param_rejected.

Theorem C20_nil_params_conservative :
  forall (name : bytes) (params returns : list pin),
    ConvertFFIMethodToABI_opt name (map Some params) (map Some returns) = ConvertFFIMethodToABI name params returns /\
    ConvertFFIEventDefinitionToABI_opt name (map Some params) = ConvertFFIEventDefinitionToABI name params /\
    ConvertFFIErrorDefinitionToABI_opt name (map Some params) = ConvertFFIErrorDefinitionToABI name params.
Proof. exact opt_conversions_some. Qed.
Print Assumptions C20_nil_params_conservative.

(* non-vacuity: null first / in the middle / last, among the inputs and the outputs; without one the
   definition converts *)
Example C20_nil_params_nonvacuous :
  let det t := Some (mkDetails (str t) [] false None) in
  let good := Some (mkPin (str "a") true (Some (Some (Schema (str "string") None (det "string") [] None)))) in
  is_err (ConvertFFIMethodToABI_opt (str "f") [None] []) = true /\
  is_err (ConvertFFIMethodToABI_opt (str "f") [None; good] []) = true /\
  is_err (ConvertFFIMethodToABI_opt (str "f") [good; None; good] []) = true /\
  is_err (ConvertFFIMethodToABI_opt (str "f") [good; good; None] []) = true /\
  is_err (ConvertFFIMethodToABI_opt (str "f") [good] [good; None]) = true /\
  is_err (ConvertFFIEventDefinitionToABI_opt (str "e") [good; None]) = true /\
  is_err (ConvertFFIErrorDefinitionToABI_opt (str "r") [None; good]) = true /\
  is_ok (ConvertFFIMethodToABI_opt (str "f") [good; good] [good]) = true.
Proof. vm_compute. repeat split. Qed.

(* 6. Referee issue I1: the element descriptions of an array.  "JSON type at odds with the Ethereum
      type" ([type_at_odds], a clause of [consistent] -- theorems 2, 4a-4g are about this notion) covers
      the level that carries the details AND the [items] chain below it: one level per dimension of
      the Ethereum type, the level k steps down declaring a JSON type that suits the type with k
      dimensions stripped ("array" while dimensions remain, then the JSON type of the element type);
      a missing level and a level too many are both at odds.  [json_at_odds s t]: the JSON type s
      declares does not suit a value of the type spelled t; [strip_dim t]: t without its last
      dimension; [ends_with_rbracket t]: t has a dimension left.  (The code compared the JSON type
      with the Ethereum type only where a schema carries details until fix 805ac6f.)

   6a. The clause, level by level. *)
Theorem C20_array_elements_spelled_out :
  (forall s, type_at_odds s = false <->
     forall d, s_details s = Some d ->
       json_at_odds s (d_type d) = false /\ elements_at_odds (d_type d) (s_items s) = false) /\
  (forall t items, elements_at_odds t items = false <->
     (ends_with_rbracket t = false \/
      exists it, items = Some it /\ json_at_odds it (strip_dim t) = false /\
                 elements_at_odds (strip_dim t) (s_items it) = false)).
Proof. split; [exact type_at_odds_spelled|exact elements_spelled]. Qed.
Print Assumptions C20_array_elements_spelled_out.

(* 6b. Stripping a dimension off the type text is what the type grammar of C13 says: a text that
       spells T[k] or T[] has a dimension left, and without its last dimension it spells T. *)
Theorem C20_strip_dim_is_element_type :
  forall t Ty comps,
    (forall k, AbiType.Spec.spelling (Abi.Types.TFixedArr t k) Ty comps ->
       ends_with_rbracket Ty = true /\ AbiType.Spec.spelling t (strip_dim Ty) comps) /\
    (AbiType.Spec.spelling (Abi.Types.TDynArr t) Ty comps ->
       ends_with_rbracket Ty = true /\ AbiType.Spec.spelling t (strip_dim Ty) comps).
Proof. exact strip_dim_spelling. Qed.
Print Assumptions C20_strip_dim_is_element_type.

(* 6c. A parameter schema whose element descriptions are at odds with its Ethereum type is an error,
       whatever the jsonschema verdict (members at any depth: through [consistent], theorem 2b); and
       for every accepted parameter neither the schema's own JSON type nor any element description
       is at odds with the type that comes out. *)
Theorem C20_array_elements_rejected :
  forall name verdict s d,
    s_details s = Some d -> elements_at_odds (d_type d) (s_items s) = true ->
    exists e, convertFFIParam (mkPin name verdict (Some (Some s))) = Err e.
Proof. exact elements_at_odds_rejected. Qed.
Print Assumptions C20_array_elements_rejected.

Theorem C20_accepted_array_elements :
  forall p ap, convertFFIParam p = Ok ap ->
    exists s d, pi_unm p = Some (Some s) /\ s_details s = Some d /\ fp_type ap = d_type d /\
      json_at_odds s (d_type d) = false /\ elements_at_odds (d_type d) (s_items s) = false.
Proof. exact accepted_elements. Qed.
Print Assumptions C20_accepted_array_elements.

(* non-vacuity of 6: the referee's three witnesses (boolean elements for uint256[]; one level for
   uint256[][]; a string element description for tuple[]), a level too many and a member's elements are
   inconsistent and refused (the model can return Err here); uint256[2][] and bool[3] described level
   by level are consistent and accepted; [strip_dim] on a two-dimensional text *)
Example C20_array_elements_nonvacuous :
  let det t i := Some (mkDetails (str t) [] false i) in
  let arr t its := Schema (str "array") None (det t None) [] (Some its) in
  let lvl its := Schema (str "array") None None [] (Some its) in
  let el t := Schema (str t) None None [] None in
  let int_el := Schema [] (Some [str "string"; str "integer"]) None [] None in
  let bool_el := Schema [] (Some [str "string"; str "boolean"]) None [] None in
  let member := Schema (str "string") None (det "string" (Some 0%Z)) [] None in
  let w1 := arr "uint256[]" (el "boolean") in
  let w2 := arr "uint256[][]" int_el in
  let w3 := arr "tuple[]" (Schema (str "string") None None [(str "a", Some member)] None) in
  let w4 := arr "uint256[]" (lvl (el "string")) in
  let w5 := Schema (str "object") None (det "tuple" None)
              [(str "a", Some (Schema (str "array") None (det "uint8[]" (Some 0%Z)) [] (Some (el "boolean"))))] None in
  let g1 := arr "uint256[2][]" (lvl int_el) in
  let g2 := arr "bool[3]" bool_el in
  let pin s := mkPin (str "x") true (Some (Some s)) in
  forallb (fun s => negb (consistent s) && pin_inconsistent (pin s) && is_err (convertFFIParam (pin s)))
          [w1; w2; w3; w4; w5] = true /\
  elements_at_odds (str "uint256[]") (s_items w1) = true /\
  elements_at_odds (str "uint256[][]") (s_items w2) = true /\
  elements_at_odds (str "uint256[2][]") (s_items g1) = false /\
  forallb (fun s => consistent s && is_ok (convertFFIParam (pin s))) [g1; g2] = true /\
  strip_dim (str "uint256[2][]") = str "uint256[2]" /\ strip_dim (str "uint256[2]") = str "uint256" /\
  ends_with_rbracket (str "uint256") = false.
Proof. vm_compute. repeat split. Qed.

(* 7. Referee issue I3: "the same signature" is not an equation between two errors -- for an entry
      whose inputs the ABI type parser accepts the signature exists, and the entry that comes back
      (inputs [map norm], any kind and outputs: the e' of 0a / 0c-bis) has that very signature. *)
Theorem C20_roundtrip_signature_exists :
  forall e, Forall parses (e_inputs e) ->
    exists s, SignatureCtx e = Ok s /\
      forall ty outs, SignatureCtx (mkEntry ty (e_name e) (map norm (e_inputs e)) outs) = Ok s.
Proof. exact roundtrip_signature_exists. Qed.
Print Assumptions C20_roundtrip_signature_exists.

(* 8. Referee issue I4: the stand-alone helper without the guard [explicit_widths].  The helper passed
      the aliases uint / int / fixed / ufixed through ("g(uint)" against the entry's "g(uint256)") until
      fix 35b0f19; it now writes them in full, and 0d / 0f hold for every parameter list the ABI type
      parser accepts: the helper returns the entry's own signature, and applied to the entry that comes
      back from the interface format (the e' of 0a) it returns the signature of the original. *)
Theorem C20_signature_helper_all :
  forall e, Forall parses (e_inputs e) -> SignatureCtx e = Ok (ABIMethodToSignature e).
Proof. exact signature_helper_all. Qed.
Print Assumptions C20_signature_helper_all.

Theorem C20_roundtrip_then_helper_all :
  forall e, Forall parses (e_inputs e) ->
    forall ty outs,
      let e' := mkEntry ty (e_name e) (map norm (e_inputs e)) outs in
      SignatureCtx e = Ok (ABIMethodToSignature e') /\ ABIMethodToSignature e' = ABIMethodToSignature e /\
      SignatureCtx e' = Ok (ABIMethodToSignature e').
Proof. exact helper_of_back_all. Qed.
Print Assumptions C20_roundtrip_then_helper_all.

(* non-vacuity of 8: aliases at the top, with dimensions and inside a tuple array; a text that only looks
   like an alias ("uintx") is left alone (and is no valid type) *)
Example C20_helper_alias_nonvacuous :
  let P n t cs := FParam (str n) (str t) [] false cs in
  let e := mkEntry EFunction (str "g")
             [P "a" "uint" []; P "b" "int[2][]" []; P "c" "tuple[]" [P "d" "ufixed" []; P "e" "fixed[3]" []; P "f" "uint8" []]] [] in
  explicit_widths (P "a" "uint" []) = false /\
  SignatureCtx e = Ok (str "g(uint256,int256[2][],(ufixed128x18,fixed128x18[3],uint8)[])") /\
  ABIMethodToSignature e = str "g(uint256,int256[2][],(ufixed128x18,fixed128x18[3],uint8)[])" /\
  ABIMethodToSignature (mkEntry EFunction (str "h") [P "x" "uintx" []] []) = str "h(uintx)" /\
  is_ok (SignatureCtx (mkEntry EFunction (str "h") [P "x" "uintx" []] [])) = false.
Proof. vm_compute. repeat split. Qed.

(* 9. Wave 6: the characterisation 4b / 4c / 4g WITHOUT the guard [json_type_declared].  Vocabulary
      (Ffi/SpecRead.v): [read_json_type s] the JSON type of a schema as a total function -- its "type",
      or, when it has a "oneOf", the LAST alternative other than "string" (none: the empty text, no JSON
      type); where the oracle of Spec.v declares a type it is that one (9c).  [json_unsuited],
      [elements_unsuited], [type_unsuited]: the clauses [json_at_odds], [elements_at_odds],
      [type_at_odds] of 6 over it; [types_suit s]: [type_unsuited] is false at every level that describes
      a parameter (the schema, its members, their members ...); [types_suit_b] computes it.

   9a. For EVERY decoded schema value: a parameter schema is accepted exactly when it passed the
       jsonschema compile, is consistent, its JSON types suit, and it describes a valid parameter -- the
       result being that parameter; it is refused (an error, never a panic) exactly otherwise. *)
Theorem C20_accepted_exactly :
  forall p s, pi_unm p = Some (Some s) ->
    (forall ap, convertFFIParam p = Ok ap <->
                pi_verdict p = true /\ consistent s = true /\ types_suit s /\ describes (pi_name p) s ap) /\
    ((exists e, convertFFIParam p = Err e) <->
     ~ (pi_verdict p = true /\ consistent s = true /\ types_suit s /\ exists ap, describes (pi_name p) s ap)).
Proof. intros p s U. split; [exact (accepted_exactly p s U)|exact (rejected_exactly p s U)]. Qed.
Print Assumptions C20_accepted_exactly.

(* 9b. The same with a right-hand side that is a computation (4g without its guard). *)
Theorem C20_accepted_decided_all :
  forall p s, pi_unm p = Some (Some s) ->
    (forall ap, convertFFIParam p = Ok ap <->
                pi_verdict p = true /\ consistent s = true /\ types_suit_b s = true /\
                types_valid (described (pi_name p) s) = true /\ ap = described (pi_name p) s) /\
    is_ok (convertFFIParam p) =
      pi_verdict p && consistent s && types_suit_b s && types_valid (described (pi_name p) s).
Proof. exact accepted_decided_all. Qed.
Print Assumptions C20_accepted_decided_all.

(* 9c. What [types_suit] says, and how it sits against the oracle of Spec.v: clause by clause, as 6a;
       it is decided by [types_suit_b]; it implies "not at odds" ([type_at_odds] is the weaker test,
       silent where a "oneOf" declares nothing); on the schemas of the guard of 4b/4c/4g it adds
       nothing to [consistent] -- so 4b, 4c, 4g are the special case of 9a, 9b inside the guard; and
       where a JSON type is declared it is the one read. *)
Theorem C20_types_suit_spelled_out :
  (forall s, types_suit s <->
     type_unsuited s = false /\
     Forall (fun km => forall m, snd km = Some m -> types_suit m) (members_of s)) /\
  (forall s, type_unsuited s = false <->
     forall d, s_details s = Some d ->
       json_unsuited s (d_type d) = false /\ elements_unsuited (d_type d) (s_items s) = false) /\
  (forall t items, elements_unsuited t items = false <->
     (ends_with_rbracket t = false \/
      exists it, items = Some it /\ json_unsuited it (strip_dim t) = false /\
                 elements_unsuited (strip_dim t) (s_items it) = false)) /\
  (forall s, types_suit_b s = true <-> types_suit s) /\
  (forall s, types_suit s -> type_at_odds s = false) /\
  (forall s, json_type_declared s -> consistent s = true -> types_suit s) /\
  (forall s jt, declared_json_type s = Some jt -> read_json_type s = jt).
Proof.
  split; [exact types_suit_iff|]. split; [exact type_unsuited_spelled|].
  split; [exact elements_unsuited_spelled|]. split; [exact types_suit_decided|].
  split; [exact types_suit_not_at_odds|]. split; [exact declared_suit|exact read_is_declared].
Qed.
Print Assumptions C20_types_suit_spelled_out.

(* 9d. 4d without its guard: a consistent schema describes at most one parameter. *)
Theorem C20_described_unique_all :
  forall s name a b, consistent s = true -> describes name s a -> describes name s b -> a = b.
Proof. exact described_unique_all. Qed.
Print Assumptions C20_described_unique_all.

(* non-vacuity of 9: schemas outside the guard of 4 -- s3 (string | integer | boolean for a bool: the
   last alternative suits), s4 (string | boolean | integer for a bool: it does not), s1 ("string" alone
   for uint256: no JSON type) and a tuple s whose member lists boolean | string | integer for uint256.
   All four are [consistent] (the oracle of Spec.v is silent on them), so [consistent] alone does not
   decide them; [types_suit_b] does, and agrees with the conversion. *)
Example C20_accepted_exactly_nonvacuous :
  let det t i := Some (mkDetails (str t) [] false i) in
  let s3 := Schema [] (Some [str "string"; str "integer"; str "boolean"]) (det "bool" None) [] None in
  let s4 := Schema [] (Some [str "string"; str "boolean"; str "integer"]) (det "bool" None) [] None in
  let s1 := Schema [] (Some [str "string"]) (det "uint256" None) [] None in
  let b := Schema [] (Some [str "boolean"; str "string"; str "integer"]) (det "uint256" (Some 0%Z)) [] None in
  let s := Schema (str "object") None (det "tuple" None) [(str "b", Some b)] None in
  let pin s := mkPin (str "x") true (Some (Some s)) in
  ~ json_type_declared s3 /\ ~ json_type_declared s /\
  forallb consistent [s3; s4; s1; s] = true /\
  map types_suit_b [s3; s4; s1; s] = [true; false; false; true] /\
  map (fun s => is_ok (convertFFIParam (pin s))) [s3; s4; s1; s] = [true; false; false; true] /\
  types_suit s /\ read_json_type s3 = str "boolean" /\ read_json_type s1 = [].
Proof.
  cbv zeta. split; [|split; [|split; [|split; [|split; [|split; [|split]]]]]]; try (vm_compute; reflexivity).
  - intros H. inversion H as [? D DE M]. apply D. reflexivity.
  - intros H. inversion H as [? D0 DE0 M]; subst. cbn in M.
    inversion M as [|? ? Hb _]; subst. specialize (Hb _ eq_refl). inversion Hb as [? D DE Mb]. apply D. reflexivity.
  - apply types_suit_decided. vm_compute. reflexivity.
Qed.

(* the witness of C20_roundtrip_nonvacuous (0a) meets [valid_params] literally: the ABI type parser accepts
   inputs and outputs and the member names are distinct at every depth *)
Example C20_roundtrip_witness_valid :
  let P n t cs := FParam (str n) (str t) [] false cs in
  let p := P "p" "tuple[][]" [P "a" "uint256" []; P "b" "tuple" [P "c" "bool" []]] in
  valid_params [p] /\ valid_params [P "q" "uint8" []] /\ clean p.
Proof.
  cbv zeta. unfold valid_params. repeat split.
  - constructor; [eexists; vm_compute; reflexivity|constructor].
  - repeat (constructor; try (vm_compute; intuition discriminate)).
  - constructor; [eexists; vm_compute; reflexivity|constructor].
  - repeat (constructor; try (vm_compute; intuition discriminate)).
  - vm_compute. discriminate.
  - repeat (constructor; try (vm_compute; intuition discriminate)).
Qed.
