(* C17 — wallet discovery is race-free and notifies each new address exactly once.
   Statements only.  Proofs: Conc/LocksetProofs.v (lockset soundness over the interleaving
   semantics of Conc/Lockset.v), Conc/FsWallet.v (the wallet as a goroutine system around the
   synchronisation structure that harness/cmd/gen_locks extracts from pkg/fswallet on every run,
   Gen/FsWalletSync.v), Wallet/NotifyProofs.v (invariants over all step sequences of the hand model
   Wallet/Notify.v). *)
From Coq Require Import List String NArith Bool Arith.
From FFS Require Import Conc.Lockset Conc.LocksetProofs Gen.FsWalletSync Conc.FsWallet Conc.ClosePaths.
From FFS Require Import Conc.Atomic Conc.AtomicProofs Conc.FsWalletAtomic.
From FFS Require Import Wallet.Notify Wallet.NotifyProofs.
From FFS Require Import Conc.Reduction Wallet.NotifyRefine Wallet.NotifyConform.
From FFS Require Import Conc.PathFind Conc.Monitor Wallet.NotifyExact Conc.RefereeExamples.
From FFS Require Import Wallet.NotifyConverge Wallet.NotifyConvergeT Wallet.NotifyAlways Wallet.NotifyDistinct.
From Coq Require Import Permutation.
Import ListNotations.
Open Scope list_scope.

(* 0. The lockset theorem, once and for all programs: whatever the schedule, a program accepted by
      the static checker never reaches a state in which two distinct goroutines are both about to
      access overlapping locations, one of them writing. *)
Theorem C17_lockset_sound :
  forall (p : prog) (fuel : nat) (main : list instr),
    lockset_ok p fuel main = true ->
    forall s, reach p (init_state main) s -> ~ race s.
Proof. exact lockset_sound. Qed.
Print Assumptions C17_lockset_sound.

(* 1. No data race in pkg/fswallet under any schedule.  [fswallet_main] (Conc/FsWallet.v) is the
      creating goroutine: constructor, then Initialize — ASSUMPTION: both run in that one goroutine
      before the wallet is shared; the fields they write (conf, signerCache, templates, regex,
      the fsListener fields) are thereby initialised before publication — then any number of client
      goroutines, each calling the exported methods any number of times in any order; the listener
      loop and the notifier goroutines started by the wallet run alongside.  Library objects
      (ccache, channels, context, fsnotify) are internally synchronised and not modelled. *)
Theorem C17_race_free :
  forall s, reach fswallet_prog (init_state fswallet_main) s -> ~ race s.
Proof.
  apply (lockset_sound fswallet_prog fuel fswallet_main). vm_compute. reflexivity.
Qed.
Print Assumptions C17_race_free.

(* 2. Under any schedule no goroutine is ever about to block (channel send / receive / select, a
      wait, or acquiring a mutex — in particular re-acquiring mux) while it holds a mutex; a mutex
      is held by at most one goroutine; a goroutine that holds a mutex can take its next step right
      now (no hold-and-wait: a mutex is never held by a goroutine that cannot move); and a goroutine
      that has finished holds nothing.  So there is no deadlock through mux.  (That every Lock is
      then eventually granted needs, beyond this, a fair scheduler and terminating critical
      sections — not proved.) *)
Theorem C17_lock_regions_nonblocking :
  forall s, reach fswallet_prog (init_state fswallet_main) s ->
    ~ blocks_holding s /\
    (forall t1 t2 th1 th2 m, t1 <> t2 -> threads s t1 = Some th1 -> threads s t2 = Some th2 ->
       mem m (t_held th1) = true -> mem m (t_held th2) = false) /\
    (forall t th, threads s t = Some th -> t_held th <> [] ->
       exists c s', step fswallet_prog s t c s') /\
    (forall t th, threads s t = Some th -> t_stack th = [] -> t_held th = []).
Proof.
  intros s Hr.
  assert (Hnb : nonblocking_ok fswallet_prog fuel fswallet_main = true) by (vm_compute; reflexivity).
  split; [|split; [|split]].
  - exact (nonblocking_sound _ _ _ Hnb s Hr).
  - exact (mutex_exclusive _ _ _ (or_introl Hnb) s Hr).
  - exact (lock_holder_progress _ _ _ Hnb s Hr).
  - exact (finished_holds_nothing _ _ _ (or_introl Hnb) s Hr).
Qed.
Print Assumptions C17_lock_regions_nonblocking.

(* 3. Close returns — PARTIAL.  Proved on the translated control flow: Close cancels the listener
      context and then waits for the done channel and for nothing else (or waits for nothing);
      along EVERY complete control-flow path through startFilesystemListener — any branch outcomes,
      any number of loop iterations; listener disabled, watcher creation failed, watcher started —
      the done channel is closed or a goroutine is started whose first action is to defer a
      non-blocking closure closing it ([lpath], [tr_done]: Conc/ClosePaths.v, soundness of the
      must-analysis proved by induction over paths); that goroutine's loop has a returning select
      branch fed by ctx.Done(); and (theorem 2) whoever is about to block holds no mutex, so what the
      loop waits for inside notifyNewFiles is a mutex whose holder can always move.
      NOT proved (assumed): fairness of the Go scheduler, that fsnotify's channels and Watcher.Close
      do not block forever, termination of the critical sections. *)
Theorem C17_close_returns_partial :
  close_shape_ok fswallet_prog = true /\
  (forall body tr r, lookup_body fswallet_prog "startFilesystemListener" = Some body ->
     ClosePaths.lpath body tr r -> tr_done fswallet_prog "w.fsListenerDone" tr = true) /\
  (forall s, reach fswallet_prog (init_state fswallet_main) s ->
     forall t th, threads s t = Some th -> about_to_block th = true -> t_held th = []).
Proof.
  split; [vm_compute; reflexivity|]. split.
  - intros body tr r Hl Hp. eapply must_sound; [|exact Hp].
    vm_compute in Hl. inversion Hl; subst body. vm_compute. reflexivity.
  - intros s Hr t th Ht Hb.
    destruct (t_held th) eqn:E; auto. exfalso.
    apply (proj1 (C17_lock_regions_nonblocking s Hr)). exists t, th. rewrite E. repeat split; auto. discriminate.
Qed.
Print Assumptions C17_close_returns_partial.

(* 3a. The atomic steps of the discovery / notification model ARE critical sections of the source.
      The theorems 4-7 below quantify over all interleavings of the model's steps "discover"
      (notify_new_files: scan, insertion into addressToFileMap / addressList, snapshot of the
      listeners — one call of notifyNewFiles), AddListener and GetAccounts, each taken as ATOMIC.
      That is justified exactly by this obligation, checked on the structure translated from the
      current source (Gen/FsWalletSync.v) and proved sound for every control-flow path (calls of
      wallet methods expanded, deferred unlocks run; any branch outcomes, any number of loop
      iterations — [bpath], Conc/Atomic.v): in notifyNewFiles, AddListener and GetAccounts every
      access of the calling goroutine to listeners / addressToFileMap / addressList is made while
      mux is held and after exactly ONE Lock of mux since the method was entered — all of them lie in
      the one critical section opened by the method's first Lock — and the method returns with mux
      released; the goroutines they start touch none of these fields; the accesses a step consists
      of are present (read of listeners, read and write of addressToFileMap, write of addressList in
      notifyNewFiles; write of listeners in AddListener; read of addressList in GetAccounts); and the
      callers of notifyNewFiles (Refresh, the fs event loop) make no such access outside it
      ([steps_atomic_ok], first conjunct).  Without it — listeners snapshot in one critical section,
      insertion in another: no data race, theorems 1-3 still hold — an AddListener between the two is
      registered before the address appears and never receives it; 6 (exactly once) would then say
      nothing about the code. *)
Theorem C17_discovery_steps_atomic :
  steps_atomic_ok fswallet_prog fuel = true /\
  forall f needs body tr, In (f, needs) atomic_steps ->
    lookup_body fswallet_prog f = Some body -> Atomic.bpath fswallet_prog body tr ->
    tr_atomic discovery_mutex discovery_locs tr /\
    (exists s, ev_run discovery_mutex discovery_locs (mkR false 0) tr = Some s /\ r_held s = false) /\
    (forall pre l w post, tr = pre ++ EAcc l w :: post -> watched discovery_locs l = true ->
       List.length (filter (is_lock discovery_mutex) pre) = 1 /\ held_after discovery_mutex false pre = true).
Proof.
  assert (H : steps_atomic_ok fswallet_prog fuel = true) by (apply steps_broken_nil; vm_compute; reflexivity).
  split; [exact H|]. exact (steps_atomic_sound fswallet_prog fuel H).
Qed.
Print Assumptions C17_discovery_steps_atomic.

(* ---- discovery / notification: all step sequences of the Notify model = all interleavings of the
        atomic steps {CreateFile, FsEvent, Refresh, AddListener, GetAccounts, NotifierSend}.
        [addr_of] (which address a file name stands for, matchFilename) is arbitrary.  A step
        sequence is valid when files are created once, events / listings refer to existing files
        and listener channels are distinct. *)

(* 4. The account list never contains duplicates. *)
Theorem C17_no_duplicate_accounts :
  forall addr_of ls ops, valid_seq addr_of (init ls) ops ->
    NoDup (addrList (run addr_of (init ls) ops)).
Proof. exact no_duplicate_accounts. Qed.
Print Assumptions C17_no_duplicate_accounts.

(* 5. No listener ever receives an address twice (nor is an address both delivered and still
      queued); only registered listeners receive, and only listed addresses. *)
Theorem C17_at_most_once :
  forall addr_of ls ops, NoDup ls -> valid_seq addr_of (init ls) ops ->
    let s := run addr_of (init ls) ops in
    NoDup (listeners s) /\ NoDup (log s ++ pending s) /\
    (forall l a, In (l, a) (log s ++ pending s) -> In l (listeners s) /\ In a (addrList s)).
Proof.
  intros addr_of ls ops Hnd Hv. cbv zeta. split; [|split].
  - exact (proj1 (at_most_once addr_of ls ops Hnd Hv)).
  - exact (proj2 (at_most_once addr_of ls ops Hnd Hv)).
  - intros l a. exact (delivered_sound addr_of ls ops l a Hv).
Qed.
Print Assumptions C17_at_most_once.

(* 6. Exactly once (of the model whose steps theorem 3a ties to the source): in every quiescent reachable state, a listener that was registered (at the
      state after [ops1]) when the address was not yet listed has received it exactly once.  And a
      listener is never told about an address that was already listed when it registered. *)
Theorem C17_exactly_once :
  forall addr_of ls ops1 ops2 l a, NoDup ls -> valid_seq addr_of (init ls) (ops1 ++ ops2) ->
    In l (listeners (run addr_of (init ls) ops1)) ->
    ~ In a (addrList (run addr_of (init ls) ops1)) ->
    In a (addrList (run addr_of (init ls) (ops1 ++ ops2))) ->
    quiescent (run addr_of (init ls) (ops1 ++ ops2)) ->
    count_occ pair_dec (log (run addr_of (init ls) (ops1 ++ ops2))) (l, a) = 1.
Proof. exact exactly_once. Qed.
Print Assumptions C17_exactly_once.

Theorem C17_not_notified_of_older :
  forall addr_of ls ops1 ops2 l a,
    valid_seq addr_of (init ls) (ops1 ++ AddListener l :: ops2) ->
    In a (addrList (run addr_of (init ls) ops1)) ->
    let s := run addr_of (init ls) (ops1 ++ AddListener l :: ops2) in
    ~ In (l, a) (log s ++ pending s).
Proof. exact not_notified_of_older. Qed.
Print Assumptions C17_not_notified_of_older.

(* 7. Convergence: the list only ever holds addresses of files present; after a Refresh whose
      listing covers the directory, followed by any steps that create no file, it holds exactly
      (as a set) the addresses of the matching files; the same once every file has had its
      file-system event; and from every reachable state the pending notifications can be drained
      without changing the list. *)
Theorem C17_converges :
  forall addr_of ls,
    (forall ops, valid_seq addr_of (init ls) ops ->
       incl (addrList (run addr_of (init ls) ops)) (file_addrs addr_of (files (run addr_of (init ls) ops)))) /\
    (forall ops listing ops',
       valid_seq addr_of (init ls) (ops ++ Refresh listing :: ops') ->
       incl (files (run addr_of (init ls) ops)) listing ->
       (forall f, ~ In (CreateFile f) ops') ->
       let s := run addr_of (init ls) (ops ++ Refresh listing :: ops') in
       forall a, In a (addrList s) <-> In a (file_addrs addr_of (files s))) /\
    (forall ops, valid_seq addr_of (init ls) ops ->
       let s := run addr_of (init ls) ops in
       (forall f, In f (files s) -> exists pre post, ops = pre ++ FsEvent f :: post) ->
       forall a, In a (addrList s) <-> In a (file_addrs addr_of (files s))) /\
    (forall ops, valid_seq addr_of (init ls) ops ->
       exists sds, (forall o, In o sds -> exists g, o = NotifierSend g) /\
         valid_seq addr_of (init ls) (ops ++ sds) /\
         quiescent (run addr_of (init ls) (ops ++ sds)) /\
         addrList (run addr_of (init ls) (ops ++ sds)) = addrList (run addr_of (init ls) ops)).
Proof.
  intros addr_of ls. split; [|split; [|split]].
  - intros ops Hv. exact (accounts_sound addr_of ls ops Hv).
  - intros ops listing ops' Hv Hi Hn. cbv zeta. exact (converges addr_of ls ops listing ops' Hv Hi Hn).
  - intros ops Hv. cbv zeta. exact (converges_by_events addr_of ls ops Hv).
  - intros ops Hv. exact (quiescence_reachable addr_of ls ops Hv).
Qed.
Print Assumptions C17_converges.

(* ---- 8. The link between 3a and 4-7: fine-grained interleavings refine the Notify model ---- *)

(* 8a. The reduction lemma (Conc/Reduction.v), for the data-carrying interleaving semantics: global
      state = protected data P (only touched inside critical sections), environment data E, the
      holder of the mutex, the threads; a thread = a tree of actions Lock / Unlock / access to P (one
      read or write; the continuation depends on the value read) / In-action on E (inside a critical
      section) / Out-action on E (outside, possibly nondeterministic) / local step, ending in an
      observation.  If every thread obeys the lock discipline [wl] (accesses to P and In-actions only
      while holding the mutex, Out-actions only while not holding it: [CInv]) and the Out-actions
      commute to the right of the In-actions, then every execution that ends with the mutex free has
      the same final state — protected data, environment, every thread's remaining code and
      observation — as a SERIAL execution of a permutation of its schedule: one in which, whenever a
      thread holds the mutex, the next step is that thread's (critical sections run atomically). *)
Theorem C17_reduction_lemma :
  forall (P E Ch Obs OutA InA : Type)
         (out_en : OutA -> E -> Ch -> Prop) (out_upd : OutA -> E -> Ch -> E) (in_upd : InA -> E -> E),
    (forall a b e x, out_en a e x ->
       out_en a (in_upd b e) x /\ out_upd a (in_upd b e) x = in_upd b (out_upd a e x)) ->
    forall s0 sch sn,
      CInv P E Ch Obs OutA InA s0 ->
      exec _ (cstep P E Ch Obs OutA InA out_en out_upd in_upd) s0 sch sn ->
      c_holder _ _ _ _ _ _ sn = None ->
      exists sch', Permutation sch sch' /\
        sexec _ (cstep P E Ch Obs OutA InA out_en out_upd in_upd) (c_holder _ _ _ _ _ _) s0 sch' sn.
Proof. exact Reduction.reduction. Qed.
Print Assumptions C17_reduction_lemma.

(* 8b. The atomicity obligation is what makes the Notify model's atomic steps sound — for ANY
      translated program p.  Wallet system (Wallet/NotifyRefine.v): P = (addressToFileMap,
      addressList, listeners), E = (files, notifier goroutines, receive log); threads = any number
      of AddListener / GetAccounts / Refresh / fs-event / notifyNewFiles calls, file creations and
      channel sends ([wallet_threads]), written as action trees that access ONE field at a time
      (Lock; read listeners; write listeners; Unlock ...), so every interleaving between two
      accesses of a method is a schedule.  [conforms p c]: every complete event sequence of the tree c
      is the projection (onto mux and the three fields) of the trace of a complete control-flow path
      [Atomic.bpath] of a method of p listed in [atomic_steps].  THEN, if [steps_atomic_ok p fuel]:
      every fine-grained execution from the freshly constructed wallet that ends with mux free has,
      as its final (files, addressToFileMap, addressList, listeners, notifiers, log), exactly the
      state [run (init ls) ops] of the Notify model for some ops, and ops is a valid step sequence
      whenever the listener channels registered are distinct.  The lock discipline the reduction
      needs is DERIVED from steps_atomic_ok through [conforms] ([discipline_from_atomic]); it is not
      assumed.  With the critical section split (seed C17-2) steps_atomic_ok is false and nothing
      follows. *)
Theorem C17_atomic_steps_justify_model :
  forall addr_of p fuel,
    steps_atomic_ok p fuel = true ->
    forall ls thr sch sn,
      wallet_threads addr_of thr -> (forall c, In c thr -> conforms p c) ->
      exec wcfg wstep (wallet_init ls thr) sch sn -> c_holder _ _ _ _ _ _ sn = None ->
      exists ops,
        run addr_of (init ls) ops = abs (c_p _ _ _ _ _ _ sn, c_e _ _ _ _ _ _ sn) /\
        (NoDup (pls (c_p _ _ _ _ _ _ sn)) -> valid_seq addr_of (init ls) ops).
Proof. exact fine_grained_refines. Qed.
Print Assumptions C17_atomic_steps_justify_model.

(* 8c. The threads of 8b follow the structure translated from the CURRENT source.  Their complete event
      sequences are the words of three patterns — notifyNewFiles: Lock (eps | Mr | Mr Mw | Mr Mw Ar Aw)*
      Lr Unlock (M/A/L = addressToFileMap / addressList / listeners, r/w = read / write; one starred
      word per file: no address, known address and same file, known address and other file, new
      address); AddListener: Lock Lr Lw Unlock; GetAccounts: Lock Ar Unlock — and the reflective path
      finder of Conc/PathFind.v ([covers], sound by [covers_sound]; explores both branches of every
      `if`, inlines calls, runs deferred items, matches the starred item against a loop) establishes by
      vm_compute that the translated body of each method has, for EVERY word, a complete control-flow
      path whose projection onto mux and the three fields is that word, up to READS the source
      makes in addition ([sub_acc]: e.g. len() and copy() both read listeners; every Lock / Unlock
      and — since the statement review, see 9 — every WRITE must match; the converse inclusion is 9).  Decided by computation, so that a behaviour-preserving refactor of
      the source (explicit Unlock, early return before the Lock, loop moved into a helper) keeps it. *)
Theorem C17_translated_paths_cover :
  covers_ok fswallet_prog fuel = true /\
  forall addr_of F c, tcode addr_of F c -> conforms fswallet_prog c.
Proof.
  split; [exact fswallet_covers|].
  exact (fun addr_of => tcode_conforms addr_of fswallet_prog fuel fswallet_covers).
Qed.
Print Assumptions C17_translated_paths_cover.

(* 8d. 3a + 8b + 8c: every fine-grained interleaving of the HAND-WRITTEN thread trees [wallet_threads]
      has the same outcome as a run of the Notify model.  (The statement does not mention fswallet_prog:
      it is about the trees; what ties the trees to the translated methods is 3a + 8c + 9 — same
      Lock / Unlock / write skeleton, both ways, up to extra reads — and, for their data, replay only.)
      What remains INFORMAL (see design/C17.md): (i) the DATA actions decorating the accesses
      (what is written, which branch follows which value read: [NotifyRefine.loop], [add_code],
      [get_code]) are transcribed by hand from the Go statements — the translator extracts only the
      synchronisation structure; their event skeleton is proved to follow the translated structure
      (8c), their data is validated by the history replay like [Notify.scan]; (ii) the position of the
      `go` inside the critical section and "Unlock only by the holder" are properties of the
      decoration ([shape_ok]) — the path semantics gives `go` no event; Lockset's checker rejects an
      Unlock of a mutex the goroutine does not hold (theorem 1); (iii) a thread performs ONE call
      (per-call observations: 8f). *)
Theorem C17_fine_grained_refines_notify :
  forall addr_of ls thr sch sn,
    wallet_threads addr_of thr ->
    exec wcfg wstep (wallet_init ls thr) sch sn -> c_holder _ _ _ _ _ _ sn = None ->
    exists ops,
      run addr_of (init ls) ops = abs (c_p _ _ _ _ _ _ sn, c_e _ _ _ _ _ _ sn) /\
      (NoDup (pls (c_p _ _ _ _ _ _ sn)) -> valid_seq addr_of (init ls) ops).
Proof. exact (translated_fine_grained_refines fswallet_prog fuel (proj1 C17_discovery_steps_atomic) (proj1 C17_translated_paths_cover)). Qed.
Print Assumptions C17_fine_grained_refines_notify.

(* 8e. ... hence exactly-once for the fine-grained system: at the end of ANY such execution (listener
      channels distinct) the account list has no duplicates, no (listener, address) pair was
      delivered or is queued twice, only registered listeners receive and only listed addresses, the
      list holds only addresses of files present, and — when all sends have been performed — every
      initial listener has received every listed address exactly once. *)
Theorem C17_fine_grained_exactly_once :
  forall addr_of ls thr sch sn,
    wallet_threads addr_of thr ->
    exec wcfg wstep (wallet_init ls thr) sch sn -> c_holder _ _ _ _ _ _ sn = None ->
    NoDup (pls (c_p _ _ _ _ _ _ sn)) -> NoDup ls ->
    let P := c_p _ _ _ _ _ _ sn in let E := c_e _ _ _ _ _ _ sn in
    NoDup (pl P) /\
    NoDup (elog E ++ flat_map n_remaining (en E)) /\
    (forall l a, In (l, a) (elog E ++ flat_map n_remaining (en E)) -> In l (pls P) /\ In a (pl P)) /\
    incl (pl P) (file_addrs addr_of (ef E)) /\
    (flat_map n_remaining (en E) = [] ->
       forall l a, In l ls -> In a (pl P) -> count_occ pair_dec (elog E) (l, a) = 1).
Proof. exact (translated_fine_grained_outcome fswallet_prog fuel (proj1 C17_discovery_steps_atomic) (proj1 C17_translated_paths_cover)). Qed.
Print Assumptions C17_fine_grained_exactly_once.

(* 8f. ... and what each finished call observed (the "same per-thread observations" of 8a carried to
      the model): in the final state a finished thread's observation is the one it started with (a
      thread given as already finished), or empty (every call but GetAccounts), or — the slice a
      GetAccounts call returned — the account list of the model after a PREFIX ops1 of the very run
      ops that produces the final state. *)
Theorem C17_fine_grained_observations :
  forall addr_of ls thr sch sn,
    wallet_threads addr_of thr ->
    exec wcfg wstep (wallet_init ls thr) sch sn -> c_holder _ _ _ _ _ _ sn = None ->
    exists ops,
      run addr_of (init ls) ops = abs (c_p _ _ _ _ _ _ sn, c_e _ _ _ _ _ _ sn) /\
      (NoDup (pls (c_p _ _ _ _ _ _ sn)) -> valid_seq addr_of (init ls) ops) /\
      forall u o, nth_error (c_thr _ _ _ _ _ _ sn) u = Some (Done o) ->
        nth_error thr u = Some (Done o) \/ o = [] \/
        exists ops1 ops2, ops = ops1 ++ ops2 /\ o = addrList (run addr_of (init ls) ops1).
Proof. exact (translated_fine_grained_observations fswallet_prog fuel (proj1 C17_discovery_steps_atomic) (proj1 C17_translated_paths_cover)). Qed.
Print Assumptions C17_fine_grained_observations.

(* ---- non-vacuity ---- *)

(* the race predicate is satisfiable and the checker rejects such a program: two goroutines writing
   the same field without a lock *)
Example C17_race_nonvacuous :
  let main := [IGo [IWrite ["x"%string]]; IWrite ["x"%string]] in
  lockset_ok [] 3 main = false /\ exists s, reach [] (init_state main) s /\ race s.
Proof.
  cbv zeta. split; [vm_compute; reflexivity|].
  eexists. split.
  - eapply R_step; [apply R_refl|].
    eapply (S_go [] (init_state [IGo [IWrite ["x"%string]]; IWrite ["x"%string]]) 0 true); reflexivity.
  - exists 0, 1. do 6 eexists. cbn.
    split; [discriminate|]. split; [reflexivity|]. split; [reflexivity|].
    split; [reflexivity|]. split; [reflexivity|]. split; reflexivity.
Qed.

(* ... and the same two writes under a common mutex are accepted *)
Example C17_locked_accepted :
  lockset_ok [] 3 [IGo [ILock "m"%string; IWrite ["x"%string]; IUnlock "m"%string];
                   ILock "m"%string; IWrite ["x"%string]; IUnlock "m"%string] = true.
Proof. vm_compute. reflexivity. Qed.

(* the wallet system really contains locked writes conflicting with locked reads elsewhere *)
Example C17_table_nontrivial :
  existsb (fun a => acc_eqb a (["listeners"%string], true, ["mux"%string])) (collect fswallet_prog fuel fswallet_main) &&
  existsb (fun a => acc_eqb a (["listeners"%string], false, ["mux"%string])) (collect fswallet_prog fuel fswallet_main) &&
  existsb (fun a => acc_eqb a (["addressToFileMap"%string], true, ["mux"%string])) (collect fswallet_prog fuel fswallet_main) = true.
Proof. vm_compute. reflexivity. Qed.

(* the hypotheses of exactly-once and convergence are met by a concrete history (two listeners, two
   files for one address, a non-matching file, Refresh, an fs event, all sends performed) *)
Example C17_notify_nonvacuous :
  valid_seq ex_addr_of (init [100%N]) (ex_ops1 ++ ex_ops2) /\
  quiescent (run ex_addr_of (init [100%N]) (ex_ops1 ++ ex_ops2)) /\
  count_occ pair_dec (log (run ex_addr_of (init [100%N]) (ex_ops1 ++ ex_ops2))) (101%N, 3%N) = 1.
Proof. split; [exact ex_valid|]. split; [exact ex_quiescent|exact ex_exactly_once]. Qed.

(* the atomicity check accepts a one-section discovery, such a body has a path, and its trace is
   atomic; the same accesses split over two critical sections of the same mutex (snapshot through a
   helper that locks on its own, then the insertion) are rejected, as is an access after the Unlock *)
Example C17_atomic_nonvacuous :
  let one := [("d", [ILock "mux"; IDeferUnlock "mux"; IWrite ["addressList"]; IRead ["listeners"]])]%string in
  let two := [("d", [ICall "snap"; ILock "mux"; IDeferUnlock "mux"; IWrite ["addressList"]]);
              ("snap", [ILock "mux"; IDeferUnlock "mux"; IRead ["listeners"]])]%string in
  let late := [("d", [ILock "mux"; IWrite ["addressList"]; IUnlock "mux"; IRead ["listeners"]])]%string in
  atomic_body_ok one discovery_mutex discovery_locs 3 "d" = true /\
  (exists tr, Atomic.bpath one [ILock "mux"; IDeferUnlock "mux"; IWrite ["addressList"]; IRead ["listeners"]]%string tr /\
              tr_atomic discovery_mutex discovery_locs tr) /\
  atomic_body_ok two discovery_mutex discovery_locs 3 "d" = false /\
  atomic_body_ok late discovery_mutex discovery_locs 3 "d" = false.
Proof.
  cbv zeta. split; [vm_compute; reflexivity|]. split; [|split; vm_compute; reflexivity].
  exists [ELock "mux"; EAcc ["addressList"] true; EAcc ["listeners"] false; EUnlock "mux"]%string. split.
  - apply (Atomic.BP _ _ [ELock "mux"; EAcc ["addressList"] true; EAcc ["listeners"] false]%string [DUnlock "mux"%string] false [EUnlock "mux"%string]).
    + apply (Atomic.LP_seq _ _ _ [ELock "mux"%string] [] _ [DUnlock "mux"%string] false); [constructor|].
      apply (Atomic.LP_seq _ _ _ [] [DUnlock "mux"%string] _ [] false); [constructor|].
      apply (Atomic.LP_seq _ _ _ [EAcc ["addressList"%string] true] [] _ [] false); [constructor|].
      apply (Atomic.LP_seq _ _ _ [EAcc ["listeners"%string] false] [] [] [] false); [constructor|constructor].
    + constructor. constructor.
  - vm_compute. discriminate.
Qed.

(* a fine-grained execution that is NOT serial (a file appears between AddListener's read and write
   of listeners) exists, meets the hypotheses of 8d/8e, and ends with the listener registered *)
Example C17_fine_grained_nonvacuous :
  forall addr_of,
    wallet_threads addr_of ex_thr /\
    exec wcfg wstep (wallet_init [100%N] ex_thr) [0; 0; 1; 0; 0] ex_final /\
    c_holder _ _ _ _ _ _ ex_final = None /\ NoDup (pls (c_p _ _ _ _ _ _ ex_final)) /\
    ~ sexec wcfg wstep (c_holder _ _ _ _ _ _) (wallet_init [100%N] ex_thr) [0; 0; 1; 0; 0] ex_final.
Proof.
  intros addr_of. split; [apply ex_fine_threads|]. split; [exact ex_fine_exec|]. split; [reflexivity|].
  split; [cbn; repeat constructor; cbn; intuition discriminate|].
  intros H. inversion H as [|s t s1 sch s' _ Hst1 H1]; subst.
  destruct Hst1 as (c & h' & p' & e' & c' & Hn & Hs & ->). cbn in Hn. injection Hn as <-.
  inversion Hs; subst. inversion H1 as [|s t s2 sch s' _ Hst2 H2]; subst.
  destruct Hst2 as (c & h' & p' & e' & c'' & Hn & Hs2 & ->). cbn in Hn. injection Hn as <-.
  inversion Hs2; subst. inversion H2 as [|s t s3 sch s' Hc _ _]; subst.
  specialize (Hc 0 eq_refl). discriminate.
Qed.

(* ============================================================================================== *)
(* Answers to the statement review (design/reviews/C17.md; design/C17.md "Referee report and answers") *)

(* 9. (review I3) The link between the translated source and the hand-written thread trees is now
      TWO-WAY, and "up to accesses the source makes in addition" means up to READS only: [sub_acc w t]
      (Conc/PathFind.v) = w is t with some read events left out; every Lock, every Unlock and every
      WRITE of t is in w, in order (8c is thereby stronger than when it was first stated: a write to
      listeners / addressToFileMap / addressList that the source makes and the tree does not have is a
      mismatch).  For the structure translated from the CURRENT source, with rel = the projection onto
      mux and the three fields:
      forward (8c): every word of the tree's pattern is the projection, minus reads, of some complete
      control-flow path of the method;
      reverse (new, [exact_ok]: one deterministic event automaton per method, evaluated over ALL paths
      by the collecting check of Conc/Monitor.v, proved sound like the atomicity check; and a proof that
      what the automaton accepts is a pattern word with reads inserted): EVERY complete control-flow
      path of notifyNewFiles / AddListener / GetAccounts — any branch outcomes, any number of loop
      iterations, calls expanded, deferred items run — projects to a word of the same pattern plus
      reads, or touches neither mux nor any of the fields apart from reads (an early return).
      So a source that writes one of the three fields on SOME path where the hand transcription does
      not (`w.listeners = nil` under a condition after the snapshot), drops a write, or reorders the
      writes no longer passes: this theorem (and with an unconditional extra write already 8c) fails.
      What stays informal is only the DATA written (see 8d (i)). *)
Theorem C17_translated_skeleton_exact :
  exact_ok fswallet_prog fuel = true /\
  ((forall w, pmatch pat_nnf w ->
      exists body tr, lookup_body fswallet_prog "notifyNewFiles" = Some body /\ Atomic.bpath fswallet_prog body tr /\
                      sub_acc w (filter (relevant discovery_mutex discovery_locs) tr)) /\
   (forall body tr, lookup_body fswallet_prog "notifyNewFiles" = Some body -> Atomic.bpath fswallet_prog body tr ->
      filter (relevant discovery_mutex discovery_locs) tr = [] \/
      exists w, pmatch pat_nnf w /\ sub_acc w (filter (relevant discovery_mutex discovery_locs) tr))) /\
  ((exists body tr, lookup_body fswallet_prog "AddListener" = Some body /\ Atomic.bpath fswallet_prog body tr /\
                    sub_acc add_word (filter (relevant discovery_mutex discovery_locs) tr)) /\
   (forall body tr, lookup_body fswallet_prog "AddListener" = Some body -> Atomic.bpath fswallet_prog body tr ->
      sub_acc [] (filter (relevant discovery_mutex discovery_locs) tr) \/
      sub_acc add_word (filter (relevant discovery_mutex discovery_locs) tr))) /\
  ((exists body tr, lookup_body fswallet_prog "GetAccounts" = Some body /\ Atomic.bpath fswallet_prog body tr /\
                    sub_acc get_word (filter (relevant discovery_mutex discovery_locs) tr)) /\
   (forall body tr, lookup_body fswallet_prog "GetAccounts" = Some body -> Atomic.bpath fswallet_prog body tr ->
      sub_acc [] (filter (relevant discovery_mutex discovery_locs) tr) \/
      sub_acc get_word (filter (relevant discovery_mutex discovery_locs) tr))).
Proof. exact (conj fswallet_exact (skeleton_two_way fswallet_prog fuel fswallet_covers fswallet_exact)). Qed.
Print Assumptions C17_translated_skeleton_exact.

(* 9a. ... spelled out for the writes: the Lock / Unlock / write events (everything but reads) of every
      complete path of notifyNewFiles are those of a pattern word, i.e. Lock (Mw | Mw Aw)* Unlock; of
      AddListener: Lock, write listeners, Unlock; of GetAccounts: Lock, Unlock — or none at all. *)
Theorem C17_write_skeletons :
  (forall body tr, lookup_body fswallet_prog "notifyNewFiles" = Some body -> Atomic.bpath fswallet_prog body tr ->
     filter (relevant discovery_mutex discovery_locs) tr = [] \/
     exists w, pmatch pat_nnf w /\
       filter not_read (filter (relevant discovery_mutex discovery_locs) tr) = filter not_read w) /\
  (forall body tr, lookup_body fswallet_prog "AddListener" = Some body -> Atomic.bpath fswallet_prog body tr ->
     filter not_read (filter (relevant discovery_mutex discovery_locs) tr) = [] \/
     filter not_read (filter (relevant discovery_mutex discovery_locs) tr) =
       [ELock discovery_mutex; EAcc ["listeners"%string] true; EUnlock discovery_mutex]) /\
  (forall body tr, lookup_body fswallet_prog "GetAccounts" = Some body -> Atomic.bpath fswallet_prog body tr ->
     filter not_read (filter (relevant discovery_mutex discovery_locs) tr) = [] \/
     filter not_read (filter (relevant discovery_mutex discovery_locs) tr) = [ELock discovery_mutex; EUnlock discovery_mutex]).
Proof. exact (write_skeletons fswallet_prog fuel fswallet_exact). Qed.
Print Assumptions C17_write_skeletons.

(* the reverse check is not vacuous: it accepts a one-section discovery and rejects the same body with a
   conditional write of listeners after the snapshot, which lockset, atomicity and forward cover accept *)
Example C17_exact_nonvacuous :
  exact_ok (ex_prog []) 4 = true /\ covers_ok (ex_prog []) 4 = true /\ steps_atomic_ok (ex_prog []) 4 = true /\
  exact_ok (ex_prog ex_forget) 4 = false /\ covers_ok (ex_prog ex_forget) 4 = true /\
  steps_atomic_ok (ex_prog ex_forget) 4 = true.
Proof. exact ex_exact_nonvacuous. Qed.

(* 10. (review I2) Library objects stored in wallet fields now HAVE locations in theorem 1.  The
      translator carries a table of library effects (harness/cmd/gen_locks, [libTypes]): what a method of
      such an object reads / writes without synchronising internally becomes an IRead / IWrite of a
      pseudo-location rooted at "*<field>" — ccache: Cache.Get reads ["*signerCache"; "item.expires"]
      (plain load), Item.Extend on the item handed out writes it; a method or a type that is not in the
      table counts as a write of the whole object; Set / Delete, regexp.Regexp, template.Template,
      context.CancelFunc are entered as internally synchronised (TRUSTED table entries, written from the
      libraries' sources and documentation).  So C17_race_free now also says: no two goroutines are ever
      about to perform conflicting accesses to the signer-cache entry's expiry; the proof needs
      signerCacheMux — with the Lock / Unlock of every mutex but mux removed from the translated bodies
      (the regression of defect D17d) [lockset_ok] is false, and a race is reachable in the interleaving
      semantics for that shape. *)
Example C17_cache_item_guarded :
  existsb (fun a => acc_eqb a (expires, true, ["signerCacheMux"%string])) (collect fswallet_prog fuel fswallet_main) &&
  existsb (fun a => acc_eqb a (expires, false, ["signerCacheMux"%string])) (collect fswallet_prog fuel fswallet_main) = true /\
  lockset_ok (strip_prog "mux" fswallet_prog) fuel
    (system (strip_prog "mux" fswallet_prog) fswallet_constructor fswallet_init fswallet_api) = false.
Proof. exact cache_item_is_guarded. Qed.

Example C17_d17d_shape :
  lockset_ok [] 3 (two_signers hit_unlocked) = false /\
  lockset_ok [] 3 (two_signers hit_locked) = true /\
  exists s, reach [] (init_state (two_signers hit_unlocked)) s /\ race s.
Proof. exact d17d_shape. Qed.

(* (review I6) a goroutine about to block while holding a mutex is reachable for a two-instruction
   program and the checker rejects it; the close-shape check rejects the D17c shape (watcher creation
   fails, done channel neither closed nor handed to a closer goroutine) and accepts the repaired one *)
Example C17_blocks_holding_nonvacuous :
  let main := [ILock "m"%string; IChan ChSend "c"%string] in
  nonblocking_ok [] 3 main = false /\ exists s, reach [] (init_state main) s /\ blocks_holding s.
Proof. exact blocks_holding_nonvacuous. Qed.

Example C17_d17c_shape :
  close_shape_ok (d17c_prog []) = false /\
  close_shape_ok (d17c_prog [IChan ChClose "w.fsListenerDone"%string]) = true.
Proof. exact d17c_shape. Qed.

(* (review I6) convergence is not vacuous: restated from Wallet/NotifyProofs.v *)
Example C17_converges_nonvacuous :
  incl (files (run ex_addr_of (init [100%N]) (ex_ops1 ++ ex_creates))) ex_listing /\
  (forall f, ~ In (CreateFile f) ex_after) /\
  ex_ops1 ++ ex_ops2 = (ex_ops1 ++ ex_creates) ++ Refresh ex_listing :: ex_after /\
  forall a, In a (addrList (run ex_addr_of (init [100%N]) (ex_ops1 ++ ex_ops2))) <->
            In a (file_addrs ex_addr_of (files (run ex_addr_of (init [100%N]) (ex_ops1 ++ ex_ops2)))).
Proof.
  split; [exact (proj1 ex_converges_hyps)|]. split; [exact (proj2 ex_converges_hyps)|].
  split; [reflexivity|exact ex_converges].
Qed.

(* ============================================================================================== *)
(* Wave 6: convergence restated for the FINE-GRAINED system (closes part of the `partial` entry
   "convergence ... only for the atomic Notify model"; design/C17.md "Wave 6") *)

(* 10a. 8d with the discovery passes of the finished event threads exposed: a thread that started as
      the handling of one file-system event (os.Stat f; notifyNewFiles [f]) and is finished in the
      final state has its critical section IN the op sequence — ops = pre ++ mid ++ post where running
      mid from the state after pre has exactly the effect of the model's FsEvent f there (the section
      is identified by its effect: two listings may give the same action tree). *)
Theorem C17_fine_grained_events :
  forall addr_of ls thr sch sn,
    wallet_threads addr_of thr ->
    exec wcfg wstep (wallet_init ls thr) sch sn -> c_holder _ _ _ _ _ _ sn = None ->
    exists ops,
      run addr_of (init ls) ops = abs (c_p _ _ _ _ _ _ sn, c_e _ _ _ _ _ _ sn) /\
      (NoDup (pls (c_p _ _ _ _ _ _ sn)) -> valid_seq addr_of (init ls) ops) /\
      forall u f o, nth_error thr u = Some (event_code addr_of f) ->
        nth_error (c_thr _ _ _ _ _ _ sn) u = Some (Done o) ->
        exists pre mid post, ops = pre ++ mid ++ post /\
          run addr_of (run addr_of (init ls) pre) mid = apply addr_of (run addr_of (init ls) pre) (FsEvent f).
Proof. exact (translated_fine_grained_events fswallet_prog fuel (proj1 C17_discovery_steps_atomic) (proj1 C17_translated_paths_cover)). Qed.
Print Assumptions C17_fine_grained_events.

(* 10b. Convergence of the fine-grained system: at the end of ANY fine-grained execution (mux free,
      listener channels distinct) in which every matching file present in the directory has a
      FINISHED event thread, the account list is exactly (as a set) the addresses of the matching
      files present.  The premise and the conclusion speak about the fine-grained execution only
      (threads, final directory, final addressList); no op sequence of the model is mentioned. *)
Theorem C17_fine_grained_converges :
  forall addr_of ls thr sch sn,
    wallet_threads addr_of thr ->
    exec wcfg wstep (wallet_init ls thr) sch sn -> c_holder _ _ _ _ _ _ sn = None ->
    NoDup (pls (c_p _ _ _ _ _ _ sn)) ->
    let P := c_p _ _ _ _ _ _ sn in let E := c_e _ _ _ _ _ _ sn in
    (forall f a, In f (ef E) -> addr_of f = Some a ->
       exists u o, nth_error thr u = Some (event_code addr_of f) /\
                   nth_error (c_thr _ _ _ _ _ _ sn) u = Some (Done o)) ->
    forall a, In a (pl P) <-> In a (file_addrs addr_of (ef E)).
Proof. exact (translated_fine_grained_converges fswallet_prog fuel (proj1 C17_discovery_steps_atomic) (proj1 C17_translated_paths_cover)). Qed.
Print Assumptions C17_fine_grained_converges.

(* non-vacuity: a file appears and its event is handled (11 steps): all hypotheses of 10b hold; and
   the premise is needed — after the creation alone the file is present and the list is empty *)
Example C17_fine_grained_converges_nonvacuous :
  wallet_threads cv_addr cv_thr /\
  exec wcfg wstep (wallet_init [100%N] cv_thr) cv_sched cv_final /\
  c_holder _ _ _ _ _ _ cv_final = None /\ NoDup (pls (c_p _ _ _ _ _ _ cv_final)) /\
  (forall f a, In f (ef (c_e _ _ _ _ _ _ cv_final)) -> cv_addr f = Some a ->
     exists u o, nth_error cv_thr u = Some (event_code cv_addr f) /\
                 nth_error (c_thr _ _ _ _ _ _ cv_final) u = Some (Done o)) /\
  pl (c_p _ _ _ _ _ _ cv_final) = [3%N] /\
  exec wcfg wstep (wallet_init [100%N] cv_thr) [0] cv_mid /\
  ~ (forall a, In a (pl (c_p _ _ _ _ _ _ cv_mid)) <->
               In a (file_addrs cv_addr (ef (c_e _ _ _ _ _ _ cv_mid)))).
Proof.
  split; [exact cv_threads|]. split; [exact cv_exec|]. split; [reflexivity|].
  split; [cbn; repeat constructor; cbn; intuition discriminate|].
  split; [exact cv_premise|]. split; [reflexivity|]. split; [exact cv_exec2|exact cv_needed].
Qed.

(* ---------------------------------------------------------------------------------------------- *)
(* Wave 6, second item: the guard "the execution ends with mux free" ([c_holder sn = None]) of 8d/8e
   removed from the SAFETY conclusions, and holder progress stated semantically for the
   data-carrying system (Wallet/NotifyAlways.v). *)

(* 11a. In EVERY reachable state of a wallet system, whoever holds mux can finish its critical section
      on its own steps (schedule = h repeated): nobody is ever stuck holding mux, whatever the other
      threads do or do not do.  The state reached has mux free, its (P, E) is [phi sn] (the completion
      function the refinement proof uses), the directory and the receive log are those of sn,
      notifier goroutines are only added, the other threads are untouched.  (Semantic counterpart, in
      the interleaving semantics with data, of conjunct "a holder can step" of theorem 2; channel
      operations are still not blocking in this semantics — see `partial`.) *)
Theorem C17_holder_finishes :
  forall addr_of ls thr sch sn h,
    wallet_threads addr_of thr ->
    exec wcfg wstep (wallet_init ls thr) sch sn -> c_holder _ _ _ _ _ _ sn = Some h ->
    exists n sn',
      exec wcfg wstep sn (repeat h n) sn' /\ c_holder _ _ _ _ _ _ sn' = None /\
      (c_p _ _ _ _ _ _ sn', c_e _ _ _ _ _ _ sn') = phi sn /\
      ef (c_e _ _ _ _ _ _ sn') = ef (c_e _ _ _ _ _ _ sn) /\
      elog (c_e _ _ _ _ _ _ sn') = elog (c_e _ _ _ _ _ _ sn) /\
      (exists extra, en (c_e _ _ _ _ _ _ sn') = en (c_e _ _ _ _ _ _ sn) ++ extra) /\
      (forall u, u <> h -> nth_error (c_thr _ _ _ _ _ _ sn') u = nth_error (c_thr _ _ _ _ _ _ sn) u).
Proof. exact holder_finishes. Qed.
Print Assumptions C17_holder_finishes.

(* 11b. 8e's safety conclusions at EVERY reachable state sn of the fine-grained system — no hypothesis
      on the holder, so also while a goroutine is inside notifyNewFiles or AddListener: the receive
      log E has no (listener, address) pair twice, nor one both delivered and queued; every pair
      delivered or queued has a listener registered and an address listed in P' and the address is
      that of a file present NOW; P'.addressList has no duplicates and lies within the addresses of
      the files present.  P' = fst (phi sn) = the protected fields as the running critical section
      (if any) leaves them at its Unlock — which is what the next reader under the lock sees; = P when
      mux is free (then this is 8e without its last conjunct).  Distinct channels: NoDup of P'.listeners. *)
Theorem C17_fine_grained_always :
  forall addr_of ls thr sch sn,
    wallet_threads addr_of thr ->
    exec wcfg wstep (wallet_init ls thr) sch sn ->
    NoDup (pls (fst (phi sn))) -> NoDup ls ->
    let E := c_e _ _ _ _ _ _ sn in let P' := fst (phi sn) in
    NoDup (elog E) /\
    NoDup (elog E ++ flat_map n_remaining (en E)) /\
    (forall l a, In (l, a) (elog E ++ flat_map n_remaining (en E)) ->
       In l (pls P') /\ In a (pl P') /\ In a (file_addrs addr_of (ef E))) /\
    NoDup (pl P') /\ incl (pl P') (file_addrs addr_of (ef E)).
Proof. exact (translated_always_outcome fswallet_prog fuel (proj1 C17_discovery_steps_atomic) (proj1 C17_translated_paths_cover)). Qed.
Print Assumptions C17_fine_grained_always.

(* non-vacuity: a reachable state inside AddListener's critical section (listeners read, not yet
   written; a file has appeared meanwhile): holder = thread 0, P.listeners = [100], P'.listeners =
   [100; 7] — the hypotheses of 11a / 11b hold there, those of 8d / 8e do not *)
Example C17_always_nonvacuous :
  (forall addr_of, wallet_threads addr_of al_thr) /\
  exists sn, exec wcfg wstep (wallet_init [100%N] al_thr) [0; 0; 1] sn /\
    c_holder _ _ _ _ _ _ sn = Some 0 /\ pls (c_p _ _ _ _ _ _ sn) = [100%N] /\ ef (c_e _ _ _ _ _ _ sn) = [3%N] /\
    pls (fst (phi sn)) = [100%N; 7%N] /\ NoDup (pls (fst (phi sn))).
Proof. split; [exact ex_fine_threads|exact al_example]. Qed.

(* ---------------------------------------------------------------------------------------------- *)
(* Wave 6, third item: "listener channels are distinct" as a hypothesis on the INPUTS of the system
   instead of on the final state (Wallet/NotifyDistinct.v).  [distinct_channels ls thr]: the initial
   listeners are distinct, no AddListener thread registers one of them, no two AddListener threads
   register the same channel (the second entry of `assumptions` in props/C17.json, literally). *)

(* 12a. Under [distinct_channels], w.listeners has no duplicates in every reachable state as the running
      critical section leaves it, hence in every reachable state with mux free: the hypothesis
      [NoDup (pls (c_p sn))] of 8d (validity of ops), 8e and 10b — and [NoDup ls] — follow from it. *)
Theorem C17_listeners_distinct :
  forall addr_of ls thr sch sn,
    wallet_threads addr_of thr ->
    exec wcfg wstep (wallet_init ls thr) sch sn ->
    distinct_channels ls thr ->
    NoDup (pls (fst (phi sn))) /\ (c_holder _ _ _ _ _ _ sn = None -> NoDup (pls (c_p _ _ _ _ _ _ sn))).
Proof. exact (translated_listeners_distinct fswallet_prog fuel (proj1 C17_discovery_steps_atomic) (proj1 C17_translated_paths_cover)). Qed.
Print Assumptions C17_listeners_distinct.

(* 12b. 11b with hypotheses on the inputs only: for all threads of the wallet kinds with distinct
      channels, every schedule and EVERY reachable state. *)
Theorem C17_fine_grained_always_inputs :
  forall addr_of ls thr sch sn,
    wallet_threads addr_of thr ->
    exec wcfg wstep (wallet_init ls thr) sch sn ->
    distinct_channels ls thr ->
    let E := c_e _ _ _ _ _ _ sn in let P' := fst (phi sn) in
    NoDup (pls P') /\
    NoDup (elog E) /\
    NoDup (elog E ++ flat_map n_remaining (en E)) /\
    (forall l a, In (l, a) (elog E ++ flat_map n_remaining (en E)) ->
       In l (pls P') /\ In a (pl P') /\ In a (file_addrs addr_of (ef E))) /\
    NoDup (pl P') /\ incl (pl P') (file_addrs addr_of (ef E)).
Proof. exact (translated_always_outcome_inputs fswallet_prog fuel (proj1 C17_discovery_steps_atomic) (proj1 C17_translated_paths_cover)). Qed.
Print Assumptions C17_fine_grained_always_inputs.

(* 12c. ... and 8e / 10b with hypotheses on the inputs only (executions ending with mux free): the
      exactly-once conjunct for the initial listeners and convergence by events. *)
Theorem C17_fine_grained_exactly_once_inputs :
  forall addr_of ls thr sch sn,
    wallet_threads addr_of thr ->
    exec wcfg wstep (wallet_init ls thr) sch sn -> c_holder _ _ _ _ _ _ sn = None ->
    distinct_channels ls thr ->
    let P := c_p _ _ _ _ _ _ sn in let E := c_e _ _ _ _ _ _ sn in
    (flat_map n_remaining (en E) = [] ->
       forall l a, In l ls -> In a (pl P) -> count_occ pair_dec (elog E) (l, a) = 1) /\
    ((forall f a, In f (ef E) -> addr_of f = Some a ->
        exists u o, nth_error thr u = Some (event_code addr_of f) /\
                    nth_error (c_thr _ _ _ _ _ _ sn) u = Some (Done o)) ->
     forall a, In a (pl P) <-> In a (file_addrs addr_of (ef E))).
Proof.
  intros addr_of ls thr sch sn Hthr He Hfin Hd. cbv zeta.
  pose proof (proj2 (C17_listeners_distinct addr_of ls thr sch sn Hthr He Hd) Hfin) as Hnd.
  split.
  - exact (proj2 (proj2 (proj2 (proj2 (C17_fine_grained_exactly_once addr_of ls thr sch sn Hthr He Hfin Hnd (proj1 Hd)))))).
  - exact (C17_fine_grained_converges addr_of ls thr sch sn Hthr He Hfin Hnd).
Qed.
Print Assumptions C17_fine_grained_exactly_once_inputs.

(* non-vacuity of [distinct_channels]: it holds for the example threads of 11 (initial listener 100,
   AddListener 7), fails when a thread registers an initial listener, fails when two threads register
   the same channel *)
Example C17_distinct_channels_nonvacuous :
  distinct_channels [100%N] al_thr /\
  ~ distinct_channels [7%N] al_thr /\
  ~ distinct_channels [100%N] [add_code 7%N; add_code 7%N].
Proof. exact distinct_example. Qed.
