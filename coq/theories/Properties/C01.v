(* C01 — signed transactions are valid Ethereum wire format and recover to the signer.
   Statements only; proofs live in Tx/SignProofs*.v.

   Reading guide.  [tx] is the Go struct (nil pointers = None, big.Int = Z), [norm t] its field tuple
   as the EIPs see it (nil integer = 0, nil data = empty, magnitudes), [spec_preimage] / [spec_signed]
   are written from the Yellow Paper, EIP-155, EIP-2718 and EIP-1559 over the Yellow-Paper RLP.
   The secp256k1.Signer the caller passes is an arbitrary function [f] from the message to
   (V, R, S) or an error.  [short b] says that a byte string is shorter than 2^64 bytes (every Go
   slice is); it is the only size guard: field values, data length and chain id are unbounded. *)
From Coq Require Import List NArith ZArith Lia Bool Arith.
From Coq Require Import Init.Byte.
From FFS Require Import Base.Res Base.Bytes Rlp.Model Rlp.Spec Rlp.Proofs.
From FFS Require Import Crypto.Ecdsa.
From FFS Require Import Tx.Model Tx.Spec Tx.Norm Tx.SignProofs Tx.RecoverModel Tx.SignProofs2 Tx.SignProofs3 Tx.SignProofs4.
Import ListNotations.

(* 1. Wire format.  In every mode, for every transaction, every chain id >= 0 and every signer: the
      signer is asked to sign exactly the prescribed preimage (this is also what SignaturePayload*
      returns); an error of the signer is the result; and a signature (V in {27,28}, R, S) it answers
      is returned inside exactly the bytes the specifications prescribe for the format, with
      V = 27+y, 35+2*chain+y or y respectively. *)
Theorem C01_wire_format :
  forall (m : mode) (t : tx) (f : signer) (chain : Z),
  (0 <= chain)%Z ->
  let fm := format_of m t in
  let c := Z.to_N chain in
  let pre := spec_preimage fm (norm t) c in
  short (sp_data (payload_of m t chain)) ->
  sp_data (payload_of m t chain) = pre /\
  match f pre with
  | Ok (v, r, s) =>
      exists out, sign_mode m t (Some f) chain = Ok out /\
        (v_legacy v -> short out -> out = spec_signed fm (norm t) c (y_of v) (Z.abs_N r) (Z.abs_N s))
  | Err e => sign_mode m t (Some f) chain = Err e
  | Panic => sign_mode m t (Some f) chain = Panic
  end.
Proof. exact sign_wire_format. Qed.
Print Assumptions C01_wire_format.

(* 2. Automatic mode: EIP-1559 exactly when one of the two fee-cap fields is set and positive,
      EIP-155 otherwise — for Sign and for SignaturePayload alike, whatever the signer. *)
Theorem C01_auto_mode :
  forall (t : tx) (sg : option signer) (chain : Z),
  (Sign t sg chain = if wants1559 t then SignEIP1559 t sg chain else SignLegacyEIP155 t sg chain) /\
  (SignaturePayload t chain
   = if wants1559 t then SignaturePayloadEIP1559 t chain else SignaturePayloadLegacyEIP155 t chain) /\
  (wants1559 t = true <->
   (exists z, tx_maxPrio t = Some z /\ (0 < z)%Z) \/ (exists z, tx_maxFee t = Some z /\ (0 < z)%Z)).
Proof.
  intros t sg chain. split; [apply auto_mode|]. split; [apply auto_payload|apply wants1559_iff].
Qed.
Print Assumptions C01_auto_mode.

(* 3. Purity: the caller's transaction after the call is the one passed in, a nil signer is an error
      in every mode, and the result depends on the signer only through its answer to the one message
      it is asked to sign (so signing is as deterministic as the signer is). *)
Theorem C01_pure :
  forall (m : mode) (t : tx) (chain : Z),
  (forall sg, snd (sign_call m t sg chain) = t) /\
  sign_mode m t None chain = Err EInvalidSigner /\
  (forall f g : signer,
     f (sp_data (payload_of m t chain)) = g (sp_data (payload_of m t chain)) ->
     sign_mode m t (Some f) chain = sign_mode m t (Some g) chain).
Proof.
  intros m t chain. split; [intros sg; apply sign_pure|]. split; [apply sign_mode_nil|].
  intros f g; apply sign_depends_on_one_answer.
Qed.
Print Assumptions C01_pure.

(* 4. Sign, then recover.  The bytes any mode returns, given to the model of RecoverRawTransaction
      (Tx/RecoverModel.v, the code after the recovery-side fix: commits) with the same chain id, are
      accepted; the transaction handed back carries the same field values ([recovered_tx] of [norm t]:
      nil integers come back as 0, nil data as empty), the payload handed back is the signing preimage,
      and the address is what SignatureData.RecoverDirect (a parameter; property C05) returns for the
      very (V, R, S) the signer answered over the hash of that preimage — V as 27/28 in the legacy
      formats, as the bare parity in type 0x02.  Guards: the Go type invariant of the destination
      (20 bytes), a chain id below 2^61 (so that the decoder's int64 arithmetic on V is exact; the
      property asks for <= 2^53), and signed bytes no longer than the 2^31-1 the RLP decoder accepts. *)
Theorem C01_recover_sign :
  forall (H : bytes -> bytes) (RecoverDirect : sigdata -> bytes -> Z -> res bytes)
         (m : mode) (t : tx) (f : signer) (chain : Z) (v r s : Z) (out : bytes),
  to_ok t = true -> chain_ok chain ->
  f (sp_data (payload_of m t chain)) = Ok (v, r, s) -> v_legacy v -> (0 <= r)%Z -> (0 <= s)%Z ->
  sign_mode m t (Some f) chain = Ok out ->
  (N.of_nat (length out) <= maxInt32)%N ->
  let fm := format_of m t in
  let pre := sp_data (payload_of m t chain) in
  RecoverRawTransaction H RecoverDirect out chain =
    do a <- RecoverDirect (v_seen fm v, r, s) (H pre) chain;
    Ok (a, recovered_tx fm (norm t), pre).
Proof. exact recover_sign. Qed.
Print Assumptions C01_recover_sign.

(* 5. The same with the KeyPair signer (Keccak, then SignDirect), under the two laws of
      SignDirect / RecoverDirect that property C05 is about: recovering returns the key's address. *)
Theorem C01_recover_sign_keypair :
  forall (H : bytes -> bytes) (sign_direct : N -> bytes -> res sigdata)
         (RecoverDirect : sigdata -> bytes -> Z -> res bytes) (d : N) (chain : Z) (addr : bytes),
  (forall z v r s, sign_direct d z = Ok (v, r, s) -> (0 <= r)%Z /\ (0 <= s)%Z) ->
  (forall z v r s, sign_direct d z = Ok (v, r, s) -> v_legacy v ->
     RecoverDirect (v, r, s) z chain = Ok addr /\ RecoverDirect ((v - 27)%Z, r, s) z chain = Ok addr) ->
  forall (m : mode) (t : tx) (out : bytes),
  to_ok t = true -> chain_ok chain ->
  sign_mode m t (Some (KeyPairSign H sign_direct d)) chain = Ok out ->
  (N.of_nat (length out) <= maxInt32)%N ->
  let pre := sp_data (payload_of m t chain) in
  exists v r s, sign_direct d (H pre) = Ok (v, r, s) /\
    (v_legacy v ->
     RecoverRawTransaction H RecoverDirect out chain
     = Ok (addr, recovered_tx (format_of m t) (norm t), pre)).
Proof. exact recover_sign_keypair. Qed.
Print Assumptions C01_recover_sign_keypair.

(* the field tuple that comes back is the one that went in *)
Theorem C01_recovered_fields :
  forall t : tx,
  let f := norm t in
  (f_nonce (norm (recovered_tx Original f)) = f_nonce f /\ f_gasPrice (norm (recovered_tx Original f)) = f_gasPrice f /\
   f_gasLimit (norm (recovered_tx Original f)) = f_gasLimit f /\ f_to (norm (recovered_tx Original f)) = f_to f /\
   f_value (norm (recovered_tx Original f)) = f_value f /\ f_data (norm (recovered_tx Original f)) = f_data f) /\
  recovered_tx Eip155 f = recovered_tx Original f /\
  (f_nonce (norm (recovered_tx Eip1559 f)) = f_nonce f /\ f_maxPrio (norm (recovered_tx Eip1559 f)) = f_maxPrio f /\
   f_maxFee (norm (recovered_tx Eip1559 f)) = f_maxFee f /\
   f_gasLimit (norm (recovered_tx Eip1559 f)) = f_gasLimit f /\ f_to (norm (recovered_tx Eip1559 f)) = f_to f /\
   f_value (norm (recovered_tx Eip1559 f)) = f_value f /\ f_data (norm (recovered_tx Eip1559 f)) = f_data f).
Proof.
  intros t. split; [apply norm_recovered_legacy|]. split; [reflexivity|apply norm_recovered_1559].
Qed.
Print Assumptions C01_recovered_fields.

(* 7. End to end with the real signer.  KeyPair.SignDirect and SignatureData.RecoverDirect are the
      models of pkg/secp256k1 that property C05 is proved about (Secp/Model.v), over any group [o]
      satisfying the ECDSA group laws (secp256k1 is one: the mathematical fact in the trusted base), any
      32-byte hash [H] (Keccak-256 in the code) and any nonce stream (btcec's RFC 6979).  For every
      transaction, every key 1 <= d < n, every chain id in [0, 2^53] and each of the four modes: the
      returned bytes carry a signature (R, S) in [1, n-1] with 2S <= n that verifies against d*G over
      H of the prescribed preimage; and whenever V is 27/28 (always, except the 2^-128 event x(kG) >= n)
      the bytes are exactly the prescribed wire format and RecoverRawTransaction with the same chain id
      returns the address of d*G, the same field values and the preimage.  Guards: 20-byte destination
      (Go type), |out| <= 2^31-1 (what the decoder accepts), payload shorter than 2^64 bytes. *)
Theorem C01_sign_recover_end_to_end :
  forall (o : group_ops), laws o -> (n o < SM.two256)%Z ->
  forall (H : bytes -> bytes), (forall x, length (H x) = 32%nat) ->
  forall (nonce : Z -> bytes -> nat -> Z) (fuel : nat)
         (m : mode) (t : tx) (d : N) (chain : Z) (out : bytes),
  (1 <= Z.of_N d < n o)%Z -> (0 <= chain <= 2 ^ 53)%Z -> to_ok t = true ->
  sign_mode m t (Some (KeyPairSign H (secp_sign_direct o nonce fuel) d)) chain = Ok out ->
  (N.of_nat (length out) <= maxInt32)%N ->
  short (sp_data (payload_of m t chain)) ->
  let fm := format_of m t in
  let c := Z.to_N chain in
  let pre := spec_preimage fm (norm t) c in
  exists v r s,
    SM.SignDirect o nonce fuel (Z.of_N d) (H pre) = Ok {| SM.sV := v; SM.sR := r; SM.sS := s |} /\
    (1 <= r < n o)%Z /\ (1 <= s < n o)%Z /\ (2 * s <= n o)%Z /\
    ecdsa_verify o (pub o (Z.of_N d)) (SM.hash_to_z (H pre)) r s = true /\
    (v_legacy v ->
       out = spec_signed fm (norm t) c (y_of v) (Z.to_N r) (Z.to_N s) /\
       RecoverRawTransaction H (secp_RecoverDirect o H) out chain
       = Ok (secp_address o H d, recovered_tx fm (norm t), pre)).
Proof. exact sign_recover_secp. Qed.
Print Assumptions C01_sign_recover_end_to_end.

(* 8. Theorem 7 with guards on the inputs only: every integer field below 2^256 in magnitude (the
      property's quantifier), data of at most 2^31-1024 bytes, 20-byte destination ([in_range]); the two
      size guards of theorem 7 are consequences. *)
Theorem C01_sign_recover_end_to_end_in_range :
  forall (o : group_ops), laws o -> (n o < SM.two256)%Z ->
  forall (H : bytes -> bytes), (forall x, length (H x) = 32%nat) ->
  forall (nonce : Z -> bytes -> nat -> Z) (fuel : nat)
         (m : mode) (t : tx) (d : N) (chain : Z) (out : bytes),
  (1 <= Z.of_N d < n o)%Z -> (0 <= chain <= 2 ^ 53)%Z -> in_range t ->
  sign_mode m t (Some (KeyPairSign H (secp_sign_direct o nonce fuel) d)) chain = Ok out ->
  let fm := format_of m t in
  let c := Z.to_N chain in
  let pre := spec_preimage fm (norm t) c in
  exists v r s,
    SM.SignDirect o nonce fuel (Z.of_N d) (H pre) = Ok {| SM.sV := v; SM.sR := r; SM.sS := s |} /\
    (1 <= r < n o)%Z /\ (1 <= s < n o)%Z /\ (2 * s <= n o)%Z /\
    ecdsa_verify o (pub o (Z.of_N d)) (SM.hash_to_z (H pre)) r s = true /\
    (v_legacy v ->
       out = spec_signed fm (norm t) c (y_of v) (Z.to_N r) (Z.to_N s) /\
       RecoverRawTransaction H (secp_RecoverDirect o H) out chain
       = Ok (secp_address o H d, recovered_tx fm (norm t), pre)).
Proof. exact sign_recover_secp_in_range. Qed.
Print Assumptions C01_sign_recover_end_to_end_in_range.

(* 9. Consistency of the bridge to C05: pkg/secp256k1's UpdateEIP155 / UpdateEIP2930 are modelled both
      here (on triples, Int64() as the two's-complement wrap) and in Secp/Model.v (on a record, Int64()
      as math/big computes it); the two models are the same functions for every integer V, R, S. *)
Theorem C01_V_conventions_models_agree :
  forall (sg : sigdata) (chain : Z),
  untriple (UpdateEIP2930 sg) = SM.UpdateEIP2930 (untriple sg) /\
  untriple (UpdateEIP155 sg chain) = SM.UpdateEIP155 (untriple sg) chain.
Proof. intros sg chain. split; [apply UpdateEIP2930_models_agree|apply UpdateEIP155_models_agree]. Qed.
Print Assumptions C01_V_conventions_models_agree.

(* non-vacuity: an EIP-155 transfer on chain 2^53 with a constant signer meets every hypothesis of
   theorem 1, and the result is the 9-element list with V = 2^54 + 35 + 1 *)
Example C01_nonvacuous :
  let t := mkTx (Some 9%Z) (Some 20000000000%Z) None None (Some 21000%Z) (Some (repeat x35 20)) (Some 1000000000000000000%Z) None in
  let f : signer := fun _ => Ok (28%Z, 5%Z, 6%Z) in
  let chain := (2 ^ 53)%Z in
  short (sp_data (payload_of Auto t chain)) /\
  format_of Auto t = Eip155 /\
  exists out, sign_mode Auto t (Some f) chain = Ok out /\ short out /\
    out = spec_signed Eip155 (norm t) (2 ^ 53) 1 5 6.
Proof.
  cbv zeta. split; [unfold short; vm_compute; reflexivity|]. split; [reflexivity|].
  eexists. split; [vm_compute; reflexivity|]. split; [unfold short; vm_compute; reflexivity|].
  vm_compute. reflexivity.
Qed.

(* non-vacuity of theorems 4 and 5: a contract creation with nil fields on chain 2^53 in type 0x02;
   every hypothesis holds and the recovered transaction has nonce 0, empty data, no destination *)
Example C01_nonvacuous_recover :
  let t := mkTx None None (Some 1%Z) None (Some 21000%Z) None None None in
  let sd : N -> bytes -> res sigdata := fun _ _ => Ok (28%Z, 5%Z, 6%Z) in
  let RD : sigdata -> bytes -> Z -> res bytes := fun _ _ _ => Ok (repeat x11 20) in
  let chain := (2 ^ 53)%Z in
  to_ok t = true /\ chain_ok chain /\
  exists out, sign_mode Auto t (Some (KeyPairSign (fun b => b) sd 7%N)) chain = Ok out /\
    (N.of_nat (length out) <= maxInt32)%N /\
    RecoverRawTransaction (fun b => b) RD out chain
    = Ok (repeat x11 20,
          mkTx (Some 0%Z) None (Some 1%Z) (Some 0%Z) (Some 21000%Z) None (Some 0%Z) (Some []),
          sp_data (SignaturePayloadEIP1559 t chain)).
Proof.
  cbv zeta. split; [reflexivity|]. split; [unfold chain_ok; lia|].
  eexists. split; [vm_compute; reflexivity|]. split; [vm_compute; discriminate|].
  vm_compute. reflexivity.
Qed.

(* non-vacuity of theorem 7: the 13-element toy group of Crypto/Ecdsa.v satisfies the laws; with a
   32-byte "hash", key 5 and nonce 2 an EIP-155 signing on chain 2^53 succeeds with a 27/28 V, so every
   hypothesis (and the V condition of the conclusion) is met *)
Definition toyH (x : bytes) : bytes := firstn 32 (x ++ repeat x00 32).
Lemma toyH_len x : length (toyH x) = 32%nat.
Proof. unfold toyH. rewrite firstn_length, app_length, repeat_length. apply Nat.min_l. apply Nat.le_add_l. Qed.

Example C01_nonvacuous_end_to_end :
  let t := mkTx (Some 9%Z) (Some 20000000000%Z) None None (Some 21000%Z) (Some (repeat x35 20)) (Some 1%Z) None in
  let nonce : Z -> bytes -> nat -> Z := fun _ _ _ => 2%Z in
  let chain := (2 ^ 53)%Z in
  laws Toy.ops /\ (n Toy.ops < SM.two256)%Z /\ (1 <= Z.of_N 5 < n Toy.ops)%Z /\ to_ok t = true /\ in_range t /\
  short (sp_data (payload_of LegacyEIP155 t chain)) /\
  exists out v r s,
    sign_mode LegacyEIP155 t (Some (KeyPairSign toyH (secp_sign_direct Toy.ops nonce 1) 5%N)) chain = Ok out /\
    (N.of_nat (length out) <= maxInt32)%N /\
    SM.SignDirect Toy.ops nonce 1 5 (toyH (spec_preimage Eip155 (norm t) (2 ^ 53))) = Ok {| SM.sV := v; SM.sR := r; SM.sS := s |} /\
    v_legacy v.
Proof.
  cbv zeta. split; [exact Toy.toy_laws|]. split; [reflexivity|]. split; [vm_compute; split; congruence|].
  split; [reflexivity|].
  split; [unfold in_range, below256, two256, data_max; cbn; repeat split; lia|].
  split; [unfold short; vm_compute; reflexivity|].
  eexists _, _, _, _. split; [vm_compute; reflexivity|]. split; [vm_compute; discriminate|].
  split; [vm_compute; reflexivity|]. vm_compute. auto.
Qed.

(* Tie of the hand-written constants of Tx/Model.v (transaction type byte) and of Rlp/Model.v (the
   encoder the signing model calls) to the source.  Gen/Consts.v is regenerated on every run by the
   translator harness/cmd/gen_consts from the `const` declarations of pkg/ethsigner/transaction.go
   and pkg/rlp/decode.go as they are NOW.  The models keep their own literals; this theorem is what
   breaks when the type byte, an RLP prefix or the 55-byte threshold changes in the source. *)
From FFS Require Gen.Consts.
Theorem C01_source_constants :
  Gen.Consts.ethsigner_TransactionType1559 = Z.of_N (b2n Tx.Model.TransactionType1559) /\
  Gen.Consts.rlp_shortString = Z.of_N Rlp.Model.shortString /\
  Gen.Consts.rlp_longString = Z.of_N Rlp.Model.longString /\
  Gen.Consts.rlp_shortList = Z.of_N Rlp.Model.shortList /\
  Gen.Consts.rlp_longList = Z.of_N Rlp.Model.longList /\
  Gen.Consts.rlp_shortToLong = Z.of_N Rlp.Model.shortToLong /\
  Gen.Consts.rlp_maxInt32 = Z.of_N Rlp.Model.maxInt32.
Proof. vm_compute. repeat split; reflexivity. Qed.
Print Assumptions C01_source_constants.

(* ---------- round 5: the remaining guards ---------- *)
From FFS Require Import Tx.SignProofs5.

(* 10. Theorem 1 with ONE size guard per outcome.  Theorem 1 has two: "payload shorter than 2^64"
       up front and "output shorter than 2^64" for the signed bytes.  The exact length of an RLP
       list encoding ([C01_encode_length_exact]) shows that the returned bytes are at least as long
       as the payload, so when the signer answers a 27/28 signature the single guard [short out]
       gives both conclusions: what the signer was asked to sign ([pd], the model's payload) is the
       prescribed preimage, and the bytes are the prescribed signed transaction.  When the signer
       fails there are no returned bytes: its error is the result whatever the sizes, and [pd] is
       the preimage when [pd] itself is shorter than 2^64 (first conjunct; the only guard there). *)
Theorem C01_wire_format_one_guard :
  forall (m : mode) (t : tx) (f : signer) (chain : Z),
  (0 <= chain)%Z ->
  let fm := format_of m t in
  let c := Z.to_N chain in
  let pre := spec_preimage fm (norm t) c in
  let pd := sp_data (payload_of m t chain) in
  (short pd -> pd = pre) /\
  match f pd with
  | Ok (v, r, s) =>
      exists out, sign_mode m t (Some f) chain = Ok out /\
        (v_legacy v -> short out ->
         pd = pre /\ out = spec_signed fm (norm t) c (y_of v) (Z.abs_N r) (Z.abs_N s))
  | Err e => sign_mode m t (Some f) chain = Err e
  | Panic => sign_mode m t (Some f) chain = Panic
  end.
Proof. exact sign_wire_format_one_guard. Qed.
Print Assumptions C01_wire_format_one_guard.

(* the length lemmas behind it: an RLP list encoding is exactly header + content, with the header
   length a function of the content length; and the returned bytes are at least as long as the
   signed payload *)
Theorem C01_encode_length_exact :
  (forall l : list item,
     length (encode (Lst l)) = (hdr_len (length (flat_map encode l)) + length (flat_map encode l))%nat) /\
  (forall (m : mode) (t : tx) (chain v r s : Z) (out : bytes),
     v_legacy v -> (0 <= chain)%Z -> finalize m t chain (v, r, s) = Ok out -> short out ->
     (length (sp_data (payload_of m t chain)) <= length out)%nat).
Proof. exact (conj enc_list_len_exact out_ge_payload). Qed.
Print Assumptions C01_encode_length_exact.

(* 11. Theorem 4 with guards on the INPUTS only: the transaction in the property's range
       ([in_range]: 20-byte destination, integer fields below 2^256 in magnitude, data of at most
       2^31-1024 bytes), 0 <= chain < 2^61, and a signer whose answer to the prescribed preimage is a
       27/28 signature with 0 <= R, S < 2^256.  Nothing is assumed about the output: signing
       succeeds, the bytes are the prescribed wire format, and recovery hands RecoverDirect the very
       (V, R, S) over H(preimage) and returns the same field values and the preimage. *)
Theorem C01_recover_sign_inputs :
  forall (H : bytes -> bytes) (RecoverDirect : sigdata -> bytes -> Z -> res bytes)
         (m : mode) (t : tx) (f : signer) (chain : Z) (v r s : Z),
  in_range t -> chain_ok chain ->
  let fm := format_of m t in
  let c := Z.to_N chain in
  let pre := spec_preimage fm (norm t) c in
  f pre = Ok (v, r, s) -> v_legacy v -> (0 <= r < two256)%Z -> (0 <= s < two256)%Z ->
  exists out,
    sign_mode m t (Some f) chain = Ok out /\
    out = spec_signed fm (norm t) c (y_of v) (Z.to_N r) (Z.to_N s) /\
    RecoverRawTransaction H RecoverDirect out chain =
      do a <- RecoverDirect (v_seen fm v, r, s) (H pre) chain;
      Ok (a, recovered_tx fm (norm t), pre).
Proof. exact recover_sign_inputs. Qed.
Print Assumptions C01_recover_sign_inputs.

(* 12. The chain ids of the property's quantifier, 0 <= chain <= 2^53, are below 2^61: theorem 11 for
       exactly the quantifier of the property (all four modes, fields below 2^256, chain id in
       [0, 2^53]) - no guard beyond it except the bound on the data length and on the R, S an
       arbitrary signer may answer (a secp256k1 signer answers below n < 2^256: theorem 8). *)
Theorem C01_recover_sign_in_quantifier :
  forall (H : bytes -> bytes) (RecoverDirect : sigdata -> bytes -> Z -> res bytes)
         (m : mode) (t : tx) (f : signer) (chain : Z) (v r s : Z),
  in_range t -> (0 <= chain <= 2 ^ 53)%Z ->
  let fm := format_of m t in
  let c := Z.to_N chain in
  let pre := spec_preimage fm (norm t) c in
  f pre = Ok (v, r, s) -> v_legacy v -> (0 <= r < two256)%Z -> (0 <= s < two256)%Z ->
  exists out,
    sign_mode m t (Some f) chain = Ok out /\
    out = spec_signed fm (norm t) c (y_of v) (Z.to_N r) (Z.to_N s) /\
    RecoverRawTransaction H RecoverDirect out chain =
      do a <- RecoverDirect (v_seen fm v, r, s) (H pre) chain;
      Ok (a, recovered_tx fm (norm t), pre).
Proof. exact recover_sign_in_quantifier. Qed.
Print Assumptions C01_recover_sign_in_quantifier.

(* non-vacuity of theorems 10-12: the EIP-155 transfer of C01_nonvacuous on chain 2^53 with the
   constant signer (28, 5, 6) meets every hypothesis of theorem 12 (hence of 11), the returned bytes
   are short (the single guard of theorem 10), as long as the payload (here exactly: the bound of
   C01_encode_length_exact is tight), and recovery returns what
   the RecoverDirect parameter answers *)
Example C01_nonvacuous_inputs_only :
  let t := mkTx (Some 9%Z) (Some 20000000000%Z) None None (Some 21000%Z) (Some (repeat x35 20)) (Some 1000000000000000000%Z) None in
  let f : signer := fun _ => Ok (28%Z, 5%Z, 6%Z) in
  let RD : sigdata -> bytes -> Z -> res bytes := fun _ _ _ => Ok (repeat x11 20) in
  let chain := (2 ^ 53)%Z in
  in_range t /\ (0 <= chain <= 2 ^ 53)%Z /\ chain_ok chain /\ v_legacy 28 /\ (0 <= 5 < two256)%Z /\ (0 <= 6 < two256)%Z /\
  exists out, sign_mode Auto t (Some f) chain = Ok out /\ short out /\
    (length (sp_data (payload_of Auto t chain)) <= length out)%nat /\
    RecoverRawTransaction (fun b => b) RD out chain
    = Ok (repeat x11 20, recovered_tx Eip155 (norm t), spec_preimage Eip155 (norm t) (2 ^ 53)).
Proof.
  cbv zeta.
  split; [unfold in_range, below256, two256, data_max; cbn; repeat split; lia|].
  split; [lia|]. split; [unfold chain_ok; lia|]. split; [right; reflexivity|].
  split; [unfold two256; lia|]. split; [unfold two256; lia|].
  eexists. split; [vm_compute; reflexivity|]. split; [unfold short; vm_compute; reflexivity|].
  split; [apply Nat.leb_le; vm_compute; reflexivity|]. vm_compute. reflexivity.
Qed.

(* ---------- answers to the referee's review of these statements (design/reviews/C01.md) ---------- *)
From FFS Require Import Base.Keccak Tx.SignProofs6.

(* 13. (review issue 3) Signing with the KeyPair signer SUCCEEDS.  Theorems 7 and 8 have
       [sign_mode ... = Ok out] as a premise.  For every mode, transaction, key, chain id, hash, group,
       nonce stream and fuel - no guard at all: the signing model with the KeyPair signer never panics;
       it returns bytes exactly when one of the first [fuel] nonces of the stream gives a usable
       ECDSA attempt for (d, H(payload)) ([some_nonce_usable]: k mod n <> 0, r <> 0, s <> 0 - for
       secp256k1 with RFC 6979 the first nonce fails with probability about 2^-255; not a consequence
       of the group laws, hence a hypothesis); and its only error is the model's own "fuel
       exhausted", which is not success and has no counterpart in the Go code. *)
Theorem C01_keypair_sign_classes :
  forall (o : group_ops) (H : bytes -> bytes) (nonce : Z -> bytes -> nat -> Z) (fuel : nat)
         (m : mode) (t : tx) (d : N) (chain : Z),
  let ks := KeyPairSign H (secp_sign_direct o nonce fuel) d in
  let z := H (sp_data (payload_of m t chain)) in
  sign_mode m t (Some ks) chain <> Panic /\
  ((exists out, sign_mode m t (Some ks) chain = Ok out) <-> some_nonce_usable o nonce fuel d z) /\
  (forall e, sign_mode m t (Some ks) chain = Err e -> e = SM.EOutOfFuel /\ ~ some_nonce_usable o nonce fuel d z).
Proof. exact keypair_sign_classes. Qed.
Print Assumptions C01_keypair_sign_classes.

(* 14. (review issue 3) Theorem 8 with success as a CONCLUSION and the returned bytes as a named
       witness: hypotheses on the inputs only (key in [1,n-1], chain id in [0,2^53], [in_range t]) and
       on the nonce stream (a usable nonce for the hash of the PRESCRIBED preimage). *)
Theorem C01_sign_succeeds_end_to_end :
  forall (o : group_ops), laws o -> (n o < SM.two256)%Z ->
  forall (H : bytes -> bytes), (forall x, length (H x) = 32%nat) ->
  forall (nonce : Z -> bytes -> nat -> Z) (fuel : nat)
         (m : mode) (t : tx) (d : N) (chain : Z),
  (1 <= Z.of_N d < n o)%Z -> (0 <= chain <= 2 ^ 53)%Z -> in_range t ->
  let fm := format_of m t in
  let c := Z.to_N chain in
  let pre := spec_preimage fm (norm t) c in
  some_nonce_usable o nonce fuel d (H pre) ->
  exists out v r s,
    sign_mode m t (Some (KeyPairSign H (secp_sign_direct o nonce fuel) d)) chain = Ok out /\
    SM.SignDirect o nonce fuel (Z.of_N d) (H pre) = Ok {| SM.sV := v; SM.sR := r; SM.sS := s |} /\
    (1 <= r < n o)%Z /\ (1 <= s < n o)%Z /\ (2 * s <= n o)%Z /\
    ecdsa_verify o (pub o (Z.of_N d)) (SM.hash_to_z (H pre)) r s = true /\
    (v_legacy v ->
       out = spec_signed fm (norm t) c (y_of v) (Z.to_N r) (Z.to_N s) /\
       RecoverRawTransaction H (secp_RecoverDirect o H) out chain
       = Ok (secp_address o H d, recovered_tx fm (norm t), pre)).
Proof. exact sign_succeeds_end_to_end. Qed.
Print Assumptions C01_sign_succeeds_end_to_end.

(* 15. Theorem 14 with the hash of the code: Keccak-256 as computed in Gallina (Base/Keccak.v, the
       instance the correspondence run evaluates); its 32-byte law is proved, not assumed.  The
       group stays abstract (that secp256k1 satisfies the laws is the trusted mathematical fact). *)
Theorem C01_sign_succeeds_end_to_end_keccak :
  forall (o : group_ops), laws o -> (n o < SM.two256)%Z ->
  forall (nonce : Z -> bytes -> nat -> Z) (fuel : nat)
         (m : mode) (t : tx) (d : N) (chain : Z),
  (1 <= Z.of_N d < n o)%Z -> (0 <= chain <= 2 ^ 53)%Z -> in_range t ->
  let fm := format_of m t in
  let c := Z.to_N chain in
  let pre := spec_preimage fm (norm t) c in
  some_nonce_usable o nonce fuel d (keccak256 pre) ->
  exists out v r s,
    sign_mode m t (Some (KeyPairSign keccak256 (secp_sign_direct o nonce fuel) d)) chain = Ok out /\
    SM.SignDirect o nonce fuel (Z.of_N d) (keccak256 pre) = Ok {| SM.sV := v; SM.sR := r; SM.sS := s |} /\
    (1 <= r < n o)%Z /\ (1 <= s < n o)%Z /\ (2 * s <= n o)%Z /\
    ecdsa_verify o (pub o (Z.of_N d)) (SM.hash_to_z (keccak256 pre)) r s = true /\
    (v_legacy v ->
       out = spec_signed fm (norm t) c (y_of v) (Z.to_N r) (Z.to_N s) /\
       RecoverRawTransaction keccak256 (secp_RecoverDirect o keccak256) out chain
       = Ok (secp_address o keccak256 d, recovered_tx fm (norm t), pre)).
Proof. exact sign_succeeds_end_to_end_keccak. Qed.
Print Assumptions C01_sign_succeeds_end_to_end_keccak.

(* 16. (review issue 4) Theorems 1 and 10 say what the bytes are only for an answer with V in
       {27,28}.  For ANY (V, R, S) an arbitrary Signer answers, the returned bytes are the format's
       list with the scalars |V'|, |R|, |S| appended, V' = [v_written fm chain V]: V itself in the
       original format, V + 2*chain + 8 under EIP-155, and in type 0x02 V - 27 when V.Int64() is
       27 or 28 and V otherwise (a big.Int is written as its magnitude).  Third conjunct: for a
       27/28 answer this is the specification's V, i.e. theorem 1.  Size guards as in theorem 10:
       [short pd] for the payload, [short out] for the bytes. *)
Theorem C01_wire_format_any_v :
  forall (m : mode) (t : tx) (f : signer) (chain : Z),
  (0 <= chain)%Z ->
  let fm := format_of m t in
  let c := Z.to_N chain in
  let pre := spec_preimage fm (norm t) c in
  let pd := sp_data (payload_of m t chain) in
  (short pd -> pd = pre) /\
  match f pd with
  | Ok (v, r, s) =>
      exists out, sign_mode m t (Some f) chain = Ok out /\
        (short out ->
         out = spec_signed_v fm (norm t) c (Z.abs_N (v_written fm chain v)) (Z.abs_N r) (Z.abs_N s)) /\
        (v_legacy v -> Z.abs_N (v_written fm chain v) = spec_v fm c (y_of v))
  | Err e => sign_mode m t (Some f) chain = Err e
  | Panic => sign_mode m t (Some f) chain = Panic
  end.
Proof. exact sign_wire_format_any_v. Qed.
Print Assumptions C01_wire_format_any_v.

(* [spec_signed_v] is [spec_signed] with the V position left free *)
Theorem C01_spec_signed_v :
  forall fm f c y r s, spec_signed fm f c y r s = spec_signed_v fm f c (spec_v fm c y) r s.
Proof. exact spec_signed_is_v. Qed.
Print Assumptions C01_spec_signed_v.

(* 17. (review issue 5) Every scalar of Tx/Spec.v is [B (BE n)], and Rlp/Spec.v's BE is written with
       the same recursion as the model's minimal big-endian.  Characterisation that does not mention
       how BE is computed: its big-endian value ([of_be]: the plain left fold acc*256 + b) is x, it
       has no leading zero byte, it is the ONLY byte string with these two properties, and zero is
       the empty string. *)
Theorem C01_BE_characterised :
  forall x : N,
  of_be (BE x) = x /\ head_nz (BE x) /\
  (forall l, head_nz l -> of_be l = x -> l = BE x) /\
  (BE 0 = [] /\ forall l, of_be l = 0%N -> head_nz l -> l = []).
Proof. exact BE_characterised. Qed.
Print Assumptions C01_BE_characterised.

(* 18. (review issue 6) The two signer laws theorem 5 assumes are met by non-constant signers: by
       the C05 models of SignDirect / RecoverDirect over any group with the ECDSA laws (hence by
       the toy group of the examples), for every key in [1,n-1] and chain id in [0,2^53]. *)
Theorem C01_keypair_laws_satisfied :
  forall (o : group_ops), laws o -> (n o < SM.two256)%Z ->
  forall (H : bytes -> bytes), (forall x, length (H x) = 32%nat) ->
  forall (nonce : Z -> bytes -> nat -> Z) (fuel : nat) (d : N) (chain : Z),
  (1 <= Z.of_N d < n o)%Z -> (0 <= chain <= 2 ^ 53)%Z ->
  (forall z v r s, secp_sign_direct o nonce fuel d z = Ok (v, r, s) -> (0 <= r)%Z /\ (0 <= s)%Z) /\
  (forall z v r s, secp_sign_direct o nonce fuel d z = Ok (v, r, s) -> v_legacy v ->
     secp_RecoverDirect o H (v, r, s) z chain = Ok (secp_address o H d) /\
     secp_RecoverDirect o H ((v - 27)%Z, r, s) z chain = Ok (secp_address o H d)).
Proof. exact keypair_laws_satisfied. Qed.
Print Assumptions C01_keypair_laws_satisfied.

(* The model CAN panic and CAN fail: [<> Panic] and "the only error is the fuel error" in theorem 13
   are not true by the shape of the model.  A signer that panics makes every mode panic, a signer
   that fails makes it fail with that error, and the KeyPair signer with an empty nonce budget
   (fuel 0) gives the fuel error - theorem 13's error case - while with fuel 1 and nonce 2 it
   succeeds (its success case; hypothesis of theorem 14 for the toy group and LegacyOriginal). *)
Example C01_model_can_panic_and_fail :
  let t := mkTx (Some 9%Z) (Some 20000000000%Z) None None (Some 21000%Z) None (Some 1%Z) (Some (repeat xff 60)) in
  let nonce : Z -> bytes -> nat -> Z := fun _ _ _ => 2%Z in
  sign_mode LegacyOriginal t (Some (fun _ => Panic)) 1 = Panic /\
  sign_mode EIP1559 t (Some (fun _ => Err 7%nat)) 1 = Err 7%nat /\
  sign_mode LegacyOriginal t (Some (KeyPairSign toyH (secp_sign_direct Toy.ops nonce 0) 5%N)) 1 = Err SM.EOutOfFuel /\
  ~ some_nonce_usable Toy.ops nonce 0 5%N (toyH (spec_preimage Original (norm t) 1)) /\
  in_range t /\
  some_nonce_usable Toy.ops nonce 1 5%N (toyH (spec_preimage Original (norm t) 1)) /\
  exists out, sign_mode LegacyOriginal t (Some (KeyPairSign toyH (secp_sign_direct Toy.ops nonce 1) 5%N)) 1 = Ok out.
Proof.
  cbv zeta. split; [reflexivity|]. split; [reflexivity|]. split; [vm_compute; reflexivity|].
  split; [intros (j & Hj & _); lia|].
  split; [unfold in_range, below256, two256, data_max; cbn; repeat split; lia|].
  split; [exists 0%nat; split; [lia|vm_compute; discriminate]|].
  eexists. vm_compute. reflexivity.
Qed.

(* non-vacuity of theorem 15: with Keccak-256 itself as the hash (computed by vm_compute), the toy
   group, key 5 and constant nonce 2, an EIP-1559 transfer on chain 2^53 meets every hypothesis *)
Example C01_nonvacuous_keccak :
  let t := mkTx (Some 9%Z) None (Some 1%Z) (Some 30000000000%Z) (Some 21000%Z) (Some (repeat x35 20)) (Some 1%Z) None in
  let nonce : Z -> bytes -> nat -> Z := fun _ _ _ => 2%Z in
  let chain := (2 ^ 53)%Z in
  format_of Auto t = Eip1559 /\ in_range t /\
  some_nonce_usable Toy.ops nonce 1 5%N (keccak256 (spec_preimage Eip1559 (norm t) (2 ^ 53))) /\
  exists out, sign_mode Auto t (Some (KeyPairSign keccak256 (secp_sign_direct Toy.ops nonce 1) 5%N)) chain = Ok out.
Proof.
  cbv zeta. split; [reflexivity|].
  split; [unfold in_range, below256, two256, data_max; cbn; repeat split; lia|].
  split; [exists 0%nat; split; [lia|vm_compute; discriminate]|].
  eexists. vm_compute. reflexivity.
Qed.

(* (review issue 6) boundary shapes of the quantifier under theorem 12: LegacyOriginal mode, contract
   creation (nil destination), 60 bytes of data (long-string form), R with a leading zero byte (31
   bytes) and S with the top bit set (32 bytes), all fields at RLP boundaries; every hypothesis
   holds, the bytes are the prescribed ones and recovery hands back the same fields. *)
Example C01_nonvacuous_boundaries :
  let t := mkTx (Some 128%Z) (Some 0%Z) None None (Some 255%Z) None (Some (2 ^ 256 - 1)%Z) (Some (repeat xff 60)) in
  let r := (2 ^ 247 + 3)%Z in
  let s := (2 ^ 255 + 1)%Z in
  let f : signer := fun _ => Ok (27%Z, r, s) in
  let RD : sigdata -> bytes -> Z -> res bytes := fun _ _ _ => Ok (repeat x11 20) in
  format_of LegacyOriginal t = Original /\
  in_range t /\ (0 <= 0 <= 2 ^ 53)%Z /\ v_legacy 27 /\ (0 <= r < two256)%Z /\ (0 <= s < two256)%Z /\
  length (BE (Z.to_N r)) = 31%nat /\ length (BE (Z.to_N s)) = 32%nat /\
  exists out, sign_mode LegacyOriginal t (Some f) 0 = Ok out /\
    out = spec_signed Original (norm t) 0 0 (Z.to_N r) (Z.to_N s) /\
    RecoverRawTransaction (fun b => b) RD out 0
    = Ok (repeat x11 20, recovered_tx Original (norm t), spec_preimage Original (norm t) 0).
Proof.
  cbv zeta. split; [reflexivity|].
  split; [unfold in_range, below256, two256, data_max; cbn; repeat split; lia|].
  split; [lia|]. split; [left; reflexivity|].
  split; [unfold two256; lia|]. split; [unfold two256; lia|].
  split; [vm_compute; reflexivity|]. split; [vm_compute; reflexivity|].
  eexists. split; [vm_compute; reflexivity|]. split; [vm_compute; reflexivity|].
  vm_compute. reflexivity.
Qed.

(* non-vacuity of theorem 16 outside V in {27,28}: a signer answering the bare parity 0 under EIP-155
   on chain 1 gets V' = 10 written (not a valid EIP-155 V: theorem 1 is silent, theorem 16 is not);
   an EIP-155 style V = 37 in type 0x02 is written unchanged; V = 2^64 + 27 in type 0x02 has
   Int64() = 27 and is written as 2^64 *)
Example C01_nonvacuous_any_v :
  let t := mkTx (Some 9%Z) (Some 20000000000%Z) None None (Some 21000%Z) (Some (repeat x35 20)) (Some 1%Z) None in
  v_written Eip155 1 0 = 10%Z /\ ~ v_legacy 0 /\
  v_written Eip1559 1 37 = 37%Z /\ v_written Eip1559 1 (2 ^ 64 + 27) = (2 ^ 64)%Z /\
  exists out, sign_mode LegacyEIP155 t (Some (fun _ => Ok (0%Z, 5%Z, 6%Z))) 1 = Ok out /\ short out /\
    out = spec_signed_v Eip155 (norm t) 1 10 5 6.
Proof.
  cbv zeta. split; [reflexivity|]. split; [intros [E|E]; discriminate|].
  split; [reflexivity|]. split; [reflexivity|].
  eexists. split; [vm_compute; reflexivity|]. split; [unfold short; vm_compute; reflexivity|].
  vm_compute. reflexivity.
Qed.

(* 19. (review issues 2 and 3) The retry budget [fuel] exists in the model only (the Go code has
       none).  It does not influence the bytes: a larger budget keeps a success and its bytes, and any
       two budgets under which signing succeeds give the same bytes - for every mode, transaction,
       key, chain id, hash, group and nonce stream. *)
Theorem C01_fuel_irrelevant :
  forall (o : group_ops) (H : bytes -> bytes) (nonce : Z -> bytes -> nat -> Z)
         (f1 f2 : nat) (m : mode) (t : tx) (d : N) (chain : Z) (out1 : bytes),
  sign_mode m t (Some (KeyPairSign H (secp_sign_direct o nonce f1) d)) chain = Ok out1 ->
  ((f1 <= f2)%nat -> sign_mode m t (Some (KeyPairSign H (secp_sign_direct o nonce f2) d)) chain = Ok out1) /\
  (forall out2, sign_mode m t (Some (KeyPairSign H (secp_sign_direct o nonce f2) d)) chain = Ok out2 -> out1 = out2).
Proof.
  intros o H nonce f1 f2 m t d chain out1 E. split.
  - intros Hle. exact (fuel_irrelevant o H nonce f1 f2 m t d chain out1 Hle E).
  - intros out2 E2. exact (fuel_irrelevant_sym o H nonce f1 f2 m t d chain out1 out2 E E2).
Qed.
Print Assumptions C01_fuel_irrelevant.

(* non-vacuity of theorem 19, with a nonce stream whose first two nonces are unusable (0 mod n): budgets
   1 and 2 fail with the fuel error, budgets 3 and 7 succeed (third nonce) with the same bytes *)
Example C01_nonvacuous_fuel :
  let t := mkTx (Some 9%Z) (Some 20000000000%Z) None None (Some 21000%Z) (Some (repeat x35 20)) (Some 1%Z) None in
  let nonce : Z -> bytes -> nat -> Z := fun _ _ j => if (j <? 2)%nat then 0%Z else 2%Z in
  let ks fuel := KeyPairSign toyH (secp_sign_direct Toy.ops nonce fuel) 5%N in
  sign_mode LegacyEIP155 t (Some (ks 1%nat)) 1 = Err SM.EOutOfFuel /\
  sign_mode LegacyEIP155 t (Some (ks 2%nat)) 1 = Err SM.EOutOfFuel /\
  exists out, sign_mode LegacyEIP155 t (Some (ks 3%nat)) 1 = Ok out /\
              sign_mode LegacyEIP155 t (Some (ks 7%nat)) 1 = Ok out.
Proof.
  cbv zeta. split; [vm_compute; reflexivity|]. split; [vm_compute; reflexivity|].
  eexists. split; vm_compute; reflexivity.
Qed.

(* ---------- wave 6: no size guard; data of any length ---------- *)
From FFS Require Import Tx.SignProofs7.

(* 20. Theorem 1 with NO size guard.  Theorems 1, 10 and 16 are guarded by [short] (payload, output
       shorter than 2^64 bytes) - properties of what the model computes.  Theorems 8, 11, 12, 14 derive
       such guards from [in_range], whose data bound 2^31-1024 is the RLP DECODER's limit and has
       nothing to do with signing.  Here the guards are on the inputs only and cover every input the
       Go signing functions can be given on a 64-bit platform: [sign_range t] (20-byte destination,
       integer fields below 2^256 in magnitude - the property's quantifier -, data shorter than 2^63
       bytes: Go's int), every non-negative int64 chain id (0 <= chain < 2^63; theorems 4, 11 stop at
       2^61), and for the bytes a 27/28 answer with |R|, |S| < 2^256.  Conclusions: the signer is
       asked to sign exactly the prescribed preimage; its error or panic is the result; the returned
       bytes are shorter than 2^64 (so [short] was never a restriction on these inputs) and are
       exactly the prescribed wire format. *)
Theorem C01_wire_format_no_size_guard :
  forall (m : mode) (t : tx) (f : signer) (chain : Z),
  sign_range t -> (0 <= chain < 2 ^ 63)%Z ->
  let fm := format_of m t in
  let c := Z.to_N chain in
  let pre := spec_preimage fm (norm t) c in
  sp_data (payload_of m t chain) = pre /\
  match f pre with
  | Ok (v, r, s) =>
      exists out, sign_mode m t (Some f) chain = Ok out /\
        (v_legacy v -> (Z.abs r < two256)%Z -> (Z.abs s < two256)%Z ->
         short out /\ out = spec_signed fm (norm t) c (y_of v) (Z.abs_N r) (Z.abs_N s))
  | Err e => sign_mode m t (Some f) chain = Err e
  | Panic => sign_mode m t (Some f) chain = Panic
  end.
Proof. exact sign_wire_format_no_size_guard. Qed.
Print Assumptions C01_wire_format_no_size_guard.

(* [sign_range] is [in_range] with the decoder's data bound replaced by Go's: weaker *)
Theorem C01_in_range_sign_range : forall t : tx, in_range t -> sign_range t.
Proof. exact in_range_sign_range. Qed.
Print Assumptions C01_in_range_sign_range.

(* 21. Theorem 14 without its recovery clause, for data of ANY length (the property's quantifier:
       "data of any length") and every non-negative int64 chain id: with the KeyPair signer over a
       lawful group, signing succeeds (given a usable nonce), R, S in [1,n-1], low S, the signature
       verifies against d*G over the hash of the prescribed preimage, and for V in 27/28 the bytes
       are shorter than 2^64 and exactly the prescribed wire format.  The recovery clause (theorem 14)
       keeps the data bound 2^31-1024 because RecoverRawTransaction refuses longer input. *)
Theorem C01_sign_succeeds_wire_any_data :
  forall (o : group_ops), laws o -> (n o < SM.two256)%Z ->
  forall (H : bytes -> bytes), (forall x, length (H x) = 32%nat) ->
  forall (nonce : Z -> bytes -> nat -> Z) (fuel : nat)
         (m : mode) (t : tx) (d : N) (chain : Z),
  (1 <= Z.of_N d < n o)%Z -> (0 <= chain < 2 ^ 63)%Z -> sign_range t ->
  let fm := format_of m t in
  let c := Z.to_N chain in
  let pre := spec_preimage fm (norm t) c in
  some_nonce_usable o nonce fuel d (H pre) ->
  exists out v r s,
    sign_mode m t (Some (KeyPairSign H (secp_sign_direct o nonce fuel) d)) chain = Ok out /\
    SM.SignDirect o nonce fuel (Z.of_N d) (H pre) = Ok {| SM.sV := v; SM.sR := r; SM.sS := s |} /\
    (1 <= r < n o)%Z /\ (1 <= s < n o)%Z /\ (2 * s <= n o)%Z /\
    ecdsa_verify o (pub o (Z.of_N d)) (SM.hash_to_z (H pre)) r s = true /\
    (v_legacy v -> short out /\ out = spec_signed fm (norm t) c (y_of v) (Z.to_N r) (Z.to_N s)).
Proof. exact sign_succeeds_wire_any_data. Qed.
Print Assumptions C01_sign_succeeds_wire_any_data.

(* 22. The same with Keccak-256 of Base/Keccak.v as the hash (32-byte law proved). *)
Theorem C01_sign_succeeds_wire_any_data_keccak :
  forall (o : group_ops), laws o -> (n o < SM.two256)%Z ->
  forall (nonce : Z -> bytes -> nat -> Z) (fuel : nat)
         (m : mode) (t : tx) (d : N) (chain : Z),
  (1 <= Z.of_N d < n o)%Z -> (0 <= chain < 2 ^ 63)%Z -> sign_range t ->
  let fm := format_of m t in
  let c := Z.to_N chain in
  let pre := spec_preimage fm (norm t) c in
  some_nonce_usable o nonce fuel d (keccak256 pre) ->
  exists out v r s,
    sign_mode m t (Some (KeyPairSign keccak256 (secp_sign_direct o nonce fuel) d)) chain = Ok out /\
    SM.SignDirect o nonce fuel (Z.of_N d) (keccak256 pre) = Ok {| SM.sV := v; SM.sR := r; SM.sS := s |} /\
    (1 <= r < n o)%Z /\ (1 <= s < n o)%Z /\ (2 * s <= n o)%Z /\
    ecdsa_verify o (pub o (Z.of_N d)) (SM.hash_to_z (keccak256 pre)) r s = true /\
    (v_legacy v -> short out /\ out = spec_signed fm (norm t) c (y_of v) (Z.to_N r) (Z.to_N s)).
Proof. exact sign_succeeds_wire_any_data_keccak. Qed.
Print Assumptions C01_sign_succeeds_wire_any_data_keccak.

(* non-vacuity of theorems 20-22 OUTSIDE the region of the earlier theorems: (i) there are data
   lengths above [in_range]'s bound and below 2^63, and a transaction with data of any such length
   is in [sign_range] and not in [in_range]; (ii) on the largest int64 chain id 2^63-1 (not
   [chain_ok]: theorems 4/11 do not apply) an EIP-155 signing with the constant signer (28,5,6)
   meets every hypothesis of theorem 20, V is a 9-byte scalar and the bytes are the prescribed ones;
   (iii) the toy-group KeyPair signer on that chain id meets the hypotheses of theorem 21. *)
Example C01_nonvacuous_no_size_guard :
  (exists n, (data_max < n)%nat /\ (N.of_nat n < 2 ^ 63)%N) /\
  (forall n, (data_max < n)%nat -> (N.of_nat n < 2 ^ 63)%N ->
     let t := mkTx (Some 9%Z) (Some 1%Z) None None (Some 21000%Z) None (Some 1%Z) (Some (repeat xff n)) in
     sign_range t /\ ~ in_range t) /\
  let t := mkTx (Some 9%Z) (Some 20000000000%Z) None None (Some 21000%Z) (Some (repeat x35 20)) (Some 1%Z) (Some (repeat xff 60)) in
  let chain := (2 ^ 63 - 1)%Z in
  let f : signer := fun _ => Ok (28%Z, 5%Z, 6%Z) in
  let nonce : Z -> bytes -> nat -> Z := fun _ _ _ => 2%Z in
  sign_range t /\ (0 <= chain < 2 ^ 63)%Z /\ ~ chain_ok chain /\
  v_legacy 28 /\ (Z.abs 5 < two256)%Z /\ (Z.abs 6 < two256)%Z /\
  length (BE (spec_v Eip155 (2 ^ 63 - 1) 1)) = 9%nat /\
  (exists out, sign_mode LegacyEIP155 t (Some f) chain = Ok out /\ short out /\
     out = spec_signed Eip155 (norm t) (2 ^ 63 - 1) 1 5 6) /\
  some_nonce_usable Toy.ops nonce 1 5%N (toyH (spec_preimage Eip155 (norm t) (2 ^ 63 - 1))).
Proof.
  split.
  { exists (data_max + 1)%nat. split; [lia|]. pose proof data_max_val.
    change (2 ^ 63)%N with 9223372036854775808%N. lia. }
  split.
  { intros n Hlo Hhi t. split.
    - unfold sign_range, below256, two256. cbn. rewrite repeat_length. repeat split; lia.
    - intros (_ & _ & _ & _ & _ & _ & _ & Hd). change (length (repeat xff n) <= data_max)%nat in Hd. rewrite repeat_length in Hd. lia. }
  cbv zeta.
  split; [unfold sign_range, below256, two256; cbn; repeat split; lia|].
  split; [lia|]. split; [unfold chain_ok; lia|]. split; [right; reflexivity|].
  split; [unfold two256; cbn; lia|]. split; [unfold two256; cbn; lia|].
  split; [vm_compute; reflexivity|].
  split.
  { eexists. split; [vm_compute; reflexivity|]. split; [unfold short; vm_compute; reflexivity|].
    vm_compute. reflexivity. }
  exists 0%nat. split; [lia|vm_compute; discriminate].
Qed.
