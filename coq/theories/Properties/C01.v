(* C01 — signed transactions are valid Ethereum wire format and recover to the signer.
   Statements only; proofs live in Tx/SignProofs*.v.

   Reading guide.  [tx] is the Go struct (nil pointers = None, big.Int = Z), [norm t] its field tuple
   as the EIPs see it (nil integer = 0, nil data = empty, magnitudes), [spec_preimage] / [spec_signed]
   are written from the Yellow Paper, EIP-155, EIP-2718 and EIP-1559 over the Yellow-Paper RLP.
   The secp256k1.Signer the caller passes is an arbitrary function [f] from the message to
   (V, R, S) or an error.  [short b] says that a byte string is shorter than 2^64 bytes (every Go
   slice is); it is the only size guard: field values, data length and chain id are unbounded. *)
From Coq Require Import List NArith ZArith Lia Bool Arith.
From Coq Require Import Init.Byte.
From FFS Require Import Base.Res Base.Bytes Rlp.Model Rlp.Spec Rlp.Proofs.
From FFS Require Import Crypto.Ecdsa.
From FFS Require Import Tx.Model Tx.Spec Tx.Norm Tx.SignProofs Tx.RecoverModel Tx.SignProofs2 Tx.SignProofs3 Tx.SignProofs4.
Import ListNotations.

(* 1. Wire format.  In every mode, for every transaction, every chain id >= 0 and every signer: the
      signer is asked to sign exactly the prescribed preimage (this is also what SignaturePayload*
      returns); an error of the signer is the result; and a signature (V in {27,28}, R, S) it answers
      is returned inside exactly the bytes the specifications prescribe for the format, with
      V = 27+y, 35+2*chain+y or y respectively. *)
Theorem C01_wire_format :
  forall (m : mode) (t : tx) (f : signer) (chain : Z),
  (0 <= chain)%Z ->
  let fm := format_of m t in
  let c := Z.to_N chain in
  let pre := spec_preimage fm (norm t) c in
  short (sp_data (payload_of m t chain)) ->
  sp_data (payload_of m t chain) = pre /\
  match f pre with
  | Ok (v, r, s) =>
      exists out, sign_mode m t (Some f) chain = Ok out /\
        (v_legacy v -> short out -> out = spec_signed fm (norm t) c (y_of v) (Z.abs_N r) (Z.abs_N s))
  | Err e => sign_mode m t (Some f) chain = Err e
  | Panic => sign_mode m t (Some f) chain = Panic
  end.
Proof. exact sign_wire_format. Qed.
Print Assumptions C01_wire_format.

(* 2. Automatic mode: EIP-1559 exactly when one of the two fee-cap fields is set and positive,
      EIP-155 otherwise — for Sign and for SignaturePayload alike, whatever the signer. *)
Theorem C01_auto_mode :
  forall (t : tx) (sg : option signer) (chain : Z),
  (Sign t sg chain = if wants1559 t then SignEIP1559 t sg chain else SignLegacyEIP155 t sg chain) /\
  (SignaturePayload t chain
   = if wants1559 t then SignaturePayloadEIP1559 t chain else SignaturePayloadLegacyEIP155 t chain) /\
  (wants1559 t = true <->
   (exists z, tx_maxPrio t = Some z /\ (0 < z)%Z) \/ (exists z, tx_maxFee t = Some z /\ (0 < z)%Z)).
Proof.
  intros t sg chain. split; [apply auto_mode|]. split; [apply auto_payload|apply wants1559_iff].
Qed.
Print Assumptions C01_auto_mode.

(* 3. Purity: the caller's transaction after the call is the one passed in, a nil signer is an error
      in every mode, and the result depends on the signer only through its answer to the one message
      it is asked to sign (so signing is as deterministic as the signer is). *)
Theorem C01_pure :
  forall (m : mode) (t : tx) (chain : Z),
  (forall sg, snd (sign_call m t sg chain) = t) /\
  sign_mode m t None chain = Err EInvalidSigner /\
  (forall f g : signer,
     f (sp_data (payload_of m t chain)) = g (sp_data (payload_of m t chain)) ->
     sign_mode m t (Some f) chain = sign_mode m t (Some g) chain).
Proof.
  intros m t chain. split; [intros sg; apply sign_pure|]. split; [apply sign_mode_nil|].
  intros f g; apply sign_depends_on_one_answer.
Qed.
Print Assumptions C01_pure.

(* 4. Sign, then recover.  The bytes any mode returns, given to the model of RecoverRawTransaction
      (Tx/RecoverModel.v, the code after the recovery-side fix: commits) with the same chain id, are
      accepted; the transaction handed back carries the same field values ([recovered_tx] of [norm t]:
      nil integers come back as 0, nil data as empty), the payload handed back is the signing preimage,
      and the address is what SignatureData.RecoverDirect (a parameter; property C05) returns for the
      very (V, R, S) the signer answered over the hash of that preimage — V as 27/28 in the legacy
      formats, as the bare parity in type 0x02.  Guards: the Go type invariant of the destination
      (20 bytes), a chain id below 2^61 (so that the decoder's int64 arithmetic on V is exact; the
      property asks for <= 2^53), and signed bytes no longer than the 2^31-1 the RLP decoder accepts. *)
Theorem C01_recover_sign :
  forall (H : bytes -> bytes) (RecoverDirect : sigdata -> bytes -> Z -> res bytes)
         (m : mode) (t : tx) (f : signer) (chain : Z) (v r s : Z) (out : bytes),
  to_ok t = true -> chain_ok chain ->
  f (sp_data (payload_of m t chain)) = Ok (v, r, s) -> v_legacy v -> (0 <= r)%Z -> (0 <= s)%Z ->
  sign_mode m t (Some f) chain = Ok out ->
  (N.of_nat (length out) <= maxInt32)%N ->
  let fm := format_of m t in
  let pre := sp_data (payload_of m t chain) in
  RecoverRawTransaction H RecoverDirect out chain =
    do a <- RecoverDirect (v_seen fm v, r, s) (H pre) chain;
    Ok (a, recovered_tx fm (norm t), pre).
Proof. exact recover_sign. Qed.
Print Assumptions C01_recover_sign.

(* 5. The same with the KeyPair signer (Keccak, then SignDirect), under the two laws of
      SignDirect / RecoverDirect that property C05 is about: recovering returns the key's address. *)
Theorem C01_recover_sign_keypair :
  forall (H : bytes -> bytes) (sign_direct : N -> bytes -> res sigdata)
         (RecoverDirect : sigdata -> bytes -> Z -> res bytes) (d : N) (chain : Z) (addr : bytes),
  (forall z v r s, sign_direct d z = Ok (v, r, s) -> (0 <= r)%Z /\ (0 <= s)%Z) ->
  (forall z v r s, sign_direct d z = Ok (v, r, s) -> v_legacy v ->
     RecoverDirect (v, r, s) z chain = Ok addr /\ RecoverDirect ((v - 27)%Z, r, s) z chain = Ok addr) ->
  forall (m : mode) (t : tx) (out : bytes),
  to_ok t = true -> chain_ok chain ->
  sign_mode m t (Some (KeyPairSign H sign_direct d)) chain = Ok out ->
  (N.of_nat (length out) <= maxInt32)%N ->
  let pre := sp_data (payload_of m t chain) in
  exists v r s, sign_direct d (H pre) = Ok (v, r, s) /\
    (v_legacy v ->
     RecoverRawTransaction H RecoverDirect out chain
     = Ok (addr, recovered_tx (format_of m t) (norm t), pre)).
Proof. exact recover_sign_keypair. Qed.
Print Assumptions C01_recover_sign_keypair.

(* the field tuple that comes back is the one that went in *)
Theorem C01_recovered_fields :
  forall t : tx,
  let f := norm t in
  (f_nonce (norm (recovered_tx Original f)) = f_nonce f /\ f_gasPrice (norm (recovered_tx Original f)) = f_gasPrice f /\
   f_gasLimit (norm (recovered_tx Original f)) = f_gasLimit f /\ f_to (norm (recovered_tx Original f)) = f_to f /\
   f_value (norm (recovered_tx Original f)) = f_value f /\ f_data (norm (recovered_tx Original f)) = f_data f) /\
  recovered_tx Eip155 f = recovered_tx Original f /\
  (f_nonce (norm (recovered_tx Eip1559 f)) = f_nonce f /\ f_maxPrio (norm (recovered_tx Eip1559 f)) = f_maxPrio f /\
   f_maxFee (norm (recovered_tx Eip1559 f)) = f_maxFee f /\
   f_gasLimit (norm (recovered_tx Eip1559 f)) = f_gasLimit f /\ f_to (norm (recovered_tx Eip1559 f)) = f_to f /\
   f_value (norm (recovered_tx Eip1559 f)) = f_value f /\ f_data (norm (recovered_tx Eip1559 f)) = f_data f).
Proof.
  intros t. split; [apply norm_recovered_legacy|]. split; [reflexivity|apply norm_recovered_1559].
Qed.
Print Assumptions C01_recovered_fields.

(* 7. End to end with the real signer.  KeyPair.SignDirect and SignatureData.RecoverDirect are the
      models of pkg/secp256k1 that property C05 is proved about (Secp/Model.v), over any group [o]
      satisfying the ECDSA group laws (secp256k1 is one: the mathematical fact in the trusted base), any
      32-byte hash [H] (Keccak-256 in the code) and any nonce stream (btcec's RFC 6979).  For every
      transaction, every key 1 <= d < n, every chain id in [0, 2^53] and each of the four modes: the
      returned bytes carry a signature (R, S) in [1, n-1] with 2S <= n that verifies against d*G over
      H of the prescribed preimage; and whenever V is 27/28 (always, except the 2^-128 event x(kG) >= n)
      the bytes are exactly the prescribed wire format and RecoverRawTransaction with the same chain id
      returns the address of d*G, the same field values and the preimage.  Guards: 20-byte destination
      (Go type), |out| <= 2^31-1 (what the decoder accepts), payload shorter than 2^64 bytes. *)
Theorem C01_sign_recover_end_to_end :
  forall (o : group_ops), laws o -> (n o < SM.two256)%Z ->
  forall (H : bytes -> bytes), (forall x, length (H x) = 32%nat) ->
  forall (nonce : Z -> bytes -> nat -> Z) (fuel : nat)
         (m : mode) (t : tx) (d : N) (chain : Z) (out : bytes),
  (1 <= Z.of_N d < n o)%Z -> (0 <= chain <= 2 ^ 53)%Z -> to_ok t = true ->
  sign_mode m t (Some (KeyPairSign H (secp_sign_direct o nonce fuel) d)) chain = Ok out ->
  (N.of_nat (length out) <= maxInt32)%N ->
  short (sp_data (payload_of m t chain)) ->
  let fm := format_of m t in
  let c := Z.to_N chain in
  let pre := spec_preimage fm (norm t) c in
  exists v r s,
    SM.SignDirect o nonce fuel (Z.of_N d) (H pre) = Ok {| SM.sV := v; SM.sR := r; SM.sS := s |} /\
    (1 <= r < n o)%Z /\ (1 <= s < n o)%Z /\ (2 * s <= n o)%Z /\
    ecdsa_verify o (pub o (Z.of_N d)) (SM.hash_to_z (H pre)) r s = true /\
    (v_legacy v ->
       out = spec_signed fm (norm t) c (y_of v) (Z.to_N r) (Z.to_N s) /\
       RecoverRawTransaction H (secp_RecoverDirect o H) out chain
       = Ok (secp_address o H d, recovered_tx fm (norm t), pre)).
Proof. exact sign_recover_secp. Qed.
Print Assumptions C01_sign_recover_end_to_end.

(* 8. Theorem 7 with guards on the inputs only: every integer field below 2^256 in magnitude (the
      property's quantifier), data of at most 2^31-1024 bytes, 20-byte destination ([in_range]); the two
      size guards of theorem 7 are consequences. *)
Theorem C01_sign_recover_end_to_end_in_range :
  forall (o : group_ops), laws o -> (n o < SM.two256)%Z ->
  forall (H : bytes -> bytes), (forall x, length (H x) = 32%nat) ->
  forall (nonce : Z -> bytes -> nat -> Z) (fuel : nat)
         (m : mode) (t : tx) (d : N) (chain : Z) (out : bytes),
  (1 <= Z.of_N d < n o)%Z -> (0 <= chain <= 2 ^ 53)%Z -> in_range t ->
  sign_mode m t (Some (KeyPairSign H (secp_sign_direct o nonce fuel) d)) chain = Ok out ->
  let fm := format_of m t in
  let c := Z.to_N chain in
  let pre := spec_preimage fm (norm t) c in
  exists v r s,
    SM.SignDirect o nonce fuel (Z.of_N d) (H pre) = Ok {| SM.sV := v; SM.sR := r; SM.sS := s |} /\
    (1 <= r < n o)%Z /\ (1 <= s < n o)%Z /\ (2 * s <= n o)%Z /\
    ecdsa_verify o (pub o (Z.of_N d)) (SM.hash_to_z (H pre)) r s = true /\
    (v_legacy v ->
       out = spec_signed fm (norm t) c (y_of v) (Z.to_N r) (Z.to_N s) /\
       RecoverRawTransaction H (secp_RecoverDirect o H) out chain
       = Ok (secp_address o H d, recovered_tx fm (norm t), pre)).
Proof. exact sign_recover_secp_in_range. Qed.
Print Assumptions C01_sign_recover_end_to_end_in_range.

(* 9. Consistency of the bridge to C05: pkg/secp256k1's UpdateEIP155 / UpdateEIP2930 are modelled both
      here (on triples, Int64() as the two's-complement wrap) and in Secp/Model.v (on a record, Int64()
      as math/big computes it); the two models are the same functions for every integer V, R, S. *)
Theorem C01_V_conventions_models_agree :
  forall (sg : sigdata) (chain : Z),
  untriple (UpdateEIP2930 sg) = SM.UpdateEIP2930 (untriple sg) /\
  untriple (UpdateEIP155 sg chain) = SM.UpdateEIP155 (untriple sg) chain.
Proof. intros sg chain. split; [apply UpdateEIP2930_models_agree|apply UpdateEIP155_models_agree]. Qed.
Print Assumptions C01_V_conventions_models_agree.

(* non-vacuity: an EIP-155 transfer on chain 2^53 with a constant signer meets every hypothesis of
   theorem 1, and the result is the 9-element list with V = 2^54 + 35 + 1 *)
Example C01_nonvacuous :
  let t := mkTx (Some 9%Z) (Some 20000000000%Z) None None (Some 21000%Z) (Some (repeat x35 20)) (Some 1000000000000000000%Z) None in
  let f : signer := fun _ => Ok (28%Z, 5%Z, 6%Z) in
  let chain := (2 ^ 53)%Z in
  short (sp_data (payload_of Auto t chain)) /\
  format_of Auto t = Eip155 /\
  exists out, sign_mode Auto t (Some f) chain = Ok out /\ short out /\
    out = spec_signed Eip155 (norm t) (2 ^ 53) 1 5 6.
Proof.
  cbv zeta. split; [unfold short; vm_compute; reflexivity|]. split; [reflexivity|].
  eexists. split; [vm_compute; reflexivity|]. split; [unfold short; vm_compute; reflexivity|].
  vm_compute. reflexivity.
Qed.

(* non-vacuity of theorems 4 and 5: a contract creation with nil fields on chain 2^53 in type 0x02;
   every hypothesis holds and the recovered transaction has nonce 0, empty data, no destination *)
Example C01_nonvacuous_recover :
  let t := mkTx None None (Some 1%Z) None (Some 21000%Z) None None None in
  let sd : N -> bytes -> res sigdata := fun _ _ => Ok (28%Z, 5%Z, 6%Z) in
  let RD : sigdata -> bytes -> Z -> res bytes := fun _ _ _ => Ok (repeat x11 20) in
  let chain := (2 ^ 53)%Z in
  to_ok t = true /\ chain_ok chain /\
  exists out, sign_mode Auto t (Some (KeyPairSign (fun b => b) sd 7%N)) chain = Ok out /\
    (N.of_nat (length out) <= maxInt32)%N /\
    RecoverRawTransaction (fun b => b) RD out chain
    = Ok (repeat x11 20,
          mkTx (Some 0%Z) None (Some 1%Z) (Some 0%Z) (Some 21000%Z) None (Some 0%Z) (Some []),
          sp_data (SignaturePayloadEIP1559 t chain)).
Proof.
  cbv zeta. split; [reflexivity|]. split; [unfold chain_ok; lia|].
  eexists. split; [vm_compute; reflexivity|]. split; [vm_compute; discriminate|].
  vm_compute. reflexivity.
Qed.

(* non-vacuity of theorem 7: the 13-element toy group of Crypto/Ecdsa.v satisfies the laws; with a
   32-byte "hash", key 5 and nonce 2 an EIP-155 signing on chain 2^53 succeeds with a 27/28 V, so every
   hypothesis (and the V condition of the conclusion) is met *)
Definition toyH (x : bytes) : bytes := firstn 32 (x ++ repeat x00 32).
Lemma toyH_len x : length (toyH x) = 32%nat.
Proof. unfold toyH. rewrite firstn_length, app_length, repeat_length. apply Nat.min_l. apply Nat.le_add_l. Qed.

Example C01_nonvacuous_end_to_end :
  let t := mkTx (Some 9%Z) (Some 20000000000%Z) None None (Some 21000%Z) (Some (repeat x35 20)) (Some 1%Z) None in
  let nonce : Z -> bytes -> nat -> Z := fun _ _ _ => 2%Z in
  let chain := (2 ^ 53)%Z in
  laws Toy.ops /\ (n Toy.ops < SM.two256)%Z /\ (1 <= Z.of_N 5 < n Toy.ops)%Z /\ to_ok t = true /\ in_range t /\
  short (sp_data (payload_of LegacyEIP155 t chain)) /\
  exists out v r s,
    sign_mode LegacyEIP155 t (Some (KeyPairSign toyH (secp_sign_direct Toy.ops nonce 1) 5%N)) chain = Ok out /\
    (N.of_nat (length out) <= maxInt32)%N /\
    SM.SignDirect Toy.ops nonce 1 5 (toyH (spec_preimage Eip155 (norm t) (2 ^ 53))) = Ok {| SM.sV := v; SM.sR := r; SM.sS := s |} /\
    v_legacy v.
Proof.
  cbv zeta. split; [exact Toy.toy_laws|]. split; [reflexivity|]. split; [vm_compute; split; congruence|].
  split; [reflexivity|].
  split; [unfold in_range, below256, two256, data_max; cbn; repeat split; lia|].
  split; [unfold short; vm_compute; reflexivity|].
  eexists _, _, _, _. split; [vm_compute; reflexivity|]. split; [vm_compute; discriminate|].
  split; [vm_compute; reflexivity|]. vm_compute. auto.
Qed.

(* Tie of the hand-written constants of Tx/Model.v (transaction type byte) and of Rlp/Model.v (the
   encoder the signing model calls) to the source.  Gen/Consts.v is regenerated on every run by the
   translator harness/cmd/gen_consts from the `const` declarations of pkg/ethsigner/transaction.go
   and pkg/rlp/decode.go as they are NOW.  The models keep their own literals; this theorem is what
   breaks when the type byte, an RLP prefix or the 55-byte threshold changes in the source. *)
From FFS Require Gen.Consts.
Theorem C01_source_constants :
  Gen.Consts.ethsigner_TransactionType1559 = Z.of_N (b2n Tx.Model.TransactionType1559) /\
  Gen.Consts.rlp_shortString = Z.of_N Rlp.Model.shortString /\
  Gen.Consts.rlp_longString = Z.of_N Rlp.Model.longString /\
  Gen.Consts.rlp_shortList = Z.of_N Rlp.Model.shortList /\
  Gen.Consts.rlp_longList = Z.of_N Rlp.Model.longList /\
  Gen.Consts.rlp_shortToLong = Z.of_N Rlp.Model.shortToLong /\
  Gen.Consts.rlp_maxInt32 = Z.of_N Rlp.Model.maxInt32.
Proof. vm_compute. repeat split; reflexivity. Qed.
Print Assumptions C01_source_constants.

(* ---------- round 5: the remaining guards ---------- *)
From FFS Require Import Tx.SignProofs5.

(* 10. Theorem 1 with ONE size guard per outcome.  Theorem 1 has two: "payload shorter than 2^64"
       up front and "output shorter than 2^64" for the signed bytes.  The exact length of an RLP
       list encoding ([C01_encode_length_exact]) shows that the returned bytes are at least as long
       as the payload, so when the signer answers a 27/28 signature the single guard [short out]
       gives both conclusions: what the signer was asked to sign ([pd], the model's payload) is the
       prescribed preimage, and the bytes are the prescribed signed transaction.  When the signer
       fails there are no returned bytes: its error is the result whatever the sizes, and [pd] is
       the preimage when [pd] itself is shorter than 2^64 (first conjunct; the only guard there). *)
Theorem C01_wire_format_one_guard :
  forall (m : mode) (t : tx) (f : signer) (chain : Z),
  (0 <= chain)%Z ->
  let fm := format_of m t in
  let c := Z.to_N chain in
  let pre := spec_preimage fm (norm t) c in
  let pd := sp_data (payload_of m t chain) in
  (short pd -> pd = pre) /\
  match f pd with
  | Ok (v, r, s) =>
      exists out, sign_mode m t (Some f) chain = Ok out /\
        (v_legacy v -> short out ->
         pd = pre /\ out = spec_signed fm (norm t) c (y_of v) (Z.abs_N r) (Z.abs_N s))
  | Err e => sign_mode m t (Some f) chain = Err e
  | Panic => sign_mode m t (Some f) chain = Panic
  end.
Proof. exact sign_wire_format_one_guard. Qed.
Print Assumptions C01_wire_format_one_guard.

(* the length lemmas behind it: an RLP list encoding is exactly header + content, with the header
   length a function of the content length; and the returned bytes are at least as long as the
   signed payload *)
Theorem C01_encode_length_exact :
  (forall l : list item,
     length (encode (Lst l)) = (hdr_len (length (flat_map encode l)) + length (flat_map encode l))%nat) /\
  (forall (m : mode) (t : tx) (chain v r s : Z) (out : bytes),
     v_legacy v -> (0 <= chain)%Z -> finalize m t chain (v, r, s) = Ok out -> short out ->
     (length (sp_data (payload_of m t chain)) <= length out)%nat).
Proof. exact (conj enc_list_len_exact out_ge_payload). Qed.
Print Assumptions C01_encode_length_exact.

(* 11. Theorem 4 with guards on the INPUTS only: the transaction in the property's range
       ([in_range]: 20-byte destination, integer fields below 2^256 in magnitude, data of at most
       2^31-1024 bytes), 0 <= chain < 2^61, and a signer whose answer to the prescribed preimage is a
       27/28 signature with 0 <= R, S < 2^256.  Nothing is assumed about the output: signing
       succeeds, the bytes are the prescribed wire format, and recovery hands RecoverDirect the very
       (V, R, S) over H(preimage) and returns the same field values and the preimage. *)
Theorem C01_recover_sign_inputs :
  forall (H : bytes -> bytes) (RecoverDirect : sigdata -> bytes -> Z -> res bytes)
         (m : mode) (t : tx) (f : signer) (chain : Z) (v r s : Z),
  in_range t -> chain_ok chain ->
  let fm := format_of m t in
  let c := Z.to_N chain in
  let pre := spec_preimage fm (norm t) c in
  f pre = Ok (v, r, s) -> v_legacy v -> (0 <= r < two256)%Z -> (0 <= s < two256)%Z ->
  exists out,
    sign_mode m t (Some f) chain = Ok out /\
    out = spec_signed fm (norm t) c (y_of v) (Z.to_N r) (Z.to_N s) /\
    RecoverRawTransaction H RecoverDirect out chain =
      do a <- RecoverDirect (v_seen fm v, r, s) (H pre) chain;
      Ok (a, recovered_tx fm (norm t), pre).
Proof. exact recover_sign_inputs. Qed.
Print Assumptions C01_recover_sign_inputs.

(* 12. The chain ids of the property's quantifier, 0 <= chain <= 2^53, are below 2^61: theorem 11 for
       exactly the quantifier of the property (all four modes, fields below 2^256, chain id in
       [0, 2^53]) - no guard beyond it except the bound on the data length and on the R, S an
       arbitrary signer may answer (a secp256k1 signer answers below n < 2^256: theorem 8). *)
Theorem C01_recover_sign_in_quantifier :
  forall (H : bytes -> bytes) (RecoverDirect : sigdata -> bytes -> Z -> res bytes)
         (m : mode) (t : tx) (f : signer) (chain : Z) (v r s : Z),
  in_range t -> (0 <= chain <= 2 ^ 53)%Z ->
  let fm := format_of m t in
  let c := Z.to_N chain in
  let pre := spec_preimage fm (norm t) c in
  f pre = Ok (v, r, s) -> v_legacy v -> (0 <= r < two256)%Z -> (0 <= s < two256)%Z ->
  exists out,
    sign_mode m t (Some f) chain = Ok out /\
    out = spec_signed fm (norm t) c (y_of v) (Z.to_N r) (Z.to_N s) /\
    RecoverRawTransaction H RecoverDirect out chain =
      do a <- RecoverDirect (v_seen fm v, r, s) (H pre) chain;
      Ok (a, recovered_tx fm (norm t), pre).
Proof. exact recover_sign_in_quantifier. Qed.
Print Assumptions C01_recover_sign_in_quantifier.

(* non-vacuity of theorems 10-12: the EIP-155 transfer of C01_nonvacuous on chain 2^53 with the
   constant signer (28, 5, 6) meets every hypothesis of theorem 12 (hence of 11), the returned bytes
   are short (the single guard of theorem 10), as long as the payload (here exactly: the bound of
   C01_encode_length_exact is tight), and recovery returns what
   the RecoverDirect parameter answers *)
Example C01_nonvacuous_inputs_only :
  let t := mkTx (Some 9%Z) (Some 20000000000%Z) None None (Some 21000%Z) (Some (repeat x35 20)) (Some 1000000000000000000%Z) None in
  let f : signer := fun _ => Ok (28%Z, 5%Z, 6%Z) in
  let RD : sigdata -> bytes -> Z -> res bytes := fun _ _ _ => Ok (repeat x11 20) in
  let chain := (2 ^ 53)%Z in
  in_range t /\ (0 <= chain <= 2 ^ 53)%Z /\ chain_ok chain /\ v_legacy 28 /\ (0 <= 5 < two256)%Z /\ (0 <= 6 < two256)%Z /\
  exists out, sign_mode Auto t (Some f) chain = Ok out /\ short out /\
    (length (sp_data (payload_of Auto t chain)) <= length out)%nat /\
    RecoverRawTransaction (fun b => b) RD out chain
    = Ok (repeat x11 20, recovered_tx Eip155 (norm t), spec_preimage Eip155 (norm t) (2 ^ 53)).
Proof.
  cbv zeta.
  split; [unfold in_range, below256, two256, data_max; cbn; repeat split; lia|].
  split; [lia|]. split; [unfold chain_ok; lia|]. split; [right; reflexivity|].
  split; [unfold two256; lia|]. split; [unfold two256; lia|].
  eexists. split; [vm_compute; reflexivity|]. split; [unfold short; vm_compute; reflexivity|].
  split; [apply Nat.leb_le; vm_compute; reflexivity|]. vm_compute. reflexivity.
Qed.
