(* C01 — signed transactions are valid Ethereum wire format and recover to the signer.
   Statements only; proofs live in Tx/SignProofs*.v.

   Reading guide.  [tx] is the Go struct (nil pointers = None, big.Int = Z), [norm t] its field tuple
   as the EIPs see it (nil integer = 0, nil data = empty, magnitudes), [spec_preimage] / [spec_signed]
   are written from the Yellow Paper, EIP-155, EIP-2718 and EIP-1559 over the Yellow-Paper RLP.
   The secp256k1.Signer the caller passes is an arbitrary function [f] from the message to
   (V, R, S) or an error.  [short b] says that a byte string is shorter than 2^64 bytes (every Go
   slice is); it is the only size guard: field values, data length and chain id are unbounded. *)
From Coq Require Import List NArith ZArith Lia Bool Arith.
From Coq Require Import Init.Byte.
From FFS Require Import Base.Res Base.Bytes Rlp.Model Rlp.Spec Rlp.Proofs.
From FFS Require Import Tx.Model Tx.Spec Tx.Norm Tx.SignProofs.
Import ListNotations.

(* 1. Wire format.  In every mode, for every transaction, every chain id >= 0 and every signer: the
      signer is asked to sign exactly the prescribed preimage (this is also what SignaturePayload*
      returns); an error of the signer is the result; and a signature (V in {27,28}, R, S) it answers
      is returned inside exactly the bytes the specifications prescribe for the format, with
      V = 27+y, 35+2*chain+y or y respectively. *)
Theorem C01_wire_format :
  forall (m : mode) (t : tx) (f : signer) (chain : Z),
  (0 <= chain)%Z ->
  let fm := format_of m t in
  let c := Z.to_N chain in
  let pre := spec_preimage fm (norm t) c in
  short (sp_data (payload_of m t chain)) ->
  sp_data (payload_of m t chain) = pre /\
  match f pre with
  | Ok (v, r, s) =>
      exists out, sign_mode m t (Some f) chain = Ok out /\
        (v_legacy v -> short out -> out = spec_signed fm (norm t) c (y_of v) (Z.abs_N r) (Z.abs_N s))
  | Err e => sign_mode m t (Some f) chain = Err e
  | Panic => sign_mode m t (Some f) chain = Panic
  end.
Proof. exact sign_wire_format. Qed.
Print Assumptions C01_wire_format.

(* 2. Automatic mode: EIP-1559 exactly when one of the two fee-cap fields is set and positive,
      EIP-155 otherwise — for Sign and for SignaturePayload alike, whatever the signer. *)
Theorem C01_auto_mode :
  forall (t : tx) (sg : option signer) (chain : Z),
  (Sign t sg chain = if wants1559 t then SignEIP1559 t sg chain else SignLegacyEIP155 t sg chain) /\
  (SignaturePayload t chain
   = if wants1559 t then SignaturePayloadEIP1559 t chain else SignaturePayloadLegacyEIP155 t chain) /\
  (wants1559 t = true <->
   (exists z, tx_maxPrio t = Some z /\ (0 < z)%Z) \/ (exists z, tx_maxFee t = Some z /\ (0 < z)%Z)).
Proof.
  intros t sg chain. split; [apply auto_mode|]. split; [apply auto_payload|apply wants1559_iff].
Qed.
Print Assumptions C01_auto_mode.

(* 3. Purity: the caller's transaction after the call is the one passed in, a nil signer is an error
      in every mode, and the result depends on the signer only through its answer to the one message
      it is asked to sign (so signing is as deterministic as the signer is). *)
Theorem C01_pure :
  forall (m : mode) (t : tx) (chain : Z),
  (forall sg, snd (sign_call m t sg chain) = t) /\
  sign_mode m t None chain = Err EInvalidSigner /\
  (forall f g : signer,
     f (sp_data (payload_of m t chain)) = g (sp_data (payload_of m t chain)) ->
     sign_mode m t (Some f) chain = sign_mode m t (Some g) chain).
Proof.
  intros m t chain. split; [intros sg; apply sign_pure|]. split; [apply sign_mode_nil|].
  intros f g; apply sign_depends_on_one_answer.
Qed.
Print Assumptions C01_pure.

(* non-vacuity: an EIP-155 transfer on chain 2^53 with a constant signer meets every hypothesis of
   theorem 1, and the result is the 9-element list with V = 2^54 + 35 + 1 *)
Example C01_nonvacuous :
  let t := mkTx (Some 9%Z) (Some 20000000000%Z) None None (Some 21000%Z) (Some (repeat x35 20)) (Some 1000000000000000000%Z) None in
  let f : signer := fun _ => Ok (28%Z, 5%Z, 6%Z) in
  let chain := (2 ^ 53)%Z in
  short (sp_data (payload_of Auto t chain)) /\
  format_of Auto t = Eip155 /\
  exists out, sign_mode Auto t (Some f) chain = Ok out /\ short out /\
    out = spec_signed Eip155 (norm t) (2 ^ 53) 1 5 6.
Proof.
  cbv zeta. split; [unfold short; vm_compute; reflexivity|]. split; [reflexivity|].
  eexists. split; [vm_compute; reflexivity|]. split; [unfold short; vm_compute; reflexivity|].
  vm_compute. reflexivity.
Qed.
