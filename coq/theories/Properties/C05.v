(* C05 — secp256k1 sign/recover are mutually consistent under every V convention.
   Statements only; proofs live in Crypto/Ecdsa.v and Secp/Proofs.v.

   Every theorem is about the Gallina model of pkg/secp256k1 (Secp/Model.v) and holds
     for every group [o] satisfying Ecdsa.laws whose order fits 32 bytes   (secp256k1: trusted fact),
     for every hash function [H] with 32-byte output                         (Keccak-256),
     for every nonce stream [nonce] and retry bound [fuel]                   (btcec's RFC 6979),
     for every private key 1 <= d < n, every message / digest (any byte string), every chain id in
     [0, 2^53] and every integer V.  Nothing is bounded. *)
From Coq Require Import ZArith List Bool Lia.
From Coq Require Import Init.Byte.
From FFS Require Import Base.Res Base.Bytes Base.Keccak Crypto.Ecdsa Secp.Model Secp.Spec Secp.Proofs Secp.ProofsChain.
From FFS Require Import Secp.ProofsReferee Secp.ToyOverflow.
From FFS Require Import Secp.ProofsWave6.
Import ListNotations.
Local Open Scope Z_scope.

(* 0. The ECDSA core over the abstract group: recovery from a signature returns the signer's key. *)
Theorem C05_ecdsa_recover_sign :
  forall o, laws o -> forall d z k sg,
    d mod n o <> 0 -> ecdsa_sign o d z k = Some sg -> es_ovf sg = false ->
    ecdsa_recover o z (es_r sg) (es_s sg) (es_odd sg) = Some (pub o d).
Proof. exact recover_sign. Qed.
Print Assumptions C05_ecdsa_recover_sign.

(* 1. Shape of a signature: V in 27..30, R and S in [1, n-1], S in the lower half, and the signature
      verifies against the key.  (Sign = SignDirect on H message, by definition.) *)
Theorem C05_sign_shape :
  forall o, laws o -> n o < two256 -> forall nonce fuel d msg sg,
    SignDirect o nonce fuel d msg = Ok sg ->
    (sV sg = 27 \/ sV sg = 28 \/ sV sg = 29 \/ sV sg = 30) /\
    1 <= sR sg < n o /\ 1 <= sS sg < n o /\ 2 * sS sg <= n o /\
    ecdsa_verify o (pub o d) (hash_to_z msg) (sR sg) (sS sg) = true.
Proof. intros; eapply SignDirect_shape; eauto. Qed.
Print Assumptions C05_sign_shape.

(* 1'. "V in {27,28}" is PARTIAL: it holds exactly when no nonce point has an x coordinate >= n (for
      secp256k1 a fraction 2^-128 of the points; btcec then emits recovery code 2/3, i.e. V = 29/30,
      and Recover rejects that V).  The hypothesis cannot be discharged from group laws. *)
Theorem C05_sign_V_27_28_partial :
  forall o, laws o -> n o < two256 -> forall nonce fuel d msg sg,
    (forall j, xcoord o (smul o (nonce d msg j) (G o)) < n o) ->
    SignDirect o nonce fuel d msg = Ok sg -> sV sg = 27 \/ sV sg = 28.
Proof. intros; eapply SignDirect_V_27_28; eauto. Qed.
Print Assumptions C05_sign_V_27_28_partial.

(* 2. Recovery returns exactly the signer's address under all three conventions: V as produced
      (27/28, with any chain id), after UpdateEIP2930 (0/1), after UpdateEIP155 c (35 + 2c + parity)
      with the same chain id c, for every 0 <= c <= 2^53. *)
Theorem C05_recover_all_conventions :
  forall o, laws o -> n o < two256 -> forall H, (forall x, length (H x) = 32%nat) ->
  forall nonce fuel d msg sg c c',
    1 <= d < n o -> 0 <= c <= 2 ^ 53 -> is_int64 c' = true ->
    SignDirect o nonce fuel d msg = Ok sg -> (sV sg = 27 \/ sV sg = 28) ->
    RecoverDirect o H sg msg c' = Ok (addr_of o H (pub o d)) /\
    RecoverDirect o H (UpdateEIP2930 sg) msg c' = Ok (addr_of o H (pub o d)) /\
    RecoverDirect o H (UpdateEIP155 sg c) msg c = Ok (addr_of o H (pub o d)) /\
    sV (UpdateEIP2930 sg) = spec_V YParity c (sV sg - 27) /\
    sV (UpdateEIP155 sg c) = spec_V Eip155 c (sV sg - 27).
Proof. intros; eapply recover_all_conventions; eauto. Qed.
Print Assumptions C05_recover_all_conventions.

(* 2'. The same through the hashing entry points. *)
Theorem C05_sign_recover_hashing :
  forall o, laws o -> n o < two256 -> forall H, (forall x, length (H x) = 32%nat) ->
  forall nonce fuel d message sg c,
    1 <= d < n o -> 0 <= c <= 2 ^ 53 ->
    Sign o H nonce fuel d message = Ok sg -> (sV sg = 27 \/ sV sg = 28) ->
    Recover o H sg message c = Ok (addr_of o H (pub o d)) /\
    Recover o H (UpdateEIP2930 sg) message c = Ok (addr_of o H (pub o d)) /\
    Recover o H (UpdateEIP155 sg c) message c = Ok (addr_of o H (pub o d)).
Proof.
  intros o L Hn H HH nonce fuel d message sg c Hd Hc E HV.
  assert (Hc' : is_int64 c = true).
  { apply is_int64_iff. change (2 ^ 53) with 9007199254740992 in Hc. unfold two63. split; [|apply Z.le_lt_trans with 9007199254740992]; try apply Hc; try reflexivity. apply Z.le_trans with 0; [discriminate|apply Hc]. }
  destruct (recover_all_conventions o L Hn H HH nonce fuel d (H message) sg c c Hd Hc Hc' E HV) as (A & B & C & _).
  repeat split; assumption.
Qed.
Print Assumptions C05_sign_recover_hashing.

(* 2''. Stated on key pairs: the address stored in the KeyPair built from the key bytes is what
      recovery returns for that key's signatures. *)
Theorem C05_recover_is_keypair_address :
  forall o, laws o -> n o < two256 -> forall H, (forall x, length (H x) = 32%nat) ->
  forall nonce fuel b kp msg sg c,
    KeyPairFromBytes o H b = Ok kp -> 1 <= kp_priv o kp < n o -> 0 <= c <= 2 ^ 53 ->
    SignDirect o nonce fuel (kp_priv o kp) msg = Ok sg -> (sV sg = 27 \/ sV sg = 28) ->
    RecoverDirect o H sg msg c = Ok (kp_addr o kp) /\
    RecoverDirect o H (UpdateEIP2930 sg) msg c = Ok (kp_addr o kp) /\
    RecoverDirect o H (UpdateEIP155 sg c) msg c = Ok (kp_addr o kp).
Proof.
  intros o L Hn H HH nonce fuel b kp msg sg c EK Hd Hc E HV.
  destruct (KeyPairFromBytes_address o H HH b) as (kp' & EK' & _ & B & C & _).
  rewrite EK in EK'. injection EK' as <-.
  assert (A : kp_addr o kp = addr_of o H (pub o (kp_priv o kp))) by (rewrite C, B; reflexivity).
  assert (Hc' : is_int64 c = true).
  { apply is_int64_iff. change (2 ^ 53) with 9007199254740992 in Hc. unfold two63. lia. }
  destruct (recover_all_conventions o L Hn H HH nonce fuel (kp_priv o kp) msg sg c c Hd Hc Hc' E HV) as (R1 & R2 & R3 & _).
  rewrite A. auto.
Qed.
Print Assumptions C05_recover_is_keypair_address.

(* 3. Which V are accepted, exactly: getVNormalized (hence RecoverDirect) gets past V normalisation
      iff [v_norm V c] is defined -- V fits int64 and is 0, 1, 27, 28 or has
      (V - 8 - 2c) mod 256 in {27, 28}; it never panics. *)
Theorem C05_V_accepted_exactly :
  forall sg c, getVNormalized sg c = match v_norm (sV sg) c with Some b => Ok b | None => Err EInvalidV end.
Proof. exact getVNormalized_spec. Qed.
Print Assumptions C05_V_accepted_exactly.

(* 3'. Every other V in Z is an error -- PARTIAL: outside the six legitimate values AND outside the
      region of known finding C05/v-truncated-to-byte ([v_alias]: V within int64, congruent mod 256
      to 35 + 2c + p but different from it). *)
Theorem C05_other_V_rejected_partial :
  forall o H, (forall x, length (H x) = 32%nat) -> forall sg msg c,
    (forall p, (p = 0 \/ p = 1) -> ~ legit_V p c (sV sg)) -> ~ v_alias (sV sg) c ->
    RecoverDirect o H sg msg c = Err EInvalidV.
Proof. exact other_V_rejected_partial. Qed.
Print Assumptions C05_other_V_rejected_partial.

(* 3''. The full clause "any other V never yields the signer's address" is REFUTED for the model of
      the code as it is (the package's own test depends on this behaviour, so it is not repaired): for
      every genuine signature and chain id, every V = 35 + 2c + parity + 256 j (j <> 0) inside int64
      that is not 0/1/27/28 is none of the legitimate values and recovers the signer's address. *)
Theorem C05_other_V_refuted :
  forall o, laws o -> n o < two256 -> forall H, (forall x, length (H x) = 32%nat) ->
  forall nonce fuel d msg sg c j,
    1 <= d < n o -> 0 <= c <= 2 ^ 53 -> SignDirect o nonce fuel d msg = Ok sg -> (sV sg = 27 \/ sV sg = 28) ->
    j <> 0 -> is_int64 (35 + 2 * c + (sV sg - 27) + 256 * j) = true ->
    let V := 35 + 2 * c + (sV sg - 27) + 256 * j in
    V <> 0 -> V <> 1 -> V <> 27 -> V <> 28 ->
    (forall p, (p = 0 \/ p = 1) -> ~ legit_V p c V) /\
    RecoverDirect o H (with_V sg V) msg c = Ok (addr_of o H (pub o d)).
Proof. intros; eapply other_V_refuted; eauto. Qed.
Print Assumptions C05_other_V_refuted.

(* 3'''. The EIP-155 form of V presented with ANOTHER chain id (round 3): V = 35 + 2c + parity is an
      error for every chain id c' in [0, 2^53] that is not congruent to c modulo 128 -- whatever R, S
      and the message are -- and passes V normalisation (as parity's 27/28) exactly for the congruent
      ones, which is the region of known finding C05/v-truncated-to-byte restricted to chain ids. *)
Theorem C05_eip155_wrong_chain :
  forall o H, (forall x, length (H x) = 32%nat) -> forall sg msg p c c',
    (p = 0 \/ p = 1) -> 0 <= c <= 2 ^ 53 -> 0 <= c' <= 2 ^ 53 -> sV sg = 35 + 2 * c + p ->
    ((c - c') mod 128 <> 0 -> RecoverDirect o H sg msg c' = Err EInvalidV) /\
    ((c - c') mod 128 = 0 -> getVNormalized sg c' = Ok (27 + p)).
Proof. exact eip155_wrong_chain. Qed.
Print Assumptions C05_eip155_wrong_chain.

(* 4. Tampering.  [other_key o H d a]: a is the address of a public key different from the signer's,
      whose 64-byte encoding differs from the signer's -- so a equals the signer's address only if the
      last 20 bytes of H collide on these two exhibited inputs. *)

(* 4a. V of the opposite parity, in whichever convention (any V that normalises to the other value). *)
Theorem C05_tamper_flip_parity :
  forall o, laws o -> n o < two256 -> forall H, (forall x, length (H x) = 32%nat) ->
  forall nonce fuel d msg sg V c a,
    1 <= d < n o -> SignDirect o nonce fuel d msg = Ok sg -> (sV sg = 27 \/ sV sg = 28) ->
    v_norm V c = Some (55 - sV sg) ->
    RecoverDirect o H (with_V sg V) msg c = Ok a -> other_key o H d a.
Proof.
  intros; eapply tamper_flip_parity; eauto.
Qed.
Print Assumptions C05_tamper_flip_parity.

(* 4b. S altered to any other integer (V in any accepted form, R and the message unchanged). *)
Theorem C05_tamper_S :
  forall o, laws o -> n o < two256 -> forall H, (forall x, length (H x) = 32%nat) ->
  forall nonce fuel d msg sg s' V c a,
    1 <= d < n o -> SignDirect o nonce fuel d msg = Ok sg -> (sV sg = 27 \/ sV sg = 28) ->
    s' <> sS sg -> v_norm V c = Some (sV sg) ->
    RecoverDirect o H {| sV := V; sR := sR sg; sS := s' |} msg c = Ok a -> other_key o H d a.
Proof.
  intros; eapply tamper_S; eauto.
Qed.
Print Assumptions C05_tamper_S.

(* 4c. A different message: any digest not congruent to the signed one modulo n.  (Two 32-byte digests
      congruent mod n are the same ECDSA message; that is ECDSA, not a defect.) *)
Theorem C05_tamper_message :
  forall o, laws o -> n o < two256 -> forall H, (forall x, length (H x) = 32%nat) ->
  forall nonce fuel d msg sg msg' V c a,
    1 <= d < n o -> SignDirect o nonce fuel d msg = Ok sg -> (sV sg = 27 \/ sV sg = 28) ->
    hash_to_z msg' mod n o <> hash_to_z msg mod n o -> v_norm V c = Some (sV sg) ->
    RecoverDirect o H (with_V sg V) msg' c = Ok a -> other_key o H d a.
Proof.
  intros; eapply tamper_message; eauto.
Qed.
Print Assumptions C05_tamper_message.

(* 4d. R altered -- PARTIAL.  "Never the signer" is not a consequence of the group laws (see
      C05_tamper_R_not_algebraic below: in a group satisfying the laws an altered R does recover the
      signer).  Proved: if an altered R still yields the signer's key, then (R', S) is a second valid
      signature of the same digest under that key -- excluded for secp256k1 only by the hardness of
      the discrete logarithm.  The correspondence run exercises R+1 and swapped R/S. *)
Theorem C05_tamper_R_partial :
  forall o, laws o -> n o < two256 -> forall H, (forall x, length (H x) = 32%nat) ->
  forall d msg s r' V c a,
    1 <= d < n o ->
    RecoverDirect o H {| sV := V; sR := r'; sS := s |} msg c = Ok a ->
    other_key o H d a \/ ecdsa_verify o (pub o d) (hash_to_z msg) r' s = true.
Proof.
  intros o L Hn H HH d msg s r' V c a Hd E.
  destruct (RecoverDirect_ok o L H HH _ _ _ _ E) as (vB & Q & _ & _ & ER & HQ & ->). cbn [sV sR sS] in ER.
  destruct (generated o L Q) as [q ->]. destruct (Z.eq_dec (q mod n o) (d mod n o)) as [Eq|Nq].
  - right. apply (smulG_eq o L) in Eq. rewrite Eq in ER. exact (recover_sound o L _ _ _ _ _ ER).
  - left. apply (other_key_intro o L H); auto. intros Eq. apply Nq. apply (smulG_eq o L). exact Eq.
Qed.
Print Assumptions C05_tamper_R_partial.

Theorem C05_tamper_R_not_algebraic :
  exists o, laws o /\ exists d z k sg r',
    1 <= d < n o /\ ecdsa_sign o d z k = Some sg /\ es_ovf sg = false /\ r' <> es_r sg /\
    ecdsa_recover o z r' (es_s sg) (es_odd sg) = Some (pub o d).
Proof.
  exists Toy.ops. split; [exact Toy.toy_laws|].
  destruct Toy.toy_altered_R_recovers_signer as (sg & E & Hr & Hov & R).
  exists 5, 7, 3, sg, 4. split; [split; [discriminate|reflexivity]|]. split; [exact E|]. split; [exact Hov|].
  split; [rewrite Hr; discriminate|exact R].
Qed.
Print Assumptions C05_tamper_R_not_algebraic.

(* 4e. Recorded so that it is not mistaken for a defect: altering S and the parity together
      (S -> n - S, V flipped) is ECDSA malleability and does recover the signer. *)
Theorem C05_malleable_twin :
  forall o, laws o -> forall d z k sg,
    d mod n o <> 0 -> ecdsa_sign o d z k = Some sg -> es_ovf sg = false ->
    ecdsa_recover o z (es_r sg) (n o - es_s sg) (negb (es_odd sg)) = Some (pub o d).
Proof. exact recover_malleable_twin. Qed.
Print Assumptions C05_malleable_twin.

(* 5. Recovery is total (an error, never a panic) for every integer V, R, S, every message and chain id. *)
Theorem C05_recover_total :
  forall o H, (forall x, length (H x) = 32%nat) -> forall sg msg c,
    RecoverDirect o H sg msg c <> Panic.
Proof. exact RecoverDirect_total. Qed.
Print Assumptions C05_recover_total.

(* 5'. Signing is total as well: the 65-byte compact signature is always unpacked within bounds. *)
Theorem C05_sign_total :
  forall o H nonce fuel d msg,
    SignDirect o nonce fuel d msg <> Panic /\ Sign o H nonce fuel d msg <> Panic.
Proof. intros. split; apply SignDirect_total. Qed.
Print Assumptions C05_sign_total.

(* 6. The 65-byte compact form R(32) || S(32) || V(1) round-trips; any other length is rejected; every
      65-byte string decodes and re-encodes to itself; CompactRSV panics exactly when R or S needs
      more than 32 bytes. *)
Theorem C05_compact_roundtrip :
  (forall sg, 0 <= sR sg < two256 -> 0 <= sS sg < two256 -> 0 <= sV sg < 256 ->
     exists b, CompactRSV sg = Ok b /\ length b = 65%nat /\ DecodeCompactRSV b = Ok sg /\
               b = be_fixed 32 (sR sg) ++ be_fixed 32 (sS sg) ++ be_fixed 1 (sV sg)) /\
  (forall b, length b <> 65%nat -> DecodeCompactRSV b = Err ELen) /\
  (forall b, length b = 65%nat ->
     exists sg, DecodeCompactRSV b = Ok sg /\ 0 <= sR sg < two256 /\ 0 <= sS sg < two256 /\ 0 <= sV sg < 256 /\
                CompactRSV sg = Ok b) /\
  (forall sg, CompactRSV sg = Panic <-> (two256 <= Z.abs (sR sg) \/ two256 <= Z.abs (sS sg))).
Proof.
  split; [exact compact_roundtrip|]. split; [exact decode_compact_length|].
  split; [exact decode_compact_total|exact compact_panics_iff].
Qed.
Print Assumptions C05_compact_roundtrip.

(* 7. The address of a key pair is the last 20 bytes of H of the uncompressed public key without its
      0x04 byte, i.e. of X || Y (Spec.spec_address); the private scalar is the first 32 key bytes mod n. *)
Theorem C05_address :
  forall o, laws o -> forall H, (forall x, length (H x) = 32%nat) -> forall b,
    exists kp, KeyPairFromBytes o H b = Ok kp /\
      kp_priv o kp = of_be (firstn 32 b) mod n o /\ kp_pub o kp = pub o (kp_priv o kp) /\
      kp_addr o kp = lastn 20 (H (skipn 1 (SerializeUncompressed o (kp_pub o kp)))) /\
      kp_addr o kp = spec_address H (xcoord o (kp_pub o kp)) (ycoord o (kp_pub o kp)) /\
      length (kp_addr o kp) = 20%nat /\
      PublicKeyBytes o kp = Ok (skipn 1 (SerializeUncompressed o (kp_pub o kp))).
Proof.
  intros o L H HH b. destruct (KeyPairFromBytes_address o H HH b) as (kp & E & A & B & C & D & F).
  exists kp. repeat split; try assumption.
  rewrite C. change (lastn 20 (H (skipn 1 (SerializeUncompressed o (kp_pub o kp))))) with (addr_of o H (kp_pub o kp)).
  apply addr_of_spec. exact HH.
Qed.
Print Assumptions C05_address.

(* ---------------------------------------------------------------------------------------------
   Non-vacuity: the hypotheses are satisfiable.  Toy.ops (Z/13 with elliptic-curve-like
   coordinates) satisfies [laws] (Ecdsa.Toy.toy_laws); with a 32-byte "hash", key 5 and nonce 3 the
   model signs, the signature has V = 28 and recovers under the three conventions for chain id
   2^53, and a V in the aliasing region exists. *)
Definition toyH (x : bytes) : bytes := firstn 32 (x ++ repeat x00 32).
Lemma toyH_len x : length (toyH x) = 32%nat.
Proof. unfold toyH. rewrite firstn_length, app_length, repeat_length. apply Nat.min_l. apply Nat.le_add_l. Qed.

Definition toyNonce : Z -> bytes -> nat -> Z := fun _ _ _ => 3.

Example C05_nonvacuous :
  laws Toy.ops /\ n Toy.ops < two256 /\
  exists sg, SignDirect Toy.ops toyNonce 1 5 [x07] = Ok sg /\ sV sg = 28 /\
    (forall j, xcoord Toy.ops (smul Toy.ops (toyNonce 5 [x07] j) (G Toy.ops)) < n Toy.ops) /\
    RecoverDirect Toy.ops toyH (UpdateEIP155 sg (2 ^ 53)) [x07] (2 ^ 53) = Ok (addr_of Toy.ops toyH (pub Toy.ops 5)) /\
    v_alias (35 + 2 * 5 + 1 + 256) 5 /\ v_norm 29 0 = None.
Proof.
  split; [exact Toy.toy_laws|]. split; [reflexivity|].
  destruct (SignDirect Toy.ops toyNonce 1 5 [x07]) as [sg| |] eqn:E; try (vm_compute in E; discriminate).
  exists sg. split; [reflexivity|].
  assert (HV : sV sg = 28) by (vm_compute in E; injection E as <-; reflexivity).
  split; [exact HV|]. split; [intros j; vm_compute; reflexivity|]. split.
  - refine (proj1 (proj2 (proj2 (recover_all_conventions Toy.ops Toy.toy_laws eq_refl toyH toyH_len _ 1%nat 5 [x07] sg (2 ^ 53) 0 _ _ eq_refl E _)))).
    + split; [discriminate|reflexivity].
    + split; discriminate.
    + right; exact HV.
  - split; [|reflexivity]. unfold v_alias. repeat split; try discriminate. exists 1, 1. repeat split; auto. discriminate.
Qed.

(* the two cases of C05_eip155_wrong_chain both occur: chain 1's V = 38 is rejected for chain 2 and for
   chain 2^53, and accepted for chain 129 *)
Example C05_eip155_wrong_chain_nonvacuous :
  let sg := {| sV := 38; sR := 1; sS := 1 |} in
  RecoverDirect Toy.ops toyH sg [x07] 2 = Err EInvalidV /\
  RecoverDirect Toy.ops toyH sg [x07] (2 ^ 53) = Err EInvalidV /\
  getVNormalized sg 129 = Ok 28 /\ getVNormalized sg 1 = Ok 28.
Proof.
  cbv zeta. split; [|split; [|split]].
  - apply (proj1 (C05_eip155_wrong_chain Toy.ops toyH toyH_len {| sV := 38; sR := 1; sS := 1 |} [x07] 1 1 2 (or_intror eq_refl) ltac:(split; discriminate) ltac:(split; discriminate) eq_refl)). discriminate.
  - apply (proj1 (C05_eip155_wrong_chain Toy.ops toyH toyH_len {| sV := 38; sR := 1; sS := 1 |} [x07] 1 1 (2 ^ 53) (or_intror eq_refl) ltac:(split; discriminate) ltac:(split; discriminate) eq_refl)). discriminate.
  - apply (proj2 (C05_eip155_wrong_chain Toy.ops toyH toyH_len {| sV := 38; sR := 1; sS := 1 |} [x07] 1 1 129 (or_intror eq_refl) ltac:(split; discriminate) ltac:(split; discriminate) eq_refl)). reflexivity.
  - reflexivity.
Qed.


(* =============================================================================================
   Added in answer to the referee report (design/reviews/C05.md; proofs in Secp/ProofsReferee.v).
   Nothing above was changed.
   ============================================================================================= *)

(* 8. (I2) "Signing YIELDS a signature".  One attempt with nonce k succeeds exactly when k, r and s are
      non-zero mod n (no group law involved) ... *)
Theorem C05_sign_attempt_iff :
  forall o d z k,
    ecdsa_sign o d z k <> None <->
    (k mod n o <> 0 /\ xcoord o (smul o k (G o)) mod n o <> 0 /\
     (inv_n o k * (z + xcoord o (smul o k (G o)) mod n o * d)) mod n o <> 0).
Proof. exact sign_attempt_iff. Qed.
Print Assumptions C05_sign_attempt_iff.

(* ... and SignDirect answers Ok as soon as one of the first [fuel] nonces of the stream is usable.  [fuel]
      exists in the model only (btcec's loop is unbounded). *)
Theorem C05_sign_succeeds :
  forall o, laws o -> n o < two256 -> forall nonce fuel d msg,
    (exists j, (j < fuel)%nat /\ ecdsa_sign o d (hash_to_z msg) (nonce d msg j) <> None) ->
    exists sg, SignDirect o nonce fuel d msg = Ok sg.
Proof. exact SignDirect_succeeds. Qed.
Print Assumptions C05_sign_succeeds.

(* 8'. Named witness: the signature is the attempt of the FIRST usable nonce, unpacked. *)
Theorem C05_sign_first_nonce :
  forall o, laws o -> n o < two256 -> forall nonce fuel d msg sg,
    SignDirect o nonce fuel d msg = Ok sg ->
    exists j e, (j < fuel)%nat /\ ecdsa_sign o d (hash_to_z msg) (nonce d msg j) = Some e /\
                (forall i, (i < j)%nat -> ecdsa_sign o d (hash_to_z msg) (nonce d msg i) = None) /\
                sg = sig_of_esig e.
Proof. exact SignDirect_first_nonce. Qed.
Print Assumptions C05_sign_first_nonce.

(* 8''. The model's signing has exactly one error, the model-only EOutOfFuel, returned exactly when no
      nonce below the fuel is usable (where the Go code would keep looping). *)
Theorem C05_sign_err_only_fuel :
  forall o, laws o -> n o < two256 -> forall nonce fuel d msg e,
    SignDirect o nonce fuel d msg = Err e <->
    (e = EOutOfFuel /\ forall j, (j < fuel)%nat -> ecdsa_sign o d (hash_to_z msg) (nonce d msg j) = None).
Proof. exact SignDirect_err_only_fuel. Qed.
Print Assumptions C05_sign_err_only_fuel.

(* 9. (I7) V exactly, on the nonce actually used: V = 27 + 2*[x(kG) >= n] + oddness, hence V in {27,28}
      IFF the point of the nonce used has x < n.  The guard of C05_sign_V_27_28_partial quantified over
      all j : nat; here it is about the first usable nonce / the nonces below the fuel only. *)
Theorem C05_sign_V_exact :
  forall o, laws o -> n o < two256 -> forall nonce fuel d msg sg,
    SignDirect o nonce fuel d msg = Ok sg ->
    exists j e, (j < fuel)%nat /\ ecdsa_sign o d (hash_to_z msg) (nonce d msg j) = Some e /\
      (forall i, (i < j)%nat -> ecdsa_sign o d (hash_to_z msg) (nonce d msg i) = None) /\
      sV sg = 27 + (if n o <=? xcoord o (smul o (nonce d msg j) (G o)) then 2 else 0) + (if es_odd e then 1 else 0) /\
      ((sV sg = 27 \/ sV sg = 28) <-> xcoord o (smul o (nonce d msg j) (G o)) < n o).
Proof. exact SignDirect_V_exact. Qed.
Print Assumptions C05_sign_V_exact.

Theorem C05_sign_V_27_28_bounded_partial :
  forall o, laws o -> n o < two256 -> forall nonce fuel d msg sg,
    (forall j, (j < fuel)%nat -> xcoord o (smul o (nonce d msg j) (G o)) < n o) ->
    SignDirect o nonce fuel d msg = Ok sg -> sV sg = 27 \/ sV sg = 28.
Proof. exact SignDirect_V_27_28_bounded. Qed.
Print Assumptions C05_sign_V_27_28_bounded_partial.

(* 10. Clauses 1-4 and the codec as ONE statement about the call (no "= Ok sg" premise), under the two
      guards that remain: a usable nonce below the fuel (model only) and no overflow point among those
      nonces (the 2^-128 event). *)
Theorem C05_sign_recover_end_to_end_partial :
  forall o, laws o -> n o < two256 -> forall H, (forall x, length (H x) = 32%nat) ->
  forall nonce fuel d msg c,
    1 <= d < n o -> 0 <= c <= 2 ^ 53 ->
    (exists j, (j < fuel)%nat /\ ecdsa_sign o d (hash_to_z msg) (nonce d msg j) <> None) ->
    (forall j, (j < fuel)%nat -> xcoord o (smul o (nonce d msg j) (G o)) < n o) ->
    exists sg, SignDirect o nonce fuel d msg = Ok sg /\
      (sV sg = 27 \/ sV sg = 28) /\ 1 <= sR sg < n o /\ 1 <= sS sg < n o /\ 2 * sS sg <= n o /\
      ecdsa_verify o (pub o d) (hash_to_z msg) (sR sg) (sS sg) = true /\
      RecoverDirect o H sg msg c = Ok (addr_of o H (pub o d)) /\
      RecoverDirect o H (UpdateEIP2930 sg) msg c = Ok (addr_of o H (pub o d)) /\
      RecoverDirect o H (UpdateEIP155 sg c) msg c = Ok (addr_of o H (pub o d)) /\
      (exists b, CompactRSV sg = Ok b /\ length b = 65%nat /\ DecodeCompactRSV b = Ok sg).
Proof. exact sign_recover_end_to_end. Qed.
Print Assumptions C05_sign_recover_end_to_end_partial.

(* 10'. The same through Sign / Recover with the package's concrete hash (Base/Keccak.v: keccak256, whose
      32-byte length is proved, not assumed) in both places -- message digest and address derivation --
      and the address written with the independent Spec.spec_address. *)
Theorem C05_sign_recover_end_to_end_keccak_partial :
  forall o, laws o -> n o < two256 -> forall nonce fuel d message c,
    1 <= d < n o -> 0 <= c <= 2 ^ 53 ->
    (exists j, (j < fuel)%nat /\
       ecdsa_sign o d (hash_to_z (keccak256 message)) (nonce d (keccak256 message) j) <> None) ->
    (forall j, (j < fuel)%nat -> xcoord o (smul o (nonce d (keccak256 message) j) (G o)) < n o) ->
    exists sg, Sign o keccak256 nonce fuel d message = Ok sg /\
      (sV sg = 27 \/ sV sg = 28) /\ 1 <= sR sg < n o /\ 1 <= sS sg < n o /\ 2 * sS sg <= n o /\
      ecdsa_verify o (pub o d) (hash_to_z (keccak256 message)) (sR sg) (sS sg) = true /\
      Recover o keccak256 sg message c = Ok (spec_address keccak256 (xcoord o (pub o d)) (ycoord o (pub o d))) /\
      Recover o keccak256 (UpdateEIP2930 sg) message c = Ok (spec_address keccak256 (xcoord o (pub o d)) (ycoord o (pub o d))) /\
      Recover o keccak256 (UpdateEIP155 sg c) message c = Ok (spec_address keccak256 (xcoord o (pub o d)) (ycoord o (pub o d))) /\
      (exists b, CompactRSV sg = Ok b /\ length b = 65%nat /\ DecodeCompactRSV b = Ok sg).
Proof. exact sign_recover_end_to_end_keccak. Qed.
Print Assumptions C05_sign_recover_end_to_end_keccak_partial.

(* 11. (clause 6) The exact complement of C05_tamper_message: a digest CONGRUENT mod n to the signed one
      recovers the signer's address (z and z + n are both 32-byte digests when z < 2^256 - n; they are
      the same ECDSA message).  So "a different message never yields the signer" holds per digest class
      mod n only -- a property of ECDSA, recorded so that the narrowing is a theorem, not a comment. *)
Theorem C05_same_class_message_recovers :
  forall o, laws o -> n o < two256 -> forall H, (forall x, length (H x) = 32%nat) ->
  forall nonce fuel d msg sg msg' V c,
    1 <= d < n o -> SignDirect o nonce fuel d msg = Ok sg -> (sV sg = 27 \/ sV sg = 28) ->
    hash_to_z msg' mod n o = hash_to_z msg mod n o -> v_norm V c = Some (sV sg) ->
    RecoverDirect o H (with_V sg V) msg' c = Ok (addr_of o H (pub o d)).
Proof. exact same_class_message_recovers. Qed.
Print Assumptions C05_same_class_message_recovers.

(* 12. (I4) R altered, stated about a GENUINE signature and an ALTERATION (C05_tamper_R_partial mentions
      neither): the result is the address of another key, or two valid signatures (R, S) and (R', S) of
      the same digest under the signer's key with R' <> R are exhibited.  Still PARTIAL: the second
      alternative is not excluded by the group laws (C05_tamper_R_not_algebraic); for secp256k1 clause 8
      is carried by the differential run (R+1, R<->S) only. *)
Theorem C05_tamper_R_second_signature_partial :
  forall o, laws o -> n o < two256 -> forall H, (forall x, length (H x) = 32%nat) ->
  forall nonce fuel d msg sg r' V c a,
    1 <= d < n o -> SignDirect o nonce fuel d msg = Ok sg -> r' <> sR sg ->
    RecoverDirect o H {| sV := V; sR := r'; sS := sS sg |} msg c = Ok a ->
    other_key o H d a \/
    (1 <= r' < n o /\ r' <> sR sg /\
     ecdsa_verify o (pub o d) (hash_to_z msg) r' (sS sg) = true /\
     ecdsa_verify o (pub o d) (hash_to_z msg) (sR sg) (sS sg) = true).
Proof. exact tamper_R_second_signature. Qed.
Print Assumptions C05_tamper_R_second_signature_partial.

(* 13. (I6) The compact codec for EVERY V: what survives is the byte byte(V.Int64()); for V within int64
      that is V mod 256; a V >= 256 does not round-trip (the format has one byte for it). *)
Theorem C05_compact_any_V :
  (forall sg, 0 <= sR sg < two256 -> 0 <= sS sg < two256 ->
     exists b, CompactRSV sg = Ok b /\ length b = 65%nat /\
       DecodeCompactRSV b = Ok (with_V sg (to_byte (big_int64 (sV sg)))) /\
       b = be_fixed 32 (sR sg) ++ be_fixed 32 (sS sg) ++ be_fixed 1 (to_byte (big_int64 (sV sg)))) /\
  (forall sg, 0 <= sR sg < two256 -> 0 <= sS sg < two256 -> is_int64 (sV sg) = true ->
     exists b, CompactRSV sg = Ok b /\ DecodeCompactRSV b = Ok (with_V sg (sV sg mod 256))) /\
  (forall sg b sg', CompactRSV sg = Ok b -> DecodeCompactRSV b = Ok sg' -> 256 <= sV sg -> sg' <> sg).
Proof. split; [exact compact_any_V|]. split; [exact compact_int64_V|exact compact_loses_high_V]. Qed.
Print Assumptions C05_compact_any_V.

(* 13'. The EIP-155 form of V through the 65-byte form (V >= 256 from chain id 111 on).  Recovery of the
      decoded signature with the same chain id still returns the signer -- through the aliasing of known
      finding C05/v-truncated-to-byte, which is what the package's TestGeneratedKeyRoundTrip relies on -- ... *)
Theorem C05_compact_eip155_recovers :
  forall o, laws o -> n o < two256 -> forall H, (forall x, length (H x) = 32%nat) ->
  forall nonce fuel d msg sg c,
    1 <= d < n o -> 0 <= c <= 2 ^ 53 -> SignDirect o nonce fuel d msg = Ok sg -> (sV sg = 27 \/ sV sg = 28) ->
    let V := 35 + 2 * c + (sV sg - 27) in
    V mod 256 <> 0 -> V mod 256 <> 1 ->
    exists b, CompactRSV (UpdateEIP155 sg c) = Ok b /\
              DecodeCompactRSV b = Ok (with_V sg (V mod 256)) /\
              RecoverDirect o H (with_V sg (V mod 256)) msg c = Ok (addr_of o H (pub o d)).
Proof. exact compact_eip155_recovers. Qed.
Print Assumptions C05_compact_eip155_recovers.

(* 13''. ... EXCEPT when the surviving byte is 0 or 1 (chain ids = 110 mod 128 with odd parity, = 111 mod
      128 with even parity): it is then read as the yParity convention of the OPPOSITE parity, and the
      decoded signature never recovers the signer's key (it recovers another address or fails).
      Known finding C05/compact-eip155-byte-0-1 (the harness runs the witness on every run). *)
Theorem C05_compact_eip155_wrong_parity_refuted :
  forall o, laws o -> n o < two256 -> forall H, (forall x, length (H x) = 32%nat) ->
  forall nonce fuel d msg sg c a,
    1 <= d < n o -> 0 <= c <= 2 ^ 53 -> SignDirect o nonce fuel d msg = Ok sg -> (sV sg = 27 \/ sV sg = 28) ->
    let V := 35 + 2 * c + (sV sg - 27) in
    (V mod 256 = 0 \/ V mod 256 = 1) ->
    exists b, CompactRSV (UpdateEIP155 sg c) = Ok b /\
              DecodeCompactRSV b = Ok (with_V sg (V mod 256)) /\
              (RecoverDirect o H (with_V sg (V mod 256)) msg c = Ok a -> other_key o H d a).
Proof. exact compact_eip155_wrong_parity. Qed.
Print Assumptions C05_compact_eip155_wrong_parity_refuted.

(* ---------------------------------------------------------------------------------------------
   Non-vacuity of the additions and of the theorems the referee found without an Example (I8).
   Toy addresses are 19 zero bytes followed by the point's residue, so the signer (key 5) is ...05. *)
Definition toyAddr (k : byte) : bytes := repeat x00 19 ++ [k].
Definition toySg : sigdata := {| sV := 28; sR := 3; sS := 3 |}.

Lemma toy_signs : SignDirect Toy.ops toyNonce 1 5 [x07] = Ok toySg.
Proof. vm_compute. reflexivity. Qed.

(* the premises "RecoverDirect (tampered) = Ok a" of 4a-4d are satisfiable, with a <> the signer's address;
   an altered R can recover the signer (R = 4) or another key (R = 5) or fail (R = 2); a digest in the same
   class mod n (7 and 20 = 7 + 13) recovers the signer *)
Example C05_tamper_nonvacuous :
  addr_of Toy.ops toyH (pub Toy.ops 5) = toyAddr x05 /\
  RecoverDirect Toy.ops toyH toySg [x07] 0 = Ok (toyAddr x05) /\
  RecoverDirect Toy.ops toyH (with_V toySg 27) [x07] 0 = Ok (toyAddr x01) /\
  RecoverDirect Toy.ops toyH {| sV := 28; sR := 3; sS := 4 |} [x07] 0 = Ok (toyAddr x06) /\
  RecoverDirect Toy.ops toyH toySg [x08] 0 = Ok (toyAddr x04) /\
  RecoverDirect Toy.ops toyH toySg [x14] 0 = Ok (toyAddr x05) /\
  RecoverDirect Toy.ops toyH {| sV := 28; sR := 4; sS := 3 |} [x07] 0 = Ok (toyAddr x05) /\
  RecoverDirect Toy.ops toyH {| sV := 28; sR := 5; sS := 3 |} [x07] 0 = Ok (toyAddr x01) /\
  RecoverDirect Toy.ops toyH {| sV := 28; sR := 2; sS := 3 |} [x07] 0 = Err ELib /\
  other_key Toy.ops toyH 5 (toyAddr x01).
Proof.
  repeat (split; [vm_compute; reflexivity|]).
  apply (C05_tamper_flip_parity Toy.ops Toy.toy_laws eq_refl toyH toyH_len toyNonce 1%nat 5 [x07] toySg 27 0 (toyAddr x01)).
  - split; [discriminate|reflexivity].
  - exact toy_signs.
  - right; reflexivity.
  - reflexivity.
  - vm_compute. reflexivity.
Qed.

(* C05_other_V_refuted and C05_recover_is_keypair_address instantiated: V = 35 + 2*5 + 1 + 256 = 302 is no
   legitimate V for chain 5 and recovers the signer; the key pair built from the key bytes [05] has the
   address recovery returns *)
Example C05_other_V_refuted_nonvacuous :
  (forall p, (p = 0 \/ p = 1) -> ~ legit_V p 5 302) /\
  RecoverDirect Toy.ops toyH (with_V toySg 302) [x07] 5 = Ok (addr_of Toy.ops toyH (pub Toy.ops 5)).
Proof.
  assert (Hd : 1 <= 5 < n Toy.ops) by (split; [discriminate|reflexivity]).
  assert (Hc : 0 <= 5 <= 2 ^ 53) by (split; discriminate).
  exact (C05_other_V_refuted Toy.ops Toy.toy_laws eq_refl toyH toyH_len toyNonce 1%nat 5 [x07] toySg 5 1 Hd Hc
           toy_signs (or_intror eq_refl) ltac:(discriminate) eq_refl
           ltac:(discriminate) ltac:(discriminate) ltac:(discriminate) ltac:(discriminate)).
Qed.

Example C05_keypair_nonvacuous :
  exists kp, KeyPairFromBytes Toy.ops toyH [x05] = Ok kp /\ kp_priv Toy.ops kp = 5 /\
    RecoverDirect Toy.ops toyH (UpdateEIP155 toySg 7) [x07] 7 = Ok (kp_addr Toy.ops kp).
Proof.
  destruct (C05_address Toy.ops Toy.toy_laws toyH toyH_len [x05]) as (kp & E & P & _).
  assert (P5 : kp_priv Toy.ops kp = 5) by (rewrite P; reflexivity).
  exists kp. split; [exact E|]. split; [exact P5|].
  refine (proj2 (proj2 (C05_recover_is_keypair_address Toy.ops Toy.toy_laws eq_refl toyH toyH_len toyNonce 1%nat [x05] kp [x07] toySg 7 E _ _ _ _))).
  - rewrite P5. split; [discriminate|reflexivity].
  - split; discriminate.
  - rewrite P5. exact toy_signs.
  - right; reflexivity.
Qed.

(* The overflow signatures exist in a group satisfying the laws (ToyOvf: Toy with x(3G) = 16 >= n = 13):
   with nonce 3 the model signs with V = 30 and recovery rejects that signature (so "V in {27,28}" and
   "recovery returns the signer" really need their guard); with nonce 2 it signs with V = 27 and recovers.
   The retry loop: a stream 0, 2, 2, ... is out of fuel with fuel 1 and signs with fuel 2. *)
Example C05_overflow_and_fuel_nonvacuous :
  laws ToyOvf.ops /\ n ToyOvf.ops < two256 /\
  SignDirect ToyOvf.ops toyNonce 1 5 [x07] = Ok {| sV := 30; sR := 3; sS := 3 |} /\
  n ToyOvf.ops <= xcoord ToyOvf.ops (smul ToyOvf.ops (toyNonce 5 [x07] 0%nat) (G ToyOvf.ops)) /\
  RecoverDirect ToyOvf.ops toyH {| sV := 30; sR := 3; sS := 3 |} [x07] 0 = Err EInvalidV /\
  SignDirect ToyOvf.ops (fun _ _ _ => 2) 1 5 [x07] = Ok {| sV := 27; sR := 2; sS := 2 |} /\
  RecoverDirect ToyOvf.ops toyH {| sV := 27; sR := 2; sS := 2 |} [x07] 0 = Ok (addr_of ToyOvf.ops toyH (pub ToyOvf.ops 5)) /\
  SignDirect ToyOvf.ops (fun _ _ j => match j with O => 0 | _ => 2 end) 1 5 [x07] = Err EOutOfFuel /\
  SignDirect ToyOvf.ops (fun _ _ j => match j with O => 0 | _ => 2 end) 2 5 [x07] = Ok {| sV := 27; sR := 2; sS := 2 |}.
Proof.
  split; [exact ToyOvf.ovf_laws|]. split; [reflexivity|].
  repeat (split; [vm_compute; try reflexivity; discriminate|]). vm_compute. reflexivity.
Qed.

(* The totality theorems are not true by construction: the model's primitives DO panic (FillBytes of a
   value that does not fit, CompactRSV on it); RecoverDirect answers Err on the same value only because of
   the range guards (fixes 77938be / f9cc703). *)
Example C05_model_can_panic :
  fill_bytes 32 two256 = Panic /\
  CompactRSV {| sV := 27; sR := two256; sS := 1 |} = Panic /\
  RecoverDirect Toy.ops toyH {| sV := 27; sR := two256; sS := 1 |} [x07] 0 = Err ERange /\
  RecoverDirect Toy.ops toyH {| sV := 27; sR := -3; sS := 3 |} [x07] 0 = Err ERange.
Proof. repeat split; vm_compute; reflexivity. Qed.

(* The EIP-155 form through the compact codec: chain 110, odd parity: V = 256, the byte is 0, the decoded
   signature recovers ANOTHER address (..01); chain 1001: V = 2038, byte 246, recovers the signer. *)
Example C05_compact_eip155_nonvacuous :
  sV (UpdateEIP155 toySg 110) = 256 /\
  (exists b, CompactRSV (UpdateEIP155 toySg 110) = Ok b /\ DecodeCompactRSV b = Ok (with_V toySg 0)) /\
  RecoverDirect Toy.ops toyH (with_V toySg 0) [x07] 110 = Ok (toyAddr x01) /\
  RecoverDirect Toy.ops toyH (UpdateEIP155 toySg 110) [x07] 110 = Ok (toyAddr x05) /\
  sV (UpdateEIP155 toySg 1001) = 2038 /\
  (exists b, CompactRSV (UpdateEIP155 toySg 1001) = Ok b /\ DecodeCompactRSV b = Ok (with_V toySg 246)) /\
  RecoverDirect Toy.ops toyH (with_V toySg 246) [x07] 1001 = Ok (toyAddr x05).
Proof.
  split; [reflexivity|]. split.
  { destruct (CompactRSV (UpdateEIP155 toySg 110)) as [b| |] eqn:E; try (vm_compute in E; discriminate).
    exists b. split; [reflexivity|]. vm_compute in E. injection E as <-. vm_compute. reflexivity. }
  split; [vm_compute; reflexivity|]. split; [vm_compute; reflexivity|]. split; [reflexivity|]. split.
  { destruct (CompactRSV (UpdateEIP155 toySg 1001)) as [b| |] eqn:E; try (vm_compute in E; discriminate).
    exists b. split; [reflexivity|]. vm_compute in E. injection E as <-. vm_compute. reflexivity. }
  vm_compute. reflexivity.
Qed.


(* =============================================================================================
   Wave 6 (proofs in Secp/ProofsWave6.v).  Nothing above was changed.
   The recovery theorems above carry the guard "sV sg = 27 \/ sV sg = 28" on the signature that signing
   produced (guaranteed by C05_sign_V_exact only when the nonce point has x < n).  Here the guard is GONE:
   the statements are about every signature SignDirect can return (V = 27..30).
   ============================================================================================= *)

(* 14. Abstract ECDSA: an OVERFLOW signature (x(kG) >= n; btcec's recovery codes 2/3, V = 29/30) is never
      recovered to the signer's key with the codes 0/1 that firefly-signer passes to the library, whichever
      parity is presented: decompression finds the point with x = r < n, the nonce point has x >= n. *)
Theorem C05_overflow_never_recovers :
  forall o, laws o -> forall d z k sg odd,
    ecdsa_sign o d z k = Some sg -> es_ovf sg = true ->
    ecdsa_recover o z (es_r sg) (es_s sg) odd <> Some (pub o d).
Proof. exact recover_overflow_never_signer. Qed.
Print Assumptions C05_overflow_never_recovers.

(* 15. The exact trichotomy for EVERY genuine signature (no guard on its V), every integer V presented and
      every chain id (any integer): V not accepted -> Err EInvalidV; V normalising to the signature's own V
      -> the signer's address; V normalising to anything else -> an error or the address of another key.
      For a signature with V = 29/30 the middle case never happens (v_norm returns 27/28 only): the package
      cannot recover the signer from an overflow signature it produced, under any V or chain id. *)
Theorem C05_recover_genuine_any_V :
  forall o, laws o -> n o < two256 -> forall H, (forall x, length (H x) = 32%nat) ->
  forall nonce fuel d msg sg V c,
    1 <= d < n o -> SignDirect o nonce fuel d msg = Ok sg ->
    match v_norm V c with
    | None => RecoverDirect o H (with_V sg V) msg c = Err EInvalidV
    | Some b =>
        if b =? sV sg then RecoverDirect o H (with_V sg V) msg c = Ok (addr_of o H (pub o d))
        else forall a, RecoverDirect o H (with_V sg V) msg c = Ok a -> other_key o H d a
    end.
Proof. exact recover_genuine_any_V. Qed.
Print Assumptions C05_recover_genuine_any_V.

(* 16. C05_recover_all_conventions WITHOUT its guard: for every signature signing returns, either V is 27/28
      and the three conventions return the signer's address, or V is 29/30 -- exactly when a nonce below the
      fuel has x(kG) >= n --, UpdateEIP2930 leaves it alone, the EIP-155 form is rejected, the V as produced is
      rejected for every chain id not = 125 mod 128 (29 = 35 + 2*125 - 256: known finding
      C05/v-truncated-to-byte), and no V / chain id whatsoever yields the signer's key. *)
Theorem C05_recover_conventions_unguarded :
  forall o, laws o -> n o < two256 -> forall H, (forall x, length (H x) = 32%nat) ->
  forall nonce fuel d msg sg c c',
    1 <= d < n o -> 0 <= c <= 2 ^ 53 -> is_int64 c' = true ->
    SignDirect o nonce fuel d msg = Ok sg ->
    ((sV sg = 27 \/ sV sg = 28) /\
     RecoverDirect o H sg msg c' = Ok (addr_of o H (pub o d)) /\
     RecoverDirect o H (UpdateEIP2930 sg) msg c' = Ok (addr_of o H (pub o d)) /\
     RecoverDirect o H (UpdateEIP155 sg c) msg c = Ok (addr_of o H (pub o d))) \/
    ((sV sg = 29 \/ sV sg = 30) /\
     (exists j, (j < fuel)%nat /\ n o <= xcoord o (smul o (nonce d msg j) (G o))) /\
     UpdateEIP2930 sg = sg /\
     (c' mod 128 <> 125 -> RecoverDirect o H sg msg c' = Err EInvalidV) /\
     RecoverDirect o H (UpdateEIP155 sg c) msg c = Err EInvalidV /\
     forall V c0 a, RecoverDirect o H (with_V sg V) msg c0 = Ok a -> other_key o H d a).
Proof. exact recover_conventions_unguarded. Qed.
Print Assumptions C05_recover_conventions_unguarded.

(* 17. The tamper theorems 4a-4c and 11 WITHOUT the guard "sV sg = 27 \/ sV sg = 28": it is implied by their
      premise on the presented V (v_norm returns 27/28 only).  For a signature with V = 29/30 these premises
      are unsatisfiable -- that case is covered by 15/16 (never the signer, whatever is presented). *)
Theorem C05_tamper_unguarded :
  forall o, laws o -> n o < two256 -> forall H, (forall x, length (H x) = 32%nat) ->
  forall nonce fuel d msg sg,
    1 <= d < n o -> SignDirect o nonce fuel d msg = Ok sg ->
    (forall V c a, v_norm V c = Some (55 - sV sg) ->
       RecoverDirect o H (with_V sg V) msg c = Ok a -> other_key o H d a) /\
    (forall s' V c a, s' <> sS sg -> v_norm V c = Some (sV sg) ->
       RecoverDirect o H {| sV := V; sR := sR sg; sS := s' |} msg c = Ok a -> other_key o H d a) /\
    (forall msg' V c a, hash_to_z msg' mod n o <> hash_to_z msg mod n o -> v_norm V c = Some (sV sg) ->
       RecoverDirect o H (with_V sg V) msg' c = Ok a -> other_key o H d a) /\
    (forall msg' V c, hash_to_z msg' mod n o = hash_to_z msg mod n o -> v_norm V c = Some (sV sg) ->
       RecoverDirect o H (with_V sg V) msg' c = Ok (addr_of o H (pub o d))).
Proof. exact tamper_unguarded. Qed.
Print Assumptions C05_tamper_unguarded.

(* 18. (clause 6, hypothesis on the INPUTS) Pure arithmetic, no group: for an order 2^255 <= n < 2^256 two
      different 32-byte digests are congruent mod n exactly when they differ by n. *)
Theorem C05_digest32_congruent_iff :
  forall n msg msg',
    0 < n -> n < two256 -> two256 <= 2 * n -> length msg = 32%nat -> length msg' = 32%nat -> msg' <> msg ->
    (hash_to_z msg' mod n = hash_to_z msg mod n <->
     (hash_to_z msg' = hash_to_z msg + n \/ hash_to_z msg = hash_to_z msg' + n)).
Proof. exact digest32_congruent_iff. Qed.
Print Assumptions C05_digest32_congruent_iff.

(* 18'. Hence "a different message" for the direct entry point with no congruence premise: a different
      32-byte digest that is not the signed one +- n yields an error or another key ... *)
Theorem C05_tamper_message_32 :
  forall o, laws o -> n o < two256 -> forall H, (forall x, length (H x) = 32%nat) ->
  forall nonce fuel d msg sg msg' V c a,
    1 <= d < n o -> two256 <= 2 * n o -> SignDirect o nonce fuel d msg = Ok sg ->
    length msg = 32%nat -> length msg' = 32%nat -> msg' <> msg ->
    hash_to_z msg' <> hash_to_z msg + n o -> hash_to_z msg <> hash_to_z msg' + n o ->
    v_norm V c = Some (sV sg) ->
    RecoverDirect o H (with_V sg V) msg' c = Ok a -> other_key o H d a.
Proof. exact tamper_message_32. Qed.
Print Assumptions C05_tamper_message_32.

(* 18''. ... and when the SIGNED digest lies in [2^256 - n, n) -- for secp256k1 all digests but a fraction
      2^-127 -- EVERY different 32-byte digest does (no condition on the other digest at all).
      Non-vacuity of 18'/18'': the premises [laws o] and [2^256 <= 2 n] together are satisfied by the trusted
      secp256k1 instance only (no group with a PROVED 256-bit prime order exists in the development); the
      arithmetic they rest on is 18, instantiated below with secp256k1's order. *)
Theorem C05_tamper_message_32_midrange :
  forall o, laws o -> n o < two256 -> forall H, (forall x, length (H x) = 32%nat) ->
  forall nonce fuel d msg sg msg' V c a,
    1 <= d < n o -> two256 <= 2 * n o -> SignDirect o nonce fuel d msg = Ok sg ->
    length msg = 32%nat -> length msg' = 32%nat -> msg' <> msg ->
    two256 - n o <= hash_to_z msg < n o ->
    v_norm V c = Some (sV sg) ->
    RecoverDirect o H (with_V sg V) msg' c = Ok a -> other_key o H d a.
Proof. exact tamper_message_32_midrange. Qed.
Print Assumptions C05_tamper_message_32_midrange.

(* ---- non-vacuity of the wave-6 statements ---- *)

(* ToyOvf2 (Toy with x(3G) = 14 = 1 + n, where 1 is also the x coordinate of +-G) satisfies the laws; nonce 3
   gives the overflow signature (30, 1, 4); presented as V = 28 / 27 recovery ANSWERS Ok with another address
   (..0e, ..02; the signer is ..05); as produced it is rejected for chain 0, accepted (aliasing) for chain
   125 and yields ..0e; its EIP-155 form is rejected; theorem 15 instantiated (the premise "Ok a" of its third
   case is satisfiable in the overflow case). *)
Definition ovfSg : sigdata := {| sV := 30; sR := 1; sS := 4 |}.
Example C05_overflow_recovery_nonvacuous :
  laws ToyOvf2.ops /\ n ToyOvf2.ops < two256 /\
  SignDirect ToyOvf2.ops toyNonce 1 5 [x07] = Ok ovfSg /\
  addr_of ToyOvf2.ops toyH (pub ToyOvf2.ops 5) = toyAddr x05 /\
  RecoverDirect ToyOvf2.ops toyH (with_V ovfSg 28) [x07] 0 = Ok (toyAddr x0e) /\
  RecoverDirect ToyOvf2.ops toyH (with_V ovfSg 27) [x07] 0 = Ok (toyAddr x02) /\
  RecoverDirect ToyOvf2.ops toyH ovfSg [x07] 0 = Err EInvalidV /\
  RecoverDirect ToyOvf2.ops toyH ovfSg [x07] 125 = Ok (toyAddr x0e) /\
  RecoverDirect ToyOvf2.ops toyH (UpdateEIP155 ovfSg 7) [x07] 7 = Err EInvalidV /\
  UpdateEIP2930 ovfSg = ovfSg /\
  other_key ToyOvf2.ops toyH 5 (toyAddr x0e).
Proof.
  split; [exact ToyOvf2.ovf2_laws|]. split; [reflexivity|].
  repeat (split; [vm_compute; reflexivity|]).
  assert (Hd : 1 <= 5 < n ToyOvf2.ops) by (split; [discriminate|reflexivity]).
  assert (E : SignDirect ToyOvf2.ops toyNonce 1 5 [x07] = Ok ovfSg) by (vm_compute; reflexivity).
  refine (C05_recover_genuine_any_V ToyOvf2.ops ToyOvf2.ovf2_laws eq_refl toyH toyH_len toyNonce 1%nat 5 [x07] ovfSg 28 0 Hd E (toyAddr x0e) _).
  vm_compute. reflexivity.
Qed.

(* theorem 15 on an ordinary signature (Toy, V = 28): V = 302 with chain 5 -> the signer (aliasing finding),
   V = 27 -> another key, V = 29 -> rejected; theorem 16 instantiated: its first alternative holds in Toy,
   its second in ToyOvf2 *)
Example C05_trichotomy_nonvacuous :
  RecoverDirect Toy.ops toyH (with_V toySg 302) [x07] 5 = Ok (addr_of Toy.ops toyH (pub Toy.ops 5)) /\
  (forall a, RecoverDirect Toy.ops toyH (with_V toySg 27) [x07] 0 = Ok a -> other_key Toy.ops toyH 5 a) /\
  RecoverDirect Toy.ops toyH (with_V toySg 29) [x07] 0 = Err EInvalidV /\
  (sV toySg = 28 /\ RecoverDirect Toy.ops toyH (UpdateEIP155 toySg 7) [x07] 7 = Ok (addr_of Toy.ops toyH (pub Toy.ops 5))) /\
  (sV ovfSg = 30 /\ forall V c0 a, RecoverDirect ToyOvf2.ops toyH (with_V ovfSg V) [x07] c0 = Ok a -> other_key ToyOvf2.ops toyH 5 a).
Proof.
  assert (Hd : 1 <= 5 < 13) by (split; [discriminate|reflexivity]).
  assert (Hc : 0 <= 7 <= 2 ^ 53) by (split; discriminate).
  split; [exact (C05_recover_genuine_any_V Toy.ops Toy.toy_laws eq_refl toyH toyH_len toyNonce 1%nat 5 [x07] toySg 302 5 Hd toy_signs)|].
  split; [exact (C05_recover_genuine_any_V Toy.ops Toy.toy_laws eq_refl toyH toyH_len toyNonce 1%nat 5 [x07] toySg 27 0 Hd toy_signs)|].
  split; [exact (C05_recover_genuine_any_V Toy.ops Toy.toy_laws eq_refl toyH toyH_len toyNonce 1%nat 5 [x07] toySg 29 0 Hd toy_signs)|].
  split.
  - split; [reflexivity|].
    destruct (C05_recover_conventions_unguarded Toy.ops Toy.toy_laws eq_refl toyH toyH_len toyNonce 1%nat 5 [x07] toySg 7 0 Hd Hc eq_refl toy_signs)
      as [(_ & _ & _ & A)|([A|A] & _)]; [exact A|discriminate A|discriminate A].
  - split; [reflexivity|].
    assert (E : SignDirect ToyOvf2.ops toyNonce 1 5 [x07] = Ok ovfSg) by (vm_compute; reflexivity).
    destruct (C05_recover_conventions_unguarded ToyOvf2.ops ToyOvf2.ovf2_laws eq_refl toyH toyH_len toyNonce 1%nat 5 [x07] ovfSg 7 0 Hd Hc eq_refl E)
      as [([A|A] & _)|(_ & _ & _ & _ & _ & A)]; [discriminate A|discriminate A|exact A].
Qed.

(* theorem 17 instantiated on Toy (S altered 3 -> 4, presented as V = 1 = yParity): another key *)
Example C05_tamper_unguarded_nonvacuous :
  RecoverDirect Toy.ops toyH {| sV := 1; sR := 3; sS := 4 |} [x07] 0 = Ok (toyAddr x06) /\
  other_key Toy.ops toyH 5 (toyAddr x06).
Proof.
  split; [vm_compute; reflexivity|].
  assert (Hd : 1 <= 5 < 13) by (split; [discriminate|reflexivity]).
  destruct (C05_tamper_unguarded Toy.ops Toy.toy_laws eq_refl toyH toyH_len toyNonce 1%nat 5 [x07] toySg Hd toy_signs) as (_ & B & _).
  apply (B 4 1 0 (toyAddr x06)); [discriminate|reflexivity|vm_compute; reflexivity].
Qed.

(* theorem 18 with secp256k1's order: the digests 5 and 5 + n are different 32-byte strings in the same class
   (so the exclusion in 18' is needed), 5 and 6 are not congruent; 2^256 <= 2 n holds for that order *)
Definition secp_order : Z := 0xFFFFFFFFFFFFFFFFFFFFFFFFFFFFFFFEBAAEDCE6AF48A03BBFD25E8CD0364141.
Example C05_digest32_nonvacuous :
  secp_order < two256 /\ two256 <= 2 * secp_order /\
  length (be_fixed 32 5) = 32%nat /\ be_fixed 32 (5 + secp_order) <> be_fixed 32 5 /\
  hash_to_z (be_fixed 32 (5 + secp_order)) mod secp_order = hash_to_z (be_fixed 32 5) mod secp_order /\
  hash_to_z (be_fixed 32 6) mod secp_order <> hash_to_z (be_fixed 32 5) mod secp_order /\
  two256 - secp_order <= hash_to_z (be_fixed 32 (2 ^ 200)) < secp_order.
Proof.
  split; [reflexivity|]. split; [discriminate|]. split; [reflexivity|].
  assert (N : be_fixed 32 (5 + secp_order) <> be_fixed 32 5) by (vm_compute; discriminate).
  split; [exact N|]. split.
  - apply (proj2 (C05_digest32_congruent_iff secp_order (be_fixed 32 5) (be_fixed 32 (5 + secp_order))
             eq_refl eq_refl ltac:(discriminate) eq_refl eq_refl N)).
    left. vm_compute. reflexivity.
  - split.
    + intros E. apply (proj1 (C05_digest32_congruent_iff secp_order (be_fixed 32 5) (be_fixed 32 6)
             eq_refl eq_refl ltac:(discriminate) eq_refl eq_refl ltac:(vm_compute; discriminate))) in E.
      destruct E as [E|E]; vm_compute in E; discriminate.
    + split; vm_compute; [discriminate|reflexivity].
Qed.
