(* C05 — secp256k1 sign/recover are mutually consistent under every V convention.
   Statements only; proofs live in Crypto/Ecdsa.v and Secp/Proofs.v. *)
From Coq Require Import ZArith List Bool.
From FFS Require Import Base.Res Base.Bytes Crypto.Ecdsa Secp.Model.
Import ListNotations.
Local Open Scope Z_scope.

(* ECDSA core: recovery from a signature returns the signer's public key. *)
Theorem C05_ecdsa_recover_sign :
  forall o, laws o -> forall d z k sg,
    d mod n o <> 0 -> ecdsa_sign o d z k = Some sg -> es_ovf sg = false ->
    ecdsa_recover o z (es_r sg) (es_s sg) (es_odd sg) = Some (pub o d).
Proof. exact recover_sign. Qed.
Print Assumptions C05_ecdsa_recover_sign.
