(* C19 — hex/number JSON types parse exactly or fail, and print canonically.
   Statements only; proofs live in EthTypes/Proofs*.v. *)
From Coq Require Import List NArith ZArith Lia Bool Arith.
From Coq Require Import Init.Byte.
From FFS Require Import Base.Res Base.Bytes EthTypes.Model EthTypes.Spec EthTypes.Proofs.
Import ListNotations.

(* hex.DecodeString inverts hex.EncodeToString for every byte string *)
Theorem C19_hex_decode_encode : forall b : bytes, hex_decode (hex_encode b) = Ok b.
Proof. exact hex_decode_encode. Qed.
Print Assumptions C19_hex_decode_encode.
