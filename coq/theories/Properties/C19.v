(* C19 — hex/number JSON types parse exactly or fail, and print canonically.
   Statements only; proofs live in EthTypes/Proofs.v (byte strings, addresses, EIP-55),
   EthTypes/ProofsInt.v (integer print form, round trip, decimal and hex spellings) and
   EthTypes/ProofsNum.v (JSON-number / exponent spellings, the combined exactness theorem).

   External behaviour enters as parameters: [lex]/[lexs] = encoding/json (assumed only on quoted
   plain ASCII and on texts of the JSON number grammar: [lex_law]/[lexs_law], validated against the
   library on every correspondence run), [H] = Keccak-256 (only its output length is used). *)
From Coq Require Import String List NArith ZArith Lia Bool Arith.
From Coq Require Import Init.Byte.
From FFS Require Import Base.Res Base.Bytes EthTypes.Model EthTypes.Spec EthTypes.SpecBig EthTypes.Proofs EthTypes.ProofsInt EthTypes.ProofsNum
  EthTypes.ProofsHex EthTypes.ProofsLimit EthTypes.ProofsBig EthTypes.ProofsBigInt EthTypes.ProofsBigCoh
  EthTypes.ProofsBigFloat EthTypes.ProofsBigAll.
From FFS Require Import Base.Lit Base.Keccak EthTypes.ModelMarshal EthTypes.ProofsReferee EthTypes.ProofsWave6.
Import ListNotations.

(* ---- 1. print form: "0x" + lower-case hex digits without leading zeros, value n (all n) ---- *)
Theorem C19_hexint_print : forall n : N,
  exists s, HexInteger_MarshalJSON (Z.of_N n) = dquote :: s ++ [dquote] /\ canonical_hex s n.
Proof. exact HexInteger_print. Qed.
Print Assumptions C19_hexint_print.

Theorem C19_hexuint64_print : forall n : N,
  exists s, HexUint64_MarshalJSON n = dquote :: s ++ [dquote] /\ canonical_hex s n.
Proof. exact HexUint64_print. Qed.
Print Assumptions C19_hexuint64_print.

(* the canonical form of n is unique, so the two theorems above determine the printed text *)
Theorem C19_canonical_hex_unique : forall (s s' : bytes) (n : N), canonical_hex s n -> canonical_hex s' n -> s = s'.
Proof. exact canonical_hex_unique. Qed.
Print Assumptions C19_canonical_hex_unique.

(* the executable print oracle of the correspondence run (result code 11: Coq's own HexString.of_N) IS
   the model's text, and it is the canonical form: no unproved link on the print side *)
Theorem C19_print_oracle_is_model : forall n : N, spec_hex n = prefix0x ++ text16 n.
Proof. exact of_N_is_text16. Qed.
Print Assumptions C19_print_oracle_is_model.

Theorem C19_print_oracle_canonical : forall n : N, canonical_hex (spec_hex n) n.
Proof. exact spec_hex_canonical. Qed.
Print Assumptions C19_print_oracle_canonical.

(* ---- 2. print/parse round trip, all n (all n < 2^64 for the 64-bit type) ---- *)
Theorem C19_hexint_roundtrip : forall lex (n : N),
  lex_law lex -> HexInteger_UnmarshalJSON lex (HexInteger_MarshalJSON (Z.of_N n)) = Ok (Z.of_N n).
Proof. exact HexInteger_roundtrip. Qed.
Print Assumptions C19_hexint_roundtrip.

Theorem C19_hexuint64_roundtrip : forall lex (n : N),
  lex_law lex -> (n < 2 ^ 64)%N -> HexUint64_UnmarshalJSON lex (HexUint64_MarshalJSON n) = Ok n.
Proof. exact HexUint64_roundtrip. Qed.
Print Assumptions C19_hexuint64_roundtrip.

(* ---- 3. parse exactness.
   [denotes t m e]: t is a spelling of m * 10^e in one of the classes of the quantifier (canonical
   decimal, "-" + canonical decimal, "0x" + hex digits of any case, JSON number with optional fraction
   and exponent); [sci_is m e q]: that value is the integer q.  [json_of t b]: the JSON document b is
   t as a JSON string, or t itself when t is a JSON number.  [guard]: |e| <= 10^6 (the limit up to
   which math/big expands a decimal exponent exactly) and the text is shorter than 2^28 characters.
   ty64 = true is HexUint64 (0 <= q < 2^64), false is HexInteger (0 <= q).
   The text is accepted with value q exactly when it denotes the in-range integer q; if it denotes no
   integer, or one out of range, the result is an error - never a rounded or wrapped value. ---- *)
Theorem C19_parse_exact : forall lex (ty64 : bool) (t : bytes) (m e : Z) (b : bytes),
  lex_law lex -> denotes t m e -> guard t e -> json_of t b ->
  (forall q, sci_is m e q -> in_range ty64 q = true -> parse_int ty64 lex b = Ok q) /\
  ((forall q, sci_is m e q -> in_range ty64 q = false) -> exists err, parse_int ty64 lex b = Err err).
Proof. exact parse_exact. Qed.
Print Assumptions C19_parse_exact.

(* The exact boundary of the theorem above.  [spelling t m e l] is [denotes t m e] together with the
   verdict l of math/big's library limits on that text (EthTypes/SpecBig.v, [big_limits_json]: no limit
   for plain decimal / hex texts; for a text with a fraction or an exponent the written exponent must
   fit int64 and - unless the mantissa is zero - |e| <= 10^6 and bitlen(mantissa) + e must be a
   big.Float exponent (int32), e = written exponent - number of fraction digits).  Inside the limits the
   verdict is exact; outside them the result is always an error.  The guard of C19_parse_exact lies
   inside the limits, so that theorem is a corollary. *)
Theorem C19_parse_exact_boundary : forall lex (ty64 : bool) (t : bytes) (m e : Z) (l : bool) (b : bytes),
  lex_law lex -> spelling t m e l -> json_of t b ->
  (l = true ->
     (forall q, sci_is m e q -> in_range ty64 q = true -> parse_int ty64 lex b = Ok q) /\
     ((forall q, sci_is m e q -> in_range ty64 q = false) -> exists err, parse_int ty64 lex b = Err err)) /\
  (l = false -> exists err, parse_int ty64 lex b = Err err).
Proof. exact parse_exact_lim. Qed.
Print Assumptions C19_parse_exact_boundary.

Theorem C19_spelling_is_denotes : forall (t : bytes) (m e : Z),
  denotes t m e <-> exists l, spelling t m e l.
Proof. intros t m e. split; [apply denotes_spelling|intros [l H]; exact (spelling_denotes t m e l H)]. Qed.
Print Assumptions C19_spelling_is_denotes.

Theorem C19_guard_within_limits : forall (t : bytes) (m e : Z) (l : bool),
  spelling t m e l -> guard t e -> l = true.
Proof. exact guard_within_limits. Qed.
Print Assumptions C19_guard_within_limits.

(* the safety half without any guard: whatever the size of the exponent or the length of the text, a
   spelling of the quantified classes is never accepted with a value other than the in-range integer
   it denotes (never rounded, never wrapped) *)
Theorem C19_parse_never_wrong : forall lex (ty64 : bool) (t : bytes) (m e : Z) (b : bytes) (q : Z),
  lex_law lex -> denotes t m e -> json_of t b ->
  parse_int ty64 lex b = Ok q -> sci_is m e q /\ in_range ty64 q = true.
Proof. exact parse_sound. Qed.
Print Assumptions C19_parse_never_wrong.

(* Safety over ALL texts, not only the spellings of the quantifier: whatever the document and whatever
   the lexer returns for it, a value q is returned only for a text that math/big documents
   ([go_denotes], EthTypes/SpecBig.v part B: Int.SetString(s, 0) syntax - optional sign '+'/'-', prefixes
   0b 0o 0x in either case, a leading 0 for octal, single '_' between digits or after a prefix - or,
   when the text is not of that syntax, a decimal floating-point text  [sign] digits [. digits]
   [(e|E|p|P) [sign] digits]  with a decimal 'e' or a binary 'p' exponent), q is exactly the value that
   text denotes, and q is in the range of the type.  Every other text is an error ("Inf" included). *)
Theorem C19_text_never_wrong : forall (t : bytes) (q : Z), BigIntegerFromString t = Ok q -> go_denotes t q.
Proof. exact big_go_denotes. Qed.
Print Assumptions C19_text_never_wrong.

Theorem C19_parse_never_wrong_any_text : forall lex (ty64 : bool) (b : bytes) (q : Z),
  parse_int ty64 lex b = Ok q ->
  exists t, (lex b = JNum t \/ lex b = JStr t) /\ go_denotes t q /\ in_range ty64 q = true.
Proof. exact parse_sound_all. Qed.
Print Assumptions C19_parse_never_wrong_any_text.

(* the integer syntax both ways: the model of Int.SetString(s, 0) accepts EXACTLY the documented integer
   texts (sign, 0b/0o/0x in either case, leading-zero octal, '_' separators) with their value, and
   BigIntegerFromString returns that value whatever its size *)
Theorem C19_int_text_iff : forall (t : bytes) (z : Z), int_set_string0 t = Some z <-> go_int t z.
Proof. exact set_string_iff. Qed.
Print Assumptions C19_int_text_iff.

Theorem C19_int_text_accepted : forall (t : bytes) (z : Z), go_int t z -> BigIntegerFromString t = Ok z.
Proof. exact big_from_go_int. Qed.
Print Assumptions C19_int_text_accepted.

(* floating-point texts outside the quantifier ('p' binary exponents, '+' sign, leading zeros, empty integer
   or fraction part) both ways: such a text (one that is not an integer text: [float_only]) is accepted
   exactly when it is within the library limits [big_limits_float] and denotes an integer, with that value;
   within the limits a text that denotes no integer is an error, beyond them every text is *)
Theorem C19_float_text_exact : forall f : fnum,
  fnum_wf f = true -> float_only f = true ->
  if big_limits_float f
  then (forall q, sci2_is (f_mant f) (f_e10 f) (f_e2 f) q -> BigIntegerFromString (fnum_text f) = Ok q) /\
       ((forall q, ~ sci2_is (f_mant f) (f_e10 f) (f_e2 f) q) -> exists err, BigIntegerFromString (fnum_text f) = Err err)
  else exists err, BigIntegerFromString (fnum_text f) = Err err.
Proof. exact float_text_exact. Qed.
Print Assumptions C19_float_text_exact.

(* The complete characterisation over ALL texts and ALL documents.  [accepts t q] (EthTypes/ProofsBigAll.v):
   t is a documented integer text with value q, or a floating-point text that is not an integer text,
   within the library limits, whose value is the integer q.  A value is returned exactly for those
   texts, and it is that value; everything else is an error. *)
Theorem C19_accepted_iff : forall (t : bytes) (q : Z), BigIntegerFromString t = Ok q <-> accepts t q.
Proof. exact big_iff. Qed.
Print Assumptions C19_accepted_iff.

Theorem C19_parse_iff : forall lex (ty64 : bool) (b : bytes) (q : Z),
  parse_int ty64 lex b = Ok q <->
  exists t, (lex b = JNum t \/ lex b = JStr t) /\ accepts t q /\ in_range ty64 q = true.
Proof. exact parse_iff. Qed.
Print Assumptions C19_parse_iff.

Theorem C19_accepts_unique : forall (t : bytes) (q q' : Z), accepts t q -> accepts t q' -> q = q'.
Proof. exact accepts_unique. Qed.
Print Assumptions C19_accepts_unique.

(* coherence of the two specifications: a spelling of the quantifier that denotes the integer q is a
   documented math/big text with the same value q *)
Theorem C19_quantifier_texts_documented : forall (t : bytes) (m e q : Z),
  denotes t m e -> sci_is m e q -> go_denotes t q.
Proof. exact denotes_go_denotes. Qed.
Print Assumptions C19_quantifier_texts_documented.

(* the same for the text entry point (also used by the ABI input path): any sign, any size *)
Theorem C19_big_integer_from_string_exact : forall (t : bytes) (m e : Z),
  denotes t m e -> guard t e ->
  (forall q, sci_is m e q -> BigIntegerFromString t = Ok q) /\
  ((forall q, ~ sci_is m e q) -> exists err, BigIntegerFromString t = Err err).
Proof.
  intros t m e D G. rewrite (big_exact t m e D G). split.
  - intros q Hq. apply sci_int_spec in Hq. rewrite Hq. reflexivity.
  - intros Hn. apply sci_int_none in Hn. rewrite Hn. eauto.
Qed.
Print Assumptions C19_big_integer_from_string_exact.

(* every well-formed JSON number text is recognised as a JSON number (so [json_of t t] is available
   for the whole JSON-number class) *)
Theorem C19_json_number_texts : forall j : jnum, jnum_wf j = true -> is_json_number (jnum_text j) = true.
Proof. exact json_text_is_number. Qed.
Print Assumptions C19_json_number_texts.

(* ---- 4. parse totality: no input bytes and no lexer outcome make the integer types panic ---- *)
Theorem C19_parse_total : forall (ty64 : bool) lex (b : bytes), parse_int ty64 lex b <> Panic.
Proof. exact parse_total. Qed.
Print Assumptions C19_parse_total.

(* ---- 5. addresses: every 20-byte string, every casing, with or without "0x" ---- *)
Theorem C19_address_parse : forall (s b : bytes),
  hex_spells s b -> length b = 20%nat ->
  Address_SetString s = Ok b /\ Address_SetString (t_0x ++ s) = Ok b.
Proof. exact Address_SetString_accepts. Qed.
Print Assumptions C19_address_parse.

(* acceptance only of such texts: any other length, odd digit count or non-hex character is an error,
   never a panic *)
Theorem C19_address_reject : forall s : bytes,
  Address_SetString s <> Panic /\
  (forall b, Address_SetString s = Ok b ->
     length b = 20%nat /\ (hex_spells s b \/ exists s', s = t_0x ++ s' /\ hex_spells s' b)).
Proof. intros s. split; [apply Address_SetString_not_panic|apply Address_SetString_ok_inv]. Qed.
Print Assumptions C19_address_reject.

(* documented print forms, and the checksum form is EIP-55 and parses back *)
Theorem C19_address_print : forall a : bytes,
  Address0xHex_String a = t_0x ++ lower_hex a /\ AddressPlainHex_String a = lower_hex a /\ hex_spells (lower_hex a) a.
Proof. intros a. split; [apply Address0xHex_String_form|]. split; [apply AddressPlainHex_String_form|apply lower_hex_spells]. Qed.
Print Assumptions C19_address_print.

Theorem C19_eip55 : forall (H : bytes -> bytes), (forall x, length (H x) = 32%nat) ->
  forall a : bytes, length a = 20%nat ->
    AddressWithChecksum_String H a = Ok (eip55 H a) /\ Address_SetString (eip55 H a) = Ok a.
Proof. intros H HH a Ha. split; [apply checksum_is_eip55; assumption|apply eip55_parses_back; exact Ha]. Qed.
Print Assumptions C19_eip55.

(* ---- 6. byte strings: hex.DecodeString(TrimPrefix(s,"0x")) is Ok b exactly when s spells b ---- *)
Theorem C19_hexbytes_parse : forall (s b : bytes),
  (hex_spells s b -> hex_decode (trim0x s) = Ok b /\ hex_decode (trim0x (t_0x ++ s)) = Ok b) /\
  (hex_decode (trim0x s) = Ok b -> hex_spells s b \/ exists s', s = t_0x ++ s' /\ hex_spells s' b) /\
  hex_decode (trim0x s) <> Panic.
Proof.
  intros s b. split; [apply HexBytes_parse_accepts|]. split; [apply HexBytes_parse_ok_inv|apply hex_decode_not_panic].
Qed.
Print Assumptions C19_hexbytes_parse.

Theorem C19_hexbytes_print : forall h : bytes,
  HexBytes0xPrefix_String h = t_0x ++ lower_hex h /\ HexBytesPlain_String h = lower_hex h /\
  hex_decode (trim0x (HexBytes0xPrefix_String h)) = Ok h /\ hex_decode (trim0x (HexBytesPlain_String h)) = Ok h.
Proof.
  intros h. split; [apply HexBytes0xPrefix_String_form|]. split; [apply HexBytesPlain_String_form|].
  rewrite HexBytes0xPrefix_String_form, HexBytesPlain_String_form.
  destruct (HexBytes_parse_accepts _ _ (lower_hex_spells h)) as [A B]. split; assumption.
Qed.
Print Assumptions C19_hexbytes_print.

(* through the JSON layer: a quoted spelled text *)
Theorem C19_json_string_layer : forall lexs (s b : bytes),
  lexs_law lexs -> hex_spells s b ->
  HexBytes_UnmarshalJSON lexs (quote s) = Ok b /\ HexBytes_UnmarshalJSON lexs (quote (t_0x ++ s)) = Ok b /\
  (length b = 20%nat -> Address_UnmarshalJSON lexs (quote s) = Ok b /\ Address_UnmarshalJSON lexs (quote (t_0x ++ s)) = Ok b).
Proof. exact json_string_layer. Qed.
Print Assumptions C19_json_string_layer.

(* ---- non-vacuity ---- *)
Example C19_nonvacuous_print :
  HexInteger_MarshalJSON 255 = quote (ascii_bytes "0xff"%string) /\
  HexUint64_UnmarshalJSON simple_lexer (HexUint64_MarshalJSON 18446744073709551615) = Ok 18446744073709551615%N /\
  lex_law simple_lexer.
Proof. split; [vm_compute; reflexivity|]. split; [vm_compute; reflexivity|exact simple_lexer_law]. Qed.

Example C19_nonvacuous_address :
  let a := repeat xab 20 in
  hex_spells (ascii_bytes "aBAbabABabababababababababababababababab"%string) a /\ length a = 20%nat /\
  Address_SetString (ascii_bytes "0xaBAbabABabababababababababababababababab"%string) = Ok a.
Proof.
  cbv zeta. split; [|split; [reflexivity|vm_compute; reflexivity]].
  vm_compute. repeat split; exists 10%N, 11%N; repeat split.
Qed.

(* 2^64 written as 1.8446744073709551616e19: exact for HexInteger, an error (not a wrapped 0) for HexUint64;
   a 1 eighty-one places after the point (the D19a witness) denotes no integer and is an error *)
Example C19_nonvacuous_exponent :
  let j := mkJ false (ascii_bytes "1"%string) (Some (ascii_bytes "8446744073709551616"%string)) (Some (false, 0%N, ascii_bytes "19"%string)) in
  let t := jnum_text j in
  t = ascii_bytes "1.8446744073709551616e19"%string /\
  denotes t (j_mant j) (j_e j) /\ guard t (j_e j) /\ json_of t t /\ sci_is (j_mant j) (j_e j) (2 ^ 64) /\
  parse_int false simple_lexer t = Ok (2 ^ 64)%Z /\ (exists err, parse_int true simple_lexer t = Err err).
Proof.
  cbv zeta.
  set (j := mkJ false (ascii_bytes "1"%string) (Some (ascii_bytes "8446744073709551616"%string)) (Some (false, 0%N, ascii_bytes "19"%string))).
  assert (W : jnum_wf j = true) by (vm_compute; reflexivity).
  assert (D : denotes (jnum_text j) (j_mant j) (j_e j)) by (apply den_json; exact W).
  assert (G : guard (jnum_text j) (j_e j)) by (split; vm_compute; congruence).
  assert (J : json_of (jnum_text j) (jnum_text j)) by (right; split; [reflexivity|apply json_text_is_number; exact W]).
  assert (S : sci_is (j_mant j) (j_e j) (2 ^ 64)) by (apply sci_int_spec; vm_compute; reflexivity).
  split; [vm_compute; reflexivity|]. repeat (split; [assumption|]).
  destruct (C19_parse_exact simple_lexer false _ _ _ _ simple_lexer_law D G J) as [A _].
  destruct (C19_parse_exact simple_lexer true _ _ _ _ simple_lexer_law D G J) as [_ B].
  split; [apply A; [exact S|reflexivity]|].
  apply B. intros q Hq. apply sci_int_spec in Hq. apply sci_int_spec in S. rewrite S in Hq. injection Hq as <-. reflexivity.
Qed.

Example C19_nonvacuous_fraction :
  let j := mkJ false (ascii_bytes "1"%string) (Some (repeat x30 80 ++ [x31])) None in
  denotes (jnum_text j) (j_mant j) (j_e j) /\ guard (jnum_text j) (j_e j) /\ (forall q, ~ sci_is (j_mant j) (j_e j) q) /\
  exists err, BigIntegerFromString (jnum_text j) = Err err.
Proof.
  cbv zeta. set (j := mkJ false (ascii_bytes "1"%string) (Some (repeat x30 80 ++ [x31])) None).
  assert (W : jnum_wf j = true) by (vm_compute; reflexivity).
  assert (D : denotes (jnum_text j) (j_mant j) (j_e j)) by (apply den_json; exact W).
  assert (G : guard (jnum_text j) (j_e j)) by (split; vm_compute; congruence).
  assert (N : forall q, ~ sci_is (j_mant j) (j_e j) q) by (apply sci_int_none; vm_compute; reflexivity).
  repeat (split; [assumption|]).
  apply (proj2 (C19_big_integer_from_string_exact _ _ _ D G) N).
Qed.

Example C19_nonvacuous_eip55 :
  AddressWithChecksum_String (fun _ => repeat xf0 32) (repeat xab 20) = Ok (ascii_bytes "0xAbAbAbAbAbAbAbAbAbAbAbAbAbAbAbAbAbAbAbAb"%string).
Proof. vm_compute. reflexivity. Qed.

(* the library limit: 1e1000000 is inside (exact 10^(10^6) for HexInteger, by C19_parse_exact_boundary), 1e1000001
   is outside and therefore an error for both types; 0e9223372036854775808 is outside (exponent beyond int64) *)
Example C19_nonvacuous_boundary :
  let j k := mkJ false (ascii_bytes "1"%string) None (Some (false, 0%N, k)) in
  let j1 := j (ascii_bytes "1000000"%string) in
  let j2 := j (ascii_bytes "1000001"%string) in
  spelling (jnum_text j1) (j_mant j1) (j_e j1) true /\ spelling (jnum_text j2) (j_mant j2) (j_e j2) false /\
  jnum_text j2 = ascii_bytes "1e1000001"%string /\
  (forall ty64, exists err, parse_int ty64 simple_lexer (jnum_text j2) = Err err) /\
  big_limits_json (mkJ false (ascii_bytes "0"%string) None (Some (false, 0%N, ascii_bytes "9223372036854775808"%string))) = false /\
  big_limits_json (mkJ false (ascii_bytes "0"%string) None (Some (false, 0%N, ascii_bytes "9223372036854775807"%string))) = true.
Proof.
  cbv zeta.
  set (j1 := mkJ false (ascii_bytes "1"%string) None (Some (false, 0%N, ascii_bytes "1000000"%string))).
  set (j2 := mkJ false (ascii_bytes "1"%string) None (Some (false, 0%N, ascii_bytes "1000001"%string))).
  assert (W1 : jnum_wf j1 = true) by (vm_compute; reflexivity).
  assert (W2 : jnum_wf j2 = true) by (vm_compute; reflexivity).
  assert (L1 : big_limits_json j1 = true) by (vm_compute; reflexivity).
  assert (L2 : big_limits_json j2 = false) by (vm_compute; reflexivity).
  assert (S2 : spelling (jnum_text j2) (j_mant j2) (j_e j2) false) by (rewrite <- L2; apply sp_json; exact W2).
  split; [rewrite <- L1; apply sp_json; exact W1|]. split; [exact S2|]. split; [vm_compute; reflexivity|].
  split; [|split; vm_compute; reflexivity].
  intros ty64.
  assert (J : json_of (jnum_text j2) (jnum_text j2)) by (right; split; [reflexivity|apply json_text_is_number; exact W2]).
  exact (proj2 (C19_parse_exact_boundary simple_lexer ty64 _ _ _ _ _ simple_lexer_law S2 J) eq_refl).
Qed.

(* texts outside the quantifier that math/big accepts: the model accepts them with the documented value
   (so the hypothesis of C19_text_never_wrong is satisfiable in every class), "Inf" and "1_" are errors; and
   the specification relation is inhabited as intended ("1.5p1" = 3 by its own rules) *)
Example C19_nonvacuous_documented_texts :
  BigIntegerFromString (ascii_bytes "+0X_fF"%string) = Ok 255%Z /\
  BigIntegerFromString (ascii_bytes "-0b1_01"%string) = Ok (-5)%Z /\
  BigIntegerFromString (ascii_bytes "0o17"%string) = Ok 15%Z /\
  BigIntegerFromString (ascii_bytes "017"%string) = Ok 15%Z /\
  BigIntegerFromString (ascii_bytes "08"%string) = Ok 8%Z /\
  BigIntegerFromString (ascii_bytes "1_000"%string) = Ok 1000%Z /\
  BigIntegerFromString (ascii_bytes "1p5"%string) = Ok 32%Z /\
  BigIntegerFromString (ascii_bytes "+.5e1"%string) = Ok 5%Z /\
  (exists err, BigIntegerFromString (ascii_bytes "Inf"%string) = Err err) /\
  (exists err, BigIntegerFromString (ascii_bytes "1_"%string) = Err err) /\
  go_denotes (ascii_bytes "1.5p1"%string) 3 /\ go_denotes (ascii_bytes "0x_1f"%string) 31.
Proof.
  repeat (split; [vm_compute; reflexivity|]).
  split; [vm_compute; eauto|]. split; [vm_compute; eauto|].
  split.
  - apply (gd_float (mkF 0 (ascii_bytes "1"%string) (Some (ascii_bytes "5"%string)) (Some (x70, 0%N, ascii_bytes "1"%string))));
      vm_compute; reflexivity.
  - apply gd_int. apply (gi _ false (ascii_bytes "0x_1f"%string) 31%N); [apply gs_none|].
    apply (gim_prefix x30 x78 16%N (ascii_bytes "_1f"%string) (ascii_bytes "1f"%string) 31%N); try (vm_compute; reflexivity).
    + apply (unsep_us x5f x31); [reflexivity|vm_compute; discriminate|].
      apply unsep_dig; [vm_compute; discriminate|apply unsep_nil].
    + discriminate.
Qed.

(* the floating-point side of the characterisation: "1.5p1" is accepted as 3 by the specification's own rules
   (well formed, not an integer text, within the limits, 15 * 10^-1 * 2^1 = 3), "1p10000001" is beyond the limits *)
Example C19_nonvacuous_accepts :
  let f := mkF 0 (ascii_bytes "1"%string) (Some (ascii_bytes "5"%string)) (Some (x70, 0%N, ascii_bytes "1"%string)) in
  let g := mkF 0 (ascii_bytes "1"%string) None (Some (x70, 0%N, ascii_bytes "10000001"%string)) in
  fnum_text f = ascii_bytes "1.5p1"%string /\ accepts (fnum_text f) 3 /\ BigIntegerFromString (fnum_text f) = Ok 3%Z /\
  fnum_text g = ascii_bytes "1p10000001"%string /\ big_limits_float g = false /\ (exists err, BigIntegerFromString (fnum_text g) = Err err).
Proof.
  cbv zeta.
  set (f := mkF 0 (ascii_bytes "1"%string) (Some (ascii_bytes "5"%string)) (Some (x70, 0%N, ascii_bytes "1"%string))).
  set (g := mkF 0 (ascii_bytes "1"%string) None (Some (x70, 0%N, ascii_bytes "10000001"%string))).
  assert (A : accepts (fnum_text f) 3).
  { right. exists f. repeat (split; [vm_compute; reflexivity|]). vm_compute. reflexivity. }
  split; [vm_compute; reflexivity|]. split; [exact A|]. split; [apply C19_accepted_iff; exact A|].
  split; [vm_compute; reflexivity|]. split; [vm_compute; reflexivity|].
  pose proof (C19_float_text_exact g ltac:(vm_compute; reflexivity) ltac:(vm_compute; reflexivity)) as E.
  replace (big_limits_float g) with false in E by (vm_compute; reflexivity). exact E.
Qed.

(* ==== Answers to the referee report (design/reviews/C19.md; proofs in EthTypes/ProofsReferee.v) ==== *)

(* ---- I3. signed hex texts, either prefix case: [hex_text neg up s] = ["-"] "0" ("x"|"X") s.  The text entry point
   returns exactly (-)value; through the JSON layer (quoted: such a text is not a JSON number) the verdict is exact
   for both types, without any guard.  Negative hex is therefore an error for HexInteger and HexUint64. ---- *)
Theorem C19_signed_hex_exact : forall lex (ty64 neg up : bool) (s : bytes) (n : N),
  lex_law lex -> hex_value s = Some n ->
  let t := hex_text neg up s in
  let q := hex_text_value neg n in
  BigIntegerFromString t = Ok q /\
  (in_range ty64 q = true -> parse_int ty64 lex (quote t) = Ok q) /\
  (in_range ty64 q = false -> exists err, parse_int ty64 lex (quote t) = Err err).
Proof. exact signed_hex_exact. Qed.
Print Assumptions C19_signed_hex_exact.

Theorem C19_negative_hex_rejected : forall lex (ty64 up : bool) (s : bytes) (n : N),
  lex_law lex -> hex_value s = Some n -> n <> 0%N ->
  exists err, parse_int ty64 lex (quote (hex_text true up s)) = Err err.
Proof. exact negative_hex_rejected. Qed.
Print Assumptions C19_negative_hex_rejected.

(* ---- I4. the JSON layer of addresses / byte strings: a quoted plain text reaches SetString / hex.DecodeString
   unchanged; bytes are returned only for a string that spells them, for EVERY lexer and document (no law); the
   three rejection classes of the property stated explicitly ([bad_hex body]: odd number of characters, or a
   character that is not a hex digit; body = the text after strings.TrimPrefix(s, "0x")); a well-spelled byte
   string of any length other than 20 (19 and 21 included) is an error, with and without "0x". ---- *)
Theorem C19_json_layer_unfold : forall lexs (s : bytes),
  lexs_law lexs -> forallb plain_char s = true ->
  Address_UnmarshalJSON lexs (quote s) = Address_SetString s /\
  HexBytes_UnmarshalJSON lexs (quote s) = hex_decode (trim0x s).
Proof. intros lexs s L P. split; [apply Address_UnmarshalJSON_quote|apply HexBytes_UnmarshalJSON_quote]; assumption. Qed.
Print Assumptions C19_json_layer_unfold.

Theorem C19_json_layer_inv : forall (lexs : bytes -> option bytes) (d b : bytes),
  (Address_UnmarshalJSON lexs d = Ok b ->
     exists s, lexs d = Some s /\ length b = 20%nat /\ (hex_spells s b \/ exists s', s = t_0x ++ s' /\ hex_spells s' b)) /\
  (HexBytes_UnmarshalJSON lexs d = Ok b ->
     exists s, lexs d = Some s /\ (hex_spells s b \/ exists s', s = t_0x ++ s' /\ hex_spells s' b)) /\
  Address_UnmarshalJSON lexs d <> Panic /\ HexBytes_UnmarshalJSON lexs d <> Panic.
Proof. exact json_layer_inv. Qed.
Print Assumptions C19_json_layer_inv.

Theorem C19_bad_hex_rejected : forall s : bytes,
  bad_hex (trim0x s) -> (exists e, Address_SetString s = Err e) /\ (exists e, hex_decode (trim0x s) = Err e).
Proof. intros s H. split; [apply address_rejects_bad_hex|apply hexbytes_rejects]; exact H. Qed.
Print Assumptions C19_bad_hex_rejected.

Theorem C19_address_wrong_length_rejected : forall (s b : bytes),
  hex_spells s b -> length b <> 20%nat ->
  (exists e, Address_SetString s = Err e) /\ (exists e, Address_SetString (t_0x ++ s) = Err e).
Proof. exact address_rejects_wrong_length. Qed.
Print Assumptions C19_address_wrong_length_rejected.

Theorem C19_json_layer_rejects : forall lexs (s : bytes),
  lexs_law lexs -> forallb plain_char s = true ->
  (bad_hex (trim0x s) ->
     (exists e, Address_UnmarshalJSON lexs (quote s) = Err e) /\ (exists e, HexBytes_UnmarshalJSON lexs (quote s) = Err e)) /\
  (forall b, hex_spells s b -> length b <> 20%nat ->
     (exists e, Address_UnmarshalJSON lexs (quote s) = Err e) /\ (exists e, Address_UnmarshalJSON lexs (quote (t_0x ++ s)) = Err e)).
Proof. exact json_layer_rejects. Qed.
Print Assumptions C19_json_layer_rejects.

(* ---- I5. MarshalJSON of the five address / byte-string types (EthTypes/ModelMarshal.v: the String() text between
   double quotes): documented forms, the checksum one is EIP-55, and Unmarshal (Marshal x) = x. ---- *)
Theorem C19_marshal_forms : forall a : bytes,
  Address0xHex_MarshalJSON a = quote (t_0x ++ lower_hex a) /\
  AddressPlainHex_MarshalJSON a = quote (lower_hex a) /\
  HexBytes0xPrefix_MarshalJSON a = quote (t_0x ++ lower_hex a) /\
  HexBytesPlain_MarshalJSON a = quote (lower_hex a).
Proof. exact marshal_forms. Qed.
Print Assumptions C19_marshal_forms.

Theorem C19_checksum_marshal_form : forall (H : bytes -> bytes), (forall x, length (H x) = 32%nat) ->
  forall a : bytes, length a = 20%nat -> AddressWithChecksum_MarshalJSON H a = Ok (quote (eip55 H a)).
Proof. exact checksum_marshal_form. Qed.
Print Assumptions C19_checksum_marshal_form.

Theorem C19_marshal_roundtrip : forall lexs (H : bytes -> bytes),
  lexs_law lexs -> (forall x, length (H x) = 32%nat) ->
  (forall h, HexBytes_UnmarshalJSON lexs (HexBytes0xPrefix_MarshalJSON h) = Ok h /\
             HexBytes_UnmarshalJSON lexs (HexBytesPlain_MarshalJSON h) = Ok h) /\
  (forall a, length a = 20%nat ->
     Address_UnmarshalJSON lexs (Address0xHex_MarshalJSON a) = Ok a /\
     Address_UnmarshalJSON lexs (AddressPlainHex_MarshalJSON a) = Ok a /\
     exists j, AddressWithChecksum_MarshalJSON H a = Ok j /\ Address_UnmarshalJSON lexs j = Ok a).
Proof. exact marshal_roundtrip. Qed.
Print Assumptions C19_marshal_roundtrip.

(* ---- I2. C19_eip55 instantiated with the executable Keccak-256 of Base/Keccak.v (the hash the evaluator uses);
   that [keccak256] IS legacy Keccak-256 rests on its test vectors and on the differential run. ---- *)
Theorem C19_eip55_keccak : forall a : bytes, length a = 20%nat ->
  AddressWithChecksum_String keccak256 a = Ok (eip55 keccak256 a) /\ Address_SetString (eip55 keccak256 a) = Ok a /\
  AddressWithChecksum_MarshalJSON keccak256 a = Ok (quote (eip55 keccak256 a)).
Proof. exact eip55_keccak. Qed.
Print Assumptions C19_eip55_keccak.

(* ---- I6. negative HexInteger values (constructible with NewHexInteger64(-1); outside the property's
   "non-negative"): the print form is "0x-.." and it does not parse back. ---- *)
Theorem C19_hexint_negative_no_roundtrip : forall lex (p : positive),
  lex_law lex ->
  HexInteger_MarshalJSON (Z.neg p) = quote (t_0x ++ t_minus ++ text16 (N.pos p)) /\
  exists err, HexInteger_UnmarshalJSON lex (HexInteger_MarshalJSON (Z.neg p)) = Err err.
Proof. intros lex p L. split; [apply HexInteger_negative_print|apply HexInteger_negative_no_roundtrip; exact L]. Qed.
Print Assumptions C19_hexint_negative_no_roundtrip.

(* ---- non-vacuity of the answers ---- *)
(* "-0x1f" and "-0X1F" are errors for both types, -31 at the text entry point; "0X1f" is 31; "-0x0" is 0 *)
Example C19_nonvacuous_signed_hex :
  hex_text true false (ascii_bytes "1f"%string) = ascii_bytes "-0x1f"%string /\
  hex_value (ascii_bytes "1f"%string) = Some 31%N /\
  BigIntegerFromString (ascii_bytes "-0x1f"%string) = Ok (-31)%Z /\
  (forall ty64, exists err, parse_int ty64 simple_lexer (quote (ascii_bytes "-0x1f"%string)) = Err err) /\
  (forall ty64, exists err, parse_int ty64 simple_lexer (quote (ascii_bytes "-0X1F"%string)) = Err err) /\
  parse_int true simple_lexer (quote (ascii_bytes "0X1f"%string)) = Ok 31%Z /\
  parse_int false simple_lexer (quote (ascii_bytes "-0x0"%string)) = Ok 0%Z.
Proof.
  split; [vm_compute; reflexivity|]. split; [vm_compute; reflexivity|]. split; [vm_compute; reflexivity|].
  split; [intros ty64; exact (C19_negative_hex_rejected simple_lexer ty64 false (ascii_bytes "1f"%string) 31%N simple_lexer_law eq_refl ltac:(discriminate))|].
  split; [intros ty64; exact (C19_negative_hex_rejected simple_lexer ty64 true (ascii_bytes "1F"%string) 31%N simple_lexer_law eq_refl ltac:(discriminate))|].
  split; vm_compute; reflexivity.
Qed.

(* lexs_law is satisfiable; 19 / 21 bytes, an odd digit count and a non-hex character are errors through the JSON layer,
   a 20-byte text is accepted; the hypotheses of the rejection theorems hold for these texts *)
Example C19_nonvacuous_json_layer :
  let t19 := repeat x61 38 in let t20 := repeat x61 40 in let t21 := repeat x61 42 in
  let todd := repeat x61 39 in let tg := repeat x61 39 ++ [x67] in
  lexs_law plain_string /\
  Address_UnmarshalJSON plain_string (quote t20) = Ok (repeat xaa 20) /\
  (exists e, Address_UnmarshalJSON plain_string (quote t19) = Err e) /\
  (exists e, Address_UnmarshalJSON plain_string (quote (t_0x ++ t21)) = Err e) /\
  (exists e, Address_UnmarshalJSON plain_string (quote todd) = Err e) /\
  (exists e, Address_UnmarshalJSON plain_string (quote tg) = Err e) /\
  (exists e, HexBytes_UnmarshalJSON plain_string (quote tg) = Err e) /\
  hex_spells t19 (repeat xaa 19) /\ bad_hex (trim0x todd) /\ bad_hex (trim0x tg).
Proof.
  cbv zeta. split; [exact plain_string_law|]. split; [vm_compute; reflexivity|].
  do 5 (split; [vm_compute; eauto|]).
  split; [vm_compute; repeat split; exists 10%N, 10%N; repeat split|].
  split; [left; vm_compute; reflexivity|].
  right. exists x67. split; [vm_compute; tauto|vm_compute; reflexivity].
Qed.

(* I1: the model CAN panic - the checksum loop indexes into the hash text, so with a hash shorter than 20 bytes the
   model's String() / MarshalJSON panic (as hexHash[i] would in Go).  [= Ok] in C19_eip55 is therefore a real
   statement; the integer and byte-string parsers on the other hand contain no partial operation (as in the Go
   code: math/big, encoding/hex, encoding/json calls only), so their [<> Panic] statements hold by construction. *)
Example C19_nonvacuous_model_can_panic :
  AddressWithChecksum_String (fun _ => []) (repeat xab 20) = Panic /\
  AddressWithChecksum_MarshalJSON (fun _ => repeat xf0 19) (repeat xab 20) = Panic.
Proof. split; vm_compute; reflexivity. Qed.

(* I2: the first test vector of EIP-55 with the executable Keccak-256 *)
Example C19_nonvacuous_eip55_keccak :
  AddressWithChecksum_String keccak256 (unhex "5aaeb6053f3e94c9b9a09f33669435e7ef1beaed") =
    Ok (ascii_bytes "0x5aAeb6053F3E94C9b9A09f33669435E7Ef1BeAed"%string) /\
  eip55 keccak256 (unhex "fb6916095ca1df60bb79ce92ce3ea74c37c5d359") = ascii_bytes "0xfB6916095ca1df60bB79Ce92cE3Ea74c37c5d359"%string.
Proof. split; vm_compute; reflexivity. Qed.

Example C19_nonvacuous_marshal :
  Address0xHex_MarshalJSON (repeat xab 20) = quote (ascii_bytes "0xabababababababababababababababababababab"%string) /\
  HexBytesPlain_MarshalJSON [x01; xfe] = quote (ascii_bytes "01fe"%string) /\
  HexBytes_UnmarshalJSON plain_string (HexBytes0xPrefix_MarshalJSON []) = Ok [] /\
  HexInteger_MarshalJSON (-1) = quote (ascii_bytes "0x-1"%string) /\
  (exists err, HexInteger_UnmarshalJSON simple_lexer (HexInteger_MarshalJSON (-1)) = Err err).
Proof. repeat (split; [vm_compute; reflexivity|]). vm_compute. eauto. Qed.

(* ==== Wave 6 (proofs in EthTypes/ProofsWave6.v) ==== *)

(* ---- W6-A. addresses / byte strings, complete verdict without any law on the lexer.  [spelled s b]: s spells b
   in hex of any case, with or without "0x".  Text entry points: Ok b exactly for the spelled texts (of 20 bytes
   for an address), everything else is an error.  Through json.Unmarshal, for EVERY lexer and EVERY document: bytes
   are returned exactly when the lexer returned a string that spells them; the error side names the classes
   (document refused by the lexer; odd / non-hex string; a spelling of another length than 20).  This supersedes
   the [lexs_law] + "quoted plain ASCII" restriction of C19_json_layer_rejects: the only hypothesis left is on
   what the lexer returned. ---- *)
Theorem C19_text_layer_verdict : forall s : bytes,
  (forall b, Address_SetString s = Ok b <-> length b = 20%nat /\ spelled s b) /\
  (forall b, hex_decode (trim0x s) = Ok b <-> spelled s b) /\
  ((forall b, length b = 20%nat -> ~ spelled s b) -> exists e, Address_SetString s = Err e) /\
  ((forall b, ~ spelled s b) -> exists e, hex_decode (trim0x s) = Err e).
Proof. exact text_layer_verdict. Qed.
Print Assumptions C19_text_layer_verdict.

Theorem C19_spelled_unique : forall s b b' : bytes, spelled s b -> spelled s b' -> b = b'.
Proof. exact spelled_unique. Qed.
Print Assumptions C19_spelled_unique.

Theorem C19_json_layer_iff : forall (lexs : bytes -> option bytes) (d : bytes),
  (forall b, Address_UnmarshalJSON lexs d = Ok b <-> exists s, lexs d = Some s /\ length b = 20%nat /\ spelled s b) /\
  (forall b, HexBytes_UnmarshalJSON lexs d = Ok b <-> exists s, lexs d = Some s /\ spelled s b).
Proof. exact json_layer_iff. Qed.
Print Assumptions C19_json_layer_iff.

Theorem C19_json_layer_rejects_any : forall (lexs : bytes -> option bytes) (d : bytes),
  (lexs d = None ->
     (exists e, Address_UnmarshalJSON lexs d = Err e) /\ (exists e, HexBytes_UnmarshalJSON lexs d = Err e)) /\
  (forall s, lexs d = Some s -> bad_hex (trim0x s) ->
     (exists e, Address_UnmarshalJSON lexs d = Err e) /\ (exists e, HexBytes_UnmarshalJSON lexs d = Err e)) /\
  (forall s b, lexs d = Some s -> spelled s b -> length b <> 20%nat -> exists e, Address_UnmarshalJSON lexs d = Err e) /\
  ((forall s b, lexs d = Some s -> length b = 20%nat -> ~ spelled s b) -> exists e, Address_UnmarshalJSON lexs d = Err e) /\
  ((forall s b, lexs d = Some s -> ~ spelled s b) -> exists e, HexBytes_UnmarshalJSON lexs d = Err e).
Proof. exact json_layer_rejects_any. Qed.
Print Assumptions C19_json_layer_rejects_any.

(* ---- W6-B. the quantifier with the signed / 0X-prefixed hex class.  [spelling_x] = [spelling] (canonical decimal,
   negative decimal, 0x-hex, JSON number with the library-limit verdict) + [-] 0 (x|X) hexdigits with value
   (-)n, exponent 0, no library limit.  One exactness theorem (same conclusion as C19_parse_exact_boundary) and one
   safety theorem for all these classes; C19_parse_exact_boundary / C19_parse_never_wrong are the [sx_quant] case. ---- *)
Theorem C19_parse_exact_all_classes : forall lex (ty64 : bool) (t : bytes) (m e : Z) (l : bool) (b : bytes),
  lex_law lex -> spelling_x t m e l -> json_of t b ->
  (l = true ->
     (forall q, sci_is m e q -> in_range ty64 q = true -> parse_int ty64 lex b = Ok q) /\
     ((forall q, sci_is m e q -> in_range ty64 q = false) -> exists err, parse_int ty64 lex b = Err err)) /\
  (l = false -> exists err, parse_int ty64 lex b = Err err).
Proof. exact parse_exact_x. Qed.
Print Assumptions C19_parse_exact_all_classes.

Theorem C19_parse_never_wrong_all_classes : forall lex (ty64 : bool) (t : bytes) (m e : Z) (b : bytes) (q : Z),
  lex_law lex -> denotes_x t m e -> json_of t b ->
  parse_int ty64 lex b = Ok q -> sci_is m e q /\ in_range ty64 q = true.
Proof. exact parse_sound_x. Qed.
Print Assumptions C19_parse_never_wrong_all_classes.

Theorem C19_denotes_x_is_spelling_x : forall (t : bytes) (m e : Z), denotes_x t m e <-> exists l, spelling_x t m e l.
Proof. exact denotes_x_spelling_x. Qed.
Print Assumptions C19_denotes_x_is_spelling_x.

(* ---- W6-C. negative hex without the guard n <> 0: "-0x0.." is 0 and accepted, every other negative hex text is an
   error, and a returned value can only be that 0. ---- *)
Theorem C19_negative_hex_verdict : forall lex (ty64 up : bool) (s : bytes) (n : N),
  lex_law lex -> hex_value s = Some n ->
  (n = 0%N -> parse_int ty64 lex (quote (hex_text true up s)) = Ok 0%Z) /\
  (n <> 0%N -> exists err, parse_int ty64 lex (quote (hex_text true up s)) = Err err) /\
  (forall q, parse_int ty64 lex (quote (hex_text true up s)) = Ok q -> n = 0%N /\ q = 0%Z).
Proof. exact negative_hex_verdict. Qed.
Print Assumptions C19_negative_hex_verdict.

(* ---- non-vacuity (wave 6) ---- *)
(* a lexer that is NOT the plain-string fragment (it decodes some escaped document to the string "0xaB"): the byte
   string is returned, the address type refuses it (1 byte), a refusing lexer gives errors, "0xag" is bad hex *)
Example C19_nonvacuous_json_layer_any :
  let s := ascii_bytes "0xaB"%string in
  let lexs := fun _ : bytes => Some s in
  let d := ascii_bytes """\u0030xaB"""%string in
  spelled s [xab] /\ HexBytes_UnmarshalJSON lexs d = Ok [xab] /\
  (exists e, Address_UnmarshalJSON lexs d = Err e) /\
  (exists e, HexBytes_UnmarshalJSON (fun _ => None) d = Err e) /\
  bad_hex (trim0x (ascii_bytes "0xag"%string)) /\
  (exists e, HexBytes_UnmarshalJSON (fun _ => Some (ascii_bytes "0xag"%string)) d = Err e).
Proof.
  cbv zeta.
  assert (S : spelled (ascii_bytes "0xaB"%string) [xab]).
  { right. exists (ascii_bytes "aB"%string). split; [reflexivity|]. vm_compute. repeat split; exists 10%N, 11%N; repeat split. }
  assert (B : bad_hex (trim0x (ascii_bytes "0xag"%string))).
  { right. exists x67. split; [vm_compute; tauto|vm_compute; reflexivity]. }
  split; [exact S|].
  split; [apply (proj2 (C19_json_layer_iff _ _)); eexists; split; [reflexivity|exact S]|].
  split; [exact (proj1 (proj2 (proj2 (C19_json_layer_rejects_any _ _))) _ _ eq_refl S ltac:(discriminate))|].
  split; [exact (proj2 (proj1 (C19_json_layer_rejects_any (fun _ => None) _) eq_refl))|].
  split; [exact B|].
  exact (proj2 (proj1 (proj2 (C19_json_layer_rejects_any (fun _ => Some (ascii_bytes "0xag"%string)) _)) _ eq_refl B)).
Qed.

(* "-0X1F" is in the extended relation with value -31 and is an error for both types by the all-classes theorem;
   "0X1f" = 31 is accepted; "-0x000" is the accepted zero *)
Example C19_nonvacuous_all_classes :
  let t := ascii_bytes "-0X1F"%string in
  spelling_x t (-31) 0 true /\ json_of t (quote t) /\
  (forall ty64, exists err, parse_int ty64 simple_lexer (quote t) = Err err) /\
  spelling_x (ascii_bytes "0X1f"%string) 31 0 true /\
  parse_int true simple_lexer (quote (ascii_bytes "0X1f"%string)) = Ok 31%Z /\
  parse_int true simple_lexer (quote (ascii_bytes "-0x000"%string)) = Ok 0%Z.
Proof.
  cbv zeta.
  assert (S : spelling_x (ascii_bytes "-0X1F"%string) (-31) 0 true)
    by exact (sx_hex true true (ascii_bytes "1F"%string) 31%N eq_refl).
  assert (J : json_of (ascii_bytes "-0X1F"%string) (quote (ascii_bytes "-0X1F"%string))) by (left; reflexivity).
  split; [exact S|]. split; [exact J|].
  split.
  { intros ty64.
    apply (proj2 (proj1 (C19_parse_exact_all_classes simple_lexer ty64 _ _ _ _ _ simple_lexer_law S J) eq_refl)).
    intros q Hq. unfold sci_is in Hq. cbn in Hq. assert (q = (-31)%Z) by lia. subst q. destruct ty64; reflexivity. }
  split; [exact (sx_hex false true (ascii_bytes "1f"%string) 31%N eq_refl)|].
  split; [vm_compute; reflexivity|].
  exact (proj1 (C19_negative_hex_verdict simple_lexer true false (ascii_bytes "000"%string) 0%N simple_lexer_law eq_refl) eq_refl).
Qed.
