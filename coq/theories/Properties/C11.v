(* C11 — ABI decoding of arbitrary bytes is total, stable and bounded by the data given.
   Statements only; proofs live in Abi/DecTotalProofs*.v.  The decoder model is Abi/DecModel.v
   (owned by C03), its cost-instrumented twin Abi/DecCost.v. *)
From Coq Require Import List NArith ZArith Bool.
From Coq Require Import Init.Byte.
From FFS Require Import Base.Res Base.Bytes Base.Lit Abi.Types Abi.Spec Abi.ModelTypes Abi.DecModel Abi.DecCost
  Abi.DecTotalProofs Abi.SerModel Abi.DecTotalProofs2 Abi.EntryModel Abi.DecTotalProofs3 Abi.DecSpec Abi.EncModel Abi.EncProofs3 Abi.DecTotalProofs4 Abi.DecTotalProofs5 Abi.DecTotalProofs6 Abi.RunC11.
Import ListNotations.
Local Open Scope Z_scope.

(* 1. Totality.  For every valid component tree ([tc_wf]: what parseABIParameterComponents
      accepts), every byte string and every non-negative offsets, decoding an element never
      panics and reports a non-negative number of head bytes. *)
Theorem C11_total_element :
  forall (block : bytes) (c : tcomp) (hs hp : Z), tc_wf c = true -> 0 <= hs -> 0 <= hp ->
    decodeABIElement block c hs hp <> Panic /\
    (forall n v, decodeABIElement block c hs hp = Ok (n, v) -> 0 <= n).
Proof. exact decodeABIElement_total. Qed.
Print Assumptions C11_total_element.

(* ... hence return data (ParameterArray.DecodeABIData at any offset >= 0) ... *)
Theorem C11_total :
  forall (c : tcomp) (bs : bytes) (off : Z), tc_wf c = true -> 0 <= off -> DecodeABIData c bs off <> Panic.
Proof. exact DecodeABIData_total. Qed.
Print Assumptions C11_total.

(* ... and call data / revert data (Entry.DecodeCallData, for any selector). *)
Theorem C11_total_calldata :
  forall (id : bytes) (c : tcomp) (bs : bytes), tc_wf c = true -> DecModel.DecodeCallData id c bs <> Panic.
Proof. exact DecodeCallData_total. Qed.
Print Assumptions C11_total_calldata.

(* ... and the entry level of abi.go (model Abi/EntryModel.v instantiated with this decoder):
   event logs - any topic list, topics of any width, any data ... *)
Theorem C11_total_event :
  forall (H : bytes -> bytes) (e : entry) (topics : list bytes) (data : bytes),
    params_wf (e_inputs e) ->
    DecodeEventData H DecModel.DecodeABIData DecModel.decode_elementary e topics data <> Panic.
Proof. exact DecodeEventData_total. Qed.
Print Assumptions C11_total_event.

(* ... and revert data against any list of error definitions (ParseError, ErrorString), for any
   32-byte hash function. *)
Theorem C11_total_revert :
  forall (H : bytes -> bytes), (forall x, length (H x) = 32%nat) ->
  forall (format_args : cval -> option (list bytes)) (a : list entry) (revertData : bytes),
    (forall e, In e a -> params_wf (e_inputs e)) ->
    ParseError H DecModel.DecodeABIData a revertData <> Panic /\
    ErrorString H DecModel.DecodeABIData format_args a revertData <> Panic.
Proof. exact revert_total. Qed.
Print Assumptions C11_total_revert.

(* 2. Memory.  [DecodeABIData_c] is the decoder observed more closely: the same result ... *)
Theorem C11_cost_twin :
  forall (c : tcomp) (bs : bytes) (off : Z), fst (DecodeABIData_c c bs off) = DecodeABIData c bs off.
Proof. exact twin_DecodeABIData. Qed.
Print Assumptions C11_cost_twin.

(* ... together with the allocation units requested (every make([]…, n) counts n, every value node 1).
   They are bounded by [bound c |bs|], which is defined by recursion on the type and depends on
   nothing but the type and the *length* of the data: no length, count or offset word inside the
   data enters.  Hypothesis: no dynamic array has an element type of zero encoded size (the
   exclusion the property makes; see the Example below for why it is needed). *)
Theorem C11_alloc_bound :
  forall (c : tcomp) (bs : bytes) (off : Z),
    tc_wf c = true -> no_zero_size_elem c = true -> 0 <= off ->
    (alloc (DecodeABIData_c c bs off) <= bound c (N.of_nat (length bs)))%N.
Proof. exact DecodeABIData_alloc_bound. Qed.
Print Assumptions C11_alloc_bound.

Theorem C11_alloc_bound_calldata :
  forall (id : bytes) (c : tcomp) (bs : bytes),
    tc_wf c = true -> no_zero_size_elem c = true ->
    (alloc (DecodeCallData_c id c bs) <= bound c (N.of_nat (length bs)))%N.
Proof. exact DecodeCallData_alloc_bound. Qed.
Print Assumptions C11_alloc_bound_calldata.

(* ... and at the revert-data entry point: ABI.ParseError tries the built-in Error(string) and every
   error definition in turn, each attempt is one decode.  [ParseError_c] is C12's entry-level model
   observed more closely (same result, plus the decoder's units of every attempt); the units are
   bounded by the sum, over the definitions of type error, of the bound of their inputs for this
   data length - how many definitions there are, their types, the amount of data; no word inside
   the data.  Monotone in the data length. *)
Theorem C11_alloc_bound_revert :
  forall (H : bytes -> bytes) (a : list entry) (revertData : bytes),
    (forall e, In e a -> params_wf (e_inputs e)) -> (forall e, In e a -> params_nz (e_inputs e)) ->
    fst (ParseError_c H a revertData) = ParseError H DecModel.DecodeABIData a revertData /\
    (alloc (ParseError_c H a revertData) <= entries_bound (default_error :: a) (N.of_nat (length revertData)))%N /\
    (forall n', (N.of_nat (length revertData) <= n')%N ->
       (entries_bound (default_error :: a) (N.of_nat (length revertData)) <= entries_bound (default_error :: a) n')%N).
Proof.
  exact (fun H a d Hw Hnz => conj (twin_ParseError H a d) (conj (ParseError_alloc_bound H a d Hw Hnz)
           (fun n' Hn => entries_bound_mono (default_error :: a) _ n' Hn))).
Qed.
Print Assumptions C11_alloc_bound_revert.

(* the bound is a polynomial in the data length whose degree is the nesting of arrays; a fixed
   array contributes min(declared length, n/32 + 1) entries (the declared length itself only when
   its element type occupies no bytes) *)
Theorem C11_bound_shape :
  (forall ch k n, bound (TCDynArr ch k) n = (1 + (n / 32 + 1) + (n / 32 + 1) * bound ch n)%N) /\
  (forall len ch k n, bound (TCFixedArr len ch k) n =
     (let c := fixed_count len (occupiesHeadBytes ch) n in 1 + 2 * c + c * bound ch n)%N) /\
  (forall l k n, bound (TCTuple l k) n = (1 + N.of_nat (length l) + fold_right (fun ch acc => bound ch n + acc) 0 l)%N) /\
  (forall c n n', (n <= n')%N -> (bound c n <= bound c n')%N).
Proof. exact (conj bound_dyn (conj bound_fixed (conj bound_tuple bound_mono))). Qed.
Print Assumptions C11_bound_shape.

(* 3. A returned tree can always be serialised to JSON: the model of outputserialization.go
      (Abi/SerModel.v) never panics on a decoded tree, in any formatting mode, with any built-in
      integer / byte / address serializer, any float serializer, default-name generator and hash
      function (the address FillBytes cannot overflow: the reader takes exactly 20 bytes). *)
Theorem C11_serializable :
  forall (c : tcomp) (bs : bytes) (off : Z) (x : cval),
    tc_wf c = true -> DecodeABIData c bs off = Ok x ->
    forall (H : bytes -> bytes) (fs : bfloat -> jv) (dn : nat -> bytes) (s : serializer),
      SerializeJSON H fs dn s x <> Panic /\ SerializeInterface H fs dn s x <> Panic.
Proof. exact decoded_serializable. Qed.
Print Assumptions C11_serializable.

Theorem C11_serializable_calldata :
  forall (id : bytes) (c : tcomp) (bs : bytes) (x : cval),
    tc_wf c = true -> DecModel.DecodeCallData id c bs = Ok x ->
    forall (H : bytes -> bytes) (fs : bfloat -> jv) (dn : nat -> bytes) (s : serializer),
      SerializeJSON H fs dn s x <> Panic /\ SerializeInterface H fs dn s x <> Panic.
Proof. exact decoded_calldata_serializable. Qed.
Print Assumptions C11_serializable_calldata.

(* ... including the trees returned for event logs (topic-derived leaves hold the decoded value or the
   raw topic bytes) and for revert data. *)
Theorem C11_serializable_event :
  forall (H : bytes -> bytes) (e : entry) (topics : list bytes) (data : bytes) (x : cval),
    params_wf (e_inputs e) ->
    DecodeEventData H DecModel.DecodeABIData DecModel.decode_elementary e topics data = Ok x ->
    forall (H' : bytes -> bytes) (fs : bfloat -> jv) (dn : nat -> bytes) (s : serializer),
      SerializeJSON H' fs dn s x <> Panic /\ SerializeInterface H' fs dn s x <> Panic.
Proof. exact event_tree_serializable. Qed.
Print Assumptions C11_serializable_event.

Theorem C11_serializable_revert :
  forall (H : bytes -> bytes) (a : list entry) (revertData : bytes) (e : entry) (x : cval),
    (forall e, In e a -> params_wf (e_inputs e)) ->
    ParseError H DecModel.DecodeABIData a revertData = Ok (Some (e, x)) ->
    forall (H' : bytes -> bytes) (fs : bfloat -> jv) (dn : nat -> bytes) (s : serializer),
      SerializeJSON H' fs dn s x <> Panic /\ SerializeInterface H' fs dn s x <> Panic.
Proof. exact revert_tree_serializable. Qed.
Print Assumptions C11_serializable_revert.

(* 4. Stability.  What a decoded tree looks like (unconditional): it is shaped like the component
      tree, holds at every leaf the Go value kind the encoder asserts, is the canonical tree
      [cv_of c (val_of x)] of its own value, and - if the encoder accepts it and its bool leaves hold
      0 or 1 - its value is well typed in the sense of the ABI specification. *)
Theorem C11_decoded_tree_shape :
  forall (c : tcomp) (bs : bytes) (off : Z) (x : cval),
    tc_wf c = true -> tc_no_fixed_point c = true -> DecodeABIData c bs off = Ok x ->
    typed_as c x = true /\ values_ok x = true /\ cv_of c (val_of x) = x /\
    ((exists r, encodeABIData x = Ok r) -> bools_ok x = true -> well_typed (ty_of c) (val_of x) = true).
Proof. exact DecodeABIData_facts. Qed.
Print Assumptions C11_decoded_tree_shape.

(* Decoding the re-encoding of a decoded tree yields the same tree, *given* C03's round-trip
   statement for the decoder ([decode_inverts_enc]: decoding the specification encoding of a well
   typed value returns its canonical tree), through C02's theorem that the encoder produces the
   specification encoding.  Guards: no fixed-point leaf (refuted below), no zero-length fixed
   array, bool leaves holding 0 or 1 (a bool decoded from a word 2..255 re-encodes and re-decodes to
   itself in the implementation, but is outside the specification's typing and so outside this
   route), C02's size guard (fewer than 2^248 bytes/nodes) and C03's (re-encoding shorter than 2^32
   bytes, every sequence shorter than 2^32: the decoder refuses count/offset words above 32 bits). *)
Theorem C11_stable_partial :
  decode_inverts_enc ->
  forall (c : tcomp) (bs : bytes) (off : Z) (x : cval) (e : bytes),
    tc_wf c = true -> tc_no_fixed_point c = true -> tc_no_zero_len c = true ->
    DecodeABIData c bs off = Ok x -> EncodeABIData x = Ok e ->
    bools_ok x = true -> weight_ok (val_of x) ->
    zlen e < 2 ^ 32 -> list_counts_ok (val_of x) = true ->
    DecodeABIData c e 0 = Ok x.
Proof. exact stable_given_roundtrip. Qed.
Print Assumptions C11_stable_partial.

(* ... and with C03's round-trip theorem (DecProofs4.DecodeABIData_enc) the hypothesis is discharged:
   decoding the re-encoding of a decoded tree yields the same tree (same guards). *)
Theorem C11_stable :
  forall (c : tcomp) (bs : bytes) (off : Z) (x : cval) (e : bytes),
    tc_wf c = true -> tc_no_fixed_point c = true -> tc_no_zero_len c = true ->
    DecodeABIData c bs off = Ok x -> EncodeABIData x = Ok e ->
    bools_ok x = true -> weight_ok (val_of x) ->
    zlen e < 2 ^ 32 -> list_counts_ok (val_of x) = true ->
    DecodeABIData c e 0 = Ok x.
Proof. exact stable. Qed.
Print Assumptions C11_stable.

(* REFUTED for fixed-point leaves (known finding C11/fixed-point-reencode): fixed8x1 decoded from
   the word -1 is -0.1; the encoder takes the absolute value, so the re-encoding decodes to +0.1 *)
Theorem C11_stable_fixed_refuted :
  exists (c : tcomp) (bs : bytes) (x : cval) (e : bytes),
    tc_wf c = true /\ DecodeABIData c bs 0 = Ok x /\ EncodeABIData x = Ok e /\
    match DecodeABIData c e 0 with Ok x' => cval_eqb x x' | _ => false end = false.
Proof. exact stable_fixed_refuted. Qed.
Print Assumptions C11_stable_fixed_refuted.

(* ---------- non-vacuity ---------- *)
(* (uint256[], string): valid, inside the memory clause; the D11a witness (count 2^32-1 in 64 bytes)
   is an error that requests nothing, a well-formed input decodes and stays below the bound *)
Definition ex_ty : tcomp := tc_of_ty (TTuple [TDynArr (TUInt 256); TString]).
Definition w (n : N) : bytes := Rlp.Model.be_fixed 32 n.
Example C11_hypotheses_met : tc_wf ex_ty = true /\ no_zero_size_elem ex_ty = true.
Proof. vm_compute. auto. Qed.
Example C11_D11a_witness_is_an_error :
  DecodeABIData_c (tc_of_ty (TTuple [TDynArr (TUInt 256)])) (w 32 ++ w 4294967295) 0 = (Err ENotEnoughValue, 2%N).
Proof. vm_compute. reflexivity. Qed.
Example C11_decodes_something :
  let bs := w 64 ++ w 128 ++ w 1 ++ w 7 ++ w 2 ++ [x41; x42] ++ repeat x00 30 in
  exists v, DecodeABIData_c ex_ty bs 0 = (Ok v, 9%N) /\ (9 <= bound ex_ty (N.of_nat (length bs)))%N.
Proof. vm_compute. eexists. split; [reflexivity|discriminate]. Qed.
(* why the hypothesis of C11_alloc_bound is needed: uint256[0][] with a count of 100 in 64 bytes *)
Example C11_zero_size_elements_are_unbounded :
  let c := tc_of_ty (TTuple [TDynArr (TFixedArr (TUInt 256) 0)]) in
  let bs := w 32 ++ w 100 in
  tc_wf c = true /\ no_zero_size_elem c = false /\
  (bound c (N.of_nat (length bs)) < alloc (DecodeABIData_c c bs 0))%N.
Proof. vm_compute. auto. Qed.
(* an address word with dirty upper bytes decodes (the reader takes the low 20 bytes) and serialises *)
Example C11_serializable_nonvacuous :
  let c := tc_of_ty (TTuple [TAddress; TDynArr TBool]) in
  let bs := repeat xff 32 ++ w 64 ++ w 1 ++ repeat xff 32 in
  exists x, DecodeABIData c bs 0 = Ok x /\
            is_ok (SerializeJSON (fun _ => []) (fun _ => JNull) (fun _ => []) NewSerializer x) = true.
Proof. eexists. split; [vm_compute; reflexivity|vm_compute; reflexivity]. Qed.
(* an event with an indexed string, an indexed uint8 and a data bytes: the hypothesis is met, a short
   topic is an error, not a panic *)
Example C11_total_event_nonvacuous :
  let e := mkEntry TyEvent [x45] true
             [mkParam (Some (tc_of_ty TString)) true; mkParam (Some (tc_of_ty (TUInt 8))) true;
              mkParam (Some (tc_of_ty TBytes)) false] in
  params_wf (e_inputs e) /\
  is_ok (DecodeEventData (fun _ => []) DecModel.DecodeABIData DecModel.decode_elementary e
           [repeat xff 33; w 7] (w 32 ++ w 1 ++ w 0)) = true /\
  is_err (DecodeEventData (fun _ => []) DecModel.DecodeABIData DecModel.decode_elementary e
           [repeat xff 33; repeat x00 31] (w 32 ++ w 1 ++ w 0)) = true.
Proof.
  split; [|split; vm_compute; reflexivity].
  intros p tc [<-|[<-|[<-|[]]]] E; injection E as <-; reflexivity.
Qed.
(* the hypotheses of C11_stable_partial are met by a decoded (uint8[], string, bool), and the
   conclusion holds for it *)
Example C11_stable_hypotheses_met :
  let c := tc_of_ty (TTuple [TDynArr (TUInt 8); TString; TBool]) in
  let bs := w 96 ++ w 160 ++ w 1 ++ w 1 ++ repeat xff 32 ++ w 2 ++ [x41; x42] ++ repeat x00 30 in
  tc_wf c = true /\ tc_no_fixed_point c = true /\ tc_no_zero_len c = true /\
  match DecodeABIData c bs 0 with
  | Ok x => match EncodeABIData x with
            | Ok e => bools_ok x && match DecodeABIData c e 0 with Ok x' => cval_eqb x x' | _ => false end
            | _ => false
            end
  | _ => false
  end = true.
Proof. vm_compute. auto. Qed.
(* D11b: the declared length of a fixed array does not enter either: uint256[4294967295] on an empty
   input is an error that requests nothing, and its bound for 0 bytes of data is 6 units *)
Example C11_declared_length_does_not_matter :
  let c := tc_of_ty (TTuple [TFixedArr (TUInt 256) 4294967295]) in
  tc_wf c = true /\ no_zero_size_elem c = true /\
  DecodeABIData_c c [] 0 = (Err ENotEnoughValue, 2%N) /\ bound c 0 = 6%N.
Proof. vm_compute. auto. Qed.
(* revert data: one custom error E(uint256,uint8[]) next to the built-in Error(string).  With a hash
   whose first four bytes are zero both selectors are 00000000: the data is first tried as
   Error(string) (its first word, 2^40, is refused as an offset: 3 units, an error), then as
   E(uint256,uint8[]) (decodes, 9 units); the hypotheses of C11_alloc_bound_revert are met and the 12
   units are below the bound for 164 bytes (184). *)
Example C11_alloc_bound_revert_nonvacuous :
  let H0 := fun _ : bytes => repeat x00 32 in
  let a := [mkEntry TyError [x45] false [mkParam (Some (tc_of_ty (TUInt 256))) false;
                                          mkParam (Some (tc_of_ty (TDynArr (TUInt 8)))) false]] in
  let d := repeat x00 4 ++ w 1099511627776 ++ w 64 ++ w 2 ++ w 7 ++ w 8 in
  (forall e, In e a -> params_wf (e_inputs e)) /\
  (forall e, In e a -> params_nz (e_inputs e)) /\
  (match fst (ParseError_c H0 a d) with Ok (Some (e, _)) => bytes_eqb (e_name e) [x45] | _ => false end,
   alloc (ParseError_c H0 a d), entries_bound (default_error :: a) (N.of_nat (length d))) = (true, 12%N, 184%N).
Proof.
  split; [|split; [|vm_compute; reflexivity]].
  - intros e [<-|[]] p tc [<-|[<-|[]]] E; injection E as <-; reflexivity.
  - intros e [<-|[]] p tc [<-|[<-|[]]] E; injection E as <-; reflexivity.
Qed.

(* ... and at the event entry point (round 5).  [DecodeEventData_c] is C12's entry-level model of
   Entry.DecodeEventDataCtx observed more closely: the same result, plus the units requested - the
   two slices and two nodes sized by the number of inputs, one map entry per non-indexed input, per
   indexed input the elementary reader on its topic (value types) or two nodes (hashed topics,
   returned as raw bytes without a copy), and the decoder's units on the data.  They are bounded by
   [event_bound e |data|]: the definition and the length of the data; the topic list (how many
   topics, how wide, what they contain) does not enter at all, nor does any word inside the data.
   Monotone in the data length. *)
From FFS Require Import Abi.EntryProofsEvent Abi.DecTotalProofs7.
Theorem C11_alloc_bound_event :
  forall (H : bytes -> bytes) (e : entry) (topics : list bytes) (data : bytes),
    params_wf (e_inputs e) -> params_nz (e_inputs e) ->
    fst (DecodeEventData_c H e topics data) =
      DecodeEventData H DecModel.DecodeABIData DecModel.decode_elementary e topics data /\
    (alloc (DecodeEventData_c H e topics data) <= event_bound e (N.of_nat (length data)))%N /\
    (forall n', (N.of_nat (length data) <= n')%N ->
       (event_bound e (N.of_nat (length data)) <= event_bound e n')%N).
Proof.
  exact (fun H e topics data Hw Hnz =>
           conj (twin_DecodeEventData H e topics data)
             (conj (DecodeEventData_alloc_bound H e topics data Hw Hnz)
                (fun n' Hn => event_bound_mono e _ n' Hn))).
Qed.
Print Assumptions C11_alloc_bound_event.

(* the shape of the event bound: nothing but the inputs of the definition and the data length *)
Theorem C11_event_bound_shape :
  forall (e : entry) (cs : list tcomp) (n : N),
    tree_children (e_inputs e) = Ok cs ->
    let l := zip_inputs cs (e_inputs e) in
    event_bound e n = (2 + 2 * N.of_nat (length cs) + walk_bound l + bound (TCTuple (data_args l) []) n)%N.
Proof. exact (fun e cs n E => event_bound_shape e cs n E). Qed.
Print Assumptions C11_event_bound_shape.

(* an anonymous event E(string indexed, uint8 indexed, function indexed, bytes, uint8[]): the
   hypotheses are met; with a 33-byte and a 4096-byte topic and 256 bytes of data it decodes and
   requests 53 units, below the bound for 256 bytes of data (287); the same data with the array count
   replaced by 2^32-1 is an error that requested 48 units (nothing for the array). *)
Example C11_alloc_bound_event_nonvacuous :
  let H0 := fun _ : bytes => repeat x00 32 in
  let e := mkEntry TyEvent [x45] true
             [mkParam (Some (tc_of_ty TString)) true; mkParam (Some (tc_of_ty (TUInt 8))) true;
              mkParam (Some (tc_of_ty TFunction)) true;
              mkParam (Some (tc_of_ty TBytes)) false; mkParam (Some (tc_of_ty (TDynArr (TUInt 8)))) false] in
  let topics := [repeat xff 33; w 7; repeat x11 4096] in
  let d := w 64 ++ w 128 ++ w 2 ++ [x41; x42] ++ repeat x00 30 ++ w 2 ++ w 7 ++ w 8 in
  let d' := w 64 ++ w 128 ++ w 2 ++ [x41; x42] ++ repeat x00 30 ++ w 4294967295 ++ w 7 ++ w 8 in
  params_wf (e_inputs e) /\ params_nz (e_inputs e) /\
  (is_ok (fst (DecodeEventData_c H0 e topics d)), alloc (DecodeEventData_c H0 e topics d),
   is_err (fst (DecodeEventData_c H0 e topics d')), alloc (DecodeEventData_c H0 e topics d'),
   event_bound e (N.of_nat (length d))) = (true, 53%N, true, 48%N, 287%N).
Proof.
  split; [|split; [|vm_compute; reflexivity]].
  - intros p tc [<-|[<-|[<-|[<-|[<-|[]]]]]] E; injection E as <-; reflexivity.
  - intros p tc [<-|[<-|[<-|[<-|[<-|[]]]]]] E; injection E as <-; reflexivity.
Qed.

(* ================================================================================================
   Answers to the referee report design/reviews/C11.md (proofs: Abi/DecTotalProofs8.v, 9.v)
   ================================================================================================ *)
From FFS Require Import Abi.DecTotalProofs8 Abi.DecTotalProofs9.

(* I1.  "A returned tree can always be serialised": the serializer model ACCEPTS every decoded tree -
   the result is Ok, not merely "not Panic" - in every formatting mode the serializer knows, with any
   value serializers, float serializer, name generator and hash; SerializeJSON returns the wire form
   of what SerializeInterface returns.  (The model does have Err and Panic outcomes: see the Examples
   C11_serializer_can_fail below.) *)
Theorem C11_serializable_ok :
  forall (c : tcomp) (bs : bytes) (off : Z) (x : cval),
    tc_wf c = true -> DecodeABIData c bs off = Ok x ->
    forall (H : bytes -> bytes) (fs : bfloat -> jv) (dn : nat -> bytes) (s : serializer), ts s <> FormatOther ->
      exists j, SerializeInterface H fs dn s x = Ok j /\ SerializeJSON H fs dn s x = Ok (wire j).
Proof. exact decoded_serializes. Qed.
Print Assumptions C11_serializable_ok.

Theorem C11_serializable_calldata_ok :
  forall (id : bytes) (c : tcomp) (bs : bytes) (x : cval),
    tc_wf c = true -> DecModel.DecodeCallData id c bs = Ok x ->
    forall (H : bytes -> bytes) (fs : bfloat -> jv) (dn : nat -> bytes) (s : serializer), ts s <> FormatOther ->
      exists j, SerializeInterface H fs dn s x = Ok j /\ SerializeJSON H fs dn s x = Ok (wire j).
Proof. exact decoded_calldata_serializes. Qed.
Print Assumptions C11_serializable_calldata_ok.

Theorem C11_serializable_event_ok :
  forall (H : bytes -> bytes) (e : entry) (topics : list bytes) (data : bytes) (x : cval),
    params_wf (e_inputs e) ->
    DecodeEventData H DecModel.DecodeABIData DecModel.decode_elementary e topics data = Ok x ->
    forall (H' : bytes -> bytes) (fs : bfloat -> jv) (dn : nat -> bytes) (s : serializer), ts s <> FormatOther ->
      exists j, SerializeInterface H' fs dn s x = Ok j /\ SerializeJSON H' fs dn s x = Ok (wire j).
Proof. exact event_tree_serializes. Qed.
Print Assumptions C11_serializable_event_ok.

Theorem C11_serializable_revert_ok :
  forall (H : bytes -> bytes) (a : list entry) (revertData : bytes) (e : entry) (x : cval),
    (forall e, In e a -> params_wf (e_inputs e)) ->
    ParseError H DecModel.DecodeABIData a revertData = Ok (Some (e, x)) ->
    forall (H' : bytes -> bytes) (fs : bfloat -> jv) (dn : nat -> bytes) (s : serializer), ts s <> FormatOther ->
      exists j, SerializeInterface H' fs dn s x = Ok j /\ SerializeJSON H' fs dn s x = Ok (wire j).
Proof. exact revert_tree_serializes. Qed.
Print Assumptions C11_serializable_revert_ok.

(* the guard cannot be dropped: with a formatting mode the serializer does not know, every decoded
   tree (its root is a tuple node) is refused with the error EUnknownTupleSerializer *)
Theorem C11_serializable_unknown_mode_is_error :
  forall (c : tcomp) (bs : bytes) (off : Z) (x : cval), DecodeABIData c bs off = Ok x ->
    forall (H : bytes -> bytes) (fs : bfloat -> jv) (dn : nat -> bytes) (s : serializer), ts s = FormatOther ->
      SerializeInterface H fs dn s x = Err EUnknownTupleSerializer /\
      SerializeJSON H fs dn s x = Err EUnknownTupleSerializer.
Proof. exact decoded_unknown_mode_is_error. Qed.
Print Assumptions C11_serializable_unknown_mode_is_error.

(* referee table, row "call data": the entry-level decoder Entry.DecodeCallDataCtx (selector computed
   from the signature with any 32-byte hash) directly - never panics, and its tree serialises *)
Theorem C11_entry_calldata :
  forall (H : bytes -> bytes), (forall x, length (H x) = 32%nat) ->
  forall (e : entry) (b : bytes), params_wf (e_inputs e) ->
    EntryModel.DecodeCallData H DecModel.DecodeABIData e b <> Panic /\
    (forall x, EntryModel.DecodeCallData H DecModel.DecodeABIData e b = Ok x ->
       forall (H' : bytes -> bytes) (fs : bfloat -> jv) (dn : nat -> bytes) (s : serializer), ts s <> FormatOther ->
         exists j, SerializeInterface H' fs dn s x = Ok j /\ SerializeJSON H' fs dn s x = Ok (wire j)).
Proof. exact entry_calldata_total_serializes. Qed.
Print Assumptions C11_entry_calldata.

(* I6.  The composition inside ErrorString: FormatErrorStringCtx serialises the tree returned by
   ParseError with the configuration [error_string_serializer] (flat arrays, base-10 integers,
   0x-prefixed bytes and addresses) and asserts the result to be a []interface{}.  On every tree
   ParseError returns, that call returns Ok (JArr _): no panic, no error, the assertion holds - so
   the abstract total [format_args] of C11_total_revert hides no panic. *)
Theorem C11_revert_format_args_ok :
  forall (H : bytes -> bytes) (a : list entry) (revertData : bytes) (e : entry) (x : cval),
    (forall e, In e a -> params_wf (e_inputs e)) ->
    ParseError H DecModel.DecodeABIData a revertData = Ok (Some (e, x)) ->
    forall (H' : bytes -> bytes) (fs : bfloat -> jv) (dn : nat -> bytes),
      exists js, SerializeInterface H' fs dn error_string_serializer x = Ok (JArr js).
Proof. exact revert_format_args_ok. Qed.
Print Assumptions C11_revert_format_args_ok.

(* I6.  The refutation of stability for fixed-point leaves stated with a Prop inequality (no appeal
   to the boolean comparison cval_eqb): the re-encoding decodes, to a different tree *)
Theorem C11_stable_fixed_refuted_prop :
  exists (c : tcomp) (bs : bytes) (x : cval) (e : bytes) (x' : cval),
    tc_wf c = true /\ DecodeABIData c bs 0 = Ok x /\ EncodeABIData x = Ok e /\
    DecodeABIData c e 0 = Ok x' /\ x' <> x.
Proof. exact stable_fixed_refuted_prop. Qed.
Print Assumptions C11_stable_fixed_refuted_prop.

(* I2.  The memory bound in absolute terms.  [bound c n] is at most [bound_coef c * (n+1)^(bound_deg c)]
   with [bound_deg] = the nesting of dynamic arrays (+1 for a bytes/string leaf) and [bound_coef] a
   function of the type alone (a fixed array contributes its declared length to the coefficient, not to
   the degree).  So the units of a decode are bounded by a CONSTANT for a static type and LINEARLY in
   the data for one dynamic level.  From two nested dynamic levels on there is no absolute cap: see
   C11_bound_is_not_a_cap and C11_alias_bomb_is_superlinear below. *)
Theorem C11_bound_polynomial :
  forall (c : tcomp) (n : N), (bound c n <= bound_coef c * (n + 1) ^ N.of_nat (bound_deg c))%N.
Proof. exact bound_polynomial. Qed.
Print Assumptions C11_bound_polynomial.

Theorem C11_alloc_polynomial :
  forall (c : tcomp) (bs : bytes) (off : Z),
    tc_wf c = true -> no_zero_size_elem c = true -> 0 <= off ->
    (alloc (DecodeABIData_c c bs off) <= bound_coef c * (N.of_nat (length bs) + 1) ^ N.of_nat (bound_deg c))%N.
Proof. exact DecodeABIData_alloc_polynomial. Qed.
Print Assumptions C11_alloc_polynomial.

Theorem C11_alloc_linear :
  forall (c : tcomp) (bs : bytes) (off : Z),
    tc_wf c = true -> no_zero_size_elem c = true -> 0 <= off -> (bound_deg c <= 1)%nat ->
    (alloc (DecodeABIData_c c bs off) <= bound_coef c * (N.of_nat (length bs) + 1))%N.
Proof. exact DecodeABIData_alloc_linear. Qed.
Print Assumptions C11_alloc_linear.

(* ---------- non-vacuity of the answers ---------- *)
(* the serializer model can fail: it panics on a nil node and on an address of 21 bytes (FillBytes),
   and returns an error on a node without a component - none of which a decoder returns *)
Example C11_serializer_can_fail :
  let S := SerializeInterface (fun _ => []) (fun _ => JNull) (fun _ => []) NewSerializer in
  let addr := TCElem EAddress [] 160 0 [] in
  S CVNil = Panic /\
  S (CV (Some addr) [] (GBigInt (2 ^ 160))) = Panic /\
  S (CV (Some addr) [] (GString [])) = Panic /\
  S (CV None [] GNil) = Err EBadABITypeComponent /\
  is_ok (S (CV (Some addr) [] (GBigInt (2 ^ 160 - 1)))) = true.
Proof. vm_compute. auto 6. Qed.
(* the trees returned for an event log (the event of C11_total_event_nonvacuous: raw-topic leaf for
   the indexed string, decoded uint8, bytes from the data) and for revert data (the two-definition
   list of C11_alloc_bound_revert_nonvacuous) serialise in all three modes; the revert tree gives a
   two-entry flat array to FormatErrorStringCtx; an unknown mode is an error *)
Definition ser_modes : list serializer :=
  [NewSerializer;
   {| ts := FormatAsFlatArrays; is_ := HexIntSerializer0xPrefix; bs := Base64ByteSerializer; ad := Some ChecksumAddrSerializer |};
   {| ts := FormatAsSelfDescribingArrays; is_ := JSONNumberIntSerializer; bs := HexByteSerializer0xPrefix; ad := Some HexAddrSerializerPlain |}].
Example C11_event_and_revert_trees_serialise :
  let H0 := fun _ : bytes => repeat x00 32 in
  let S := fun s x => SerializeJSON H0 (fun _ => JNull) NumericDefaultNameGenerator s x in
  let ev := mkEntry TyEvent [x45] true
             [mkParam (Some (tc_of_ty TString)) true; mkParam (Some (tc_of_ty (TUInt 8))) true;
              mkParam (Some (tc_of_ty TBytes)) false] in
  let a := [mkEntry TyError [x45] false [mkParam (Some (tc_of_ty (TUInt 256))) false;
                                          mkParam (Some (tc_of_ty (TDynArr (TUInt 8)))) false]] in
  let d := repeat x00 4 ++ w 1099511627776 ++ w 64 ++ w 2 ++ w 7 ++ w 8 in
  match DecodeEventData H0 DecModel.DecodeABIData DecModel.decode_elementary ev [repeat xff 33; w 7] (w 32 ++ w 1 ++ w 0) with
  | Ok x => forallb (fun s => is_ok (S s x)) ser_modes
            && is_err (S {| ts := FormatOther; is_ := Base10StringIntSerializer; bs := HexByteSerializer; ad := None |} x)
  | _ => false
  end = true /\
  match ParseError H0 DecModel.DecodeABIData a d with
  | Ok (Some (_, x)) =>
      forallb (fun s => is_ok (S s x)) ser_modes
      && match SerializeInterface H0 (fun _ => JNull) NumericDefaultNameGenerator error_string_serializer x with
         | Ok (JArr js) => (length js =? 2)%nat
         | _ => false
         end
  | _ => false
  end = true.
Proof. vm_compute. auto. Qed.
(* static types: degree 0, the bound is at most the constant 14 whatever the data (8 units for no data); (uint256[], string): degree 1,
   at most 7 * (n+1) units; uint256[][][]: degree 3 *)
Example C11_bound_degrees :
  let st := tc_of_ty (TTuple [TUInt 256; TFixedArr TAddress 3]) in
  (bound_deg st, bound_coef st, bound st 0, bound st 65536) = (0%nat, 14%N, 8%N, 14%N) /\
  (bound_deg ex_ty, bound_coef ex_ty) = (1%nat, 7%N) /\
  bound_deg (tc_of_ty (TTuple [TDynArr (TDynArr (TDynArr (TUInt 256)))])) = 3%nat.
Proof. vm_compute. auto. Qed.
(* NOT an absolute cap: for 64 KiB of data the bound of uint256[][][] is 17 213 448 201 units ... *)
Example C11_bound_is_not_a_cap :
  bound (tc_of_ty (TTuple [TDynArr (TDynArr (TDynArr (TUInt 256)))])) 65536 = 17213448201%N.
Proof. vm_compute. reflexivity. Qed.
(* ... and the decoder really gets there: with every offset of a level pointing at ONE next-level
   array ("alias bomb") the decoded tree is the product of the counts.  uint256[][][] with counts
   10/10/10 in 1 088 bytes requests 2 223 units; counts 20/20/20 in 2 048 bytes request 16 843 units
   (7.6 times the units for 1.9 times the data).  The same shape at 19 KiB makes pkg/abi allocate
   2 GB (probe), at 64 KiB some 3e8 nodes: the property's "never exhausts memory" holds only in the
   relative sense of its last sentence (known finding C11/alias-bomb-superlinear). *)
Definition rep_bytes (k : nat) (l : bytes) : bytes := concat (repeat l k).
Definition alias_bomb3 (k : nat) : bytes :=
  let K := N.of_nat k in
  w 32 ++ w K ++ rep_bytes k (w (32 * K)) ++ w K ++ rep_bytes k (w (32 * K)) ++ w K ++ rep_bytes k (w 7).
Example C11_alias_bomb_is_superlinear :
  let c := tc_of_ty (TTuple [TDynArr (TDynArr (TDynArr (TUInt 256)))]) in
  (length (alias_bomb3 10), is_ok (fst (DecodeABIData_c c (alias_bomb3 10) 0)), alloc (DecodeABIData_c c (alias_bomb3 10) 0),
   length (alias_bomb3 20), is_ok (fst (DecodeABIData_c c (alias_bomb3 20) 0)), alloc (DecodeABIData_c c (alias_bomb3 20) 0))
  = (1088%nat, true, 2223%N, 2048%nat, true, 16843%N).
Proof. vm_compute. reflexivity. Qed.

(* Referee table, row "quantifier: valid ABI definition".  No model of the type-string parser exists
   ([tc_wf] is tied to parseABIParameterComponents by reading, and on every run through the harness,
   which parses the definitions with the real parser).  Proved instead: [tc_wf] is not narrower than the
   ABI specification's own notion of a valid type - every type well formed per the specification
   ([wf_ty]) whose fixed-array lengths fit 32 bits (the parser's ParseUint(.., 32)) has a [tc_wf]
   component tree denoting it, so every theorem above covers every specification-valid type ... *)
From FFS Require Import Abi.DecTotalProofs10.
Theorem C11_spec_types_are_covered :
  forall t : ty, wf_ty t = true -> arr_lens_32 t = true ->
    tc_wf (tc_of_ty t) = true /\ ty_of (tc_of_ty t) = t.
Proof. exact spec_types_are_wf. Qed.
Print Assumptions C11_spec_types_are_covered.

(* ... e.g. totality and serialisability for every list of specification-valid parameter types *)
Theorem C11_total_spec_types :
  forall (l : list ty) (bs : bytes) (off : Z),
    forallb wf_ty l = true -> forallb arr_lens_32 l = true -> 0 <= off ->
    DecodeABIData (tc_of_ty (TTuple l)) bs off <> Panic /\
    (forall x, DecodeABIData (tc_of_ty (TTuple l)) bs off = Ok x ->
       forall (H : bytes -> bytes) (fs : bfloat -> jv) (dn : nat -> bytes) (s : serializer), ts s <> FormatOther ->
         exists j, SerializeInterface H fs dn s x = Ok j /\ SerializeJSON H fs dn s x = Ok (wire j)).
Proof.
  exact (fun l bs off Hw Ha Ho =>
           let W := proj1 (spec_types_are_wf (TTuple l) Hw Ha) in
           conj (DecodeABIData_total _ bs off W Ho)
                (fun x Hx => decoded_serializes _ bs off x W Hx)).
Qed.
Print Assumptions C11_total_spec_types.

(* The hypothesis "H returns 32 bytes" of C11_total_revert / C11_entry_calldata discharged for the
   hash the code uses (Base/Keccak.v: the executable Keccak-256 that RunC11.v runs) *)
From FFS Require Import Base.Keccak.
Theorem C11_total_revert_keccak :
  forall (format_args : cval -> option (list bytes)) (a : list entry) (revertData : bytes),
    (forall e, In e a -> params_wf (e_inputs e)) ->
    ParseError keccak256 DecModel.DecodeABIData a revertData <> Panic /\
    ErrorString keccak256 DecModel.DecodeABIData format_args a revertData <> Panic.
Proof. exact (revert_total keccak256 keccak256_length). Qed.
Print Assumptions C11_total_revert_keccak.

Theorem C11_entry_calldata_keccak :
  forall (e : entry) (b : bytes), params_wf (e_inputs e) ->
    EntryModel.DecodeCallData keccak256 DecModel.DecodeABIData e b <> Panic /\
    (forall x, EntryModel.DecodeCallData keccak256 DecModel.DecodeABIData e b = Ok x ->
       forall (H' : bytes -> bytes) (fs : bfloat -> jv) (dn : nat -> bytes) (s : serializer), ts s <> FormatOther ->
         exists j, SerializeInterface H' fs dn s x = Ok j /\ SerializeJSON H' fs dn s x = Ok (wire j)).
Proof. exact (entry_calldata_total_serializes keccak256 keccak256_length). Qed.
Print Assumptions C11_entry_calldata_keccak.
(* with the real hash: the revert data of `revert("AB")` - selector 08c379a0 = Keccak-256("Error(string)")[0:4] -
   is attributed to the built-in Error(string), its tree serialises to a one-entry flat array for
   FormatErrorStringCtx; cut inside the string (one of its two bytes present) it is "no error matched" (Ok None),
   not a panic *)
Example C11_revert_keccak_nonvacuous :
  let d := [x08; xc3; x79; xa0] ++ w 32 ++ w 2 ++ [x41; x42] ++ repeat x00 30 in
  match ParseError keccak256 DecModel.DecodeABIData [] d with
  | Ok (Some (e, x)) =>
      bytes_eqb (e_name e) (e_name default_error)
      && match SerializeInterface keccak256 (fun _ => JNull) NumericDefaultNameGenerator error_string_serializer x with
         | Ok (JArr [JStr s]) => bytes_eqb s [x41; x42]
         | _ => false
         end
  | _ => false
  end = true /\
  ParseError keccak256 DecModel.DecodeABIData [] (firstn 69 d) = Ok None.
Proof. vm_compute. auto. Qed.

(* ================================================================================================
   Wave 6: guards of the stability clause removed (proofs: Abi/DecTotalProofs11.v)
   ================================================================================================ *)
From FFS Require Import Abi.DecTotalProofs11.

(* The decoder reads a bool as the low byte of its word, so a decoded bool leaf holds 0..255, and the
   encoder treats bool as uint8: to both, a bool IS a uint8.  [rt c] is the component tree c with
   every bool leaf turned into the uint8 leaf with the same fields, [rtv x] the value tree x with
   its component labels re-typed the same way.  The decoder commutes with the re-typing (same
   result class, same tree up to the labels) and the encoder does not see it. *)
Theorem C11_bool_is_uint8 :
  (forall (c : tcomp) (b : bytes) (off : Z),
     DecodeABIData (rt c) b off = bind (DecodeABIData c b off) (fun x => Ok (rtv x))) /\
  (forall x : cval, EncodeABIData (rtv x) = EncodeABIData x) /\
  (forall x : cval, val_of (rtv x) = val_of x /\ bools_ok (rtv x) = true) /\
  (forall c : tcomp, tc_wf c = true -> tc_wf (rt c) = true).
Proof.
  exact (conj DecodeABIData_rt (conj EncodeABIData_rt
           (conj (fun x => conj (val_of_rt x) (bools_ok_rt x)) tc_wf_rt))).
Qed.
Print Assumptions C11_bool_is_uint8.

(* C11_stable without the guard "bool leaves hold 0 or 1": a tree with a bool leaf decoded from a
   word whose low byte is 2..255 is re-encodable, and decoding its re-encoding yields the same
   tree.  (The remaining guards are the ones of C11_stable.) *)
Theorem C11_stable_any_bool :
  forall (c : tcomp) (bs : bytes) (off : Z) (x : cval) (e : bytes),
    tc_wf c = true -> tc_no_fixed_point c = true -> tc_no_zero_len c = true ->
    DecodeABIData c bs off = Ok x -> EncodeABIData x = Ok e ->
    weight_ok (val_of x) -> zlen e < 2 ^ 32 -> list_counts_ok (val_of x) = true ->
    DecodeABIData c e 0 = Ok x.
Proof. exact stable_any_bool. Qed.
Print Assumptions C11_stable_any_bool.

(* The guard "every sequence in the tree is shorter than 2^32" follows from the decoding itself
   (counts are read from words the decoder refuses above 32 bits, declared lengths are 32-bit
   numbers); left is a condition on the type alone: every tuple has fewer than 2^32 members. *)
Theorem C11_decoded_counts :
  forall (c : tcomp) (bs : bytes) (off : Z) (x : cval),
    tc_wf c = true -> tc_arity_ok c = true -> DecodeABIData c bs off = Ok x ->
    list_counts_ok (val_of x) = true.
Proof. exact DecodeABIData_counts. Qed.
Print Assumptions C11_decoded_counts.

(* Stability in its strongest form here: no guard on bool leaves, no guard on the counts inside the
   tree, and the re-encoding may sit anywhere inside a longer byte string (bytes before it, e.g. a
   selector, and bytes behind it), decoded at its own offset.  C11_stable is the case
   pre = post = [] with two more hypotheses.  Remaining guards: on the type (valid, no fixed-point
   leaf, no zero-length fixed array, tuples of fewer than 2^32 members), C02's size guard on the
   tree (fewer than 2^248 nodes + bytes) and the length of the re-encoding (below 2^32: the decoder
   refuses larger offsets). *)
Theorem C11_stable_embedded :
  forall (c : tcomp) (bs : bytes) (off : Z) (x : cval) (e pre post : bytes),
    tc_wf c = true -> tc_no_fixed_point c = true -> tc_no_zero_len c = true -> tc_arity_ok c = true ->
    DecodeABIData c bs off = Ok x -> EncodeABIData x = Ok e ->
    weight_ok (val_of x) -> zlen e < 2 ^ 32 ->
    DecodeABIData c (pre ++ e ++ post) (zlen pre) = Ok x.
Proof. exact stable_embedded. Qed.
Print Assumptions C11_stable_embedded.

(* ... hence for call data: a tree decoded by DecodeCallData (selector id), re-encoded and prefixed
   with the selector again (what EncodeCallData produces), decodes to the same tree *)
Theorem C11_stable_calldata :
  forall (id : bytes) (c : tcomp) (bs : bytes) (x : cval) (e : bytes),
    tc_wf c = true -> tc_no_fixed_point c = true -> tc_no_zero_len c = true -> tc_arity_ok c = true ->
    DecModel.DecodeCallData id c bs = Ok x -> EncodeABIData x = Ok e ->
    weight_ok (val_of x) -> zlen e < 2 ^ 32 ->
    DecModel.DecodeCallData id c (id ++ e) = Ok x.
Proof. exact stable_calldata. Qed.
Print Assumptions C11_stable_calldata.

(* The typing conjunct of C11_decoded_tree_shape without the guard on bool leaves: read with every
   bool as uint8 (the type of [rt c]), the value of a decoded tree is well typed in the sense of the
   specification whenever the encoder accepts the tree. *)
Theorem C11_decoded_well_typed_bool_as_uint8 :
  forall (c : tcomp) (bs : bytes) (off : Z) (x : cval),
    tc_wf c = true -> tc_no_fixed_point c = true -> DecodeABIData c bs off = Ok x ->
    (exists r, encodeABIData x = Ok r) -> well_typed (ty_of (rt c)) (val_of x) = true.
Proof. exact decoded_well_typed_bool_as_uint8. Qed.
Print Assumptions C11_decoded_well_typed_bool_as_uint8.

(* non-vacuity: (bool, bool[], uint8) decoded from words with dirty bool bytes (all-ones word -> 255,
   7 -> 7): the old guard bools_ok FAILS on the decoded tree, every hypothesis of C11_stable_embedded
   and C11_stable_calldata is met, the tree re-encodes, and the re-encoding decodes to the same tree -
   alone, and behind a selector with trailing bytes; the re-typed type is (uint8, uint8[], uint8) *)
Example C11_stable_any_bool_nonvacuous :
  let c := tc_of_ty (TTuple [TBool; TDynArr TBool; TUInt 8]) in
  let bs := repeat xff 32 ++ w 96 ++ w 9 ++ w 1 ++ w 7 in
  let id := [x12; x34; x56; x78] in
  tc_wf c = true /\ tc_no_fixed_point c = true /\ tc_no_zero_len c = true /\ tc_arity_ok c = true /\
  ty_of (rt c) = TTuple [TUInt 8; TDynArr (TUInt 8); TUInt 8] /\
  match DecodeABIData c bs 0 with
  | Ok x =>
      weight_ok (val_of x) /\
      match EncodeABIData x with
      | Ok e =>
          negb (bools_ok x) && (Z.of_nat (length e) <? 2 ^ 32)
          && match DecodeABIData c e 0 with Ok x' => cval_eqb x x' | _ => false end
          && match DecodeABIData c (id ++ e ++ [xaa; xbb]) 4 with Ok x' => cval_eqb x x' | _ => false end
          && match DecModel.DecodeCallData id c (id ++ bs), DecModel.DecodeCallData id c (id ++ e) with
             | Ok x1, Ok x2 => cval_eqb x x1 && cval_eqb x x2
             | _, _ => false
             end = true
      | _ => False
      end
  | _ => False
  end.
Proof. vm_compute. repeat split; reflexivity. Qed.
