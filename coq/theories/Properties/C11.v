(* C11 — ABI decoding of arbitrary bytes is total, stable and bounded by the data given.
   Statements only; proofs live in Abi/DecTotalProofs*.v.  The decoder model is Abi/DecModel.v
   (owned by C03), its cost-instrumented twin Abi/DecCost.v. *)
From Coq Require Import List NArith ZArith Bool.
From Coq Require Import Init.Byte.
From FFS Require Import Base.Res Base.Bytes Base.Lit Abi.Types Abi.Spec Abi.ModelTypes Abi.DecModel Abi.DecCost
  Abi.DecTotalProofs Abi.RunC11.
Import ListNotations.
Local Open Scope Z_scope.

(* 1. Totality.  For every valid component tree ([tc_wf]: what parseABIParameterComponents
      accepts), every byte string and every non-negative offsets, decoding an element never
      panics and reports a non-negative number of head bytes. *)
Theorem C11_total_element :
  forall (block : bytes) (c : tcomp) (hs hp : Z), tc_wf c = true -> 0 <= hs -> 0 <= hp ->
    decodeABIElement block c hs hp <> Panic /\
    (forall n v, decodeABIElement block c hs hp = Ok (n, v) -> 0 <= n).
Proof. exact decodeABIElement_total. Qed.
Print Assumptions C11_total_element.

(* ... hence return data (ParameterArray.DecodeABIData at any offset >= 0) ... *)
Theorem C11_total :
  forall (c : tcomp) (bs : bytes) (off : Z), tc_wf c = true -> 0 <= off -> DecodeABIData c bs off <> Panic.
Proof. exact DecodeABIData_total. Qed.
Print Assumptions C11_total.

(* ... and call data / revert data (Entry.DecodeCallData, for any selector). *)
Theorem C11_total_calldata :
  forall (id : bytes) (c : tcomp) (bs : bytes), tc_wf c = true -> DecodeCallData id c bs <> Panic.
Proof. exact DecodeCallData_total. Qed.
Print Assumptions C11_total_calldata.

(* 2. Memory.  [DecodeABIData_c] is the decoder observed more closely: the same result ... *)
Theorem C11_cost_twin :
  forall (c : tcomp) (bs : bytes) (off : Z), fst (DecodeABIData_c c bs off) = DecodeABIData c bs off.
Proof. exact twin_DecodeABIData. Qed.
Print Assumptions C11_cost_twin.

(* ... together with the allocation units requested (every make([]…, n) counts n, every value node 1).
   They are bounded by [bound c |bs|], which is defined by recursion on the type and depends on
   nothing but the type and the *length* of the data: no length, count or offset word inside the
   data enters.  Hypothesis: no dynamic array has an element type of zero encoded size (the
   exclusion the property makes; see the Example below for why it is needed). *)
Theorem C11_alloc_bound :
  forall (c : tcomp) (bs : bytes) (off : Z),
    tc_wf c = true -> no_zero_size_elem c = true -> 0 <= off ->
    (alloc (DecodeABIData_c c bs off) <= bound c (N.of_nat (length bs)))%N.
Proof. exact DecodeABIData_alloc_bound. Qed.
Print Assumptions C11_alloc_bound.

Theorem C11_alloc_bound_calldata :
  forall (id : bytes) (c : tcomp) (bs : bytes),
    tc_wf c = true -> no_zero_size_elem c = true ->
    (alloc (DecodeCallData_c id c bs) <= bound c (N.of_nat (length bs)))%N.
Proof. exact DecodeCallData_alloc_bound. Qed.
Print Assumptions C11_alloc_bound_calldata.

(* the bound is a polynomial in the data length whose degree is the nesting of dynamic arrays *)
Theorem C11_bound_shape :
  (forall ch k n, bound (TCDynArr ch k) n = (1 + (n / 32 + 1) + (n / 32 + 1) * bound ch n)%N) /\
  (forall len ch k n, bound (TCFixedArr len ch k) n = (1 + 2 * Z.to_N len + Z.to_N len * bound ch n)%N) /\
  (forall l k n, bound (TCTuple l k) n = (1 + N.of_nat (length l) + fold_right (fun ch acc => bound ch n + acc) 0 l)%N) /\
  (forall c n n', (n <= n')%N -> (bound c n <= bound c n')%N).
Proof. exact (conj bound_dyn (conj bound_fixed (conj bound_tuple bound_mono))). Qed.
Print Assumptions C11_bound_shape.

(* ---------- non-vacuity ---------- *)
(* (uint256[], string): valid, inside the memory clause; the D11a witness (count 2^32-1 in 64 bytes)
   is an error that requests nothing, a well-formed input decodes and stays below the bound *)
Definition ex_ty : tcomp := tc_of_ty (TTuple [TDynArr (TUInt 256); TString]).
Definition w (n : N) : bytes := Rlp.Model.be_fixed 32 n.
Example C11_hypotheses_met : tc_wf ex_ty = true /\ no_zero_size_elem ex_ty = true.
Proof. vm_compute. auto. Qed.
Example C11_D11a_witness_is_an_error :
  DecodeABIData_c (tc_of_ty (TTuple [TDynArr (TUInt 256)])) (w 32 ++ w 4294967295) 0 = (Err ENotEnoughValue, 2%N).
Proof. vm_compute. reflexivity. Qed.
Example C11_decodes_something :
  let bs := w 64 ++ w 128 ++ w 1 ++ w 7 ++ w 2 ++ [x41; x42] ++ repeat x00 30 in
  exists v, DecodeABIData_c ex_ty bs 0 = (Ok v, 9%N) /\ (9 <= bound ex_ty (N.of_nat (length bs)))%N.
Proof. vm_compute. eexists. split; [reflexivity|discriminate]. Qed.
(* why the hypothesis of C11_alloc_bound is needed: uint256[0][] with a count of 100 in 64 bytes *)
Example C11_zero_size_elements_are_unbounded :
  let c := tc_of_ty (TTuple [TDynArr (TFixedArr (TUInt 256) 0)]) in
  let bs := w 32 ++ w 100 in
  tc_wf c = true /\ no_zero_size_elem c = false /\
  (bound c (N.of_nat (length bs)) < alloc (DecodeABIData_c c bs 0))%N.
Proof. vm_compute. auto. Qed.
