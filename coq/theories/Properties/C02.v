(* C02 — ABI encoding equals the Solidity ABI specification; inputs exact or rejected.
   Statements only; proofs live in Abi/EncProofs*.v, Abi/InputProofs.v, Abi/EncRefuted.v. *)
From Coq Require Import String.
From Coq Require Import List NArith ZArith Lia Bool Arith.
From Coq Require Import Init.Byte.
From FFS Require Import Base.Res Base.Bytes Abi.Types Abi.Spec Abi.ModelTypes Abi.EncModel Abi.InputModel.
From FFS Require Import Abi.EncProofs Abi.EncProofs2 Abi.EncProofs3 Abi.EncProofs4 Abi.InputProofs Abi.EncRefuted.
Import ListNotations.

(* 1. For every component tree (any nesting) without fixed-point leaves and without T[0], and every
      value tree of that shape (Component pointers as the input walk / decoder build them, every
      elementary node holding the Go type its reader returns) whose value is well typed per the
      specification, ComponentValue.encodeABIData returns exactly enc(type, value) of the Solidity
      specification, and its value-driven dynamic flag is the specification's "dynamic type" predicate.
      The only guard besides typing is a size bound (nodes + bytes < 2^248, far beyond Go's int),
      which keeps every length and offset inside a 32-byte word. *)
Theorem C02_encode_is_spec :
  forall (tc : tcomp) (x : cval),
    tc_wf tc = true -> tc_no_fixed_point tc = true -> tc_no_zero_len tc = true ->
    typed_as tc x = true -> values_ok x = true ->
    well_typed (ty_of tc) (val_of x) = true ->
    (Z.of_nat (weight (val_of x)) < 2 ^ 248)%Z ->
    encodeABIData x = Ok (enc (ty_of tc) (val_of x), dynamic (ty_of tc)).
Proof. intros tc x. exact (encode_is_spec x tc). Qed.
Print Assumptions C02_encode_is_spec.

(* 2. End to end (EncodeABIDataValues / EncodeABIDataJSON after JSON decoding): whatever tree the
      input walk builds from an external value, if the value it holds is well typed the result is
      enc of that value.  [bifs] is ethtypes.BigIntegerFromString (any function). *)
Theorem C02_values_encode_is_spec :
  forall (bifs : bytes -> res Z) (params : list tcomp) (input : ext) (x : cval),
    let root := root_of params in
    tc_wf root = true -> tc_no_fixed_point root = true -> tc_no_zero_len root = true ->
    ext_clean input = true ->
    walkInput bifs root input = Ok x ->
    well_typed (ty_of root) (val_of x) = true -> (Z.of_nat (weight (val_of x)) < 2 ^ 248)%Z ->
    EncodeABIDataValues bifs params input = Ok (enc (ty_of root) (val_of x)).
Proof. exact values_encode_is_spec. Qed.
Print Assumptions C02_values_encode_is_spec.

(* 3. Never a panic: for parameter lists without fixed-point types and inputs without typed-nil
      pointers / infinite big.Floats, the walk returns a tree or an error, and encoding that tree
      (well typed or not) returns data or an error. *)
Theorem C02_never_panics :
  forall (bifs : bytes -> res Z), (forall s, bifs s <> Panic) ->
  forall (params : list tcomp) (input : ext),
    let root := root_of params in
    tc_wf root = true -> tc_no_fixed_point root = true -> ext_clean input = true ->
    match walkInput bifs root input with
    | Panic => False
    | Err _ => True
    | Ok x => (Z.of_nat (weight (val_of x)) < 2 ^ 248)%Z -> EncodeABIDataValues bifs params input <> Panic
    end.
Proof. exact values_never_panic. Qed.
Print Assumptions C02_never_panics.

(* 4. Integers (uint<M>, int<M>, every M): for EVERY external value x (decimal / hex text and JSON
      numbers through the text parser, big.Int, sized Go ints, float64/float32, big.Float, anything
      else), the one-parameter list is encoded as the 32-byte word of an integer z that x denotes and
      that lies in the range of the type, or it is rejected; a panic only for a typed-nil *big.Int or an
      infinite *big.Float.  [D] is the denotation of number texts; the text parser is only assumed
      sound for it (C19) and panic-free. *)
Theorem C02_integers_exact_or_rejected :
  forall (bifs : bytes -> res Z) (D : bytes -> Z -> Prop),
    (forall s z, bifs s = Ok z -> D s z) -> (forall s, bifs s <> Panic) ->
  forall e s m k x,
    (e = EInt \/ e = EUInt) -> tc_wf (int_tc e s m k) = true ->
    match EncodeABIDataValues bifs [int_tc e s m k] (XList [x]) with
    | Ok b => exists z, int_denotes D x z /\ in_range e m z /\ b = word z
    | Err _ => True
    | Panic => x = XBigInt None \/ exists sg, x = XBigFloat (BInf sg)
    end.
Proof. exact integers_exact_or_rejected. Qed.
Print Assumptions C02_integers_exact_or_rejected.

(* 5. ... and conversely the integer read from x is accepted exactly when it is in range: in range
      -> the word of z; out of range (incl. the neighbours 2^M, -1, 2^(M-1), -2^(M-1)-1) -> error. *)
Theorem C02_integers_in_range_iff_accepted :
  forall (bifs : bytes -> res Z) e s m k x z,
    (e = EInt \/ e = EUInt) -> tc_wf (int_tc e s m k) = true -> int_read bifs x z ->
    (in_range e m z -> EncodeABIDataValues bifs [int_tc e s m k] (XList [x]) = Ok (word z)) /\
    (~ in_range e m z -> exists err, EncodeABIDataValues bifs [int_tc e s m k] (XList [x]) = Err err).
Proof. exact integers_in_range_accepted_out_of_range_rejected. Qed.
Print Assumptions C02_integers_in_range_iff_accepted.

(* 5b. ... at any depth: a uint<M>/int<M> leaf holding an out-of-range integer anywhere below array /
      tuple nodes makes the encoding of the whole tree fail (pass 1 returns the first child error). *)
Theorem C02_out_of_range_leaf_rejected :
  forall e s m k l z x,
    (e = EInt \/ e = EUInt) -> tc_wf (int_tc e s m k) = true -> ~ in_range e m z ->
    sub (CV (Some (int_tc e s m k)) l (GBigInt z)) x ->
    forall r, encodeABIData x <> Ok r.
Proof. exact out_of_range_leaf_rejected. Qed.
Print Assumptions C02_out_of_range_leaf_rejected.

(* an integral float denotes itself: the truncation used above is the value mant * 2^exp *)
Theorem C02_integral_float_exact :
  forall mant e, bf_is_int mant e = true ->
    if (0 <=? e)%Z then bf_trunc mant e = (mant * 2 ^ e)%Z else mant = (bf_trunc mant e * 2 ^ (- e))%Z.
Proof. exact bf_trunc_exact. Qed.
Print Assumptions C02_integral_float_exact.

(* 6. Arity: a fixed array given a sequence of another length, a tuple given a sequence of another
      length, a tuple given an object lacking a member's key (name, or index for unnamed members) are
      all refused. *)
Theorem C02_arity :
  forall (bifs : bytes -> res Z),
    (forall len c k input l, as_slice input = Some l -> Z.of_nat (length l) <> len ->
        walkInput bifs (TCFixedArr len c k) input = Err EFixedLenMismatch) /\
    (forall ts k input l, as_slice input = Some l -> length l <> length ts ->
        walkInput bifs (TCTuple ts k) input = Err ETupleArrayMismatch) /\
    (forall ts k m i t, nth_error ts i = Some t -> lookup (effective_key t i) m = None ->
        forall x, walkInput bifs (TCTuple ts k) (XMap m) <> Ok x).
Proof.
  intros bifs. split; [exact (arity_fixed_array bifs)|]. split; [exact (arity_tuple_array bifs)|exact (arity_tuple_object_missing bifs)].
Qed.
Print Assumptions C02_arity.

(* 7. Fixed-point types: the unguarded statement is FALSE of the pinned code (known findings
      C02/fixed-negative-sign, C02/ufixed-range-signed, C02/fixed-precision-64bit): well-typed
      literals that are encoded with the sign lost, rejected, or rounded. *)
Theorem C02_fixed_refuted :
  (let tc := fx EFixed "128x18" 128 18 in
     typed tc (-1500000000000000000) = true /\
     res_is (enc_text tc "-1.5") (spec_of tc 1500000000000000000) = true /\
     res_is (enc_text tc "-1.5") (spec_of tc (-1500000000000000000)) = false) /\
  (let tc := fx EUFixed "8x1" 8 1 in typed tc 128 = true /\ is_err (enc_text tc "12.8") = true) /\
  (let tc := fx EUFixed "128x18" 128 18 in
     typed tc 123456789123456789123456789 = true /\
     is_ok (enc_text tc "123456789.123456789123456789") = true /\
     res_is (enc_text tc "123456789.123456789123456789") (spec_of tc 123456789123456789123456789) = false).
Proof. split; [exact fixed_sign_lost|]. split; [exact ufixed_range_signed|exact fixed_precision_lost]. Qed.
Print Assumptions C02_fixed_refuted.

(* ---------- non-vacuity ---------- *)

(* theorems 1-3: a dynamic tuple inside a fixed array inside a dynamic array, next to a boundary
   uint256, a bytes3 and a string; given as JSON-like / Go input in mixed representations *)
Example C02_encode_is_spec_nonvacuous :
  let x := mk_cval ex_tc ex_val in
  tc_wf ex_tc = true /\ tc_no_fixed_point ex_tc = true /\ tc_no_zero_len ex_tc = true /\
  typed_as ex_tc x = true /\ values_ok x = true /\ val_of x = ex_val /\
  well_typed (ty_of ex_tc) ex_val = true /\ (Z.of_nat (weight ex_val) < 2 ^ 248)%Z /\
  dynamic (ty_of ex_tc) = true /\ length (enc (ty_of ex_tc) ex_val) = 576%nat.
Proof. cbv zeta. repeat split; vm_compute; reflexivity. Qed.

Example C02_values_nonvacuous :
  root_of ex_params = ex_tc /\ ext_clean ex_input = true /\
  walkInput BigIntegerFromString ex_tc ex_input = Ok (mk_cval ex_tc ex_val) /\
  EncodeABIDataValues BigIntegerFromString ex_params ex_input = Ok (enc (ty_of ex_tc) ex_val).
Proof. repeat split; vm_compute; reflexivity. Qed.

(* theorems 4-5: uint8 / int8 at and beyond their boundaries, in several representations *)
Example C02_integers_nonvacuous :
  let u8 := int_tc EUInt (ascii_bytes "8") 8 [] in
  let i8 := int_tc EInt (ascii_bytes "8") 8 [] in
  let run tc x := EncodeABIDataValues BigIntegerFromString [tc] (XList [x]) in
  tc_wf u8 = true /\ tc_wf i8 = true /\
  run u8 (XStr (ascii_bytes "255")) = Ok (word 255) /\ is_err (run u8 (XStr (ascii_bytes "256"))) = true /\
  run u8 (XJNum (ascii_bytes "2.55e2")) = Ok (word 255) /\ is_err (run u8 (XJNum (ascii_bytes "25.5"))) = true /\
  is_err (run u8 (XInt KInt8 (-1))) = true /\
  run i8 (XStr (ascii_bytes "-0x80")) = Ok (word (-128)) /\ is_err (run i8 (XBigInt (Some 128%Z))) = true /\
  run i8 (XF64 (F64 (-129) 0)) = Err EncModel.ETooLarge /\ run i8 (XF64 (F64 127 0)) = Ok (word 127).
Proof. cbv zeta. repeat split; vm_compute; reflexivity. Qed.

(* theorem 5b: uint8 = 256 two levels down *)
Example C02_out_of_range_leaf_nonvacuous :
  let u8 := int_tc EUInt (ascii_bytes "8") 8 [] in
  let leaf := CV (Some u8) [] (GBigInt 256) in
  let arr := TCDynArr u8 [] in
  let x := CV (Some (TCTuple [arr] [])) [CV (Some arr) [CV (Some u8) [] (GBigInt 1); leaf] GNil] GNil in
  sub leaf x /\ ~ in_range EUInt 8 256 /\ is_err (encodeABIData x) = true.
Proof.
  cbv zeta. split; [|split; [unfold in_range, two; simpl; lia|vm_compute; reflexivity]].
  eapply sub_child; [reflexivity|left; reflexivity|]. eapply sub_child; [reflexivity|right; left; reflexivity|]. apply sub_refl.
Qed.

(* theorem 6 *)
Example C02_arity_nonvacuous :
  let u8 := int_tc EUInt (ascii_bytes "8") 8 [] in
  walkInput BigIntegerFromString (TCFixedArr 2 u8 []) (XList [XJNum (ascii_bytes "1")]) = Err EFixedLenMismatch /\
  walkInput BigIntegerFromString (TCTuple [u8; u8] []) (XList [XJNum (ascii_bytes "1")]) = Err ETupleArrayMismatch /\
  walkInput BigIntegerFromString (TCTuple [u8; u8] []) (XMap [(ascii_bytes "0", XJNum (ascii_bytes "1"))]) = Err EMissingKey.
Proof. cbv zeta. repeat split; vm_compute; reflexivity. Qed.

(* 8. The two text spellings the property names, for the executable text parser used in the
      correspondence run: a canonical decimal text ('-'? then digits, first digit non-zero) and a
      0x-hex text ('-'? "0x" then hex digits in any case) are read as exactly the Horner value of
      their digits - so by theorem 5 they are encoded as that integer's word when in range and refused
      otherwise.  (The denotation of every other accepted spelling is property C19's subject.) *)
From FFS Require Import Abi.InputProofs2.
Theorem C02_decimal_and_hex_text_exact :
  (forall (neg : bool) (d0 : N) (ds : list N),
     (0 < d0 < 10)%N -> Forall (fun d => d < 10)%N ds ->
     BigIntegerFromString ((if neg then [minus] else []) ++ map dec_char (d0 :: ds))%list
     = Ok (let v := Z.of_N (horner 10 (d0 :: ds) 0) in if neg then (- v)%Z else v)) /\
  (forall (neg : bool) (ds : list (bool * N)),
     ds <> [] -> Forall (fun ud => snd ud < 16)%N ds ->
     BigIntegerFromString ((if neg then [minus] else []) ++ x30 :: x78 :: map (fun ud => hex_char (fst ud) (snd ud)) ds)%list
     = Ok (let v := Z.of_N (horner 16 (map snd ds) 0) in if neg then (- v)%Z else v)).
Proof. split; [exact decimal_text_exact|exact hex_text_exact]. Qed.
Print Assumptions C02_decimal_and_hex_text_exact.

Example C02_text_nonvacuous :
  map dec_char [2; 5; 5]%N = ascii_bytes "255" /\ horner 10 [2; 5; 5]%N 0 = 255%N /\
  x30 :: x78 :: map (fun ud => hex_char (fst ud) (snd ud)) [(false, 15); (true, 15)]%N = ascii_bytes "0xfF" /\
  horner 16 [15; 15]%N 0 = 255%N.
Proof. repeat split; vm_compute; reflexivity. Qed.

(* 9. Number texts, composed with property C19's model of ethtypes.BigIntegerFromString and its
      theorems: for every text t of the quantifier's spelling classes (canonical decimal, "-" decimal,
      0x-hex in any case, JSON number with fraction / exponent; [denotes t m e]: t denotes m * 10^e)
      given as a JSON string or JSON number for a uint<M> / int<M> parameter: if accepted, the bytes are
      the word of the integer z = m * 10^e and z is in range; never a panic; and (texts shorter than
      2^28 bytes with |e| <= 10^6) an in-range integer is accepted, an out-of-range one rejected, a
      non-integral one rejected. *)
From FFS Require Abi.InputC19 EthTypes.Spec EthTypes.ProofsNum.
Theorem C02_number_texts_exact_or_rejected :
  forall e s m k x t mm ee,
    (e = EInt \/ e = EUInt) -> tc_wf (int_tc e s m k) = true ->
    InputC19.text_input x t -> EthTypes.Spec.denotes t mm ee ->
    let run := EncodeABIDataValues InputC19.bifs19 [int_tc e s m k] (XList [x]) in
    match run with
    | Ok b => exists z, EthTypes.Spec.sci_is mm ee z /\ in_range e m z /\ b = word z
    | Err _ => True
    | Panic => False
    end /\
    (EthTypes.ProofsNum.guard t ee ->
       (forall z, EthTypes.Spec.sci_is mm ee z -> in_range e m z -> run = Ok (word z)) /\
       (forall z, EthTypes.Spec.sci_is mm ee z -> ~ in_range e m z -> exists err, run = Err err) /\
       ((forall z, ~ EthTypes.Spec.sci_is mm ee z) -> exists err, run = Err err)).
Proof.
  intros e s m k x t mm ee He W TI Dn run. split.
  - exact (InputC19.text_integers_exact e s m k x t mm ee He W TI Dn).
  - intros G. exact (InputC19.text_integers_complete e s m k x t mm ee He W TI Dn G).
Qed.
Print Assumptions C02_number_texts_exact_or_rejected.

Example C02_number_texts_nonvacuous :
  let j := EthTypes.Spec.mkJ false (ascii_bytes "25") (Some (ascii_bytes "5")) (Some (false, 0%N, ascii_bytes "1")) in
  EthTypes.Spec.denotes (ascii_bytes "25.5e1") (EthTypes.Spec.j_mant j) (EthTypes.Spec.j_e j) /\
  EthTypes.Spec.sci_is (EthTypes.Spec.j_mant j) (EthTypes.Spec.j_e j) 255 /\
  EncodeABIDataValues InputC19.bifs19 [int_tc EUInt (ascii_bytes "8") 8 []] (XList [XJNum (ascii_bytes "25.5e1")]) = Ok (word 255) /\
  is_err (EncodeABIDataValues InputC19.bifs19 [int_tc EUInt (ascii_bytes "8") 8 []] (XList [XJNum (ascii_bytes "25.55e1")])) = true.
Proof.
  cbv zeta. split; [|repeat split; vm_compute; reflexivity].
  exact (EthTypes.Spec.den_json (EthTypes.Spec.mkJ false (ascii_bytes "25") (Some (ascii_bytes "5")) (Some (false, 0%N, ascii_bytes "1"))) eq_refl).
Qed.

(* 10. (round 3) Arity errors at ANY depth.  Theorem 6 is about the node that is given the wrong
       sequence; here the walk of the whole parameter list is shown to succeed only if the walk of
       every (component, input) pair it visits - through array elements, tuple positions and object
       keys, to any nesting (`below`) - succeeds.  Hence: a fixed array or tuple given a sequence of
       another length, or an object lacking a member's key, ANYWHERE in the input makes
       ParseExternalData fail, and EncodeABIDataValues / EncodeCallDataValues return no data. *)
From FFS Require Import Abi.InputProofs3.
Theorem C02_nested_arity_rejected :
  forall (bifs : bytes -> res Z) params input,
  (forall len c k x l, below (root_of params) input (TCFixedArr len c k) x ->
     as_slice x = Some l -> Z.of_nat (length l) <> len ->
     forall cv, walkInput bifs (root_of params) input <> Ok cv) /\
  (forall ts k x l, below (root_of params) input (TCTuple ts k) x ->
     as_slice x = Some l -> length l <> length ts ->
     forall cv, walkInput bifs (root_of params) input <> Ok cv) /\
  (forall ts k m i t, below (root_of params) input (TCTuple ts k) (XMap m) ->
     nth_error ts i = Some t -> lookup (effective_key t i) m = None ->
     forall cv, walkInput bifs (root_of params) input <> Ok cv) /\
  (forall tc x, below (root_of params) input tc x ->
     (forall cv, walkInput bifs tc x <> Ok cv) ->
     (forall r, EncodeABIDataValues bifs params input <> Ok r) /\
     (forall sel r, EncodeCallDataValues bifs sel params input <> Ok r)).
Proof. exact nested_arity_rejected. Qed.
Print Assumptions C02_nested_arity_rejected.

(* uint8[2][] given [[1,2],[1]]: the second row (two levels below the parameter list) is short *)
Example C02_nested_arity_nonvacuous :
  let u8 := int_tc EUInt (ascii_bytes "8") 8 [] in
  let row := TCFixedArr 2 u8 [] in
  let one := XJNum (ascii_bytes "1") in
  let params := [TCDynArr row []] in
  let input := XList [XList [XList [one; one]; XList [one]]] in
  below (root_of params) input row (XList [one]) /\
  as_slice (XList [one]) = Some [one] /\ Z.of_nat (length [one]) <> 2%Z /\
  EncodeABIDataValues BigIntegerFromString params input = Err EFixedLenMismatch /\
  is_ok (EncodeABIDataValues BigIntegerFromString params (XList [XList [XList [one; one]; XList [one; one]]])) = true.
Proof.
  cbv zeta. split; [|split; [reflexivity|split; [discriminate|split; vm_compute; reflexivity]]].
  eapply B_step; [eapply (SI_tuple_pos _ _ _ _ 0%nat); reflexivity|].
  eapply B_step; [eapply (SI_dyn _ _ _ _ 1%nat); reflexivity|]. apply B_here.
Qed.

(* 11. (round 3) An out-of-range integer INPUT at any depth.  Theorems 5 / 5b are about a single
       parameter and about value trees; here, for the external input: if anywhere below the parameter
       list (through array elements, tuple positions, object keys) a uint<M>/int<M> component is given an
       input whose integer (in any representation: text, JSON number, big.Int, sized int, float) is
       outside the range of M bits, then EncodeABIDataValues and EncodeCallDataValues return no data -
       whatever the rest of the input is. *)
Theorem C02_nested_out_of_range_input_rejected :
  forall (bifs : bytes -> res Z) params input e s m k x z,
    (e = EInt \/ e = EUInt) -> tc_wf (int_tc e s m k) = true ->
    below (root_of params) input (int_tc e s m k) x -> int_read bifs x z -> ~ in_range e m z ->
    (forall r, EncodeABIDataValues bifs params input <> Ok r) /\
    (forall sel r, EncodeCallDataValues bifs sel params input <> Ok r).
Proof. exact nested_out_of_range_input_rejected. Qed.
Print Assumptions C02_nested_out_of_range_input_rejected.

(* (string, uint8[2][]) given {"1": [[1,2],[1,"0x100"]], "0": "x"}: the 256 sits three levels down, behind an object key *)
Example C02_nested_out_of_range_input_nonvacuous :
  let u8 := int_tc EUInt (ascii_bytes "8") 8 [] in
  let one := XJNum (ascii_bytes "1") in
  let big := XStr (ascii_bytes "0x100") in
  let params := [TCElem EString [] 0 0 []; TCDynArr (TCFixedArr 2 u8 []) []] in
  let input := XMap [(ascii_bytes "1", XList [XList [one; one]; XList [one; big]]); (ascii_bytes "0", XStr (ascii_bytes "x"))] in
  tc_wf u8 = true /\ below (root_of params) input u8 big /\ int_read BigIntegerFromString big 256 /\ ~ in_range EUInt 8 256 /\
  is_err (EncodeABIDataValues BigIntegerFromString params input) = true /\
  is_ok (EncodeABIDataValues BigIntegerFromString params
           (XMap [(ascii_bytes "1", XList [XList [one; one]; XList [one; XStr (ascii_bytes "0xff")]]); (ascii_bytes "0", XStr (ascii_bytes "x"))])) = true.
Proof.
  cbv zeta. split; [vm_compute; reflexivity|]. split; [|split; [vm_compute; reflexivity|split; [unfold in_range, two; simpl; lia|split; vm_compute; reflexivity]]].
  eapply B_step; [eapply (SI_tuple_key _ _ _ 1%nat); [reflexivity|vm_compute; reflexivity]|].
  eapply B_step; [eapply (SI_dyn _ _ _ _ 1%nat); reflexivity|].
  eapply B_step; [eapply (SI_fixed _ _ _ _ _ 1%nat); reflexivity|]. apply B_here.
Qed.

(* 12. (composition with property C19, proofs in Abi/SerRoundTripC19.v) Theorems 3 and 4 with property
       C19's model of ethtypes.BigIntegerFromString in the place of the parameter [bifs]: no hypothesis
       about the text parser is left.  Theorem 4's denotation [D] becomes [D19 t z]: "whenever t is a
       spelling of the quantifier's classes (canonical decimal, '-' decimal, 0x-hex, JSON number) for
       m * 10^e, z is that number" - C19's soundness theorem, which needs no size guard.  So for EVERY
       external value x (texts, JSON numbers, big.Int, sized ints, floats, anything else) given for a
       uint<M> / int<M> parameter: the word of an in-range integer that x denotes, or an error; a panic
       only for a typed-nil *big.Int / an infinite *big.Float. *)
From FFS Require Abi.SerRoundTripC19.
Theorem C02_integers_exact_or_rejected_c19 :
  forall e s m k x,
    (e = EInt \/ e = EUInt) -> tc_wf (int_tc e s m k) = true ->
    match EncodeABIDataValues EthTypes.Model.BigIntegerFromString [int_tc e s m k] (XList [x]) with
    | Ok b => exists z, int_denotes SerRoundTripC19.D19 x z /\ in_range e m z /\ b = word z
    | Err _ => True
    | Panic => x = XBigInt None \/ exists sg, x = XBigFloat (BInf sg)
    end.
Proof. exact SerRoundTripC19.integers_exact_or_rejected_c19. Qed.
Print Assumptions C02_integers_exact_or_rejected_c19.

Theorem C02_never_panics_c19 :
  forall (params : list tcomp) (input : ext),
    let root := root_of params in
    tc_wf root = true -> tc_no_fixed_point root = true -> ext_clean input = true ->
    match walkInput EthTypes.Model.BigIntegerFromString root input with
    | Panic => False
    | Err _ => True
    | Ok x => (Z.of_nat (weight (val_of x)) < 2 ^ 248)%Z ->
              EncodeABIDataValues EthTypes.Model.BigIntegerFromString params input <> Panic
    end.
Proof. exact SerRoundTripC19.never_panics_c19. Qed.
Print Assumptions C02_never_panics_c19.

(* 13. Theorem 5 for the integer texts pkg/abi itself writes (the output serializer's base-10 text
       [Z_dec z] as a JSON string or JSON number, and its signed 0x-hex text [Z_0xhex z] = ["-"] "0x"
       hex(|z|)), with C19's model: for EVERY integer z - no bound on its size, C19's guards do not
       apply because these texts are read by the big.Int.SetString branch - the one-parameter list is
       encoded as the word of z when z is in the range of the type and refused when it is not.  Rests
       on the digit-list form of Coq's N.to_uint / N.to_hex_uint (Abi/SerRoundTripDigits.v). *)
Theorem C02_rendered_integers_c19 :
  forall e s m k x z,
    (e = EInt \/ e = EUInt) -> tc_wf (int_tc e s m k) = true -> SerRoundTripC19.rendered_input x z ->
    (in_range e m z ->
       EncodeABIDataValues EthTypes.Model.BigIntegerFromString [int_tc e s m k] (XList [x]) = Ok (word z)) /\
    (~ in_range e m z ->
       exists err, EncodeABIDataValues EthTypes.Model.BigIntegerFromString [int_tc e s m k] (XList [x]) = Err err).
Proof. exact SerRoundTripC19.rendered_integers_c19. Qed.
Print Assumptions C02_rendered_integers_c19.

(* non-vacuity of 12 / 13: int256 at its lower bound and one below, as the serializer's texts *)
Example C02_c19_nonvacuous :
  let i256 := int_tc EInt (ascii_bytes "256") 256 [] in
  let u8 := int_tc EUInt (ascii_bytes "8") 8 [] in
  let run tc x := EncodeABIDataValues EthTypes.Model.BigIntegerFromString [tc] (XList [x]) in
  tc_wf i256 = true /\ tc_wf u8 = true /\
  SerRoundTripC19.rendered_input (XStr (SerRoundTripC19.Z_0xhex (- 2 ^ 255))) (- 2 ^ 255) /\
  SerRoundTripC19.Z_0xhex (-128) = ascii_bytes "-0x80" /\ Abi.Render.Z_dec (-128) = ascii_bytes "-128" /\
  in_range EInt 256 (- 2 ^ 255) /\ ~ in_range EInt 256 (- 2 ^ 255 - 1) /\
  run i256 (XStr (SerRoundTripC19.Z_0xhex (- 2 ^ 255))) = Ok (word (- 2 ^ 255)) /\
  is_err (run i256 (XJNum (Abi.Render.Z_dec (- 2 ^ 255 - 1)))) = true /\
  run u8 (XJNum (ascii_bytes "2.55e2")) = Ok (word 255) /\ is_err (run u8 (XBigInt (Some 256%Z))) = true.
Proof.
  cbv zeta. split; [vm_compute; reflexivity|]. split; [vm_compute; reflexivity|].
  split; [right; right; reflexivity|]. split; [vm_compute; reflexivity|]. split; [vm_compute; reflexivity|].
  split; [unfold in_range, two; simpl; lia|]. split; [unfold in_range, two; simpl; lia|].
  repeat split; vm_compute; reflexivity.
Qed.

(* ================= answers to the referee report (design/reviews/C02.md) ================= *)
From FFS Require Import Abi.ReprSpec Abi.ReprTyped.
From FFS Require Abi.ReprWalk Abi.ReprUnique Abi.ReprC19.

(* 14. (issue 1, completeness) [repr I tc input v] (Abi/ReprSpec.v) states INDEPENDENTLY of the readers
       of inputparsing.go which value an external input denotes for a component tree: hex text = two
       hex digits per byte (either case, optional "0x"), an address = the big-endian number of its
       bytes, "true" in any case = 1 and every other text 0, strings / bytes as given, sequences
       element by element (a []byte stands for its uint8 elements), tuples by position or by object
       key (member name, or the decimal text of the position for unnamed members); integer leaves by
       the parameter [I].  EVERY input that denotes a well-typed value v is accepted and encoded as
       enc(type, v) - for any parser [bifs] and any integer denotation [I] that the reader realises
       ([int_read]: texts through [bifs], big.Int / sized ints as themselves, floats truncated). *)
Theorem C02_denoted_value_accepted :
  forall (bifs : bytes -> res Z) (I : ext -> Z -> Prop),
    (forall x z, I x z -> int_read bifs x z) ->
  forall (params : list tcomp) (input : ext) (v : val),
    let root := root_of params in
    tc_wf root = true -> tc_no_fixed_point root = true -> tc_no_zero_len root = true ->
    repr I root input v -> well_typed (ty_of root) v = true -> (Z.of_nat (weight v) < 2 ^ 248)%Z ->
    EncodeABIDataValues bifs params input = Ok (enc (ty_of root) v).
Proof. exact ReprWalk.denoted_value_encoded. Qed.
Print Assumptions C02_denoted_value_accepted.

(* 15. (issue 1, soundness) Conversely, whatever EncodeABIDataValues accepts is the encoding of a
       value the input denotes per [repr] (integer leaves: [int_denotes D], D any relation the parser
       is sound for), and that value is well typed - provided no bytes<M> / function value in it is
       longer than its type allows ([not_longer]; the code accepts a longer byte string and encodes
       its first M bytes: outside the quantifier "bytes<M> values of exactly their declared length").
       A bug shared by the model's reader and the code's (a prefix strip eating a digit, a wrong
       nibble order, a wrong key for unnamed members) would make 14 or 15 unprovable. *)
Theorem C02_accepted_is_denoted :
  forall (bifs : bytes -> res Z) (D : bytes -> Z -> Prop),
    (forall s z, bifs s = Ok z -> D s z) ->
  forall (params : list tcomp) (input : ext) (b : bytes),
    let root := root_of params in
    tc_wf root = true -> tc_no_fixed_point root = true -> tc_no_zero_len root = true ->
    ext_clean input = true ->
    EncodeABIDataValues bifs params input = Ok b ->
    exists v, repr (int_denotes D) root input v /\
              (not_longer (ty_of root) v = true -> (Z.of_nat (weight v) < 2 ^ 248)%Z ->
                 well_typed (ty_of root) v = true /\ b = enc (ty_of root) v).
Proof. exact accepted_is_denoted_typed. Qed.
Print Assumptions C02_accepted_is_denoted.

(* 16. the value an input denotes is unique (so the "exists v" of 15 pins v), and the guard
       [not_longer] of 15 holds for every well-typed value *)
Theorem C02_denotation_unique :
  forall (I : ext -> Z -> Prop), (forall x z z', I x z -> I x z' -> z = z') ->
  forall tc x v v', repr I tc x v -> repr I tc x v' -> v = v'.
Proof. exact ReprUnique.repr_unique. Qed.
Print Assumptions C02_denotation_unique.

Theorem C02_well_typed_not_longer :
  forall t v, well_typed t v = true -> not_longer t v = true.
Proof. exact well_typed_not_longer. Qed.
Print Assumptions C02_well_typed_not_longer.

(* 17. 14-16 with property C19's model of ethtypes.BigIntegerFromString: no hypothesis about the
       parser.  Integer leaves denote per [ReprC19.I19] = [int_denotes accepts19], where
       [accepts19 t z] is C19's COMPLETE specification of the accepted texts (C19_accepted_iff): t is
       a text math/big documents with the integer value z. *)
Theorem C02_denoted_value_accepted_c19 :
  forall (params : list tcomp) (input : ext) (v : val),
    let root := root_of params in
    tc_wf root = true -> tc_no_fixed_point root = true -> tc_no_zero_len root = true ->
    repr ReprC19.I19 root input v -> well_typed (ty_of root) v = true -> (Z.of_nat (weight v) < 2 ^ 248)%Z ->
    EncodeABIDataValues EthTypes.Model.BigIntegerFromString params input = Ok (enc (ty_of root) v).
Proof. exact ReprC19.denoted_value_encoded_c19. Qed.
Print Assumptions C02_denoted_value_accepted_c19.

Theorem C02_accepted_is_denoted_c19 :
  forall (params : list tcomp) (input : ext) (b : bytes),
    let root := root_of params in
    tc_wf root = true -> tc_no_fixed_point root = true -> tc_no_zero_len root = true ->
    ext_clean input = true ->
    EncodeABIDataValues EthTypes.Model.BigIntegerFromString params input = Ok b ->
    exists v, repr ReprC19.I19 root input v /\
              (not_longer (ty_of root) v = true -> (Z.of_nat (weight v) < 2 ^ 248)%Z ->
                 well_typed (ty_of root) v = true /\ b = enc (ty_of root) v).
Proof. exact ReprC19.accepted_is_denoted_c19. Qed.
Print Assumptions C02_accepted_is_denoted_c19.

Theorem C02_denotation_unique_c19 :
  forall tc x v v', repr ReprC19.I19 tc x v -> repr ReprC19.I19 tc x v' -> v = v'.
Proof. exact ReprC19.repr_unique_c19. Qed.
Print Assumptions C02_denotation_unique_c19.

(* 18. (issue 2) Theorem 12's denotation D19 says nothing about a text outside C19's four spelling
       classes.  Here the denotation of a text is C19's complete specification [accepts19] (every
       text math/big documents, with its value; every other text denotes nothing), so for EVERY
       external value x given for uint<M> / int<M>:
         - accepted => the word of an in-range integer that x denotes;
         - x denotes z (uniquely): in range => accepted as the word of z, out of range => error;
         - x denotes nothing (and is not a typed-nil *big.Int / infinite *big.Float) => error.
       Consequence made explicit below: a decimal-looking text with a leading zero is read by Go's
       base-prefix syntax ("010" is octal 8), which [accepts19] states; the quantifier's "decimal
       string" is C19's canonical decimal (no leading zero). *)
Theorem C02_integers_every_value_c19 :
  forall e s m k x,
    (e = EInt \/ e = EUInt) -> tc_wf (int_tc e s m k) = true ->
    let run := EncodeABIDataValues EthTypes.Model.BigIntegerFromString [int_tc e s m k] (XList [x]) in
    match run with
    | Ok b => exists z, ReprC19.I19 x z /\ in_range e m z /\ b = word z
    | Err _ => True
    | Panic => x = XBigInt None \/ exists sg, x = XBigFloat (BInf sg)
    end /\
    (forall z, ReprC19.I19 x z ->
       (in_range e m z -> run = Ok (word z)) /\ (~ in_range e m z -> exists err, run = Err err)) /\
    ((forall z, ~ ReprC19.I19 x z) -> x <> XBigInt None -> (forall sg, x <> XBigFloat (BInf sg)) ->
       exists err, run = Err err).
Proof. exact ReprC19.integers_every_value_c19. Qed.
Print Assumptions C02_integers_every_value_c19.

(* non-vacuity of 14-17: a hand-built derivation of [repr] (not obtained from the walk) for
   (bytes2, bool) given as the object {"1": "TRUE", "0": "0xaB01"}; the value is well typed, the
   model returns enc of it, and an over-long bytes2 input is accepted with an ill-typed value
   (the declared reason for the guard [not_longer]) *)
Example C02_repr_nonvacuous :
  let root := root_of ReprC19.ex_r_params in
  repr ReprC19.I19 root ReprC19.ex_r_input ReprC19.ex_r_val /\
  tc_wf root = true /\ tc_no_fixed_point root = true /\ tc_no_zero_len root = true /\
  well_typed (ty_of root) ReprC19.ex_r_val = true /\ not_longer (ty_of root) ReprC19.ex_r_val = true /\
  ext_clean ReprC19.ex_r_input = true /\
  EncodeABIDataValues EthTypes.Model.BigIntegerFromString ReprC19.ex_r_params ReprC19.ex_r_input
    = Ok (enc (ty_of root) ReprC19.ex_r_val) /\
  length (enc (ty_of root) ReprC19.ex_r_val) = 64%nat /\
  (let long := XList [XStr (ascii_bytes "0xaB01ff"); XBool true] in
   is_ok (EncodeABIDataValues EthTypes.Model.BigIntegerFromString ReprC19.ex_r_params long) = true /\
   not_longer (ty_of root) (VList [VBytes [xab; x01; xff]; VNum 1]) = false).
Proof.
  cbv zeta. split; [exact (ReprC19.ex_r_repr ReprC19.I19)|]. repeat split; vm_compute; reflexivity.
Qed.

(* non-vacuity of 18 and the leading-zero case of issue 2: "010" for uint8 is the word of 8 (octal),
   which is what [accepts19] says it denotes; "08" (not an octal text) goes through the
   floating-point syntax and denotes 8; "1_" denotes nothing and is refused *)
Example C02_every_text_nonvacuous :
  let u8 := int_tc EUInt (ascii_bytes "8") 8 [] in
  let run x := EncodeABIDataValues EthTypes.Model.BigIntegerFromString [u8] (XList [x]) in
  run (XStr (ascii_bytes "010")) = Ok (word 8) /\ ReprC19.I19 (XStr (ascii_bytes "010")) 8 /\
  run (XStr (ascii_bytes "08")) = Ok (word 8) /\
  is_err (run (XStr (ascii_bytes "1_"))) = true /\ (forall z, ~ ReprC19.I19 (XStr (ascii_bytes "1_")) z) /\
  is_err (run (XStr (ascii_bytes "0400"))) = true /\ ReprC19.I19 (XStr (ascii_bytes "0400")) 256.
Proof.
  cbv zeta. split; [vm_compute; reflexivity|]. split; [apply ReprC19.bifs19_sound; vm_compute; reflexivity|].
  split; [vm_compute; reflexivity|]. split; [vm_compute; reflexivity|].
  split; [intros z H; apply (ReprC19.I19_read _ z) in H; vm_compute in H; discriminate|].
  split; [vm_compute; reflexivity|apply ReprC19.bifs19_sound; vm_compute; reflexivity].
Qed.

(* the conclusions "<> Panic" of theorems 3 / 12b are not true by construction of the model: the
   model does panic - on a typed-nil *big.Int given for an integer and on the text "Inf" given for a
   fixed-point type - exactly the inputs the hypotheses ext_clean / tc_no_fixed_point exclude *)
Example C02_model_can_panic :
  let u8 := int_tc EUInt (ascii_bytes "8") 8 [] in
  is_panic (EncodeABIDataValues BigIntegerFromString [u8] (XList [XBigInt None])) = true /\
  ext_clean (XList [XBigInt None]) = false /\
  is_panic (EncodeABIDataValues BigIntegerFromString [fx EFixed "128x18" 128 18] (XList [XStr (ascii_bytes "Inf")])) = true /\
  tc_no_fixed_point (root_of [fx EFixed "128x18" 128 18]) = false.
Proof. cbv zeta. repeat split; vm_compute; reflexivity. Qed.

(* 19. (issue 4(ii)) "every valid ABI parameter list": composition with property C13's model of the
       type parser (AbiType/Model.v).  [BridgeC13.same_comp tc tc'] : the C02 component tree tc' has the
       shape of C13's tree tc (same table entry by name, suffix text, M, N, array lengths; any key
       names).  For every parameter C13's Validate accepts, every such tc' satisfies [tc_wf] - the
       hypothesis of theorems 1-3, 14, 15 - and its spec type is the valid type that the parameter
       spells (C13's grammar); a list of such trees gives a well-formed root tuple. *)
From FFS Require Abi.BridgeC13 AbiType.Model AbiType.Spec AbiType.Abs AbiType.Syntax.
Theorem C02_validated_component_is_wf :
  forall (p : AbiType.Syntax.param) (tc : AbiType.Model.tcomp) (tc' : tcomp),
    AbiType.Model.Validate p = Ok tc -> BridgeC13.same_comp tc tc' ->
    tc_wf tc' = true /\ AbiType.Abs.ty_of tc = Some (ty_of tc') /\ AbiType.Spec.valid_type (ty_of tc') = true /\
    AbiType.Spec.spelling (ty_of tc') (AbiType.Syntax.p_type p) (AbiType.Syntax.p_comps p).
Proof. exact BridgeC13.validated_comp_wf. Qed.
Print Assumptions C02_validated_component_is_wf.

Theorem C02_validated_parameters_are_wf :
  forall (ps : list AbiType.Syntax.param) (tcs : list tcomp),
    Forall2 (fun p tc' => exists tc, AbiType.Model.Validate p = Ok tc /\ BridgeC13.same_comp tc tc') ps tcs ->
    tc_wf (root_of tcs) = true.
Proof. exact BridgeC13.validated_params_wf. Qed.
Print Assumptions C02_validated_parameters_are_wf.

(* non-vacuity of 19: {"type":"tuple[2][]","components":[{"type":"uint"},{"type":"bytes3"}]} named "t"
   with members "a" and (unnamed): C13's Validate accepts it, the C02 tree abigen prints for it (alias
   "uint" expanded to suffix "256", key names on every array level) is same_comp to the parsed tree *)
Example C02_bridge_nonvacuous :
  let p := AbiType.Syntax.Param (ascii_bytes "tuple[2][]")
             [AbiType.Syntax.Param (ascii_bytes "uint") []; AbiType.Syntax.Param (ascii_bytes "bytes3") []] in
  let t := ascii_bytes "t" in
  let tc' := TCDynArr (TCFixedArr 2 (TCTuple [TCElem EUInt (ascii_bytes "256") 256 0 (ascii_bytes "a");
                                               TCElem EBytes (ascii_bytes "3") 3 0 []] t) t) t in
  (exists tc, AbiType.Model.Validate p = Ok tc /\ BridgeC13.same_comp tc tc') /\ tc_wf tc' = true /\
  ty_of tc' = TDynArr (TFixedArr (TTuple [TUInt 256; TBytesN 3]) 2).
Proof.
  cbv zeta. split; [|split; vm_compute; reflexivity].
  eexists. split; [vm_compute; reflexivity|].
  apply BridgeC13.SC_dyn. apply (BridgeC13.SC_fixed _ _ 2%N). apply BridgeC13.SC_tuple.
  constructor; [apply BridgeC13.SC_elem; reflexivity|]. constructor; [apply BridgeC13.SC_elem; reflexivity|constructor].
Qed.

(* 14b. theorem 14 through Entry.EncodeCallDataValues / EncodeCallDataJSON: the selector (an input of
        the model, property C12's subject) followed by enc of the denoted value *)
Theorem C02_denoted_value_call_accepted :
  forall (bifs : bytes -> res Z) (I : ext -> Z -> Prop),
    (forall x z, I x z -> int_read bifs x z) ->
  forall (sel : bytes) (params : list tcomp) (input : ext) (v : val),
    let root := root_of params in
    tc_wf root = true -> tc_no_fixed_point root = true -> tc_no_zero_len root = true ->
    repr I root input v -> well_typed (ty_of root) v = true -> (Z.of_nat (weight v) < 2 ^ 248)%Z ->
    EncodeCallDataValues bifs sel params input = Ok (sel ++ enc (ty_of root) v).
Proof. exact ReprWalk.denoted_value_call_encoded. Qed.
Print Assumptions C02_denoted_value_call_accepted.

(* ================= wave 6: two guards closed ================= *)
From FFS Require Abi.EncZeroLen Abi.ReprClip Abi.ReprClipC19.

(* 20. Theorem 1 with the guard [tc_no_zero_len] ("no T[0] anywhere") replaced by its exact form
       [tc_zero_len_static]: every T[0] in the type tree has a STATIC element type.  T[0] with a static
       T is encoded as the specification says (the empty string, not dynamic); the code's value-driven
       dynamic flag differs from the specification's only for T[0] with a dynamic T (Example
       C02_zero_len_nonvacuous shows both).  The old guard implies the new one, so theorem 1 is a
       corollary. *)
Theorem C02_encode_is_spec_zero_len_static :
  forall (tc : tcomp) (x : cval),
    tc_wf tc = true -> tc_no_fixed_point tc = true -> EncZeroLen.tc_zero_len_static tc = true ->
    typed_as tc x = true -> values_ok x = true ->
    well_typed (ty_of tc) (val_of x) = true ->
    (Z.of_nat (weight (val_of x)) < 2 ^ 248)%Z ->
    encodeABIData x = Ok (enc (ty_of tc) (val_of x), dynamic (ty_of tc)).
Proof. intros tc x. exact (EncZeroLen.encode_is_spec_z x tc). Qed.
Print Assumptions C02_encode_is_spec_zero_len_static.

Theorem C02_no_zero_len_is_zero_len_static :
  forall tc, tc_no_zero_len tc = true -> EncZeroLen.tc_zero_len_static tc = true.
Proof. exact EncZeroLen.no_zero_len_static. Qed.
Print Assumptions C02_no_zero_len_is_zero_len_static.

(* 21. Theorem 14 (every input that denotes a well-typed value is accepted and encoded as enc of it)
       under the relaxed T[0] guard: for any parser with the stated law, and with property C19's model. *)
Theorem C02_denoted_value_accepted_zero_len_static :
  (forall (bifs : bytes -> res Z) (I : ext -> Z -> Prop),
     (forall x z, I x z -> int_read bifs x z) ->
   forall (params : list tcomp) (input : ext) (v : val),
     let root := root_of params in
     tc_wf root = true -> tc_no_fixed_point root = true -> EncZeroLen.tc_zero_len_static root = true ->
     repr I root input v -> well_typed (ty_of root) v = true -> (Z.of_nat (weight v) < 2 ^ 248)%Z ->
     EncodeABIDataValues bifs params input = Ok (enc (ty_of root) v)) /\
  (* with property C19's model: no parser hypothesis *)
  (forall (params : list tcomp) (input : ext) (v : val),
     let root := root_of params in
     tc_wf root = true -> tc_no_fixed_point root = true -> EncZeroLen.tc_zero_len_static root = true ->
     repr ReprC19.I19 root input v -> well_typed (ty_of root) v = true -> (Z.of_nat (weight v) < 2 ^ 248)%Z ->
     EncodeABIDataValues EthTypes.Model.BigIntegerFromString params input = Ok (enc (ty_of root) v)).
Proof. split; [exact ReprClip.denoted_value_encoded_z|exact ReprClipC19.denoted_value_encoded_z_c19]. Qed.
Print Assumptions C02_denoted_value_accepted_zero_len_static.

(* 22. Theorem 15 WITHOUT the guard [not_longer] (and with the relaxed T[0] guard).  [ReprClip.clip t v]
       is a function of the specification type and the value only: it cuts every bytes<M> value of v
       to its first M bytes and every function value to its first 24 bytes, and changes nothing else.
       For EVERY accepted input: the value v the input denotes ([repr], unique by theorem 16), cut
       this way, is well typed (no size guard), and the bytes returned are enc(type, clip v) (size
       guard on the cut value, which is never heavier than v); and clip v = v whenever no byte
       string in v is over-long - in particular for every well-typed v (theorem 23).  So the only
       thing that separates "accepted" from "enc of the well-typed value denoted" is the truncation
       of over-long bytes<M> / function inputs, and that is now stated exactly instead of excluded. *)
Theorem C02_accepted_is_clipped_denoted :
  (forall (bifs : bytes -> res Z) (D : bytes -> Z -> Prop),
     (forall s z, bifs s = Ok z -> D s z) ->
   forall (params : list tcomp) (input : ext) (b : bytes),
     let root := root_of params in
     tc_wf root = true -> tc_no_fixed_point root = true -> EncZeroLen.tc_zero_len_static root = true ->
     ext_clean input = true ->
     EncodeABIDataValues bifs params input = Ok b ->
     exists v, repr (int_denotes D) root input v /\
               well_typed (ty_of root) (ReprClip.clip (ty_of root) v) = true /\
               ((Z.of_nat (weight (ReprClip.clip (ty_of root) v)) < 2 ^ 248)%Z ->
                  b = enc (ty_of root) (ReprClip.clip (ty_of root) v)) /\
               (not_longer (ty_of root) v = true -> ReprClip.clip (ty_of root) v = v)) /\
  (* with property C19's model: no parser hypothesis; integer leaves denote per C19's complete
     specification of the accepted number texts *)
  (forall (params : list tcomp) (input : ext) (b : bytes),
     let root := root_of params in
     tc_wf root = true -> tc_no_fixed_point root = true -> EncZeroLen.tc_zero_len_static root = true ->
     ext_clean input = true ->
     EncodeABIDataValues EthTypes.Model.BigIntegerFromString params input = Ok b ->
     exists v, repr ReprC19.I19 root input v /\
               well_typed (ty_of root) (ReprClip.clip (ty_of root) v) = true /\
               ((Z.of_nat (weight (ReprClip.clip (ty_of root) v)) < 2 ^ 248)%Z ->
                  b = enc (ty_of root) (ReprClip.clip (ty_of root) v)) /\
               (not_longer (ty_of root) v = true -> ReprClip.clip (ty_of root) v = v)).
Proof. split; [exact ReprClip.accepted_is_denoted_clip|exact ReprClipC19.accepted_is_denoted_clip_c19]. Qed.
Print Assumptions C02_accepted_is_clipped_denoted.

(* 23. the cut is the identity on every well-typed value, and never adds weight *)
Theorem C02_clip_identity_on_well_typed :
  (forall t v, well_typed t v = true -> ReprClip.clip t v = v) /\
  (forall t v, (weight (ReprClip.clip t v) <= weight v)%nat).
Proof. split; [exact ReprClip.clip_well_typed|intros t v; exact (ReprClip.clip_weight v t)]. Qed.
Print Assumptions C02_clip_identity_on_well_typed.

(* non-vacuity of 22/23: (bytes2, bool) given ["0xaB01ff", true] - a hand-built derivation that it
   denotes ([ab,01,ff], 1); that value is not well typed, its cut is ([ab,01], 1), which is, and the
   model returns enc of the cut value *)
Example C02_clip_nonvacuous :
  let root := root_of ReprC19.ex_r_params in
  repr ReprC19.I19 root ReprClipC19.ex_long_input ReprClipC19.ex_long_val /\
  tc_wf root = true /\ tc_no_fixed_point root = true /\ EncZeroLen.tc_zero_len_static root = true /\
  ext_clean ReprClipC19.ex_long_input = true /\
  well_typed (ty_of root) ReprClipC19.ex_long_val = false /\
  not_longer (ty_of root) ReprClipC19.ex_long_val = false /\
  ReprClip.clip (ty_of root) ReprClipC19.ex_long_val = ReprC19.ex_r_val /\
  well_typed (ty_of root) ReprC19.ex_r_val = true /\
  EncodeABIDataValues EthTypes.Model.BigIntegerFromString ReprC19.ex_r_params ReprClipC19.ex_long_input
    = Ok (enc (ty_of root) ReprC19.ex_r_val).
Proof.
  cbv zeta. split; [exact (ReprClipC19.ex_long_repr ReprC19.I19)|]. repeat split; vm_compute; reflexivity.
Qed.

(* non-vacuity of 20/21 and tightness of the relaxed guard: (uint8[0], string) given [[], "x"] is
   inside the new guard, outside the old one, and encoded as the specification says; for string[0]
   (dynamic element) the new guard fails, and indeed the model (and the code) return the empty
   string where the specification's enc is one offset word *)
Example C02_zero_len_nonvacuous :
  let root := root_of ReprClipC19.ex_z_params in
  repr ReprC19.I19 root ReprClipC19.ex_z_input ReprClipC19.ex_z_val /\
  tc_wf root = true /\ tc_no_fixed_point root = true /\
  EncZeroLen.tc_zero_len_static root = true /\ tc_no_zero_len root = false /\
  well_typed (ty_of root) ReprClipC19.ex_z_val = true /\
  EncodeABIDataValues EthTypes.Model.BigIntegerFromString ReprClipC19.ex_z_params ReprClipC19.ex_z_input
    = Ok (enc (ty_of root) ReprClipC19.ex_z_val) /\
  length (enc (ty_of root) ReprClipC19.ex_z_val) = 96%nat /\
  (let rootd := root_of ReprClipC19.ex_zd_params in
   tc_wf rootd = true /\ EncZeroLen.tc_zero_len_static rootd = false /\
   well_typed (ty_of rootd) (VList [VList []]) = true /\
   EncodeABIDataValues EthTypes.Model.BigIntegerFromString ReprClipC19.ex_zd_params (XList [XList []]) = Ok [] /\
   length (enc (ty_of rootd) (VList [VList []])) = 32%nat).
Proof.
  cbv zeta. split; [exact (ReprClipC19.ex_z_repr ReprC19.I19)|]. repeat split; vm_compute; reflexivity.
Qed.
