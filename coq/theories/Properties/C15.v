(* C15 — Reading a keystore file is total: malformed files give errors, never panics.
   Statements only; proofs live in Keystore/TotalProofs*.v.  The model is Keystore/Model.v (b-c07): the
   read path of pkg/keystorev3 on /repo main after the repairs 5907a4c, 8b9f058, f9284a2, e53319d, every
   library call [Panic] outside the library's precondition (Keystore/Prims.v).  The independent V3
   specification is Keystore/Spec.v.  Every theorem holds for every value of the primitives record
   [P : prims] (scrypt, pbkdf2, AES-CTR, Keccak, JSON lexer, UUID parser): no law about them is used. *)
From Coq Require Import String.
From Coq Require Import List NArith ZArith Lia Bool Arith.
From Coq Require Import Init.Byte.
From FFS Require Import Base.Res Base.Bytes Keystore.Json Keystore.Prims Keystore.Model Keystore.Spec
  Keystore.ReadTypes Keystore.TotalProofs Keystore.TotalProofs2 Keystore.TotalProofs4 Keystore.TotalProofs3.
(* round 3: required, not imported (Keystore/Toy.v has its own [toy]); names below are qualified *)
From FFS Require Keystore.ProofsRead Keystore.Toy Keystore.TotalProofs5.
Import ListNotations.

(* 1. Reading any byte string with any password never panics. *)
Theorem C15_total :
  forall (P : prims) (bytes pw : bytes), ReadWalletFile P bytes pw <> Panic.
Proof. exact ReadWalletFile_total. Qed.
Print Assumptions C15_total.

Example C15_total_classes_reachable :
  cls (read_wallet_tree toy good []) = 0%nat /\ cls (read_wallet_tree toy JNull []) = 1%nat
  /\ cls (ReadWalletFile toy [] []) = 1%nat.
Proof. vm_compute. repeat split; reflexivity. Qed.

(* 2. ... because every library call is made inside the library's precondition: none of the functions
      holding a call site (scrypt.Key, pbkdf2.Key, aes.NewCipher + cipher.NewCTR, the slices of the
      derived key) can panic, whatever they are given, and the guards that precede the two KDF calls
      imply the KDF's no-panic domain. *)
Theorem C15_calls_in_domain :
  forall P : prims,
  (forall c kp pw, scrypt_decrypt P c kp pw <> Panic) /\
  (forall c kp pw, pbkdf2_decrypt P c kp pw <> Panic) /\
  (forall c dk, decryptCommon P c dk <> Panic) /\
  (forall key iv ct, aes128CtrDecrypt P key iv ct <> Panic) /\
  (forall kp : scrypt_params, (sp_dklen kp =? derivedKeyLen)%Z = true -> ((sp_r kp <=? 0)%Z || (sp_p kp <=? 0)%Z) = false ->
      scrypt_dom (sp_r kp) (sp_p kp) (sp_dklen kp) = true) /\
  (forall kp : pbkdf2_params, (pp_dklen kp =? derivedKeyLen)%Z = true -> (pp_c kp <=? 0)%Z = false ->
      pbkdf2_pre (pp_c kp) (pp_dklen kp) = true).
Proof. exact calls_in_domain. Qed.
Print Assumptions C15_calls_in_domain.

(* 3. No foreign key.  A returned wallet comes from a document that lexes; its key is exactly the key
      the V3 definition derives from the decoded content of that document ([content_key]: version 3, an
      id, dklen 32, cost parameters inside the KDF's domain, hmac-sha256, 16-byte IV,
      keccak(DK[16..32] ++ ciphertext) = mac, key = AES-128-CTR(DK[0..16], iv, ciphertext)); and when the
      document is strictly formed ([v3_wellformed]: the members the standard names occur exactly once
      under their exact names with the right JSON kinds) it is the key the independent specification
      Keystore/Spec.v derives from the same document and password: without the cipher test
      ([b = false]) unconditionally, with it ([b = true], the full standard [v3_decrypt]) provided the
      file declares aes-128-ctr.
      _partial: (i) the cipher member is not checked by the code (refuted below); (ii) against Spec.v only
      for strictly formed documents — encoding/json's leniency (member-name case, duplicate members, null
      or absent salt/ciphertext, 0x prefixes) is outside the strict specification; such documents are
      covered by the content statement. *)
Theorem C15_no_foreign_key_partial :
  forall (b : bool) (P : prims) (bytes pw : bytes) (w : wallet),
    ReadWalletFile P bytes pw = Ok w ->
    exists t cf,
      json_parse P bytes = Some t /\
      decode_content P t = Some (cf, w_crypto w, w_kdfparams w) /\
      content_key P (cf, w_crypto w, w_kdfparams w) pw = Some (PrivateKey w) /\
      (v3_wellformed t = true -> (b = true -> cc_cipher (w_crypto w) = cipherAES128ctr) ->
       v3_decrypt_gen b P t pw = Ok (PrivateKey w)).
Proof. exact no_foreign_key_bytes. Qed.
Print Assumptions C15_no_foreign_key_partial.

Example C15_no_foreign_key_nonvacuous :
  v3_wellformed good = true /\ key_of (read_wallet_tree toy good []) = Some [x01; x02]
  /\ v3_decrypt toy good [] = Ok [x01; x02]
  /\ key_of (read_wallet_tree toy lenient []) = Some [x01; x02] /\ v3_wellformed lenient = false.
Proof. vm_compute. repeat split; reflexivity. Qed.

(* the unguarded statement "Ok k -> v3_decrypt = Ok k" is false of the faithful model: a strictly formed,
   MAC-valid file declaring another cipher is decrypted (known finding C15/cipher-ignored) *)
Theorem C15_no_foreign_key_cipher_refuted :
  exists (P : prims) (t : json) (pw : bytes) (w : wallet),
    v3_wellformed t = true /\ read_wallet_tree P t pw = Ok w /\ v3_decrypt P t pw = Err SInvalid.
Proof. exact no_foreign_key_cipher_refuted. Qed.
Print Assumptions C15_no_foreign_key_cipher_refuted.

(* 4. Malformed files are errors.  If the bytes are not JSON, or the document does not decode as a V3
      key file of a known KDF ([decode_content = None]: structure), or its decoded content has a wrong
      version / no id, an IV that is not 16 bytes, dklen <> 32, cost parameters outside the KDF's domain
      (scrypt: N <= 1 or not a power of two, r <= 0, p <= 0, r*p >= 2^30, over the size limits;
      PBKDF2: c <= 0), another prf, or a MAC that is not valid for the password, the result is an error
      (never a key, never a panic).  The property's hypothesis "the MAC is valid" is not needed.
      _partial: the cipher disjunct is missing (refuted below). *)
Theorem C15_malformed_rejected_partial :
  forall (P : prims) (bytes pw : bytes),
    match json_parse P bytes with
    | None => True
    | Some t =>
        match decode_content P t with
        | None => True
        | Some c => (core_bad c || iv_bad c || dklen_bad c || cost_bad c || prf_bad c || negb (mac_valid P c pw)) = true
        end
    end ->
    exists e, ReadWalletFile P bytes pw = Err e.
Proof. exact malformed_rejected_bytes. Qed.
Print Assumptions C15_malformed_rejected_partial.

(* the same in the form of the property text, on the lexed document *)
Theorem C15_malformed_rejected_mac_valid :
  forall (P : prims) (t : json) (pw : bytes) (c : content),
    decode_content P t = Some c -> mac_valid P c pw = true ->
    (iv_bad c = true \/ dklen_bad c = true \/ cost_bad c = true \/ prf_bad c = true \/ core_bad c = true) ->
    exists e, read_wallet_tree P t pw = Err e.
Proof. exact malformed_rejected_mac_valid. Qed.
Print Assumptions C15_malformed_rejected_mac_valid.

Example C15_malformed_rejected_nonvacuous :
  (* MAC-valid files with a 2-byte IV, dklen -1, scrypt r = 0; a document that does not decode *)
  is_mac_valid_with iv_bad (toy_pbkdf2 "aes-128-ctr" 2 "32" "1") = true
  /\ is_mac_valid_with dklen_bad (toy_pbkdf2 "aes-128-ctr" 16 "-1" "1") = true
  /\ match decode_content toy (toy_scrypt "4" "0" "1") with Some c => cost_bad c | None => false end = true
  /\ decode_content toy (JArr []) = None.
Proof. vm_compute. repeat split; reflexivity. Qed.

(* the cipher disjunct of the property is false of the faithful model *)
Theorem C15_malformed_rejected_cipher_refuted :
  exists (P : prims) (t : json) (pw : bytes) (c : content) (w : wallet),
    decode_content P t = Some c /\ mac_valid P c pw = true /\ cipher_bad c = true /\
    read_wallet_tree P t pw = Ok w.
Proof. exact malformed_rejected_cipher_refuted. Qed.
Print Assumptions C15_malformed_rejected_cipher_refuted.

(* 5. (round 3) Exactness on strictly formed documents.  For primitives satisfying the laws the C07
      theorems use ([crypto_laws]: KDF output lengths, the 32-byte block behind scrypt's slice, CTR
      involution; [uuid_accepts_text]: the UUID parser accepts RFC-4122 text), and a document that is
      strictly formed ([v3_wellformed]), has no case-variant / duplicate member names ([unambiguous]) and
      whose number literals fit float64 ([nums_ok]): the read path returns a wallet with key k exactly when
      the independent specification (Keystore/Spec.v, without its cipher test — the code makes none, known
      finding C15/cipher-ignored) derives k from the same document and password; and it reports an error
      exactly when the specification derives no key at all.  So on these documents there is neither a
      foreign key nor a spurious rejection. *)
Theorem C15_read_iff_spec :
  forall (P : prims), crypto_laws P -> uuid_accepts_text P ->
  forall (t : json) (pw k : bytes),
    v3_wellformed t = true -> ProofsRead.unambiguous t = true -> ProofsRead.nums_ok P t = true ->
    ((exists w, read_wallet_tree P t pw = Ok w /\ PrivateKey w = k) <-> v3_decrypt_gen false P t pw = Ok k).
Proof. exact TotalProofs5.read_iff_spec. Qed.
Print Assumptions C15_read_iff_spec.

Theorem C15_read_err_iff_spec :
  forall (P : prims), crypto_laws P -> uuid_accepts_text P ->
  forall (t : json) (pw : bytes),
    v3_wellformed t = true -> ProofsRead.unambiguous t = true -> ProofsRead.nums_ok P t = true ->
    ((exists e, read_wallet_tree P t pw = Err e) <-> (forall k, v3_decrypt_gen false P t pw <> Ok k)).
Proof. exact TotalProofs5.read_err_iff_spec. Qed.
Print Assumptions C15_read_err_iff_spec.

Example C15_read_iff_spec_nonvacuous :
  crypto_laws Toy.toy /\ uuid_accepts_text Toy.toy /\
  match TotalProofs5.iff_doc with
  | Some t =>
      v3_wellformed t = true /\ ProofsRead.unambiguous t = true /\ ProofsRead.nums_ok Toy.toy t = true /\
      v3_decrypt_gen false Toy.toy t [x70; x77] = Ok [x01; x02; x03] /\
      (match read_wallet_tree Toy.toy t [x70; x77] with Ok w => PrivateKey w | _ => [] end) = [x01; x02; x03] /\
      (match read_wallet_tree Toy.toy t [x70] with Err _ => true | _ => false end) = true /\
      (match v3_decrypt_gen false Toy.toy t [x70] with Ok _ => false | _ => true end) = true
  | None => False
  end.
Proof. exact TotalProofs5.read_iff_spec_nonvacuous. Qed.

(* Tie of the hand-written constants of Keystore/Model.v that the READ path uses (version check, kdf
   dispatch, dklen check, prf check) to the source.  Gen/Consts.v is regenerated on every run by the
   translator harness/cmd/gen_consts from the `const` declarations of
   pkg/keystorev3/{walletfile,pbkdf2}.go as they are NOW.  The model keeps its own literals; this
   theorem is what breaks when the version, the derived key length or a kdf / prf name changes in
   the source.  (The constants only the writers use -- scrypt presets, defaultR, the cipher name --
   are tied by C07_source_constants.) *)
From FFS Require Gen.Consts.
Theorem C15_source_constants :
  Gen.Consts.keystorev3_version3 = Keystore.Model.version3 /\
  Gen.Consts.keystorev3_derivedKeyLen = Keystore.Model.derivedKeyLen /\
  ascii_bytes Gen.Consts.keystorev3_kdfTypeScrypt = Keystore.Model.kdfTypeScrypt /\
  ascii_bytes Gen.Consts.keystorev3_kdfTypePbkdf2 = Keystore.Model.kdfTypePbkdf2 /\
  ascii_bytes Gen.Consts.keystorev3_prfHmacSHA256 = Keystore.Model.prfHmacSHA256.
Proof. vm_compute. repeat split; reflexivity. Qed.
Print Assumptions C15_source_constants.

(* 6. (round 4) The bridge for leniently formed documents.  encoding/json reads documents the strict
      specification does not define (case variants of member names, duplicate members, null or absent
      members, 0x-prefixed hex), so for those there is no "same document" to hand to Keystore/Spec.v.
      But the wallet the code returns can be marshalled again ([JSON_tree], the model of JSON()), and that
      document IS a strict V3 document: for EVERY document t (lenient or not), every password and every
      behaviour of the primitives whose UUID parser returns 16 bytes ([uuid_parse_16]: google/uuid's
      UUID is a [16]byte; the only law used), the key the code returns is the key the independent strict
      specification derives from the re-marshalled wallet -- without the cipher test unconditionally, with
      it (the full standard) when the file declares aes-128-ctr.  No well-formedness guard. *)
From FFS Require Keystore.ProofsNew Keystore.TotalProofs6 Keystore.TotalProofs7.

Theorem C15_lenient_read_then_strict :
  forall (b : bool) (P : prims), TotalProofs6.uuid_parse_16 P ->
  forall (t : json) (pw : bytes) (w : wallet),
    read_wallet_tree P t pw = Ok w ->
    (b = true -> cc_cipher (w_crypto w) = cipherAES128ctr) ->
    v3_decrypt_gen b P (JSON_tree w) pw = Ok (PrivateKey w).
Proof. exact TotalProofs6.lenient_read_then_strict. Qed.
Print Assumptions C15_lenient_read_then_strict.

(* the same at the level of ReadWalletFile (bytes in, lexer oracle), also after any Metadata()
   assignments by the caller (the specification looks at id, version and crypto only, which
   marshalWalletJSON sets last): no foreign key, for any document -- this removes guard (ii) of
   C15_no_foreign_key_partial; what stays partial is the cipher member only *)
Theorem C15_no_foreign_key_any_document :
  forall (b : bool) (P : prims), TotalProofs6.uuid_parse_16 P ->
  forall (data pw : bytes) (w : wallet) (extras : list (bytes * json)),
    ReadWalletFile P data pw = Ok w ->
    (b = true -> cc_cipher (w_crypto w) = cipherAES128ctr) ->
    v3_decrypt_gen b P (JSON_tree (ProofsNew.assign_all w extras)) pw = Ok (PrivateKey w).
Proof. exact TotalProofs6.no_foreign_key_any_document. Qed.
Print Assumptions C15_no_foreign_key_any_document.

(* the shape of every returned wallet that makes this work: version 3, a 16-byte id, the kdf name matching
   the kind of kdfparams (the two decoding passes agree), every integer parameter an int64 *)
Theorem C15_read_wallet_shape :
  forall (P : prims), TotalProofs6.uuid_parse_16 P ->
  forall (t : json) (pw : bytes) (w : wallet),
    read_wallet_tree P t pw = Ok w ->
    cf_version (w_core w) = 3%Z /\
    (exists u, cf_id (w_core w) = Some u /\ length u = 16%nat) /\
    TotalProofs6.kdf_tag_ok (w_crypto w) (w_kdfparams w) /\ TotalProofs6.kdf_ints (w_kdfparams w).
Proof. exact TotalProofs6.read_wallet_shape. Qed.
Print Assumptions C15_read_wallet_shape.

(* 7. (round 4) Exactness for EVERY document: theorem 5 without its guards [v3_wellformed],
      [unambiguous], [nums_ok].  For primitives with [crypto_laws] and [uuid_parse_16], any document t,
      password and key k: the read path returns a wallet with key k (from a file declaring aes-128-ctr,
      when b = true) exactly when t decodes -- encoding/json's typed decoding into the Go structs
      ([decode_content]) and into the metadata map ([unmarshal_metadata]), as modelled -- and the
      independent strict specification (the full standard for b = true) derives k from the canonical V3
      document [content_doc c] carrying the decoded content; and it reports an error exactly when no key
      is derived that way.  The read path = lenient decoding, then exactly the V3 standard: neither a
      foreign key nor a spurious rejection on any document. *)
Theorem C15_read_iff_spec_any :
  forall (P : prims), crypto_laws P -> TotalProofs6.uuid_parse_16 P ->
  forall (b : bool) (t : json) (pw k : bytes),
    (exists w, read_wallet_tree P t pw = Ok w /\ PrivateKey w = k /\
               (b = true -> cc_cipher (w_crypto w) = cipherAES128ctr)) <->
    (exists c md, decode_content P t = Some c /\ unmarshal_metadata P t = Ok md /\
                  v3_decrypt_gen b P (TotalProofs7.content_doc c) pw = Ok k).
Proof. exact TotalProofs7.read_iff_spec_any. Qed.
Print Assumptions C15_read_iff_spec_any.

Theorem C15_read_err_iff_spec_any :
  forall (P : prims), crypto_laws P -> TotalProofs6.uuid_parse_16 P ->
  forall (t : json) (pw : bytes),
    (exists e, read_wallet_tree P t pw = Err e) <->
    (forall c md k, decode_content P t = Some c -> unmarshal_metadata P t = Ok md ->
                    v3_decrypt_gen false P (TotalProofs7.content_doc c) pw <> Ok k).
Proof. exact TotalProofs7.read_err_iff_spec_any. Qed.
Print Assumptions C15_read_err_iff_spec_any.

(* non-vacuity: a file created by the model, rewritten the way only encoding/json reads it ("Crypto",
   "cipherText" with 0x and upper-case hex, a first "version": 7 overridden by the later one, "VERSION":
   null): the strict specification refuses the document itself, the code reads it, the full standard
   decrypts the re-marshalled wallet and the canonical document to the same key, another password is
   rejected on both sides; the laws hold of the instance *)
Example C15_read_iff_spec_any_nonvacuous :
  crypto_laws TotalProofs7.toy16 /\ TotalProofs6.uuid_parse_16 TotalProofs7.toy16 /\
  match TotalProofs7.lenient_doc with
  | Some t =>
      v3_wellformed t = false /\ v3_decrypt_gen false TotalProofs7.toy16 t [x70; x77] = Err SInvalid /\
      match read_wallet_tree TotalProofs7.toy16 t [x70; x77] with
      | Ok w => PrivateKey w = [x01; x02; x03] /\
                v3_decrypt TotalProofs7.toy16 (JSON_tree w) [x70; x77] = Ok [x01; x02; x03]
      | _ => False
      end /\
      match decode_content TotalProofs7.toy16 t, unmarshal_metadata TotalProofs7.toy16 t with
      | Some c, Ok _ =>
          v3_decrypt TotalProofs7.toy16 (TotalProofs7.content_doc c) [x70; x77] = Ok [x01; x02; x03] /\
          v3_decrypt_gen false TotalProofs7.toy16 (TotalProofs7.content_doc c) [x70] = Err SMac
      | _, _ => False
      end /\
      (match read_wallet_tree TotalProofs7.toy16 t [x70] with Err _ => true | _ => false end) = true
  | None => False
  end.
Proof. exact TotalProofs7.read_iff_spec_any_nonvacuous. Qed.
