(* C15 — Reading a keystore file is total: malformed files give errors, never panics.
   Statements only; proofs live in Keystore/TotalProofs*.v.  The model is Keystore/Model.v (b-c07): the
   read path of pkg/keystorev3 on /repo main after the repairs 5907a4c, 8b9f058, f9284a2, e53319d, every
   library call [Panic] outside the library's precondition (Keystore/Prims.v).  The independent V3
   specification is Keystore/Spec.v.  Theorems 1-4 and 8 hold for every value of the primitives record
   [P : prims] (scrypt, pbkdf2, AES-CTR, Keccak, JSON lexer, UUID parser): no law about them is used;
   theorems 5-7 name the laws they use ([crypto_laws], [uuid_accepts_text], [uuid_parse_16]).

   THE COST CAP (referee report, issue 1).  scrypt.Key allocates its work area, make([]uint32, 32*N*r),
   AFTER its parameter test; the Go runtime panics ("makeslice: len out of range") when those 128*N*r
   bytes exceed 2^48.  A 260-byte file with n = 2^42, r = 1 passes every guard of pkg/keystorev3 and of
   the library and makes ReadWalletFile panic (confirmed against x/crypto v0.31.0, go1.23.5).  The model
   has this panic ([call_scrypt], [scrypt_alloc_ok] in Keystore/Prims.v), so the totality statements and
   the statements "otherwise an error" carry the explicit decidable guard [cost_capped] (on the decoded
   content; [doc_alloc_ok] is the same cap in the strict specification's vocabulary) -- the part of the
   property's quantifier "cost parameters capped so the KDF itself stays affordable" that is a matter of
   panics.  At or below the cap the model assumes the allocation succeeds: memory exhaustion (a fatal
   runtime error, the process dies; no panic) is not modelled. *)
From Coq Require Import String.
From Coq Require Import List NArith ZArith Lia Bool Arith.
From Coq Require Import Init.Byte.
From FFS Require Import Base.Res Base.Bytes Keystore.Json Keystore.Prims Keystore.Model Keystore.Spec
  Keystore.ReadTypes Keystore.TotalProofs Keystore.TotalProofs2 Keystore.TotalProofs4 Keystore.TotalProofs3.
(* round 3: required, not imported (Keystore/Toy.v has its own [toy]); names below are qualified *)
From FFS Require Keystore.ProofsRead Keystore.Toy Keystore.TotalProofs5.
Import ListNotations.

(* 1. Reading any byte string within the cost cap with any password never panics.  [cost_capped_bytes]:
      the bytes do not lex, or the document does not decode as a key file of a known kdf, or it is a PBKDF2
      file, or the n and r that the scrypt pass decodes satisfy 128*n*r <= 2^48. *)
Theorem C15_total :
  forall (P : prims) (bytes pw : bytes), cost_capped_bytes P bytes = true -> ReadWalletFile P bytes pw <> Panic.
Proof. exact ReadWalletFile_total. Qed.
Print Assumptions C15_total.

(* ... and the cap is the ONLY way to panic: a panic of the read path means the document decodes as a scrypt
   file with version 3, an id, dklen 32, r, p, N inside the library's parameter limits, whose work area
   is beyond the allocation cap (the panic precedes the MAC and IV tests) *)
Theorem C15_panic_only_beyond_cap :
  forall (P : prims) (t : json) (pw : bytes),
    read_wallet_tree P t pw = Panic ->
    exists cf cc sp, decode_content P t = Some (cf, cc, KScrypt sp) /\
      core_bad (cf, cc, KScrypt sp) = false /\ dklen_bad (cf, cc, KScrypt sp) = false /\
      cost_bad (cf, cc, KScrypt sp) = false /\ scrypt_alloc_ok (sp_n sp) (sp_r sp) = false.
Proof. exact read_panic_content. Qed.
Print Assumptions C15_panic_only_beyond_cap.

(* the call site itself, exactly *)
Theorem C15_scrypt_decrypt_panic_iff :
  forall (P : prims) (c : crypto_common) (kp : scrypt_params) (pw : bytes),
    scrypt_decrypt P c kp pw = Panic <->
    (sp_dklen kp = 32%Z /\ scrypt_pre (sp_n kp) (sp_r kp) (sp_p kp) 32 = true /\
     scrypt_alloc_ok (sp_n kp) (sp_r kp) = false).
Proof. exact scrypt_decrypt_panic_iff. Qed.
Print Assumptions C15_scrypt_decrypt_panic_iff.

(* an accepted file is within the cap *)
Theorem C15_accepted_within_cap :
  forall (P : prims) (t : json) (pw : bytes) (w : wallet),
    read_wallet_tree P t pw = Ok w -> cost_capped P t = true.
Proof. exact accept_cost_capped. Qed.
Print Assumptions C15_accepted_within_cap.

Example C15_total_classes_reachable :
  cls (read_wallet_tree toy good []) = 0%nat /\ cls (read_wallet_tree toy JNull []) = 1%nat
  /\ cls (ReadWalletFile toy [] []) = 1%nat.
Proof. vm_compute. repeat split; reflexivity. Qed.

(* 2. ... because every library call is made inside the library's precondition: none of the functions
      holding a call site (scrypt.Key within the allocation cap, pbkdf2.Key, aes.NewCipher + cipher.NewCTR,
      the slices of the derived key) can panic, whatever they are given, and the guards that precede the
      two KDF calls imply the KDF's parameter-test domain. *)
Theorem C15_calls_in_domain :
  forall P : prims,
  (forall c kp pw, scrypt_alloc_ok (sp_n kp) (sp_r kp) = true -> scrypt_decrypt P c kp pw <> Panic) /\
  (forall c kp pw, pbkdf2_decrypt P c kp pw <> Panic) /\
  (forall c dk, decryptCommon P c dk <> Panic) /\
  (forall key iv ct, aes128CtrDecrypt P key iv ct <> Panic) /\
  (forall kp : scrypt_params, (sp_dklen kp =? derivedKeyLen)%Z = true -> ((sp_r kp <=? 0)%Z || (sp_p kp <=? 0)%Z) = false ->
      scrypt_dom (sp_r kp) (sp_p kp) (sp_dklen kp) = true) /\
  (forall kp : pbkdf2_params, (pp_dklen kp =? derivedKeyLen)%Z = true -> (pp_c kp <=? 0)%Z = false ->
      pbkdf2_pre (pp_c kp) (pp_dklen kp) = true).
Proof. exact calls_in_domain. Qed.
Print Assumptions C15_calls_in_domain.

(* 3. No foreign key.  A returned wallet comes from a document that lexes; its key is exactly the key
      the V3 definition derives from the decoded content of that document ([content_key]: version 3, an
      id, dklen 32, cost parameters inside the KDF's domain, hmac-sha256, 16-byte IV,
      keccak(DK[16..32] ++ ciphertext) = mac, key = AES-128-CTR(DK[0..16], iv, ciphertext)); and when the
      document is strictly formed ([v3_wellformed]: the members the standard names occur exactly once
      under their exact names with the right JSON kinds) it is the key the independent specification
      Keystore/Spec.v derives from the same document and password: without the cipher test
      ([b = false]) unconditionally, with it ([b = true], the full standard [v3_decrypt]) provided the
      file declares aes-128-ctr.
      _partial: (i) the cipher member is not checked by the code (refuted below); (ii) against Spec.v only
      for strictly formed documents — encoding/json's leniency (member-name case, duplicate members, null
      or absent salt/ciphertext, 0x prefixes) is outside the strict specification; such documents are
      covered by the content statement. *)
Theorem C15_no_foreign_key_partial :
  forall (b : bool) (P : prims) (bytes pw : bytes) (w : wallet),
    ReadWalletFile P bytes pw = Ok w ->
    exists t cf,
      json_parse P bytes = Some t /\
      decode_content P t = Some (cf, w_crypto w, w_kdfparams w) /\
      content_key P (cf, w_crypto w, w_kdfparams w) pw = Some (PrivateKey w) /\
      (v3_wellformed t = true -> (b = true -> cc_cipher (w_crypto w) = cipherAES128ctr) ->
       v3_decrypt_gen b P t pw = Ok (PrivateKey w)).
Proof. exact no_foreign_key_bytes. Qed.
Print Assumptions C15_no_foreign_key_partial.

Example C15_no_foreign_key_nonvacuous :
  v3_wellformed good = true /\ key_of (read_wallet_tree toy good []) = Some [x01; x02]
  /\ v3_decrypt toy good [] = Ok [x01; x02]
  /\ key_of (read_wallet_tree toy lenient []) = Some [x01; x02] /\ v3_wellformed lenient = false.
Proof. vm_compute. repeat split; reflexivity. Qed.

(* the unguarded statement "Ok k -> v3_decrypt = Ok k" is false of the faithful model: a strictly formed,
   MAC-valid file declaring another cipher is decrypted (known finding C15/cipher-ignored) *)
Theorem C15_no_foreign_key_cipher_refuted :
  exists (P : prims) (t : json) (pw : bytes) (w : wallet),
    v3_wellformed t = true /\ read_wallet_tree P t pw = Ok w /\ v3_decrypt P t pw = Err SInvalid.
Proof. exact no_foreign_key_cipher_refuted. Qed.
Print Assumptions C15_no_foreign_key_cipher_refuted.

(* 4. Malformed files are errors.  If the bytes are not JSON, or the document does not decode as a V3
      key file of a known KDF ([decode_content = None]: structure), or its decoded content has a wrong
      version / no id, an IV that is not 16 bytes, dklen <> 32, cost parameters outside the KDF's domain
      (scrypt: N <= 1 or not a power of two, r <= 0, p <= 0, r*p >= 2^30, over the size limits;
      PBKDF2: c <= 0), another prf, or a MAC that is not valid for the password, the result is an error
      (never a key, never a panic).  The property's hypothesis "the MAC is valid" is not needed.
      _partial: the cipher disjunct is missing (refuted below). *)
Theorem C15_malformed_rejected_partial :
  forall (P : prims) (bytes pw : bytes),
    cost_capped_bytes P bytes = true ->
    match json_parse P bytes with
    | None => True
    | Some t =>
        match decode_content P t with
        | None => True
        | Some c => (core_bad c || iv_bad c || dklen_bad c || cost_bad c || prf_bad c || negb (mac_valid P c pw)) = true
        end
    end ->
    exists e, ReadWalletFile P bytes pw = Err e.
Proof. exact malformed_rejected_bytes. Qed.
Print Assumptions C15_malformed_rejected_partial.

(* the same in the form of the property text, on the lexed document *)
Theorem C15_malformed_rejected_mac_valid :
  forall (P : prims) (t : json) (pw : bytes) (c : content),
    cost_capped P t = true ->
    decode_content P t = Some c -> mac_valid P c pw = true ->
    (iv_bad c = true \/ dklen_bad c = true \/ cost_bad c = true \/ prf_bad c = true \/ core_bad c = true) ->
    exists e, read_wallet_tree P t pw = Err e.
Proof. exact malformed_rejected_mac_valid. Qed.
Print Assumptions C15_malformed_rejected_mac_valid.

Example C15_malformed_rejected_nonvacuous :
  (* MAC-valid files with a 2-byte IV, dklen -1, scrypt r = 0; a document that does not decode *)
  is_mac_valid_with iv_bad (toy_pbkdf2 "aes-128-ctr" 2 "32" "1") = true
  /\ is_mac_valid_with dklen_bad (toy_pbkdf2 "aes-128-ctr" 16 "-1" "1") = true
  /\ match decode_content toy (toy_scrypt "4" "0" "1") with Some c => cost_bad c | None => false end = true
  /\ decode_content toy (JArr []) = None.
Proof. vm_compute. repeat split; reflexivity. Qed.

(* the cipher disjunct of the property is false of the faithful model *)
Theorem C15_malformed_rejected_cipher_refuted :
  exists (P : prims) (t : json) (pw : bytes) (c : content) (w : wallet),
    decode_content P t = Some c /\ mac_valid P c pw = true /\ cipher_bad c = true /\
    read_wallet_tree P t pw = Ok w.
Proof. exact malformed_rejected_cipher_refuted. Qed.
Print Assumptions C15_malformed_rejected_cipher_refuted.

(* 5. (round 3) Exactness on strictly formed documents.  For primitives satisfying the laws the C07
      theorems use ([crypto_laws]: KDF output lengths, the 32-byte block behind scrypt's slice, CTR
      involution; [uuid_accepts_text]: the UUID parser accepts RFC-4122 text), and a document that is
      strictly formed ([v3_wellformed]), has no case-variant / duplicate member names ([unambiguous]) and
      whose number literals fit float64 ([nums_ok]): the read path returns a wallet with key k exactly when
      the independent specification (Keystore/Spec.v, without its cipher test — the code makes none, known
      finding C15/cipher-ignored) derives k from the same document and password; and it reports an error
      exactly when the specification derives no key at all.  So on these documents there is neither a
      foreign key nor a spurious rejection. *)
Theorem C15_read_iff_spec :
  forall (P : prims), crypto_laws P -> uuid_accepts_text P ->
  forall (t : json) (pw k : bytes),
    v3_wellformed t = true -> ProofsRead.unambiguous t = true -> ProofsRead.nums_ok P t = true ->
    doc_alloc_ok t = true ->
    ((exists w, read_wallet_tree P t pw = Ok w /\ PrivateKey w = k) <-> v3_decrypt_gen false P t pw = Ok k).
Proof. exact TotalProofs5.read_iff_spec. Qed.
Print Assumptions C15_read_iff_spec.

Theorem C15_read_err_iff_spec :
  forall (P : prims), crypto_laws P -> uuid_accepts_text P ->
  forall (t : json) (pw : bytes),
    v3_wellformed t = true -> ProofsRead.unambiguous t = true -> ProofsRead.nums_ok P t = true ->
    doc_alloc_ok t = true ->
    ((exists e, read_wallet_tree P t pw = Err e) <-> (forall k, v3_decrypt_gen false P t pw <> Ok k)).
Proof. exact TotalProofs5.read_err_iff_spec. Qed.
Print Assumptions C15_read_err_iff_spec.

Example C15_read_iff_spec_nonvacuous :
  crypto_laws Toy.toy /\ uuid_accepts_text Toy.toy /\
  match TotalProofs5.iff_doc with
  | Some t =>
      v3_wellformed t = true /\ ProofsRead.unambiguous t = true /\ ProofsRead.nums_ok Toy.toy t = true /\
      doc_alloc_ok t = true /\
      v3_decrypt_gen false Toy.toy t [x70; x77] = Ok [x01; x02; x03] /\
      (match read_wallet_tree Toy.toy t [x70; x77] with Ok w => PrivateKey w | _ => [] end) = [x01; x02; x03] /\
      (match read_wallet_tree Toy.toy t [x70] with Err _ => true | _ => false end) = true /\
      (match v3_decrypt_gen false Toy.toy t [x70] with Ok _ => false | _ => true end) = true
  | None => False
  end.
Proof. exact TotalProofs5.read_iff_spec_nonvacuous. Qed.

(* Tie of the hand-written constants of Keystore/Model.v that the READ path uses (version check, kdf
   dispatch, dklen check, prf check) to the source.  Gen/Consts.v is regenerated on every run by the
   translator harness/cmd/gen_consts from the `const` declarations of
   pkg/keystorev3/{walletfile,pbkdf2}.go as they are NOW.  The model keeps its own literals; this
   theorem is what breaks when the version, the derived key length or a kdf / prf name changes in
   the source.  (The constants only the writers use -- scrypt presets, defaultR, the cipher name --
   are tied by C07_source_constants.) *)
From FFS Require Gen.Consts.
Theorem C15_source_constants :
  Gen.Consts.keystorev3_version3 = Keystore.Model.version3 /\
  Gen.Consts.keystorev3_derivedKeyLen = Keystore.Model.derivedKeyLen /\
  ascii_bytes Gen.Consts.keystorev3_kdfTypeScrypt = Keystore.Model.kdfTypeScrypt /\
  ascii_bytes Gen.Consts.keystorev3_kdfTypePbkdf2 = Keystore.Model.kdfTypePbkdf2 /\
  ascii_bytes Gen.Consts.keystorev3_prfHmacSHA256 = Keystore.Model.prfHmacSHA256.
Proof. vm_compute. repeat split; reflexivity. Qed.
Print Assumptions C15_source_constants.

(* 6. (round 4) The bridge for leniently formed documents.  encoding/json reads documents the strict
      specification does not define (case variants of member names, duplicate members, null or absent
      members, 0x-prefixed hex), so for those there is no "same document" to hand to Keystore/Spec.v.
      But the wallet the code returns can be marshalled again ([JSON_tree], the model of JSON()), and that
      document IS a strict V3 document: for EVERY document t (lenient or not), every password and every
      behaviour of the primitives whose UUID parser returns 16 bytes ([uuid_parse_16]: google/uuid's
      UUID is a [16]byte; the only law used), the key the code returns is the key the independent strict
      specification derives from the re-marshalled wallet -- without the cipher test unconditionally, with
      it (the full standard) when the file declares aes-128-ctr.  No well-formedness guard. *)
From FFS Require Keystore.ProofsNew Keystore.TotalProofs6 Keystore.TotalProofs7.

Theorem C15_lenient_read_then_strict :
  forall (b : bool) (P : prims), TotalProofs6.uuid_parse_16 P ->
  forall (t : json) (pw : bytes) (w : wallet),
    read_wallet_tree P t pw = Ok w ->
    (b = true -> cc_cipher (w_crypto w) = cipherAES128ctr) ->
    v3_decrypt_gen b P (JSON_tree w) pw = Ok (PrivateKey w).
Proof. exact TotalProofs6.lenient_read_then_strict. Qed.
Print Assumptions C15_lenient_read_then_strict.

(* the same at the level of ReadWalletFile (bytes in, lexer oracle), also after any Metadata()
   assignments by the caller (the specification looks at id, version and crypto only, which
   marshalWalletJSON sets last): no foreign key, for any document -- this removes guard (ii) of
   C15_no_foreign_key_partial; what stays partial is the cipher member only *)
Theorem C15_no_foreign_key_any_document :
  forall (b : bool) (P : prims), TotalProofs6.uuid_parse_16 P ->
  forall (data pw : bytes) (w : wallet) (extras : list (bytes * json)),
    ReadWalletFile P data pw = Ok w ->
    (b = true -> cc_cipher (w_crypto w) = cipherAES128ctr) ->
    v3_decrypt_gen b P (JSON_tree (ProofsNew.assign_all w extras)) pw = Ok (PrivateKey w).
Proof. exact TotalProofs6.no_foreign_key_any_document. Qed.
Print Assumptions C15_no_foreign_key_any_document.

(* the shape of every returned wallet that makes this work: version 3, a 16-byte id, the kdf name matching
   the kind of kdfparams (the two decoding passes agree), every integer parameter an int64 *)
Theorem C15_read_wallet_shape :
  forall (P : prims), TotalProofs6.uuid_parse_16 P ->
  forall (t : json) (pw : bytes) (w : wallet),
    read_wallet_tree P t pw = Ok w ->
    cf_version (w_core w) = 3%Z /\
    (exists u, cf_id (w_core w) = Some u /\ length u = 16%nat) /\
    TotalProofs6.kdf_tag_ok (w_crypto w) (w_kdfparams w) /\ TotalProofs6.kdf_ints (w_kdfparams w).
Proof. exact TotalProofs6.read_wallet_shape. Qed.
Print Assumptions C15_read_wallet_shape.

(* 7. (round 4) Exactness for EVERY document: theorem 5 without its guards [v3_wellformed],
      [unambiguous], [nums_ok].  For primitives with [crypto_laws] and [uuid_parse_16], any document t,
      password and key k: the read path returns a wallet with key k (from a file declaring aes-128-ctr,
      when b = true) exactly when t decodes -- encoding/json's typed decoding into the Go structs
      ([decode_content]) and into the metadata map ([unmarshal_metadata]), as modelled -- and the
      independent strict specification (the full standard for b = true) derives k from the canonical V3
      document [content_doc c] carrying the decoded content; and it reports an error exactly when no key
      is derived that way.  The read path = lenient decoding, then exactly the V3 standard: neither a
      foreign key nor a spurious rejection on any document. *)
Theorem C15_read_iff_spec_any :
  forall (P : prims), crypto_laws P -> TotalProofs6.uuid_parse_16 P ->
  forall (b : bool) (t : json) (pw k : bytes),
    cost_capped P t = true ->
    (exists w, read_wallet_tree P t pw = Ok w /\ PrivateKey w = k /\
               (b = true -> cc_cipher (w_crypto w) = cipherAES128ctr)) <->
    (exists c md, decode_content P t = Some c /\ unmarshal_metadata P t = Ok md /\
                  v3_decrypt_gen b P (TotalProofs7.content_doc c) pw = Ok k).
Proof. exact TotalProofs7.read_iff_spec_any. Qed.
Print Assumptions C15_read_iff_spec_any.

Theorem C15_read_err_iff_spec_any :
  forall (P : prims), crypto_laws P -> TotalProofs6.uuid_parse_16 P ->
  forall (t : json) (pw : bytes),
    cost_capped P t = true ->
    (exists e, read_wallet_tree P t pw = Err e) <->
    (forall c md k, decode_content P t = Some c -> unmarshal_metadata P t = Ok md ->
                    v3_decrypt_gen false P (TotalProofs7.content_doc c) pw <> Ok k).
Proof. exact TotalProofs7.read_err_iff_spec_any. Qed.
Print Assumptions C15_read_err_iff_spec_any.

(* non-vacuity: a file created by the model, rewritten the way only encoding/json reads it ("Crypto",
   "cipherText" with 0x and upper-case hex, a first "version": 7 overridden by the later one, "VERSION":
   null): the strict specification refuses the document itself, the code reads it, the full standard
   decrypts the re-marshalled wallet and the canonical document to the same key, another password is
   rejected on both sides; the laws hold of the instance *)
Example C15_read_iff_spec_any_nonvacuous :
  crypto_laws TotalProofs7.toy16 /\ TotalProofs6.uuid_parse_16 TotalProofs7.toy16 /\
  match TotalProofs7.lenient_doc with
  | Some t =>
      v3_wellformed t = false /\ cost_capped TotalProofs7.toy16 t = true /\
      v3_decrypt_gen false TotalProofs7.toy16 t [x70; x77] = Err SInvalid /\
      match read_wallet_tree TotalProofs7.toy16 t [x70; x77] with
      | Ok w => PrivateKey w = [x01; x02; x03] /\
                v3_decrypt TotalProofs7.toy16 (JSON_tree w) [x70; x77] = Ok [x01; x02; x03]
      | _ => False
      end /\
      match decode_content TotalProofs7.toy16 t, unmarshal_metadata TotalProofs7.toy16 t with
      | Some c, Ok _ =>
          v3_decrypt TotalProofs7.toy16 (TotalProofs7.content_doc c) [x70; x77] = Ok [x01; x02; x03] /\
          v3_decrypt_gen false TotalProofs7.toy16 (TotalProofs7.content_doc c) [x70] = Err SMac
      | _, _ => False
      end /\
      (match read_wallet_tree TotalProofs7.toy16 t [x70] with Err _ => true | _ => false end) = true
  | None => False
  end.
Proof. exact TotalProofs7.read_iff_spec_any_nonvacuous. Qed.

(* 8. (answers to the referee report, design/reviews/C15.md) *)
From FFS Require Keystore.TotalProofs8.

(* issue 1: the cap at its boundary.  128*N*r <= 2^48 is N*r <= 2^41; just beyond it the model panics (as
   the real call does), at it it does not, and beyond it the tests that precede the KDF call still answer
   with errors *)
Theorem C15_cost_cap_exact :
  forall N r : Z, scrypt_alloc_ok N r = true <-> (N * r <= 2199023255552)%Z.
Proof. exact TotalProofs8.scrypt_alloc_ok_iff. Qed.
Print Assumptions C15_cost_cap_exact.

Example C15_cost_cap_boundary :
  scrypt_alloc_ok 2199023255552 1 = true /\ scrypt_alloc_ok 4398046511104 1 = false /\
  scrypt_alloc_ok 1099511627776 2 = true /\ scrypt_alloc_ok 1099511627776 3 = false /\
  scrypt_pre 4398046511104 1 1 32 = true /\ scrypt_pre 1099511627776 3 1 32 = true /\
  cls (read_wallet_tree toy (toy_scrypt "4398046511104" "1" "1") []) = 2%nat /\
  cost_capped toy (toy_scrypt "4398046511104" "1" "1") = false /\
  cost_capped toy (toy_scrypt "2199023255552" "1" "1") = true /\
  cls (read_wallet_tree toy (toy_scrypt "2199023255552" "1" "1") []) = 0%nat /\
  cls (read_wallet_tree toy (toy_scrypt "4398046511104" "0" "1") []) = 1%nat /\
  cls (read_wallet_tree toy (toy_scrypt "4398046511105" "1" "1") []) = 1%nat.
Proof. vm_compute. repeat split; reflexivity. Qed.

(* the malformations the code tests BEFORE the KDF call need no cap: a document that does not decode, a
   wrong version / missing id, dklen <> 32, cost parameters outside the KDF's domain, another prf are
   errors whatever n and r say *)
Theorem C15_malformed_rejected_early :
  forall (P : prims) (bytes pw : bytes),
    match json_parse P bytes with
    | None => True
    | Some t =>
        match decode_content P t with
        | None => True
        | Some c => (core_bad c || dklen_bad c || cost_bad c || prf_bad c) = true
        end
    end ->
    exists e, ReadWalletFile P bytes pw = Err e.
Proof. exact malformed_rejected_early_bytes. Qed.
Print Assumptions C15_malformed_rejected_early.

(* issue 3: "MAC valid for the password but cost parameters malformed" with jointly satisfiable
   hypotheses: the MAC is judged with the key the library returns for the declared parameters whatever
   they are ([mac_valid_lib]; x/crypto treats c <= 0 like c = 1) -- the case behind fix e53319d *)
Theorem C15_malformed_cost_rejected_mac_valid_lib :
  forall (P : prims) (t : json) (pw : bytes) (c : content),
    decode_content P t = Some c -> TotalProofs8.mac_valid_lib P c pw = true ->
    (cost_bad c = true \/ dklen_bad c = true \/ prf_bad c = true \/ core_bad c = true) ->
    exists e, read_wallet_tree P t pw = Err e.
Proof. exact TotalProofs8.malformed_cost_rejected_mac_valid_lib. Qed.
Print Assumptions C15_malformed_cost_rejected_mac_valid_lib.

Example C15_mac_valid_lib_cost_bad_nonvacuous :
  let both t := match decode_content toy t with Some c => TotalProofs8.mac_valid_lib toy c [] && cost_bad c | None => false end in
  both (toy_pbkdf2 "aes-128-ctr" 16 "32" "0") = true /\ both (toy_pbkdf2 "aes-128-ctr" 16 "32" "-5") = true /\
  both (toy_scrypt "4" "0" "1") = true /\ both (toy_scrypt "3" "1" "1") = true /\
  cls (read_wallet_tree toy (toy_pbkdf2 "aes-128-ctr" 16 "32" "0") []) = 1%nat.
Proof. exact TotalProofs8.mac_valid_lib_cost_bad_nonvacuous. Qed.

(* issue 3, second half: the library's parameter limits in arithmetic terms, independent of the
   transcription [scrypt_params_ok] that the model and the specification share: a file whose scrypt N is
   <= 1 or not a power of two, whose r*p >= 2^30, or whose r or p is <= 0 is an error of the decrypt step *)
Theorem C15_scrypt_limits_rejected :
  forall (P : prims) (c : crypto_common) (kp : scrypt_params) (pw : bytes),
    (sp_r kp <= maxInt)%Z -> (sp_p kp <= maxInt)%Z ->
    ((sp_n kp <= 1)%Z \/ (forall e, sp_n kp <> 2 ^ e)%Z \/ (1073741824 <= sp_r kp * sp_p kp)%Z \/
     (sp_r kp <= 0)%Z \/ (sp_p kp <= 0)%Z) ->
    exists e, scrypt_decrypt P c kp pw = Err e.
Proof. exact TotalProofs8.scrypt_limits_rejected. Qed.
Print Assumptions C15_scrypt_limits_rejected.

Theorem C15_scrypt_params_ok_arith :
  forall N r p : Z,
    (0 < r)%Z -> (0 < p)%Z -> (r <= maxInt)%Z -> (p <= maxInt)%Z -> scrypt_params_ok N r p = true ->
    (1 < N)%Z /\ (exists e, (0 < e)%Z /\ N = (2 ^ e)%Z) /\ (r * p < 1073741824)%Z /\ (128 * N * r <= maxInt)%Z.
Proof. exact TotalProofs8.scrypt_params_ok_arith. Qed.
Print Assumptions C15_scrypt_params_ok_arith.

(* issue 4: structure malformations stated on the JSON tree, not through the model's decoder *)
Theorem C15_non_object_rejected :
  forall (P : prims) (t : json) (pw : bytes),
    match t with JObj _ => False | _ => True end -> exists e, read_wallet_tree P t pw = Err e.
Proof. exact TotalProofs8.non_object_rejected. Qed.
Print Assumptions C15_non_object_rejected.

Theorem C15_wrong_kind_rejected :
  forall (P : prims) (ms : list (bytes * json)) (pw : bytes),
    existsb (fun m => TotalProofs8.wrong_kind_top (fst m) (snd m)) ms = true ->
    exists e, read_wallet_tree P (JObj ms) pw = Err e.
Proof. exact TotalProofs8.wrong_kind_rejected. Qed.
Print Assumptions C15_wrong_kind_rejected.

Example C15_wrong_kind_nonvacuous :
  existsb (fun m => TotalProofs8.wrong_kind_top (fst m) (snd m))
          [(k "id", JStr (k "x")); (k "Version", JStr (k "3")); (k "crypto", JObj [])] = true /\
  existsb (fun m => TotalProofs8.wrong_kind_top (fst m) (snd m)) [(k "CRYPTO", JArr [])] = true /\
  existsb (fun m => TotalProofs8.wrong_kind_top (fst m) (snd m)) [(k "id", JNum (k "1"))] = true /\
  match good with JObj ms => existsb (fun m => TotalProofs8.wrong_kind_top (fst m) (snd m)) ms | _ => true end = false.
Proof. exact TotalProofs8.wrong_kind_nonvacuous. Qed.

(* issue 5(i): Panic is reachable at every call site of the model, so "<> Panic" is not true by construction *)
Example C15_call_sites_can_panic :
  cls (call_scrypt toy [] [] 4 0 1 32) = 2%nat /\ cls (call_scrypt toy [] [] 4 1 1 (-1)) = 2%nat /\
  cls (call_scrypt toy [] [] 4398046511104 1 1 32) = 2%nat /\
  cls (call_pbkdf2 toy [] [] 1 (-1)) = 2%nat /\ cls (call_pbkdf2 toy [] [] 0 32) = 2%nat /\
  cls (call_ctr toy (repeat x00 16) [] [x01]) = 2%nat /\ cls (slice [x01; x02] 1 3) = 2%nat /\
  cls (readScryptWalletFile toy JNull [] None) = 2%nat /\ cls (readPbkdf2WalletFile toy JNull [] None) = 2%nat.
Proof. vm_compute. repeat split; reflexivity. Qed.

(* issue 5(ii): for EVERY primitives record the decryption never looks at the cipher member *)
Theorem C15_decrypt_ignores_cipher :
  forall (P : prims) (c : crypto_common) (s : bytes),
    (forall dk, decryptCommon P (TotalProofs8.set_cipher c s) dk = decryptCommon P c dk) /\
    (forall kp pw, scrypt_decrypt P (TotalProofs8.set_cipher c s) kp pw = scrypt_decrypt P c kp pw) /\
    (forall kp pw, pbkdf2_decrypt P (TotalProofs8.set_cipher c s) kp pw = pbkdf2_decrypt P c kp pw).
Proof. exact TotalProofs8.decrypt_ignores_cipher. Qed.
Print Assumptions C15_decrypt_ignores_cipher.

(* ---------------- wave 6: structure malformations one and two levels deeper, on the JSON tree ----------------
   (closes most of the `partial` entry "structure disjunct": the predicates below are syntactic -- member
   names matched the way encoding/json matches them, JSON kinds, hexadecimal / integer-literal text -- and
   do not mention the model's decoder; no hypothesis on the primitives, no cost cap) *)
From FFS Require Keystore.DeepKinds Keystore.TotalProofs9.

(* a member cipher / ciphertext / cipherparams (incl. its iv) / kdf / mac of the crypto object with the
   wrong JSON kind, or not hexadecimal where hexadecimal is required: an error *)
Theorem C15_crypto_member_rejected :
  forall (P : prims) (ms : list (bytes * json)) (pw : bytes),
    existsb DeepKinds.bad_crypto_top ms = true -> exists e, read_wallet_tree P (JObj ms) pw = Err e.
Proof. exact TotalProofs9.crypto_member_rejected. Qed.
Print Assumptions C15_crypto_member_rejected.

(* kdfparams not an object; dklen not an int64 integer literal; salt not a hexadecimal string: an error
   whatever kdf, id, version and password are *)
Theorem C15_kdfparams_rejected :
  forall (P : prims) (ms : list (bytes * json)) (pw : bytes),
    existsb (DeepKinds.bad_kdfparams_top DeepKinds.bad_kdfparam_common) ms = true ->
    exists e, read_wallet_tree P (JObj ms) pw = Err e.
Proof. exact TotalProofs9.kdfparams_rejected. Qed.
Print Assumptions C15_kdfparams_rejected.

(* the members only one KDF struct has (n, r, p / c, prf), at the function that decodes that struct *)
Theorem C15_scrypt_kdfparams_rejected :
  forall (P : prims) (ms : list (bytes * json)) (pw : bytes) (md : option jmap),
    existsb (DeepKinds.bad_kdfparams_top DeepKinds.bad_kdfparam_scrypt) ms = true ->
    exists e, readScryptWalletFile P (JObj ms) pw md = Err e.
Proof. exact TotalProofs9.scrypt_kdfparams_rejected. Qed.
Print Assumptions C15_scrypt_kdfparams_rejected.

Theorem C15_pbkdf2_kdfparams_rejected :
  forall (P : prims) (ms : list (bytes * json)) (pw : bytes) (md : option jmap),
    existsb (DeepKinds.bad_kdfparams_top DeepKinds.bad_kdfparam_pbkdf2) ms = true ->
    exists e, readPbkdf2WalletFile P (JObj ms) pw md = Err e.
Proof. exact TotalProofs9.pbkdf2_kdfparams_rejected. Qed.
Print Assumptions C15_pbkdf2_kdfparams_rejected.

(* the same for the whole document (not an object, or one of the two kdf-independent families): this
   predicate is also an oracle on the implementation in Keystore/RunC15.v (code 15) *)
Theorem C15_deep_struct_rejected :
  forall (P : prims) (t : json) (pw : bytes),
    DeepKinds.deep_struct_bad t = true -> exists e, read_wallet_tree P t pw = Err e.
Proof. exact TotalProofs9.deep_struct_rejected. Qed.
Print Assumptions C15_deep_struct_rejected.

(* the KDF-specific members for the whole read path, without naming the file's kdf: a file that is read,
   and read as a scrypt (PBKDF2) wallet, has no wrong-kind / non-integer / non-hex member of that KDF's
   kdfparams struct *)
Theorem C15_accepted_kdfparams_clean :
  forall (P : prims) (ms : list (bytes * json)) (pw : bytes) (w : wallet),
    read_wallet_tree P (JObj ms) pw = Ok w ->
    match w_kdfparams w with
    | KScrypt _ => existsb (DeepKinds.bad_kdfparams_top DeepKinds.bad_kdfparam_scrypt) ms = false
    | KPbkdf2 _ => existsb (DeepKinds.bad_kdfparams_top DeepKinds.bad_kdfparam_pbkdf2) ms = false
    end.
Proof. exact TotalProofs9.accepted_kdfparams_clean. Qed.
Print Assumptions C15_accepted_kdfparams_clean.

(* non-vacuity: every family holds on a concrete mutation of a file that is read (wrong kind, non-hex,
   odd-length hex, fraction, exponent, 2^63, a later duplicate crypto object, letter case), none on the good
   files; a wrong-kind n in a PBKDF2 file is NOT claimed and that file is indeed read *)
Example C15_deep_structure_nonvacuous :
  let bc t := existsb DeepKinds.bad_crypto_top (TotalProofs9.top_members t) in
  let bk t := existsb (DeepKinds.bad_kdfparams_top DeepKinds.bad_kdfparam_common) (TotalProofs9.top_members t) in
  let bs t := existsb (DeepKinds.bad_kdfparams_top DeepKinds.bad_kdfparam_scrypt) (TotalProofs9.top_members t) in
  let bp t := existsb (DeepKinds.bad_kdfparams_top DeepKinds.bad_kdfparam_pbkdf2) (TotalProofs9.top_members t) in
  bc good = false /\ bk good = false /\ bp good = false /\ bs (toy_scrypt "4" "1" "1") = false /\
  cls (read_wallet_tree toy good []) = 0%nat /\ cls (read_wallet_tree toy (toy_scrypt "4" "1" "1") []) = 0%nat /\
  bc (TotalProofs9.with_crypto_member "mac" (JStr (k "0g")) good) = true /\
  bc (TotalProofs9.with_crypto_member "ciphertext" (JStr (k "0x012")) good) = true /\
  bc (TotalProofs9.with_crypto_member "cipherparams" (JObj [(k "IV", JNum (k "0"))]) good) = true /\
  bc (JObj (TotalProofs9.top_members good ++ [(k "CRYPTO", JObj [(k "Mac", JBool false)])])) = true /\
  bk (TotalProofs9.with_crypto_member "kdfparams" (JArr []) good) = true /\
  bk (TotalProofs8.with_kdfparam "dklen" (JNum (k "32.0")) (toy_scrypt "4" "1" "1")) = true /\
  bk (TotalProofs8.with_kdfparam "dklen" (JNum (k "9223372036854775808")) (toy_scrypt "4" "1" "1")) = true /\
  bk (TotalProofs8.with_kdfparam "salt" (JStr (k "0")) (toy_scrypt "4" "1" "1")) = true /\
  bs (TotalProofs8.with_kdfparam "r" (JNum (k "1e0")) (toy_scrypt "4" "1" "1")) = true /\
  bp (TotalProofs8.with_kdfparam "c" (JNum (k "0.5")) good) = true /\
  bp (TotalProofs8.with_kdfparam "prf" (JNum (k "1")) good) = true /\
  cls (read_wallet_tree toy (TotalProofs9.with_crypto_member "mac" (JStr (k "0g")) good) []) = 1%nat /\
  cls (read_wallet_tree toy (TotalProofs8.with_kdfparam "dklen" (JNum (k "32.0")) (toy_scrypt "4" "1" "1")) []) = 1%nat.
Proof. vm_compute. repeat split; reflexivity. Qed.
