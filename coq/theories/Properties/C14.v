(* C14 — typed-data hashing is total on arbitrary documents and never misreads a number.
   Statements only; proofs live in Eip712/TotalProofs*.v and Eip712/NumericProofs.v. *)
From Coq Require Import List NArith ZArith Bool.
From Coq Require Import Init.Byte.
From FFS Require Import Base.Res Base.Bytes Eip712.Input Eip712.TotalProofsInput.
Import ListNotations.

(* Decoding any JSON tree offered as a typed-data document — into a TypedData value or through a
   *TypedData pointer — returns a value or an error, never a panic. *)
Theorem C14_decode_total :
  forall doc : json, decode_typed_data doc <> Panic /\ decode_typed_data_ptr doc <> Panic.
Proof. intros doc; split; [apply decode_typed_data_total | apply decode_typed_data_ptr_total]. Qed.
Print Assumptions C14_decode_total.
