(* C14 — typed-data hashing is total on arbitrary documents and never misreads a number.
   Statements only; proofs live in Eip712/TotalProofsInput.v, TotalProofs.v, NumericProofs.v,
   SpellingProofs.v.  [H] is the hash function (keccak256 in the implementation), [big_other] the
   answers of math/big on numeric texts outside the decimal / 0x-hex / scientific grammars,
   [sign_direct] the signer: all arbitrary. *)
From Coq Require Import String.
From Coq Require Import List NArith ZArith Bool.
From Coq Require Import Init.Byte.
From FFS Require Import Base.Res Base.Bytes Abi.Spec.
From FFS Require Import Eip712.Util Eip712.Input Eip712.Numeric Eip712.Coerce Eip712.Model.
From FFS Require Import Eip712.TotalProofsInput Eip712.TotalProofs Eip712.TotalProofsFuel Eip712.NumericProofs Eip712.SpellingProofs Eip712.SpellingDocProofs Eip712.SpellingDocOptProofs Eip712.ExactSpellingProofs.
From FFS Require Import Base.Keccak Crypto.Ecdsa Eip712.ProofsSignVerify Eip712.ComposeJson Eip712.RefJsonNumber Eip712.RefDocument Eip712.RefSigner Eip712.Wave6NumericText.
From FFS Require Secp.Model.
Import ListNotations.

(* 1. Totality.  Any JSON tree offered as the document — decoded into a TypedData value and hashed,
      or decoded through a *TypedData pointer and signed — gives a digest/signature or an error,
      never a panic.  (The only hypothesis: the signer returns R and S below 2^256.) *)
Theorem C14_total :
  forall (H : bytes -> bytes) (big_other : bytes -> option Z) (sign_direct : bytes -> option (Z * Z * Z))
         (doc : json),
    (do td <- decode_typed_data doc; EncodeTypedDataV4 H big_other (Some td)) <> Panic /\
    (signer_in_range sign_direct ->
     (do p <- decode_typed_data_ptr doc; SignTypedDataV4 H big_other sign_direct p) <> Panic).
Proof.
  intros H o sd doc. split; [apply hash_document_total | apply sign_document_total].
Qed.
Print Assumptions C14_total.

(* 1a. What decoding hands to the hashing code faithfully stands for Go maps: type names are unique and
      every map in domain and message (at any depth) has unique keys — whatever duplicate or
      case-folded keys the document contains. *)
Theorem C14_decoded_maps_have_unique_keys :
  forall doc td, decode_typed_data doc = Ok td -> wf_td td.
Proof. exact decode_typed_data_wf. Qed.
Print Assumptions C14_decoded_maps_have_unique_keys.

(* 1b. The same for every value of the Go types, however it was built (nil payload, nil maps, nil
      member lists, nil members, undefined / cyclic / malformed type names ...). *)
Theorem C14_total_any_payload :
  forall H big_other (payload : option typed_data), EncodeTypedDataV4 H big_other payload <> Panic.
Proof. exact EncodeTypedDataV4_total. Qed.
Print Assumptions C14_total_any_payload.

(* 1c. Totality is not an artefact of the model's fuel: for every payload the dependency walk (fuel
      S |types|) and the recursion over the value (fuel S depth) finish, i.e. the model never answers
      with its out-of-fuel error — an [Err] of the model is an error value returned by the Go code. *)
Theorem C14_total_fuel_suffices :
  forall H big_other sign_direct (payload : option typed_data),
    EncodeTypedDataV4 H big_other payload <> Err EOutOfFuel /\
    SignTypedDataV4 H big_other sign_direct payload <> Err EOutOfFuel.
Proof. intros; split; [apply EncodeTypedDataV4_fuel | apply SignTypedDataV4_fuel]. Qed.
Print Assumptions C14_total_fuel_suffices.

(* 2. The three spellings.  For every integer z (no bound) the canonical decimal text as a JSON number,
      the same text as a string, and the canonical 0x-hex string are read as exactly z ... *)
Theorem C14_spellings_read_exactly :
  forall big_other (z : Z),
    integer_of_gval big_other (GNumber (dec_text z)) = Ok z /\
    integer_of_gval big_other (GString (dec_text z)) = Ok z /\
    integer_of_gval big_other (GString (hex_text z)) = Ok z.
Proof. exact spellings_read_exactly. Qed.
Print Assumptions C14_spellings_read_exactly.

(*    ... and at a member whose type the ABI parser reads as int<M>/uint<M> the three give the same
      encoding: the 32-byte two's-complement word of z when z is in range of the type, the same error
      when it is not. *)
Theorem C14_spellings_agree :
  forall H big_other allTypes fuel tn tc (z : Z),
    integer_member_type allTypes tn tc ->
    let r := if in_range (is_signed (e_base tc)) (e_m tc) z then Ok (word z)
             else Err (if is_signed (e_base tc) then ETooLarge
                       else if (z <? 0)%Z then ENegativeUnsigned else ETooLarge) in
    encodeElement H big_other allTypes (S fuel) tn (GNumber (dec_text z)) = r /\
    encodeElement H big_other allTypes (S fuel) tn (GString (dec_text z)) = r /\
    encodeElement H big_other allTypes (S fuel) tn (GString (hex_text z)) = r.
Proof. exact spellings_agree_element. Qed.
Print Assumptions C14_spellings_agree.

(*    ... and not only the three canonical spellings: any text in the decimal / 0x-hex / scientific
      grammars (every JSON number is) that denotes the integer z exactly — "1e77", "100.0", "1.5e1",
      "-120E-1", "+0x1F" — whose exponent math/big expands ([exponent_moderate]: written exponent within
      int64, effective exponent at most 10^6 in magnitude) gives, as a JSON number and as a string, the
      word of z when z is in range and the range error when it is not: the outcome of the canonical
      spellings of z.  (Round 3; the converse of C14_inexact_rejected.) *)
Theorem C14_exact_spellings_agree :
  forall H big_other allTypes fuel tn tc t (z : Z),
    integer_member_type allTypes tn tc -> text_denotes t z -> exponent_moderate t ->
    let r := if in_range (is_signed (e_base tc)) (e_m tc) z then Ok (word z)
             else Err (if is_signed (e_base tc) then ETooLarge
                       else if (z <? 0)%Z then ENegativeUnsigned else ETooLarge) in
    encodeElement H big_other allTypes (S fuel) tn (GNumber t) = r /\
    encodeElement H big_other allTypes (S fuel) tn (GString t) = r.
Proof. exact exact_spelling_element. Qed.
Print Assumptions C14_exact_spellings_agree.

(*    ... and on whole documents: two documents with the same types and primary type whose domain and
      message differ only in how integers are spelled (JSON number / decimal string / 0x-hex string of
      the same integer, relation [spelling]; since round 3 also any other exact spelling with a moderate
      exponent, e.g. 1e18 / "100.0") at positions whose type — followed through struct members
      and array elements of any nesting, as encodeElement follows it ([respelled]) — is an integer
      type, have the same digest (or fail alike). *)
Theorem C14_spellings_agree_document :
  forall H big_other types primary d1 d2 m1 m2,
    let ts := effective_types types in
    members_rel (respelled ts (fuel_of (GMap d1))) (members_of (tget EIP712Domain ts)) d1 d2 ->
    members_rel (respelled ts (fuel_of (GMap m1))) (members_of (tget primary ts)) m1 m2 ->
    EncodeTypedDataV4 H big_other (Some (mkTD types primary (Some d1) (Some m1))) =
    EncodeTypedDataV4 H big_other (Some (mkTD types primary (Some d2) (Some m2))).
Proof. exact EncodeTypedDataV4_respelled. Qed.
Print Assumptions C14_spellings_agree_document.

(*    ... the same for documents that omit the domain and/or the message (or give them as null): the
      decoded payload then has a nil map there; [opt_members_rel] = both absent, or both present and
      related as above.  (Round 3; removes the restriction of the statement above.) *)
Theorem C14_spellings_agree_document_any :
  forall H big_other types primary od1 od2 om1 om2,
    let ts := effective_types types in
    opt_members_rel ts (members_of (tget EIP712Domain ts)) od1 od2 ->
    opt_members_rel ts (members_of (tget primary ts)) om1 om2 ->
    EncodeTypedDataV4 H big_other (Some (mkTD types primary od1 om1)) =
    EncodeTypedDataV4 H big_other (Some (mkTD types primary od2 om2)).
Proof. exact EncodeTypedDataV4_respelled_opt. Qed.
Print Assumptions C14_spellings_agree_document_any.

(* 3. Never a different value.  Whatever value sits at an integer member: if it is encoded at all,
      the coercion read an integer z from it, z is in range of the type and the bytes are the word of
      z; and for a text in the decimal / hex / scientific grammars (every JSON number is) z is exactly
      what the text denotes — a fraction, or m * 10^n that is not an integer, is not read at all. *)
Theorem C14_inexact_rejected :
  forall H big_other allTypes fuel tn tc v w,
    integer_member_type allTypes tn tc ->
    encodeElement H big_other allTypes (S fuel) tn v = Ok w ->
    exists z, integer_of_gval big_other v = Ok z /\
              in_range (is_signed (e_base tc)) (e_m tc) z = true /\ w = word z /\
              (forall t, (v = GNumber t \/ v = GString t) -> classify t <> COther -> text_denotes t z).
Proof.
  intros H o all fuel tn tc v w Hty Hw.
  destruct (integer_member_sound H o all fuel tn tc v w Hty Hw) as [z [Hz [Hr Hword]]].
  exists z. repeat split; try assumption.
  intros t [-> | ->] Hc; apply (BigIntegerFromString_sound o t z Hc Hz).
Qed.
Print Assumptions C14_inexact_rejected.

(* 3b. [text_denotes] speaks about the text itself: the components the model's tokenizer returns are
      the pieces of the text in order — sign, digits; sign, "0x"/"0X", hex digits; sign, integer
      digits, '.' fraction digits, 'e'/'E' sign exponent digits. *)
Theorem C14_numeric_text_faithful :
  forall t,
  (forall neg ds, classify t = CDec neg ds ->
     exists sgn, t = sgn ++ ds /\ is_sign sgn neg /\ forallb Numeric.is_digit ds = true) /\
  (forall neg ds, classify t = CHex neg ds ->
     exists sgn x, t = sgn ++ x30 :: x :: ds /\ is_sign sgn neg /\ (x = x78 \/ x = x58) /\
                   forallb is_hex ds = true /\ ds <> []) /\
  (forall neg ip fp eneg ed, classify t = CSci neg ip fp eneg ed ->
     exists sgn expo, t = sgn ++ ip ++ frac_text fp ++ expo /\ is_sign sgn neg /\
       forallb Numeric.is_digit ip = true /\ forallb Numeric.is_digit fp = true /\
       forallb Numeric.is_digit ed = true /\
       ((expo = [] /\ ed = [] /\ fp <> []) \/
        (exists e es, expo = e :: es ++ ed /\ (e = x65 \/ e = x45) /\ is_sign es eneg /\ ed <> []))).
Proof. exact classify_faithful. Qed.
Print Assumptions C14_numeric_text_faithful.

(* non-vacuity of the document-level statement: chainId 1 / "0x1", x = 2^63 as a number / "0x8000000000000000",
   ys = [255, "0"] / ["0xff", 0] in a uint8[] *)
Example C14_nonvacuous_document :
  let ts := effective_types (Some ex_types) in
  members_rel (respelled ts (fuel_of (GMap ex_d1))) (members_of (tget EIP712Domain ts)) ex_d1 ex_d2 /\
  members_rel (respelled ts (fuel_of (GMap ex_m1))) (members_of (tget (bs "A") ts)) ex_m1 ex_m2 /\
  ex_m1 <> ex_m2.
Proof. exact respelled_documents. Qed.

(* ... and of the statement for documents without a domain / without a message *)
Example C14_nonvacuous_document_any :
  let ts := effective_types (Some ex_types) in
  opt_members_rel ts (members_of (tget EIP712Domain ts)) None None /\
  opt_members_rel ts (members_of (tget (bs "A") ts)) (Some ex_m1) (Some ex_m2) /\
  opt_members_rel ts (members_of (tget EIP712Domain ts)) (Some ex_d1) (Some ex_d2) /\
  opt_members_rel ts (members_of (tget EIP712Domain ts)) None None /\
  ex_m1 <> ex_m2 /\ ex_d1 <> ex_d2.
Proof. exact respelled_documents_opt. Qed.

(* non-vacuity of C14_exact_spellings_agree: 1e77 lies between 2^255 and 2^256 *)
Example C14_nonvacuous_exact :
  text_denotes (bs "1e77") (10 ^ 77) /\ exponent_moderate (bs "1e77") /\
  in_range false 256 (10 ^ 77) = true /\ in_range true 256 (10 ^ 77) = false.
Proof. exact ex_1e77. Qed.

(* ... the document relation holds between the JSON number 1e77 and the 0x-hex string of 10^77 *)
Example C14_nonvacuous_document_exact :
  respelled [] 1 (bs "uint256") (GNumber (bs "1e77")) (GString (hex_text (10 ^ 77))) /\
  GNumber (bs "1e77") <> GString (hex_text (10 ^ 77)).
Proof. exact respelled_exact_example. Qed.

(* the signer hypothesis of C14_total is satisfiable *)
Example C14_signer_in_range_example : signer_in_range (fun _ => Some (1, 2 ^ 255, 27)%Z).
Proof. intros msg r s v E. injection E as <- <- <-. split; vm_compute; reflexivity. Qed.

(* non-vacuity *)
Example C14_nonvacuous :
  integer_member_type [] (bs "int256") (mkEtc EInt 256 (bs "256")) /\
  dec_text (2 ^ 63) = bs "9223372036854775808" /\ hex_text (2 ^ 63) = bs "0x8000000000000000" /\
  in_range true 256 (2 ^ 63) = true /\
  encodeElement (fun _ => []) (fun _ => None) [] 1 (bs "int256") (GNumber (bs "9223372036854775808")) = Ok (word (2 ^ 63)) /\
  (exists e, encodeElement (fun _ => []) (fun _ => None) [] 1 (bs "uint8") (GNumber (bs "1.5")) = Err e) /\
  (exists e, encodeElement (fun _ => []) (fun _ => None) [] 1 (bs "uint8") (GNumber (bs "256")) = Err e) /\
  text_denotes (bs "12.50e1") 125.
Proof.
  repeat split; try (vm_compute; reflexivity); try (eexists; vm_compute; reflexivity).
Qed.


(* ================================================================================================
   Answers to the statement review (design/reviews/C14.md); proofs in Eip712/RefJsonNumber.v and
   Eip712/RefDocument.v (document walk [doc_reaches] and its lemmas: Eip712/ComposeJson.v).
   ================================================================================================ *)

(* 4. (review issue 2) Every JSON number — RFC 8259: [ minus ] int [ frac ] [ exp ], written
      declaratively as [json_number] — lies inside the grammars the model treats itself: the math/big
      oracle is never consulted for a JSON number. *)
Theorem C14_json_number_in_grammar :
  forall t, json_number t -> classify t <> COther.
Proof. exact json_number_classified. Qed.
Print Assumptions C14_json_number_in_grammar.

(* 4'. The boolean recogniser the evaluator (Eip712/RunC14.v, code 8) applies to every number token
      the encoding/json lexer hands over, in every document of every run, is sound for [json_number]:
      the hypothesis of 4 / 4a / 7b is checked on the real lexer's output, not assumed. *)
Theorem C14_json_number_recogniser_sound :
  forall t, json_number_b t = true -> json_number t.
Proof. exact json_number_b_sound. Qed.
Print Assumptions C14_json_number_recogniser_sound.

(* 4a. Hence clause 3 for JSON numbers without any side condition on the text: a JSON number at an
      integer member that is hashed at all denotes exactly an integer z in range of the type, and the
      bytes are the word of z. *)
Theorem C14_json_number_never_misread :
  forall H big_other allTypes fuel tn tc t w,
    integer_member_type allTypes tn tc -> json_number t ->
    encodeElement H big_other allTypes (S fuel) tn (GNumber t) = Ok w ->
    exists z, text_denotes t z /\ in_range (is_signed (e_base tc)) (e_m tc) z = true /\ w = word z.
Proof. exact json_number_member_exact. Qed.
Print Assumptions C14_json_number_never_misread.

(* 4b. ... and its outcome (word or error) is the same under any two oracles. *)
Theorem C14_json_number_oracle_free :
  forall H o1 allTypes o2 fuel tn tc t,
    integer_member_type allTypes tn tc -> json_number t ->
    encodeElement H o1 allTypes (S fuel) tn (GNumber t) = encodeElement H o2 allTypes (S fuel) tn (GNumber t).
Proof. exact json_number_member_oracle_free. Qed.
Print Assumptions C14_json_number_oracle_free.

(* 5. (review issue 4) What is read from "sign digits" / "sign 0x hexdigits" is, on the text itself,
      the positional value of the digits — sum of digit * base ^ (digits to the right), [pos_value],
      with the digit values as tables — with the sign applied: independent of the model's Horner
      folds, also for non-canonical texts ("+5", "0XfF"). *)
Theorem C14_decimal_hex_positional :
  forall o t z,
    BigIntegerFromString o t = Ok z ->
    (forall neg ds, classify t = CDec neg ds ->
       exists sgn, t = sgn ++ ds /\ is_sign sgn neg /\ z = signed neg (pos_value 10 dec_digit_value ds)) /\
    (forall neg ds, classify t = CHex neg ds ->
       exists sgn x, t = sgn ++ x30 :: x :: ds /\ is_sign sgn neg /\ (x = x78 \/ x = x58) /\
                     z = signed neg (pos_value 16 hex_digit_value ds)).
Proof. exact BigIntegerFromString_positional. Qed.
Print Assumptions C14_decimal_hex_positional.

(* 6. (review issue 3) "w = word z" identifies z: [word] is injective on the range of a type of at
      most 256 bits, so two values accepted at one integer member with the same bytes were read as
      the same integer. *)
Theorem C14_word_identifies_integer :
  forall sgn m z1 z2,
    (m <= 256)%N -> in_range sgn m z1 = true -> in_range sgn m z2 = true -> word z1 = word z2 -> z1 = z2.
Proof. exact word_inj_in_range. Qed.
Print Assumptions C14_word_identifies_integer.

Theorem C14_same_word_same_integer :
  forall H big_other allTypes fuel tn tc v1 v2 w,
    integer_member_type allTypes tn tc ->
    encodeElement H big_other allTypes (S fuel) tn v1 = Ok w ->
    encodeElement H big_other allTypes (S fuel) tn v2 = Ok w ->
    exists z, integer_of_gval big_other v1 = Ok z /\ integer_of_gval big_other v2 = Ok z.
Proof. exact integer_member_injective. Qed.
Print Assumptions C14_same_word_same_integer.

(* 7. (review issue 3) Clause 3 on the DOCUMENT.  [doc_reaches td f tn v]: the hashing walk, from a
      member of the domain or of the message through struct members and array elements as
      encodeElement descends, evaluates the value v at type tn.  If the document hashes, then at
      every reached position of integer type the value was read as an integer z in range of the
      type, the position contributed the word of z, and a text of the modelled grammars there — in
      particular every JSON number — denotes exactly z: an element error cannot be swallowed and no
      default is hashed. *)
Theorem C14_document_integers_exact :
  forall H big_other td dg f tn tc v,
    EncodeTypedDataV4 H big_other (Some td) = Ok dg ->
    doc_reaches td f tn v ->
    integer_member_type (effective_types (td_types td)) tn tc ->
    exists z, integer_of_gval big_other v = Ok z /\
              in_range (is_signed (e_base tc)) (e_m tc) z = true /\
              encodeElement H big_other (effective_types (td_types td)) f tn v = Ok (word z) /\
              (forall t, (v = GNumber t \/ v = GString t) -> classify t <> COther -> text_denotes t z) /\
              (forall t, v = GNumber t -> json_number t -> text_denotes t z).
Proof. exact document_integers_exact. Qed.
Print Assumptions C14_document_integers_exact.

(* 7a. Contrapositive: a numeric text (JSON number or string, in the modelled grammars) at a reached
      position of integer type that denotes no integer in range of the type makes the whole document
      an error, whatever the rest of the document is ... *)
Theorem C14_document_inexact_rejected :
  forall H big_other td f tn tc t v,
    doc_reaches td f tn v -> (v = GNumber t \/ v = GString t) ->
    integer_member_type (effective_types (td_types td)) tn tc ->
    no_integer_in_range tc t ->
    exists e, EncodeTypedDataV4 H big_other (Some td) = Err e.
Proof. exact rejects_inexact_from_json. Qed.
Print Assumptions C14_document_inexact_rejected.

(* 7b. ... for a JSON number with no side condition on the text. *)
Theorem C14_document_json_number_rejected :
  forall H big_other td f tn tc t,
    doc_reaches td f tn (GNumber t) -> json_number t ->
    integer_member_type (effective_types (td_types td)) tn tc ->
    (forall z, text_denotes t z -> in_range (is_signed (e_base tc)) (e_m tc) z = false) ->
    exists e, EncodeTypedDataV4 H big_other (Some td) = Err e.
Proof. exact document_json_number_rejected. Qed.
Print Assumptions C14_document_json_number_rejected.

(* 8. (review issue 5) With the concrete Keccak-256 (Base/Keccak.v): hashing any payload gives a
      32-byte digest or an error that is not the model's out-of-fuel error; hashing any JSON tree
      gives a 32-byte digest or an error. *)
Theorem C14_digest_or_error_keccak :
  forall big_other (payload : option typed_data),
    (exists d, EncodeTypedDataV4 keccak256 big_other payload = Ok d /\ length d = 32%nat) \/
    (exists e, EncodeTypedDataV4 keccak256 big_other payload = Err e /\ e <> EOutOfFuel).
Proof. exact payload_digest_or_error. Qed.
Print Assumptions C14_digest_or_error_keccak.

Theorem C14_document_digest_or_error_keccak :
  forall big_other (doc : json),
    let r := do td <- decode_typed_data doc; EncodeTypedDataV4 keccak256 big_other (Some td) in
    (exists d, r = Ok d /\ length d = 32%nat) \/ (exists e, r = Err e).
Proof. exact document_digest_or_error. Qed.
Print Assumptions C14_document_digest_or_error_keccak.

(* 8a. (review issue 5b) The hypothesis of the signing half of C14_total discharged for C05's model
      of KeyPair.SignDirect ([key_signer], Secp/Model.v) over every group satisfying Crypto.Ecdsa.laws
      whose order fits 32 bytes (R, S in [1, n-1]): signing any JSON document with it never panics.
      (That secp256k1 satisfies the laws is C05's trusted fact; instances in Coq: the toy groups.) *)
Theorem C14_signer_in_range_C05 :
  forall (o : group_ops), laws o -> (n o < Secp.Model.two256)%Z ->
  forall nonce fuel d, signer_in_range (key_signer o nonce fuel d).
Proof. exact key_signer_in_range. Qed.
Print Assumptions C14_signer_in_range_C05.

Theorem C14_sign_total_C05_signer :
  forall (o : group_ops), laws o -> (n o < Secp.Model.two256)%Z ->
  forall H big_other nonce fuel d (doc : json),
    (do p <- decode_typed_data_ptr doc; SignTypedDataV4 H big_other (key_signer o nonce fuel d) p) <> Panic.
Proof. exact sign_document_total_key_signer. Qed.
Print Assumptions C14_sign_total_C05_signer.

(* 9. (review issue 6) The document-level agreement stated from JSON trees through the decoder: two
      JSON documents that decode to the same types and primary type and to related domain / message
      give the same outcome on the hashing path and on the signing path (pointer decode). *)
Theorem C14_spellings_agree_json :
  forall H big_other sign_direct doc1 doc2 types primary od1 od2 om1 om2,
    decode_typed_data doc1 = Ok (mkTD types primary od1 om1) ->
    decode_typed_data doc2 = Ok (mkTD types primary od2 om2) ->
    let ts := effective_types types in
    opt_members_rel ts (members_of (tget EIP712Domain ts)) od1 od2 ->
    opt_members_rel ts (members_of (tget primary ts)) om1 om2 ->
    (do td <- decode_typed_data doc1; EncodeTypedDataV4 H big_other (Some td)) =
    (do td <- decode_typed_data doc2; EncodeTypedDataV4 H big_other (Some td)) /\
    (do p <- decode_typed_data_ptr doc1; SignTypedDataV4 H big_other sign_direct p) =
    (do p <- decode_typed_data_ptr doc2; SignTypedDataV4 H big_other sign_direct p).
Proof. exact spellings_agree_json. Qed.
Print Assumptions C14_spellings_agree_json.

(* ---- non-vacuity of the statements above ---- *)
(* texts inside and outside the JSON number grammar ("010", "0x1F", "+5", "1_0" are not JSON numbers) *)
Example C14_nonvacuous_json_number :
  json_number (bs "0") /\ json_number (bs "-12") /\ json_number (bs "-1.50E+3") /\ json_number (bs "1e77") /\
  ~ json_number (bs "010") /\ ~ json_number (bs "0x1F") /\ ~ json_number (bs "+5") /\ ~ json_number (bs "1_0").
Proof. exact json_number_examples. Qed.

Example C14_nonvacuous_json_number_b :
  json_number_b (bs "0") = true /\ json_number_b (bs "-1.50E+3") = true /\ json_number_b (bs "1e77") = true /\
  json_number_b (bs "-0.0e-0") = true /\
  json_number_b (bs "010") = false /\ json_number_b (bs "+5") = false /\ json_number_b (bs "1.") = false /\
  json_number_b (bs ".5") = false /\ json_number_b (bs "1e") = false /\ json_number_b (bs "0x1F") = false /\
  json_number_b (bs "-") = false /\ json_number_b (bs "1_0") = false /\ json_number_b (bs "1e+") = false.
Proof. exact json_number_b_examples. Qed.

Example C14_nonvacuous_positional :
  pos_value 10 dec_digit_value (bs "907") = 907%Z /\ pos_value 16 hex_digit_value (bs "fF0") = 4080%Z.
Proof. exact positional_example. Qed.

(* the example JSON documents decode to the example payloads, and with the real hash both give the
   same 32-byte digest: the instance of the document theorems is not "Err = Err" *)
Example C14_nonvacuous_json_documents :
  decode_typed_data ex_json1 = Ok (mkTD (Some ex_types) (bs "A") (Some ex_d1) (Some ex_m1)) /\
  decode_typed_data ex_json2 = Ok (mkTD (Some ex_types) (bs "A") (Some ex_d2) (Some ex_m2)).
Proof. exact ex_json_decode. Qed.

Example C14_nonvacuous_documents_hash_ok :
  exists d,
    EncodeTypedDataV4 keccak256 (fun _ => None) (Some (mkTD (Some ex_types) (bs "A") (Some ex_d1) (Some ex_m1))) = Ok d /\
    EncodeTypedDataV4 keccak256 (fun _ => None) (Some (mkTD (Some ex_types) (bs "A") (Some ex_d2) (Some ex_m2))) = Ok d /\
    (do td <- decode_typed_data ex_json1; EncodeTypedDataV4 keccak256 (fun _ => None) (Some td)) = Ok d /\
    (do td <- decode_typed_data ex_json2; EncodeTypedDataV4 keccak256 (fun _ => None) (Some td)) = Ok d /\
    length d = 32%nat /\ ex_json1 <> ex_json2.
Proof. exact ex_documents_hash_ok. Qed.

(* the document-level clause 3: x = 1.5 and x = 1e77 (beyond int256) are refused under every hash and
   oracle; x = 9223372036854775808 hashes and the position holds exactly 2^63 *)
Example C14_nonvacuous_document_rejected :
  forall (H : bytes -> bytes) (big_other : bytes -> option Z),
  (exists e, EncodeTypedDataV4 H big_other (Some (ex_td_x (bs "1.5"))) = Err e) /\
  (exists e, EncodeTypedDataV4 H big_other (Some (ex_td_x (bs "1e77"))) = Err e) /\
  (forall dg, EncodeTypedDataV4 H big_other (Some (ex_td_x (bs "9223372036854775808"))) = Ok dg ->
     integer_of_gval big_other (GNumber (bs "9223372036854775808")) = Ok (2 ^ 63)%Z).
Proof. exact ex_document_rejected. Qed.

Example C14_nonvacuous_document_x_hashes :
  match EncodeTypedDataV4 keccak256 (fun _ => None) (Some (ex_td_x (bs "9223372036854775808"))) with
  | Ok d => length d = 32%nat | _ => False end.
Proof. exact ex_document_x_hashes. Qed.

(* "<> Panic" is a result, not a property of the result type: the model panics where the Go code would
   (a nil *TypeMember rendered by Type.Encode, a FillBytes into too small a buffer, SignTypedDataV4 with
   a signer outside [signer_in_range] — the hypothesis of C14_total is needed) ... *)
Example C14_model_can_panic :
  TypeMember_Encode None = Panic /\
  Type_Encode (bs "A") (Some [None]) = Panic /\
  fill_bytes 32 (2 ^ 256) = Panic /\
  SignTypedDataV4 (fun _ => []) (fun _ => None) (fun _ => Some (2 ^ 256, 1, 27)%Z)
                  (Some (mkTD None EIP712Domain None None)) = Panic /\
  ~ signer_in_range (fun _ => Some (2 ^ 256, 1, 27)%Z).
Proof. exact model_can_panic. Qed.

(* ... and returns errors *)
Example C14_model_returns_errors :
  (do td <- decode_typed_data JNull; EncodeTypedDataV4 keccak256 (fun _ => None) (Some td)) = Err EPrimaryTypeRequired /\
  (do p <- decode_typed_data_ptr JNull;
   SignTypedDataV4 keccak256 (fun _ => None) (fun _ => Some (1, 1, 27)%Z) p) = Err EPrimaryTypeRequired /\
  (exists e, decode_typed_data (JArr []) = Err e).
Proof. exact model_returns_errors. Qed.

(* What is NOT proved, made explicit: a digit string with a leading zero is outside the modelled grammars;
   the model encodes whatever the math/big oracle answers for it — math/big reads "010" as octal 8, so
   the string "010" at a uint8 member is hashed as 8.  No exactness theorem covers such strings. *)
Example C14_leading_zero_string_decided_by_oracle :
  classify (bs "010") = COther /\
  (forall H o z, o (bs "010") = Some z -> in_range false 8 z = true ->
     encodeElement H o [] 1 (bs "uint8") (GString (bs "010")) = Ok (word z)) /\
  (forall H o, o (bs "010") = None ->
     exists e, encodeElement H o [] 1 (bs "uint8") (GString (bs "010")) = Err e).
Proof. exact leading_zero_string_is_oracle. Qed.


(* ================================================================================================
   Wave 6 (proofs: Eip712/Wave6NumericText.v).  The condition [classify t <> COther] of the clause-3
   statements above is phrased through the model's own tokenizer.  It is replaced here by a grammar
   of the text written without reference to the model,
       numeric-text = [ "+" / "-" ] ( int [ frac ] [ exp ]  /  "0" ( "x" / "X" ) 1*HEXDIG )
   ([numeric_text]; int / frac / exp = RFC 8259 section 6 as transcribed in RefJsonNumber.v), for
   strings as well as JSON numbers; and the sufficient condition [exponent_moderate] of
   C14_exact_spellings_agree by the necessary and sufficient [exponent_expandable].
   ================================================================================================ *)

(* 10. The math/big oracle of the model is consulted for a text iff the text is outside the grammar:
       the declared gap of clause 3 is exactly the complement of [numeric_text]. *)
Theorem C14_numeric_text_grammar_exact :
  forall t, numeric_text t <-> classify t <> COther.
Proof. exact numeric_text_iff_classified. Qed.
Print Assumptions C14_numeric_text_grammar_exact.

Theorem C14_oracle_asked_iff_outside_grammar :
  forall o1 o2 t,
    (numeric_text t -> BigIntegerFromString o1 t = BigIntegerFromString o2 t) /\
    (~ numeric_text t ->
     BigIntegerFromString o1 t = match o1 t with Some z => Ok z | None => Err EBadInteger end).
Proof. exact oracle_asked_iff_outside_grammar. Qed.
Print Assumptions C14_oracle_asked_iff_outside_grammar.

(* 10a. Every JSON number and the three canonical spellings of every integer are in the grammar. *)
Theorem C14_json_number_and_canonical_in_numeric_text :
  (forall t, json_number t -> numeric_text t) /\
  (forall z, numeric_text (dec_text z) /\ numeric_text (hex_text z)).
Proof. split; [exact json_number_numeric_text | exact canonical_spellings_numeric_text]. Qed.
Print Assumptions C14_json_number_and_canonical_in_numeric_text.

(* 10b. Clause 3 at a member with the grammar as the only condition on the text, JSON number or
       STRING (C14_inexact_rejected / C14_json_number_never_misread without [classify]) ... *)
Theorem C14_numeric_text_never_misread :
  forall H big_other allTypes fuel tn tc t v w,
    integer_member_type allTypes tn tc -> numeric_text t -> (v = GNumber t \/ v = GString t) ->
    encodeElement H big_other allTypes (S fuel) tn v = Ok w ->
    exists z, text_denotes t z /\ in_range (is_signed (e_base tc)) (e_m tc) z = true /\ w = word z.
Proof. exact numeric_text_member_exact. Qed.
Print Assumptions C14_numeric_text_never_misread.

(*      ... independent of the oracle ... *)
Theorem C14_numeric_text_oracle_free :
  forall H o1 allTypes o2 fuel tn tc t v,
    integer_member_type allTypes tn tc -> numeric_text t -> (v = GNumber t \/ v = GString t) ->
    encodeElement H o1 allTypes (S fuel) tn v = encodeElement H o2 allTypes (S fuel) tn v.
Proof. exact numeric_text_member_oracle_free. Qed.
Print Assumptions C14_numeric_text_oracle_free.

(*      ... and on the document (C14_document_inexact_rejected without [classify]). *)
Theorem C14_document_numeric_text_rejected :
  forall H big_other td f tn tc t v,
    doc_reaches td f tn v -> (v = GNumber t \/ v = GString t) -> numeric_text t ->
    integer_member_type (effective_types (td_types td)) tn tc ->
    (forall z, text_denotes t z -> in_range (is_signed (e_base tc)) (e_m tc) z = false) ->
    exists e, EncodeTypedDataV4 H big_other (Some td) = Err e.
Proof. exact document_numeric_text_rejected. Qed.
Print Assumptions C14_document_numeric_text_rejected.

(* 11. The exact boundary of acceptance.  On the grammar the coercion returns z IFF the text denotes
       z and its exponent is expandable (written exponent within int64, and zero mantissa or
       |exponent - fraction digits| <= 10^6) ... *)
Theorem C14_numeric_text_accepted_iff :
  forall big_other t z,
    numeric_text t ->
    (BigIntegerFromString big_other t = Ok z <-> text_denotes t z /\ exponent_expandable t).
Proof. exact BigIntegerFromString_accepts_iff. Qed.
Print Assumptions C14_numeric_text_accepted_iff.

(*      ... so at an integer member a text of the grammar is hashed IFF it denotes an integer in
       range of the type and its exponent is expandable, and the bytes are the word of that integer:
       nothing exact inside the boundary is refused, and a text beyond the boundary is refused
       whatever it denotes (rejected, not misread: the claim of the third [partial] item, now a
       theorem).  [exponent_moderate] implies [exponent_expandable] (C14_exact_spellings_agree is the
       special case). *)
Theorem C14_numeric_text_hashed_iff :
  forall H big_other allTypes fuel tn tc t v w,
    integer_member_type allTypes tn tc -> numeric_text t -> (v = GNumber t \/ v = GString t) ->
    (encodeElement H big_other allTypes (S fuel) tn v = Ok w <->
     exists z, text_denotes t z /\ exponent_expandable t /\
               in_range (is_signed (e_base tc)) (e_m tc) z = true /\ w = word z).
Proof. exact numeric_text_member_iff. Qed.
Print Assumptions C14_numeric_text_hashed_iff.

Theorem C14_beyond_exponent_boundary_refused :
  forall H big_other allTypes fuel tn tc t v,
    integer_member_type allTypes tn tc -> numeric_text t -> ~ exponent_expandable t ->
    (v = GNumber t \/ v = GString t) ->
    exists e, encodeElement H big_other allTypes (S fuel) tn v = Err e.
Proof. exact beyond_boundary_element. Qed.
Print Assumptions C14_beyond_exponent_boundary_refused.

Theorem C14_exponent_moderate_is_expandable :
  forall t, exponent_moderate t -> exponent_expandable t.
Proof. exact moderate_expandable. Qed.
Print Assumptions C14_exponent_moderate_is_expandable.

(* non-vacuity: texts inside the grammar (signed hex, upper-case prefix, '+' sign, fraction and
   exponent) and Go's other base-0 syntaxes, all outside it *)
Example C14_nonvacuous_numeric_text :
  numeric_text (bs "-12") /\ numeric_text (bs "+0x1F") /\ numeric_text (bs "0XfF") /\
  numeric_text (bs "+1.50E+3") /\ numeric_text (bs "1e77") /\ numeric_text (bs "-0") /\
  ~ numeric_text (bs "010") /\ ~ numeric_text (bs "-010") /\ ~ numeric_text (bs "0b11") /\
  ~ numeric_text (bs "0o17") /\ ~ numeric_text (bs "1_000") /\ ~ numeric_text (bs "0x_1f") /\
  ~ numeric_text (bs "5.") /\ ~ numeric_text (bs "08") /\ ~ numeric_text (bs "0x1p4") /\
  ~ numeric_text (bs "") /\ ~ numeric_text (bs "0x") /\ ~ numeric_text (bs "+-1") /\ ~ numeric_text (bs ".5").
Proof. exact numeric_text_examples. Qed.

(* a STRING of the grammar: "+0x100" at a uint8 member is never hashed, "0xff" is hashed as 255 *)
Example C14_nonvacuous_numeric_string :
  forall (H : bytes -> bytes) (o : bytes -> option Z) fuel w,
    encodeElement H o [] (S fuel) (bs "uint8") (GString (bs "+0x100")) <> Ok w /\
    encodeElement H o [] (S fuel) (bs "uint8") (GString (bs "0xff")) = Ok (word 255).
Proof. exact numeric_text_string_examples. Qed.

(* the boundary: "0e9999999" is beyond exponent_moderate but expandable and read as 0; "1e1000000" is
   inside; "1e1000001" (an exact text: it denotes 10^1000001) and an exponent outside int64 are beyond *)
Example C14_nonvacuous_exponent_boundary :
  numeric_text (bs "0e9999999") /\ exponent_expandable (bs "0e9999999") /\ ~ exponent_moderate (bs "0e9999999") /\
  (forall o, BigIntegerFromString o (bs "0e9999999") = Ok 0%Z) /\
  numeric_text (bs "1e1000001") /\ ~ exponent_expandable (bs "1e1000001") /\
  numeric_text (bs "1e9223372036854775808") /\ ~ exponent_expandable (bs "1e9223372036854775808") /\
  numeric_text (bs "1e1000000") /\ exponent_expandable (bs "1e1000000").
Proof. exact boundary_examples. Qed.
