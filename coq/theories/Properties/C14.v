(* C14 — typed-data hashing is total on arbitrary documents and never misreads a number.
   Statements only; proofs live in Eip712/TotalProofsInput.v, TotalProofs.v, NumericProofs.v,
   SpellingProofs.v.  [H] is the hash function (keccak256 in the implementation), [big_other] the
   answers of math/big on numeric texts outside the decimal / 0x-hex / scientific grammars,
   [sign_direct] the signer: all arbitrary. *)
From Coq Require Import String.
From Coq Require Import List NArith ZArith Bool.
From Coq Require Import Init.Byte.
From FFS Require Import Base.Res Base.Bytes Abi.Spec.
From FFS Require Import Eip712.Util Eip712.Input Eip712.Numeric Eip712.Coerce Eip712.Model.
From FFS Require Import Eip712.TotalProofsInput Eip712.TotalProofs Eip712.TotalProofsFuel Eip712.NumericProofs Eip712.SpellingProofs Eip712.SpellingDocProofs Eip712.SpellingDocOptProofs Eip712.ExactSpellingProofs.
Import ListNotations.

(* 1. Totality.  Any JSON tree offered as the document — decoded into a TypedData value and hashed,
      or decoded through a *TypedData pointer and signed — gives a digest/signature or an error,
      never a panic.  (The only hypothesis: the signer returns R and S below 2^256.) *)
Theorem C14_total :
  forall (H : bytes -> bytes) (big_other : bytes -> option Z) (sign_direct : bytes -> option (Z * Z * Z))
         (doc : json),
    (do td <- decode_typed_data doc; EncodeTypedDataV4 H big_other (Some td)) <> Panic /\
    (signer_in_range sign_direct ->
     (do p <- decode_typed_data_ptr doc; SignTypedDataV4 H big_other sign_direct p) <> Panic).
Proof.
  intros H o sd doc. split; [apply hash_document_total | apply sign_document_total].
Qed.
Print Assumptions C14_total.

(* 1a. What decoding hands to the hashing code faithfully stands for Go maps: type names are unique and
      every map in domain and message (at any depth) has unique keys — whatever duplicate or
      case-folded keys the document contains. *)
Theorem C14_decoded_maps_have_unique_keys :
  forall doc td, decode_typed_data doc = Ok td -> wf_td td.
Proof. exact decode_typed_data_wf. Qed.
Print Assumptions C14_decoded_maps_have_unique_keys.

(* 1b. The same for every value of the Go types, however it was built (nil payload, nil maps, nil
      member lists, nil members, undefined / cyclic / malformed type names ...). *)
Theorem C14_total_any_payload :
  forall H big_other (payload : option typed_data), EncodeTypedDataV4 H big_other payload <> Panic.
Proof. exact EncodeTypedDataV4_total. Qed.
Print Assumptions C14_total_any_payload.

(* 1c. Totality is not an artefact of the model's fuel: for every payload the dependency walk (fuel
      S |types|) and the recursion over the value (fuel S depth) finish, i.e. the model never answers
      with its out-of-fuel error — an [Err] of the model is an error value returned by the Go code. *)
Theorem C14_total_fuel_suffices :
  forall H big_other sign_direct (payload : option typed_data),
    EncodeTypedDataV4 H big_other payload <> Err EOutOfFuel /\
    SignTypedDataV4 H big_other sign_direct payload <> Err EOutOfFuel.
Proof. intros; split; [apply EncodeTypedDataV4_fuel | apply SignTypedDataV4_fuel]. Qed.
Print Assumptions C14_total_fuel_suffices.

(* 2. The three spellings.  For every integer z (no bound) the canonical decimal text as a JSON number,
      the same text as a string, and the canonical 0x-hex string are read as exactly z ... *)
Theorem C14_spellings_read_exactly :
  forall big_other (z : Z),
    integer_of_gval big_other (GNumber (dec_text z)) = Ok z /\
    integer_of_gval big_other (GString (dec_text z)) = Ok z /\
    integer_of_gval big_other (GString (hex_text z)) = Ok z.
Proof. exact spellings_read_exactly. Qed.
Print Assumptions C14_spellings_read_exactly.

(*    ... and at a member whose type the ABI parser reads as int<M>/uint<M> the three give the same
      encoding: the 32-byte two's-complement word of z when z is in range of the type, the same error
      when it is not. *)
Theorem C14_spellings_agree :
  forall H big_other allTypes fuel tn tc (z : Z),
    integer_member_type allTypes tn tc ->
    let r := if in_range (is_signed (e_base tc)) (e_m tc) z then Ok (word z)
             else Err (if is_signed (e_base tc) then ETooLarge
                       else if (z <? 0)%Z then ENegativeUnsigned else ETooLarge) in
    encodeElement H big_other allTypes (S fuel) tn (GNumber (dec_text z)) = r /\
    encodeElement H big_other allTypes (S fuel) tn (GString (dec_text z)) = r /\
    encodeElement H big_other allTypes (S fuel) tn (GString (hex_text z)) = r.
Proof. exact spellings_agree_element. Qed.
Print Assumptions C14_spellings_agree.

(*    ... and not only the three canonical spellings: any text in the decimal / 0x-hex / scientific
      grammars (every JSON number is) that denotes the integer z exactly — "1e77", "100.0", "1.5e1",
      "-120E-1", "+0x1F" — whose exponent math/big expands ([exponent_moderate]: written exponent within
      int64, effective exponent at most 10^6 in magnitude) gives, as a JSON number and as a string, the
      word of z when z is in range and the range error when it is not: the outcome of the canonical
      spellings of z.  (Round 3; the converse of C14_inexact_rejected.) *)
Theorem C14_exact_spellings_agree :
  forall H big_other allTypes fuel tn tc t (z : Z),
    integer_member_type allTypes tn tc -> text_denotes t z -> exponent_moderate t ->
    let r := if in_range (is_signed (e_base tc)) (e_m tc) z then Ok (word z)
             else Err (if is_signed (e_base tc) then ETooLarge
                       else if (z <? 0)%Z then ENegativeUnsigned else ETooLarge) in
    encodeElement H big_other allTypes (S fuel) tn (GNumber t) = r /\
    encodeElement H big_other allTypes (S fuel) tn (GString t) = r.
Proof. exact exact_spelling_element. Qed.
Print Assumptions C14_exact_spellings_agree.

(*    ... and on whole documents: two documents with the same types and primary type whose domain and
      message differ only in how integers are spelled (JSON number / decimal string / 0x-hex string of
      the same integer, relation [spelling]; since round 3 also any other exact spelling with a moderate
      exponent, e.g. 1e18 / "100.0") at positions whose type — followed through struct members
      and array elements of any nesting, as encodeElement follows it ([respelled]) — is an integer
      type, have the same digest (or fail alike). *)
Theorem C14_spellings_agree_document :
  forall H big_other types primary d1 d2 m1 m2,
    let ts := effective_types types in
    members_rel (respelled ts (fuel_of (GMap d1))) (members_of (tget EIP712Domain ts)) d1 d2 ->
    members_rel (respelled ts (fuel_of (GMap m1))) (members_of (tget primary ts)) m1 m2 ->
    EncodeTypedDataV4 H big_other (Some (mkTD types primary (Some d1) (Some m1))) =
    EncodeTypedDataV4 H big_other (Some (mkTD types primary (Some d2) (Some m2))).
Proof. exact EncodeTypedDataV4_respelled. Qed.
Print Assumptions C14_spellings_agree_document.

(*    ... the same for documents that omit the domain and/or the message (or give them as null): the
      decoded payload then has a nil map there; [opt_members_rel] = both absent, or both present and
      related as above.  (Round 3; removes the restriction of the statement above.) *)
Theorem C14_spellings_agree_document_any :
  forall H big_other types primary od1 od2 om1 om2,
    let ts := effective_types types in
    opt_members_rel ts (members_of (tget EIP712Domain ts)) od1 od2 ->
    opt_members_rel ts (members_of (tget primary ts)) om1 om2 ->
    EncodeTypedDataV4 H big_other (Some (mkTD types primary od1 om1)) =
    EncodeTypedDataV4 H big_other (Some (mkTD types primary od2 om2)).
Proof. exact EncodeTypedDataV4_respelled_opt. Qed.
Print Assumptions C14_spellings_agree_document_any.

(* 3. Never a different value.  Whatever value sits at an integer member: if it is encoded at all,
      the coercion read an integer z from it, z is in range of the type and the bytes are the word of
      z; and for a text in the decimal / hex / scientific grammars (every JSON number is) z is exactly
      what the text denotes — a fraction, or m * 10^n that is not an integer, is not read at all. *)
Theorem C14_inexact_rejected :
  forall H big_other allTypes fuel tn tc v w,
    integer_member_type allTypes tn tc ->
    encodeElement H big_other allTypes (S fuel) tn v = Ok w ->
    exists z, integer_of_gval big_other v = Ok z /\
              in_range (is_signed (e_base tc)) (e_m tc) z = true /\ w = word z /\
              (forall t, (v = GNumber t \/ v = GString t) -> classify t <> COther -> text_denotes t z).
Proof.
  intros H o all fuel tn tc v w Hty Hw.
  destruct (integer_member_sound H o all fuel tn tc v w Hty Hw) as [z [Hz [Hr Hword]]].
  exists z. repeat split; try assumption.
  intros t [-> | ->] Hc; apply (BigIntegerFromString_sound o t z Hc Hz).
Qed.
Print Assumptions C14_inexact_rejected.

(* 3b. [text_denotes] speaks about the text itself: the components the model's tokenizer returns are
      the pieces of the text in order — sign, digits; sign, "0x"/"0X", hex digits; sign, integer
      digits, '.' fraction digits, 'e'/'E' sign exponent digits. *)
Theorem C14_numeric_text_faithful :
  forall t,
  (forall neg ds, classify t = CDec neg ds ->
     exists sgn, t = sgn ++ ds /\ is_sign sgn neg /\ forallb Numeric.is_digit ds = true) /\
  (forall neg ds, classify t = CHex neg ds ->
     exists sgn x, t = sgn ++ x30 :: x :: ds /\ is_sign sgn neg /\ (x = x78 \/ x = x58) /\
                   forallb is_hex ds = true /\ ds <> []) /\
  (forall neg ip fp eneg ed, classify t = CSci neg ip fp eneg ed ->
     exists sgn expo, t = sgn ++ ip ++ frac_text fp ++ expo /\ is_sign sgn neg /\
       forallb Numeric.is_digit ip = true /\ forallb Numeric.is_digit fp = true /\
       forallb Numeric.is_digit ed = true /\
       ((expo = [] /\ ed = [] /\ fp <> []) \/
        (exists e es, expo = e :: es ++ ed /\ (e = x65 \/ e = x45) /\ is_sign es eneg /\ ed <> []))).
Proof. exact classify_faithful. Qed.
Print Assumptions C14_numeric_text_faithful.

(* non-vacuity of the document-level statement: chainId 1 / "0x1", x = 2^63 as a number / "0x8000000000000000",
   ys = [255, "0"] / ["0xff", 0] in a uint8[] *)
Example C14_nonvacuous_document :
  let ts := effective_types (Some ex_types) in
  members_rel (respelled ts (fuel_of (GMap ex_d1))) (members_of (tget EIP712Domain ts)) ex_d1 ex_d2 /\
  members_rel (respelled ts (fuel_of (GMap ex_m1))) (members_of (tget (bs "A") ts)) ex_m1 ex_m2 /\
  ex_m1 <> ex_m2.
Proof. exact respelled_documents. Qed.

(* ... and of the statement for documents without a domain / without a message *)
Example C14_nonvacuous_document_any :
  let ts := effective_types (Some ex_types) in
  opt_members_rel ts (members_of (tget EIP712Domain ts)) None None /\
  opt_members_rel ts (members_of (tget (bs "A") ts)) (Some ex_m1) (Some ex_m2) /\
  opt_members_rel ts (members_of (tget EIP712Domain ts)) (Some ex_d1) (Some ex_d2) /\
  opt_members_rel ts (members_of (tget EIP712Domain ts)) None None /\
  ex_m1 <> ex_m2 /\ ex_d1 <> ex_d2.
Proof. exact respelled_documents_opt. Qed.

(* non-vacuity of C14_exact_spellings_agree: 1e77 lies between 2^255 and 2^256 *)
Example C14_nonvacuous_exact :
  text_denotes (bs "1e77") (10 ^ 77) /\ exponent_moderate (bs "1e77") /\
  in_range false 256 (10 ^ 77) = true /\ in_range true 256 (10 ^ 77) = false.
Proof. exact ex_1e77. Qed.

(* ... the document relation holds between the JSON number 1e77 and the 0x-hex string of 10^77 *)
Example C14_nonvacuous_document_exact :
  respelled [] 1 (bs "uint256") (GNumber (bs "1e77")) (GString (hex_text (10 ^ 77))) /\
  GNumber (bs "1e77") <> GString (hex_text (10 ^ 77)).
Proof. exact respelled_exact_example. Qed.

(* the signer hypothesis of C14_total is satisfiable *)
Example C14_signer_in_range_example : signer_in_range (fun _ => Some (1, 2 ^ 255, 27)%Z).
Proof. intros msg r s v E. injection E as <- <- <-. split; vm_compute; reflexivity. Qed.

(* non-vacuity *)
Example C14_nonvacuous :
  integer_member_type [] (bs "int256") (mkEtc EInt 256 (bs "256")) /\
  dec_text (2 ^ 63) = bs "9223372036854775808" /\ hex_text (2 ^ 63) = bs "0x8000000000000000" /\
  in_range true 256 (2 ^ 63) = true /\
  encodeElement (fun _ => []) (fun _ => None) [] 1 (bs "int256") (GNumber (bs "9223372036854775808")) = Ok (word (2 ^ 63)) /\
  (exists e, encodeElement (fun _ => []) (fun _ => None) [] 1 (bs "uint8") (GNumber (bs "1.5")) = Err e) /\
  (exists e, encodeElement (fun _ => []) (fun _ => None) [] 1 (bs "uint8") (GNumber (bs "256")) = Err e) /\
  text_denotes (bs "12.50e1") 125.
Proof.
  repeat split; try (vm_compute; reflexivity); try (eexists; vm_compute; reflexivity).
Qed.
