(* C14 — typed-data hashing is total on arbitrary documents and never misreads a number.
   Statements only; proofs live in Eip712/TotalProofsInput.v, TotalProofs.v, NumericProofs.v,
   SpellingProofs.v.  [H] is the hash function (keccak256 in the implementation), [big_other] the
   answers of math/big on numeric texts outside the decimal / 0x-hex / scientific grammars,
   [sign_direct] the signer: all arbitrary. *)
From Coq Require Import String.
From Coq Require Import List NArith ZArith Bool.
From Coq Require Import Init.Byte.
From FFS Require Import Base.Res Base.Bytes Abi.Spec.
From FFS Require Import Eip712.Util Eip712.Input Eip712.Numeric Eip712.Coerce Eip712.Model.
From FFS Require Import Eip712.TotalProofsInput Eip712.TotalProofs Eip712.NumericProofs Eip712.SpellingProofs.
Import ListNotations.

(* 1. Totality.  Any JSON tree offered as the document — decoded into a TypedData value and hashed,
      or decoded through a *TypedData pointer and signed — gives a digest/signature or an error,
      never a panic.  (The only hypothesis: the signer returns R and S below 2^256.) *)
Theorem C14_total :
  forall (H : bytes -> bytes) (big_other : bytes -> option Z) (sign_direct : bytes -> option (Z * Z * Z))
         (doc : json),
    (do td <- decode_typed_data doc; EncodeTypedDataV4 H big_other (Some td)) <> Panic /\
    (signer_in_range sign_direct ->
     (do p <- decode_typed_data_ptr doc; SignTypedDataV4 H big_other sign_direct p) <> Panic).
Proof.
  intros H o sd doc. split; [apply hash_document_total | apply sign_document_total].
Qed.
Print Assumptions C14_total.

(* 1b. The same for every value of the Go types, however it was built (nil payload, nil maps, nil
      member lists, nil members, undefined / cyclic / malformed type names ...). *)
Theorem C14_total_any_payload :
  forall H big_other (payload : option typed_data), EncodeTypedDataV4 H big_other payload <> Panic.
Proof. exact EncodeTypedDataV4_total. Qed.
Print Assumptions C14_total_any_payload.

(* 2. The three spellings.  For every integer z (no bound) the canonical decimal text as a JSON number,
      the same text as a string, and the canonical 0x-hex string are read as exactly z ... *)
Theorem C14_spellings_read_exactly :
  forall big_other (z : Z),
    integer_of_gval big_other (GNumber (dec_text z)) = Ok z /\
    integer_of_gval big_other (GString (dec_text z)) = Ok z /\
    integer_of_gval big_other (GString (hex_text z)) = Ok z.
Proof. exact spellings_read_exactly. Qed.
Print Assumptions C14_spellings_read_exactly.

(*    ... and at a member whose type the ABI parser reads as int<M>/uint<M> the three give the same
      encoding: the 32-byte two's-complement word of z when z is in range of the type, the same error
      when it is not. *)
Theorem C14_spellings_agree :
  forall H big_other allTypes fuel tn tc (z : Z),
    integer_member_type allTypes tn tc ->
    let r := if in_range (is_signed (e_base tc)) (e_m tc) z then Ok (word z)
             else Err (if is_signed (e_base tc) then ETooLarge
                       else if (z <? 0)%Z then ENegativeUnsigned else ETooLarge) in
    encodeElement H big_other allTypes (S fuel) tn (GNumber (dec_text z)) = r /\
    encodeElement H big_other allTypes (S fuel) tn (GString (dec_text z)) = r /\
    encodeElement H big_other allTypes (S fuel) tn (GString (hex_text z)) = r.
Proof. exact spellings_agree_element. Qed.
Print Assumptions C14_spellings_agree.

(* 3. Never a different value.  Whatever value sits at an integer member: if it is encoded at all,
      the coercion read an integer z from it, z is in range of the type and the bytes are the word of
      z; and for a text in the decimal / hex / scientific grammars (every JSON number is) z is exactly
      what the text denotes — a fraction, or m * 10^n that is not an integer, is not read at all. *)
Theorem C14_inexact_rejected :
  forall H big_other allTypes fuel tn tc v w,
    integer_member_type allTypes tn tc ->
    encodeElement H big_other allTypes (S fuel) tn v = Ok w ->
    exists z, integer_of_gval big_other v = Ok z /\
              in_range (is_signed (e_base tc)) (e_m tc) z = true /\ w = word z /\
              (forall t, (v = GNumber t \/ v = GString t) -> classify t <> COther -> text_denotes t z).
Proof.
  intros H o all fuel tn tc v w Hty Hw.
  destruct (integer_member_sound H o all fuel tn tc v w Hty Hw) as [z [Hz [Hr Hword]]].
  exists z. repeat split; try assumption.
  intros t [-> | ->] Hc; apply (BigIntegerFromString_sound o t z Hc Hz).
Qed.
Print Assumptions C14_inexact_rejected.

(* non-vacuity *)
Example C14_nonvacuous :
  integer_member_type [] (bs "int256") (mkEtc EInt 256 (bs "256")) /\
  dec_text (2 ^ 63) = bs "9223372036854775808" /\ hex_text (2 ^ 63) = bs "0x8000000000000000" /\
  in_range true 256 (2 ^ 63) = true /\
  encodeElement (fun _ => []) (fun _ => None) [] 1 (bs "int256") (GNumber (bs "9223372036854775808")) = Ok (word (2 ^ 63)) /\
  (exists e, encodeElement (fun _ => []) (fun _ => None) [] 1 (bs "uint8") (GNumber (bs "1.5")) = Err e) /\
  (exists e, encodeElement (fun _ => []) (fun _ => None) [] 1 (bs "uint8") (GNumber (bs "256")) = Err e) /\
  text_denotes (bs "12.50e1") 125.
Proof.
  repeat split; try (vm_compute; reflexivity); try (eexists; vm_compute; reflexivity).
Qed.
