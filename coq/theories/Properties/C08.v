(* C08 — the file-system wallet only signs with the key that owns the requested address.
   Statements only; proofs live in Wallet/Proofs.v, Proofs2.v, Proofs3.v, Proofs4.v, Proofs5.v, WithC01.v and WithC04.v
   (the last three: answers to the referee's review design/reviews/C08.md, section 5 at the end).

   Everything is quantified over: the key / transaction / signature types, the external behaviour [E]
   (regexp, templates, metadata parsers, JSON strings, TrimSpace, path.Join, the keystore reader, the
   address derivation, the two signers), the configuration [c], the initial file system [fs] (any pair
   of functions: directory listing, file read) and the finite history [h] of operations
   Refresh | GetAccounts | Sign | SignTypedData | GetWalletFile | any change of the file system |
   listener event | cache eviction  (Wallet/Model.v: [op], [step], [after]). *)
From Coq Require Import String.
From Coq Require Import List NArith Lia Bool Arith.
From Coq Require Import Init.Byte.
From FFS Require Import Base.Res Base.Bytes Wallet.Model Wallet.Spec Wallet.Proofs Wallet.Proofs2 Wallet.Proofs3 Wallet.Proofs4.
From Coq Require Import ZArith.
From FFS Require Import Base.Keccak Crypto.Ecdsa Wallet.Proofs5 Wallet.WithC01 Wallet.WithC04.
From FFS Require Import Wallet.Proofs6.
Import ListNotations.

Arguments after {key tx stx doc tsig} E c s h.
Arguments init_state {key} fs.
Arguments GetWalletFile {key tx stx doc tsig} E c s addr.
Arguments Sign {key tx stx doc tsig} E c s from_raw t.
Arguments SignTypedDataV4 {key tx stx doc tsig} E c s from d.
Arguments Refresh {key tx stx doc tsig} E c s.
Arguments GetAccounts {key} s.
Arguments loadWalletFile {key tx stx doc tsig} E c fs addr primaryFilename.
Arguments goTemplateToString {key tx stx doc tsig} E m content t.
Arguments parse_from {key tx stx doc tsig} E raw.
Arguments addr_of {key tx stx doc tsig} e k.
Arguments sign_tx {key tx stx doc tsig} e k t.
Arguments sign_td {key tx stx doc tsig} e k d.
Arguments json_string {key tx stx doc tsig} e raw.
Arguments read_wallet {key tx stx doc tsig} e content pw.
Arguments meta_parse {key tx stx doc tsig} e m content.
Arguments trim_space {key tx stx doc tsig} e s.
Arguments path_join {key tx stx doc tsig} e a b.
Arguments st_cache {key} s.
Arguments st_map {key} s.
Arguments st_fs {key} s.
Arguments regex_law {key tx stx doc tsig} E.
Arguments constructed {key tx stx doc tsig} E c.
Arguments rule_of {key tx stx doc tsig} E c.
Arguments plain_password_file {key tx stx doc tsig} E c a.
Arguments wl_ok {key} s.
Arguments static {tx doc} h.
Arguments refreshed {tx doc} h.
Arguments ORefresh {tx doc}.
Arguments ext_nopanic {key tx stx doc tsig} E.
Arguments op_ok {tx doc} o.
Arguments obs_nopanic {key stx tsig} b.
Arguments run {key tx stx doc tsig} E c s h.
Arguments seen {tx doc} c fs h.
Arguments cur_fs {tx doc} fs h.

(* ------------------------------------------------------------------------------------------------
   1. Safety: in every reachable state a request naming A returns Ok only with a key whose address is
      A — from the cache or from the directory, whatever the files contain. *)
Theorem C08_sign_binds_address :
  forall (key tx stx doc tsig : Type) (E : ext key tx stx doc tsig) (c : config)
         (fs : fsys) (h : list (op tx doc)) (a : bytes) (s' : state key) (k : key),
    GetWalletFile E c (after E c (init_state fs) h) a = (s', Ok k) -> addr_of E k = a.
Proof. exact GetWalletFile_binds_reachable. Qed.
Print Assumptions C08_sign_binds_address.

Theorem C08_sign_binds_address_tx :
  forall (key tx stx doc tsig : Type) (E : ext key tx stx doc tsig) (c : config)
         (fs : fsys) (h : list (op tx doc)) (raw : bytes) (t : tx) (s' : state key) (out : stx),
    Sign E c (after E c (init_state fs) h) raw t = (s', Ok out) ->
    exists (a : bytes) (k : key),
      parse_from E raw = Some a /\ addr_of E k = a /\ sign_tx E k t = Ok out.
Proof. exact Sign_binds_reachable. Qed.
Print Assumptions C08_sign_binds_address_tx.

Theorem C08_sign_binds_address_typed_data :
  forall (key tx stx doc tsig : Type) (E : ext key tx stx doc tsig) (c : config)
         (fs : fsys) (h : list (op tx doc)) (a : bytes) (d : doc) (s' : state key) (out : tsig),
    SignTypedDataV4 E c (after E c (init_state fs) h) a d = (s', Ok out) ->
    exists k : key, addr_of E k = a /\ sign_td E k d = Ok out.
Proof. exact SignTypedData_binds_reachable. Qed.
Print Assumptions C08_sign_binds_address_typed_data.

(* With the signers' own guarantee (C01/C05: what key k signs recovers to the address of k) the
   returned transaction / typed-data signature recovers to exactly the address the request names; for
   Sign that is the address text (Spec.addr_of_text) inside the JSON string "from". *)
Theorem C08_signatures_recover_to_requested :
  forall (key tx stx doc tsig : Type) (E : ext key tx stx doc tsig) (c : config)
         (recover_tx : tx -> stx -> option bytes) (recover_td : doc -> tsig -> option bytes),
    (forall k t out, sign_tx E k t = Ok out -> recover_tx t out = Some (addr_of E k)) ->
    (forall k d out, sign_td E k d = Ok out -> recover_td d out = Some (addr_of E k)) ->
    forall (fs : fsys) (h : list (op tx doc)),
      let s := after E c (init_state fs) h in
      (forall raw t s' out, Sign E c s raw t = (s', Ok out) ->
         exists str a, json_string E raw = Some str /\ addr_of_text str = Some a /\
                       recover_tx t out = Some a) /\
      (forall a d s' out, SignTypedDataV4 E c s a d = (s', Ok out) -> recover_td d out = Some a).
Proof. exact signatures_recover_to_requested. Qed.
Print Assumptions C08_signatures_recover_to_requested.

(* A key stored under another address's name is refused whenever it is read from the directory, and
   the state (in particular the cache) is left unchanged. *)
Theorem C08_foreign_key_refused :
  forall (key tx stx doc tsig : Type) (E : ext key tx stx doc tsig) (c : config)
         (s : state key) (a fn : bytes) (k : key),
    assoc_get (addr_string a) (st_cache s) = None ->
    assoc_get a (st_map s) = Some fn ->
    loadWalletFile E c (st_fs s) a (path_join E (c_path c) fn) = Ok k ->
    addr_of E k <> a ->
    GetWalletFile E c s a = (s, Err EMismatch).
Proof. exact mismatch_refused. Qed.
Print Assumptions C08_foreign_key_refused.

(* The model's address parser (ethtypes.NewAddress) accepts exactly the specification's address text:
   optional "0x", then exactly 40 hexadecimal digits of either case. *)
Theorem C08_address_text :
  forall s : bytes, parse_address s = addr_of_text s.
Proof. exact parse_address_is_address_text. Qed.
Print Assumptions C08_address_text.

(* ------------------------------------------------------------------------------------------------
   2. The account list. *)

(* never a duplicate: any configuration, file systems, history *)
Theorem C08_accounts_no_duplicates :
  forall (key tx stx doc tsig : Type) (E : ext key tx stx doc tsig) (c : config)
         (fs : fsys) (h : list (op tx doc)),
    NoDup (GetAccounts (after E c (init_state fs) h)).
Proof. exact accounts_nodup. Qed.
Print Assumptions C08_accounts_no_duplicates.

(* after the first scan of a readable wallet directory the account list is exactly the addresses
   named by the regular files whose name matches the configured rule (Spec.name_address), first
   occurrences in listing order, and each address is backed by the last file naming it.
   [regex_law]: FindStringSubmatch returns one entry per sub-expression (documented behaviour of
   regexp); [constructed]: NewFilesystemWallet accepted the configuration; [names_ok]: no directory
   entry has an empty name. *)
Theorem C08_accounts_exact :
  forall (key tx stx doc tsig : Type) (E : ext key tx stx doc tsig) (c : config)
         (fs : fsys) (files : list (bytes * bool)),
    regex_law E -> constructed E c ->
    fs_readdir fs (c_path c) = Ok files -> names_ok files ->
    exists s' : state key,
      Refresh E c (init_state fs) = (s', Ok tt) /\
      GetAccounts s' = spec_accounts (rule_of E c) files /\
      (forall a, assoc_get a (st_map s') = backing (rule_of E c) files a None).
Proof. exact accounts_exact_initial. Qed.
Print Assumptions C08_accounts_exact.

(* a scan in any state reachable by any history appends exactly the not yet listed matching addresses *)
Theorem C08_refresh_exact :
  forall (key tx stx doc tsig : Type) (E : ext key tx stx doc tsig) (c : config)
         (fs : fsys) (h : list (op tx doc)) (files : list (bytes * bool)),
    let s := after E c (init_state fs) h in
    regex_law E -> constructed E c ->
    fs_readdir (st_fs s) (c_path c) = Ok files -> names_ok files ->
    exists s' : state key,
      Refresh E c s = (s', Ok tt) /\
      GetAccounts s' = add_all (GetAccounts s) (spec_matches (rule_of E c) files) /\
      (forall a, assoc_get a (st_map s') = backing (rule_of E c) files a (assoc_get a (st_map s))) /\
      st_fs s' = st_fs s /\ st_cache s' = st_cache s.
Proof.
  intros key tx stx doc tsig E c fs h files s Hl Hc. apply Refresh_exact; auto.
  apply after_wl_ok, wl_ok_init.
Qed.
Print Assumptions C08_refresh_exact.

(* ... and so does a listener event for one file (os.Stat result [name], [isdir]) *)
Theorem C08_listener_event_exact :
  forall (key tx stx doc tsig : Type) (E : ext key tx stx doc tsig) (c : config)
         (fs : fsys) (h : list (op tx doc)) (name : bytes) (isdir : bool),
    let s := after E c (init_state fs) h in
    regex_law E -> constructed E c -> name <> [] ->
    let s' := fst (step _ _ _ _ _ E c s (OFsEvent _ _ name isdir)) in
    GetAccounts s' = add_all (GetAccounts s) (spec_matches (rule_of E c) [(name, isdir)]) /\
    (forall a, assoc_get a (st_map s') = backing (rule_of E c) [(name, isdir)] a (assoc_get a (st_map s))) /\
    st_fs s' = st_fs s /\ st_cache s' = st_cache s.
Proof.
  intros key tx stx doc tsig E c fs h name isdir s Hl Hc Hn. apply event_exact; auto.
  apply after_wl_ok, wl_ok_init.
Qed.
Print Assumptions C08_listener_event_exact.

(* on a wallet directory that does not change, after any history of requests, GetAccounts calls,
   rescans and cache evictions: the specification's list once a rescan happened, empty before *)
Theorem C08_accounts_exact_any_history :
  forall (key tx stx doc tsig : Type) (E : ext key tx stx doc tsig) (c : config)
         (fs : fsys) (files : list (bytes * bool)) (h : list (op tx doc)),
    regex_law E -> constructed E c ->
    fs_readdir fs (c_path c) = Ok files -> names_ok files -> static h = true ->
    GetAccounts (after E c (init_state fs) h) =
      if refreshed h then spec_accounts (rule_of E c) files else [].
Proof. exact accounts_exact_static. Qed.
Print Assumptions C08_accounts_exact_any_history.

(* ------------------------------------------------------------------------------------------------
   3. Liveness: in every reachable state, a request for A succeeds with a key of A when the file
      backing A holds A's key and a usable password is present (Spec.spec_password: the key's own
      password file when readable, otherwise the default file; trimmed iff configured). *)
Theorem C08_liveness :
  forall (key tx stx doc tsig : Type) (E : ext key tx stx doc tsig) (c : config)
         (fs : fsys) (h : list (op tx doc)) (a fn content pw : bytes) (k : key),
    let s := after E c (init_state fs) h in
    classify_format (resolved_format c) = None ->                       (* no metadata *)
    assoc_get a (st_map s) = Some fn ->                                 (* the file listed for A *)
    fs_readfile (st_fs s) (path_join E (c_path c) fn) = Ok content ->
    spec_password (fs_readfile (st_fs s)) (c_pw_trim c) (trim_space E)
                  (plain_password_file E c a) (c_default_pw_file c) = Some pw ->
    read_wallet E content pw = Ok k -> addr_of E k = a ->
    exists (s' : state key) (k' : key),
      GetWalletFile E c s a = (s', Ok k') /\ addr_of E k' = a.
Proof. exact liveness_plain. Qed.
Print Assumptions C08_liveness.

Theorem C08_liveness_metadata :
  forall (key tx stx doc tsig : Type) (E : ext key tx stx doc tsig) (c : config)
         (fs : fsys) (h : list (op tx doc)) (a fn : bytes) (m : mfmt)
         (content kf kcontent pw : bytes) (k : key),
    let s := after E c (init_state fs) h in
    let primary := path_join E (c_path c) fn in
    classify_format (resolved_format c) = Some m ->                     (* toml / json / yaml metadata *)
    assoc_get a (st_map s) = Some fn ->
    fs_readfile (st_fs s) primary = Ok content ->
    meta_parse E m content = true ->
    goTemplateToString E m content (c_key_prop c) = kf -> kf <> [] ->
    (if bytes_eqb kf primary then kcontent = content else fs_readfile (st_fs s) kf = Ok kcontent) ->
    spec_password (fs_readfile (st_fs s)) (c_pw_trim c) (trim_space E)
                  (goTemplateToString E m content (c_pw_prop c)) (c_default_pw_file c) = Some pw ->
    read_wallet E kcontent pw = Ok k -> addr_of E k = a ->
    exists (s' : state key) (k' : key),
      GetWalletFile E c s a = (s', Ok k') /\ addr_of E k' = a.
Proof. exact liveness_metadata. Qed.
Print Assumptions C08_liveness_metadata.

(* after the first scan of a fresh wallet, "the file listed for A" is the last regular file of the
   listing whose name names A *)
Theorem C08_listed_file :
  forall (key tx stx doc tsig : Type) (E : ext key tx stx doc tsig) (c : config)
         (fs : fsys) (files : list (bytes * bool)) (a : bytes),
    regex_law E -> constructed E c ->
    fs_readdir fs (c_path c) = Ok files -> names_ok files ->
    assoc_get a (st_map (after E c (init_state fs) [ORefresh])) = backing (rule_of E c) files a None /\
    st_fs (after E c (init_state fs) [ORefresh]) = fs.
Proof. exact listed_backing. Qed.
Print Assumptions C08_listed_file.

(* ------------------------------------------------------------------------------------------------
   4. "Either fails or returns": no operation of the wallet panics, along any history — provided the
      libraries do not (the keystore reader: property C15; the signers; the OS calls). *)
Theorem C08_never_panics :
  forall (key tx stx doc tsig : Type) (E : ext key tx stx doc tsig) (c : config),
    regex_law E -> constructed E c -> ext_nopanic E ->
    forall (fs : fsys) (h : list (op tx doc)),
    fs_nopanic fs -> Forall op_ok h ->
    Forall obs_nopanic (snd (run E c (init_state fs) h)).
Proof. exact wallet_never_panics. Qed.
Print Assumptions C08_never_panics.

(* ------------------------------------------------------------------------------------------------
   (round 3) Only listed accounts can sign.  In every reachable state the signer cache holds nothing but
   keys of listed addresses, each under the string of its own address; hence a request naming an address
   that GetAccounts does not list — e.g. one whose text differs in a single digit from an address whose
   key is cached — fails with "not available" and changes nothing.  And a request that does not return
   Ok never changes the wallet (no partial caching), in any state. *)
Theorem C08_cached_keys_listed :
  forall (key tx stx doc tsig : Type) (E : ext key tx stx doc tsig) (c : config)
         (fs : fsys) (h : list (op tx doc)) (ks : bytes) (w : key),
    assoc_get ks (st_cache (after E c (init_state fs) h)) = Some w ->
    ks = addr_string (addr_of E w) /\ In (addr_of E w) (GetAccounts (after E c (init_state fs) h)).
Proof. exact cached_keys_listed. Qed.
Print Assumptions C08_cached_keys_listed.

Theorem C08_unlisted_address_refused :
  forall (key tx stx doc tsig : Type) (E : ext key tx stx doc tsig) (c : config)
         (fs : fsys) (h : list (op tx doc)) (a : bytes),
    let s := after E c (init_state fs) h in
    ~ In a (GetAccounts s) -> GetWalletFile E c s a = (s, Err ENotAvailable).
Proof. exact unlisted_refused. Qed.
Print Assumptions C08_unlisted_address_refused.

Theorem C08_unlisted_address_refused_tx :
  forall (key tx stx doc tsig : Type) (E : ext key tx stx doc tsig) (c : config)
         (fs : fsys) (h : list (op tx doc)) (raw a : bytes) (t : tx),
    let s := after E c (init_state fs) h in
    parse_from E raw = Some a -> ~ In a (GetAccounts s) -> Sign E c s raw t = (s, Err ENotAvailable).
Proof. exact unlisted_refused_sign. Qed.
Print Assumptions C08_unlisted_address_refused_tx.

Theorem C08_unlisted_address_refused_typed_data :
  forall (key tx stx doc tsig : Type) (E : ext key tx stx doc tsig) (c : config)
         (fs : fsys) (h : list (op tx doc)) (a : bytes) (d : doc),
    let s := after E c (init_state fs) h in
    ~ In a (GetAccounts s) -> SignTypedDataV4 E c s a d = (s, Err ENotAvailable).
Proof. exact unlisted_refused_typed_data. Qed.
Print Assumptions C08_unlisted_address_refused_typed_data.

Theorem C08_failed_request_leaves_state :
  forall (key tx stx doc tsig : Type) (E : ext key tx stx doc tsig) (c : config)
         (s s' : state key) (a : bytes) (r : res key),
    GetWalletFile E c s a = (s', r) -> (forall k, r <> Ok k) -> s' = s.
Proof. exact GetWalletFile_failed_unchanged. Qed.
Print Assumptions C08_failed_request_leaves_state.

(* ------------------------------------------------------------------------------------------------
   Non-vacuity: a concrete wallet.  Keys are identified with their address; a key file's content is
   the address of the key it holds; every password file must read "pw".  The directory k holds
     1111…11.key   the key of A = 0x11…11            (correct)
     2222…22.key   again the key of A                (stored under B's name)
     0x1111…11.key.bak, sub/ (directory), 3333…33 (no extension), 2222…22.KEY   near misses
   and the password files 1111…11.pw, 2222…22.pw. *)
Definition xA : bytes := repeat x11 20.
Definition xB : bytes := repeat x22 20.
Definition hexA : bytes := repeat x31 40.
Definition hexB : bytes := repeat x32 40.
Definition sl : bytes := ["/"%byte].
Definition lit (s : String.string) : bytes := ascii_bytes s.
Arguments lit s%string.

Definition xE : ext bytes unit bytes unit bytes :=
  {| re_compile := fun _ => Some 2%nat;
     re_find := fun _ name => Some [name; name];
     tmpl_parse_ok := fun _ => true;
     meta_parse := fun _ _ => true;
     tmpl_exec := fun _ _ t => (t, true);
     json_string := fun raw => Some raw;
     trim_space := fun s => s;
     path_join := fun a b => a ++ sl ++ b;
     read_wallet := fun content pw => if bytes_eqb pw (lit "pw") then Ok content else Err 1%nat;
     addr_of := fun k => k;
     sign_tx := fun k _ => Ok k;
     sign_td := fun k _ => Ok k |}.

Definition xc : config :=
  {| c_path := lit "k"; c_default_pw_file := []; c_regex := []; c_primary_ext := lit ".key";
     c_pw_ext := lit ".pw"; c_pw_path := []; c_pw_trim := true; c_with0x := false;
     c_meta_format := lit "auto"; c_key_prop := []; c_pw_prop := [] |}.

Definition xfiles : list (bytes * bool) :=
  [ (s_0x ++ hexA ++ lit ".key.bak", false); (hexA ++ lit ".key", false); (hexA ++ lit ".pw", false);
    (hexB ++ lit ".KEY", false); (hexB ++ lit ".key", false); (hexB ++ lit ".pw", false);
    (repeat x33 40, false); (lit "sub", true) ].

Definition xfs : fsys :=
  {| fs_readdir := fun d => if bytes_eqb d (lit "k") then Ok xfiles else Err 1%nat;
     fs_readfile := fun p =>
       if bytes_eqb p (lit "k/" ++ hexA ++ lit ".key") then Ok xA
       else if bytes_eqb p (lit "k/" ++ hexB ++ lit ".key") then Ok xA
       else if bytes_eqb p (lit "k/" ++ hexA ++ lit ".pw") then Ok (lit "pw")
       else if bytes_eqb p (lit "k/" ++ hexB ++ lit ".pw") then Ok (lit "pw")
       else Err 1%nat |}.

(* the request history Refresh; Sign B; Sign A; Sign A (cached); SignTypedData A; GetAccounts *)
Example C08_nonvacuous_history :
  snd (run xE xc (init_state xfs)
         [ORefresh; OSign _ _ (s_0x ++ hexB) tt; OSign _ _ hexA tt; OSign _ _ (s_0x ++ hexA) tt;
          OSignTypedData _ _ xA tt; OGetAccounts _ _]) =
  [BRefresh _ _ _ (Ok tt); BSign _ _ _ (Err EMismatch); BSign _ _ _ (Ok xA); BSign _ _ _ (Ok xA);
   BSignTypedData _ _ _ (Ok xA); BAccounts _ _ _ [xA; xB]].
Proof. vm_compute. reflexivity. Qed.

Lemma xE_regex_law : regex_law xE.
Proof. intros pat n name g H1 H2. simpl in *. injection H1 as <-. injection H2 as <-. reflexivity. Qed.

Lemma xfiles_names_ok : names_ok xfiles.
Proof. repeat constructor; simpl; discriminate. Qed.

(* the hypotheses of the account-list theorems are met, and the list is [A; B] *)
Example C08_nonvacuous_accounts :
  regex_law xE /\ constructed xE xc /\ fs_readdir xfs (c_path xc) = Ok xfiles /\ names_ok xfiles /\
  spec_accounts (rule_of xE xc) xfiles = [xA; xB] /\
  backing (rule_of xE xc) xfiles xA None = Some (hexA ++ lit ".key").
Proof.
  split; [exact xE_regex_law|]. split; [reflexivity|]. split; [reflexivity|].
  split; [exact xfiles_names_ok|]. split; vm_compute; reflexivity.
Qed.

(* the hypotheses of the liveness theorem are met for A after [Refresh], and so the request succeeds *)
Example C08_nonvacuous_liveness :
  exists s' k', GetWalletFile xE xc (after xE xc (init_state xfs) [ORefresh]) xA = (s', Ok k') /\ k' = xA.
Proof.
  apply (C08_liveness _ _ _ _ _ xE xc xfs [ORefresh] xA (hexA ++ lit ".key") xA (lit "pw") xA);
    vm_compute; reflexivity.
Qed.

(* ... and the hypotheses of the foreign-key theorem for B (its file holds A's key) *)
Example C08_nonvacuous_foreign_key :
  let s := after xE xc (init_state xfs) [ORefresh] in
  GetWalletFile xE xc s xB = (s, Err EMismatch).
Proof.
  apply (C08_foreign_key_refused _ _ _ _ _ xE xc _ xB (hexB ++ lit ".key") xA); vm_compute; try reflexivity.
  discriminate.
Qed.

(* (round 3) A's key is cached; the address that differs from A in the last hexadecimal digit is not
   listed, so the hypothesis of C08_unlisted_address_refused holds for it and the request is refused;
   the cache entry is the one C08_cached_keys_listed describes *)
Definition xA' : bytes := repeat x11 19 ++ [x10].
Example C08_nonvacuous_unlisted :
  let s := after xE xc (init_state xfs) [ORefresh; OGetWalletFile _ _ xA] in
  assoc_get (addr_string xA) (st_cache s) = Some xA /\
  GetAccounts s = [xA; xB] /\
  GetWalletFile xE xc s xA' = (s, Err ENotAvailable) /\
  Sign xE xc s (s_0x ++ repeat x31 39 ++ [x30]) tt = (s, Err ENotAvailable).
Proof.
  split; [vm_compute; reflexivity|]. split; [vm_compute; reflexivity|]. split.
  - apply (C08_unlisted_address_refused _ _ _ _ _ xE xc xfs [ORefresh; OGetWalletFile _ _ xA] xA').
    vm_compute. intros [H|[H|[]]]; discriminate.
  - apply (C08_unlisted_address_refused_tx _ _ _ _ _ xE xc xfs [ORefresh; OGetWalletFile _ _ xA] _ xA' tt).
    + vm_compute; reflexivity.
    + vm_compute. intros [H|[H|[]]]; discriminate.
Qed.

(* ================================================================================================
   5. (referee round — design/reviews/C08.md, answered in design/C08.md "Referee report and answers")
   ================================================================================================ *)

(* ISSUE 3a.  The bridge between "the matching key file is present" and the model-internal map of the
   liveness theorems: on a wallet directory that does not change, after ANY history of requests, GetAccounts
   calls, rescans and cache evictions, the file listed for A is the last regular file of the listing whose
   name names A (nothing before the first scan), and the wallet still reads the same file system. *)
Theorem C08_listed_file_any_history :
  forall (key tx stx doc tsig : Type) (E : ext key tx stx doc tsig) (c : config)
         (fs : fsys) (files : list (bytes * bool)) (h : list (op tx doc)) (a : bytes),
    regex_law E -> constructed E c ->
    fs_readdir fs (c_path c) = Ok files -> names_ok files -> static h = true ->
    assoc_get a (st_map (after E c (init_state fs) h)) =
      (if refreshed h then backing (rule_of E c) files a None else None) /\
    st_fs (after E c (init_state fs) h) = fs.
Proof. exact listed_backing_static. Qed.
Print Assumptions C08_listed_file_any_history.

(* ISSUE 3b.  Liveness stated on the DIRECTORY and the FILES (no premise about the wallet's state), with the
   results of the two signing entry points spelt out: on an unchanging, scanned directory whose last regular
   file naming A holds A's key, with a usable password, GetWalletFile, Sign and SignTypedDataV4 naming A all
   succeed with one key of A — after any history of requests, rescans and evictions. *)
Theorem C08_liveness_static :
  forall (key tx stx doc tsig : Type) (E : ext key tx stx doc tsig) (c : config)
         (fs : fsys) (files : list (bytes * bool)) (h : list (op tx doc)) (a fn content pw : bytes) (k : key),
    regex_law E -> constructed E c ->
    fs_readdir fs (c_path c) = Ok files -> names_ok files -> static h = true -> refreshed h = true ->
    classify_format (resolved_format c) = None ->                       (* no metadata *)
    backing (rule_of E c) files a None = Some fn ->                     (* the last regular file naming A *)
    fs_readfile fs (path_join E (c_path c) fn) = Ok content ->
    spec_password (fs_readfile fs) (c_pw_trim c) (trim_space E)
                  (plain_password_file E c a) (c_default_pw_file c) = Some pw ->
    read_wallet E content pw = Ok k -> addr_of E k = a ->
    let s := after E c (init_state fs) h in
    exists (s' : state key) (k' : key),
      GetWalletFile E c s a = (s', Ok k') /\ addr_of E k' = a /\
      (forall raw (t : tx), parse_from E raw = Some a -> Sign E c s raw t = (s', sign_tx E k' t)) /\
      (forall d : doc, SignTypedDataV4 E c s a d = (s', sign_td E k' d)).
Proof. exact liveness_static_plain. Qed.
Print Assumptions C08_liveness_static.

Theorem C08_liveness_static_metadata :
  forall (key tx stx doc tsig : Type) (E : ext key tx stx doc tsig) (c : config)
         (fs : fsys) (files : list (bytes * bool)) (h : list (op tx doc)) (a fn : bytes) (m : mfmt)
         (content kf kcontent pw : bytes) (k : key),
    regex_law E -> constructed E c ->
    fs_readdir fs (c_path c) = Ok files -> names_ok files -> static h = true -> refreshed h = true ->
    let primary := path_join E (c_path c) fn in
    classify_format (resolved_format c) = Some m ->                     (* toml / json / yaml metadata *)
    backing (rule_of E c) files a None = Some fn ->
    fs_readfile fs primary = Ok content ->
    meta_parse E m content = true ->
    goTemplateToString E m content (c_key_prop c) = kf -> kf <> [] ->
    (if bytes_eqb kf primary then kcontent = content else fs_readfile fs kf = Ok kcontent) ->
    spec_password (fs_readfile fs) (c_pw_trim c) (trim_space E)
                  (goTemplateToString E m content (c_pw_prop c)) (c_default_pw_file c) = Some pw ->
    read_wallet E kcontent pw = Ok k -> addr_of E k = a ->
    let s := after E c (init_state fs) h in
    exists (s' : state key) (k' : key),
      GetWalletFile E c s a = (s', Ok k') /\ addr_of E k' = a /\
      (forall raw (t : tx), parse_from E raw = Some a -> Sign E c s raw t = (s', sign_tx E k' t)) /\
      (forall d : doc, SignTypedDataV4 E c s a d = (s', sign_td E k' d)).
Proof. exact liveness_static_metadata. Qed.
Print Assumptions C08_liveness_static_metadata.

(* ISSUE 1.  Every key the wallet hands out, in any reachable state, came out of the keystore reader: any
   property [good_key] of everything the reader returns holds of it (and it is a key of the address named). *)
Theorem C08_keys_come_from_reader :
  forall (key tx stx doc tsig : Type) (E : ext key tx stx doc tsig) (c : config) (good_key : key -> Prop),
    (forall content pw k, read_wallet E content pw = Ok k -> good_key k) ->
    forall (fs : fsys) (h : list (op tx doc)) (a : bytes) (s' : state key) (k : key),
      GetWalletFile E c (after E c (init_state fs) h) a = (s', Ok k) -> good_key k /\ addr_of E k = a.
Proof. exact GetWalletFile_good_reachable. Qed.
Print Assumptions C08_keys_come_from_reader.

(* ... so the signers' recover law is needed only UNDER A GUARD on (key, request) — which is how C01/C05
   prove it —, the guard on the key being discharged by a law of the keystore reader.  The conclusion names
   the key that signed, says it is a good key of the requested address, and gives recovery under the guard
   on the request.  (C08_signatures_recover_to_requested above assumes the law for ALL keys and requests; for
   the real signers that premise is false, e.g. for the scalar 0 or a chain id above 2^53.) *)
Theorem C08_signatures_recover_guarded :
  forall (key tx stx doc tsig : Type) (E : ext key tx stx doc tsig) (c : config) (good_key : key -> Prop),
    (forall content pw k, read_wallet E content pw = Ok k -> good_key k) ->
    forall (good_tx : key -> tx -> Prop) (good_td : key -> doc -> Prop)
           (recover_tx : tx -> stx -> option bytes) (recover_td : doc -> tsig -> option bytes),
    (forall k t out, good_key k -> good_tx k t -> sign_tx E k t = Ok out -> recover_tx t out = Some (addr_of E k)) ->
    (forall k d out, good_key k -> good_td k d -> sign_td E k d = Ok out -> recover_td d out = Some (addr_of E k)) ->
    forall (fs : fsys) (h : list (op tx doc)),
      let s := after E c (init_state fs) h in
      (forall raw t s' out, Sign E c s raw t = (s', Ok out) ->
         exists str a k, json_string E raw = Some str /\ addr_of_text str = Some a /\
                         good_key k /\ addr_of E k = a /\ sign_tx E k t = Ok out /\
                         (good_tx k t -> recover_tx t out = Some a)) /\
      (forall a d s' out, SignTypedDataV4 E c s a d = (s', Ok out) ->
         exists k, good_key k /\ addr_of E k = a /\ sign_td E k d = Ok out /\
                   (good_td k d -> recover_td d out = Some a)).
Proof. exact signatures_recover_guarded. Qed.
Print Assumptions C08_signatures_recover_guarded.

(* ... and with the wallet's transaction signer INSTANTIATED by property C01's model of Transaction.Sign over
   property C05's KeyPair signer (Wallet/WithC01.v: keys are private scalars, a transaction of the wallet
   model is a pair (Go struct, chain id)) the recover law is not a hypothesis any more: it is C01's
   end-to-end theorem.  Left as premises: the group laws and the 32-byte hash (C01's own parameters), the
   reader's law "the scalar is in [1, n-1]" (btcec reduces modulo n; the wallet refuses 0 since fix 9d2e72f),
   the property's range of the request (chain id in [0, 2^53], in_range), and V in {27,28} for the last
   conjunct (the 2^-128 event x(kG) >= n, as in C01). *)
Theorem C08_sign_recovers_c01 :
  forall (o : group_ops) (H : bytes -> bytes) (nonce : Z -> bytes -> nat -> Z) (fuel : nat),
    laws o -> (n o < SM.two256)%Z -> (forall x, length (H x) = 32%nat) ->
  forall (doc tsig : Type) (E : ext N (T.tx * Z) bytes doc tsig) (c : config)
         (fs : fsys) (h : list (op (T.tx * Z) doc)) (raw : bytes) (t : T.tx) (chain : Z)
         (s' : state N) (out : bytes),
    c01_world o H nonce fuel doc tsig E -> reader_range o doc tsig E ->
    Sign E c (after E c (init_state fs) h) raw (t, chain) = (s', Ok out) ->
    (0 <= chain <= 2 ^ 53)%Z -> TP4.in_range t ->
    let fm := TN.format_of T.Auto t in
    let pre := TS.spec_preimage fm (TN.norm t) (Z.to_N chain) in
    exists str a d v r s,
      json_string E raw = Some str /\ addr_of_text str = Some a /\
      (1 <= Z.of_N d < n o)%Z /\ TP3.secp_address o H d = a /\
      SM.SignDirect o nonce fuel (Z.of_N d) (H pre) = Ok {| SM.sV := v; SM.sR := r; SM.sS := s |} /\
      (1 <= r < n o)%Z /\ (1 <= s < n o)%Z /\ (2 * s <= n o)%Z /\
      ecdsa_verify o (pub o (Z.of_N d)) (SM.hash_to_z (H pre)) r s = true /\
      (TP.v_legacy v ->
         out = TS.spec_signed fm (TN.norm t) (Z.to_N chain) (TP.y_of v) (Z.to_N r) (Z.to_N s) /\
         TR.RecoverRawTransaction H (TP3.secp_RecoverDirect o H) out chain
         = Ok (a, TP2.recovered_tx fm (TN.norm t), pre)).
Proof.
  intros o H nonce fuel L nf HL doc tsig E c fs h raw t chain s' out.
  exact (sign_recovers_c01 o H nonce fuel L nf HL doc tsig E c fs h raw t chain s' out).
Qed.
Print Assumptions C08_sign_recovers_c01.

(* the same with the executable Keccak-256 of Base/Keccak.v (its 32-byte law is proved there) *)
Theorem C08_sign_recovers_c01_keccak :
  forall (o : group_ops) (nonce : Z -> bytes -> nat -> Z) (fuel : nat) (doc tsig : Type)
         (E : ext N (T.tx * Z) bytes doc tsig) (c : config)
         (fs : fsys) (h : list (op (T.tx * Z) doc)) (raw : bytes) (t : T.tx) (chain : Z)
         (s' : state N) (out : bytes),
    laws o -> (n o < SM.two256)%Z ->
    c01_world o keccak256 nonce fuel doc tsig E -> reader_range o doc tsig E ->
    Sign E c (after E c (init_state fs) h) raw (t, chain) = (s', Ok out) ->
    (0 <= chain <= 2 ^ 53)%Z -> TP4.in_range t ->
    let fm := TN.format_of T.Auto t in
    let pre := TS.spec_preimage fm (TN.norm t) (Z.to_N chain) in
    exists str a d v r s,
      json_string E raw = Some str /\ addr_of_text str = Some a /\
      (1 <= Z.of_N d < n o)%Z /\ TP3.secp_address o keccak256 d = a /\
      SM.SignDirect o nonce fuel (Z.of_N d) (keccak256 pre) = Ok {| SM.sV := v; SM.sR := r; SM.sS := s |} /\
      (1 <= r < n o)%Z /\ (1 <= s < n o)%Z /\ (2 * s <= n o)%Z /\
      ecdsa_verify o (pub o (Z.of_N d)) (SM.hash_to_z (keccak256 pre)) r s = true /\
      (TP.v_legacy v ->
         out = TS.spec_signed fm (TN.norm t) (Z.to_N chain) (TP.y_of v) (Z.to_N r) (Z.to_N s) /\
         TR.RecoverRawTransaction keccak256 (TP3.secp_RecoverDirect o keccak256) out chain
         = Ok (a, TP2.recovered_tx fm (TN.norm t), pre)).
Proof. exact sign_recovers_c01_keccak. Qed.
Print Assumptions C08_sign_recovers_c01_keccak.

(* ... and the typed-data half: with the wallet's typed-data signer INSTANTIATED by property C04's model of
   ethsigner.SignTypedDataV4 over C05's KeyPair.SignDirect (Wallet/WithC04.v: a document of the wallet model
   is the *eip712.TypedData the caller passes), whenever a request naming A returns a result with V in
   {27,28}: the result's hash is the EIP-712 encoding of the document, its 65 signature bytes decode, and
   C05's RecoverDirect over (hash, signature) returns A for every chain id in [0, 2^53].  Premises left:
   the group laws, the 32-byte address hash, the reader law, V in {27,28} (the 2^-128 event). *)
Theorem C08_typed_data_recovers_c04 :
  forall (o : group_ops) (Hk H : bytes -> bytes) (big_other : bytes -> option Z)
         (nonce : Z -> bytes -> nat -> Z) (fuel : nat),
    laws o -> (n o < SM4.two256)%Z -> (forall x, length (Hk x) = 32%nat) ->
  forall (tx stx : Type) (E : ext N tx stx EI.typed_data EM.EIP712Result) (c : config)
         (fs : fsys) (h : list (op tx EI.typed_data)) (a : bytes) (td : EI.typed_data)
         (s' : state N) (res : EM.EIP712Result) (chain : Z),
    c04_world o Hk H big_other nonce fuel tx stx E -> reader_range4 o tx stx E ->
    SignTypedDataV4 E c (after E c (init_state fs) h) a td = (s', Ok res) ->
    (EM.r_V res = 27 \/ EM.r_V res = 28)%Z -> (0 <= chain <= 2 ^ 53)%Z ->
    exists d sg,
      (1 <= Z.of_N d < n o)%Z /\ SP4.addr_of o Hk (pub o (Z.of_N d)) = a /\
      EM.EncodeTypedDataV4 H big_other (Some td) = Ok (EM.r_hash res) /\
      SM4.DecodeCompactRSV (EM.r_signatureRSV res) = Ok sg /\ SM4.sV sg = EM.r_V res /\
      SM4.RecoverDirect o Hk sg (EM.r_hash res) chain = Ok a.
Proof.
  intros o Hk H big_other nonce fuel L nf HL tx stx E c fs h a td s' res chain.
  exact (typed_data_recovers_c04 o Hk H big_other nonce fuel L nf HL tx stx E c fs h a td s' res chain).
Qed.
Print Assumptions C08_typed_data_recovers_c04.

(* ISSUE 5.  [step] gives a listener event no observation (a failure of notifyNewFiles in the listener is
   only logged), so C08_never_panics is silent about it.  Here is the statement for that path: under the
   same two hypotheses the listener's notifyNewFiles returns a state — in EVERY state, for every os.Stat
   result — and that state is the one [step] continues with. *)
Theorem C08_listener_event_total :
  forall (key tx stx doc tsig : Type) (E : ext key tx stx doc tsig) (c : config)
         (s : state key) (name : bytes) (isdir : bool),
    regex_law E -> constructed E c ->
    exists s' : state key,
      notifyNewFiles _ _ _ _ _ E c s [(name, isdir)] = Ok s' /\
      fst (step _ _ _ _ _ E c s (OFsEvent _ _ name isdir)) = s'.
Proof. exact listener_event_total. Qed.
Print Assumptions C08_listener_event_total.

(* ISSUE 2.  "The account list is exactly the addresses of the matching files" is FALSE of the faithful model
   once files are removed: the list is cumulative (C08_refresh_exact).  Witness: one key file, scan, the file
   is removed, scan again — the address is still listed although no file of the current listing names it
   (a request for it fails: safety is not affected). *)
Theorem C08_accounts_exact_refuted_after_removal :
  exists (E : ext bytes unit bytes unit bytes) (c : config) (fs fs' : fsys) (files' : list (bytes * bool)),
    regex_law E /\ constructed E c /\
    fs_readdir fs' (c_path c) = Ok files' /\ names_ok files' /\
    let s := after E c (init_state fs) [ORefresh; OSetFs _ _ fs'; ORefresh] in
    GetAccounts s = [waddr] /\ spec_accounts (rule_of E c) files' = [] /\
    snd (GetWalletFile E c s waddr) = Err EWalletFailed.
Proof. exact accounts_exact_refuted_after_removal. Qed.
Print Assumptions C08_accounts_exact_refuted_after_removal.

(* ISSUE 4.  "A usable password is present" is Spec.spec_password, which has the implementation's precedence:
   a READABLE own password file always wins.  Under the broader reading — SOME configured source holds the
   password that opens the key — liveness is FALSE of the faithful model: a readable per-key password file
   with the wrong content shadows a default password file with the right one, and the request fails. *)
Theorem C08_liveness_broad_reading_refuted :
  exists (E : ext bytes unit bytes unit bytes) (c : config) (fs : fsys) (a fn content dpw k : bytes),
    regex_law E /\ constructed E c /\
    let s := after E c (init_state fs) [ORefresh] in
    GetAccounts s = [a] /\ assoc_get a (st_map s) = Some fn /\
    fs_readfile fs (path_join E (c_path c) fn) = Ok content /\              (* the key file is there *)
    fs_readfile fs (c_default_pw_file c) = Ok dpw /\                        (* the default password file is there *)
    read_wallet E content dpw = Ok k /\ addr_of E k = a /\                  (* and opens A's key *)
    (exists own, fs_readfile fs (plain_password_file E c a) = Ok own /\
                 read_wallet E content own = Err 1%nat) /\                  (* the own password file: readable, wrong *)
    snd (GetWalletFile E c s a) = Err EWalletFailed.                        (* the request fails *)
Proof. exact liveness_broad_reading_refuted. Qed.
Print Assumptions C08_liveness_broad_reading_refuted.

(* ------------------------------------------------------------------------------------------------
   Non-vacuity, second part (ISSUES 5 and 6). *)

(* the model CAN panic: C08_never_panics is not true by construction.  (a) a regular-expression engine
   answering fewer groups than SubexpNames() (regex_law violated) makes match[1] panic in the scan;
   (b) a panicking keystore reader (ext_nopanic violated) makes the request panic. *)
Example C08_panic_possible_without_regex_law :
  constructed (wE 1 (Err 1%nat)) (wc (lit "x")) /\
  snd (Refresh (wE 1 (Err 1%nat)) (wc (lit "x")) (init_state (wfs [(wname, false)]))) = Panic.
Proof. exact panic_without_regex_law. Qed.

Example C08_panic_possible_with_panicking_reader :
  regex_law (wE 2 Panic) /\ constructed (wE 2 Panic) (wc []) /\
  snd (run (wE 2 Panic) (wc []) (init_state (wfs [(wname, false)])) [ORefresh; OGetWalletFile _ _ waddr]) =
  [BRefresh _ _ _ (Ok tt); BWalletFile _ _ _ Panic].
Proof. exact panic_with_panicking_reader. Qed.

(* A second world: a capture-group regular expression (anything, then .json), JSON metadata found by `auto`, key and
   password templates, a default password file, trimming that is not the identity (one trailing newline).
   The metadata document of X is the one-letter text X; its key template yields m/key-X, its password
   template m/pw-X.  A has its own password file ("pw\n"), B has none and falls back to d/pw ("pw\n"). *)
Definition nl : bytes := [x0a].
Definition yE : ext bytes unit bytes unit bytes :=
  {| re_compile := fun _ => Some 2%nat;
     re_find := fun _ name => if has_suffix (lit ".json") name
                              then Some [name; trim_suffix (lit ".json") name] else None;
     tmpl_parse_ok := fun _ => true;
     meta_parse := fun _ content => negb (bytes_eqb content []);
     tmpl_exec := fun _ content t => (t ++ content, true);
     json_string := fun raw => Some raw;
     trim_space := trim_suffix nl;
     path_join := fun a b => a ++ sl ++ b;
     read_wallet := fun content pw => if bytes_eqb pw (lit "pw") then Ok content else Err 1%nat;
     addr_of := fun k => k;
     sign_tx := fun k _ => Ok k;
     sign_td := fun k _ => Ok k |}.

Definition yc : config :=
  {| c_path := lit "k"; c_default_pw_file := lit "d/pw"; c_regex := lit "(.*)\.json"; c_primary_ext := lit ".json";
     c_pw_ext := []; c_pw_path := []; c_pw_trim := true; c_with0x := false;
     c_meta_format := lit "AUTO"; c_key_prop := lit "m/key-"; c_pw_prop := lit "m/pw-" |}.

Definition hexC : bytes := repeat x33 40.
Definition xC : bytes := repeat x33 20.

Definition yfiles : list (bytes * bool) :=
  [ (hexA ++ lit ".json.bak", false); (hexA ++ lit ".json", false); (lit "sub.json", true);
    (hexB ++ lit ".json", false); (lit "nothex.json", false) ].

Definition yfs : fsys :=
  {| fs_readdir := fun d => if bytes_eqb d (lit "k") then Ok yfiles else Err 1%nat;
     fs_readfile := fun p =>
       if bytes_eqb p (lit "k/" ++ hexA ++ lit ".json") then Ok (lit "A")
       else if bytes_eqb p (lit "k/" ++ hexB ++ lit ".json") then Ok (lit "B")
       else if bytes_eqb p (lit "m/key-A") then Ok xA
       else if bytes_eqb p (lit "m/key-B") then Ok xB
       else if bytes_eqb p (lit "m/pw-A") then Ok (lit "pw" ++ nl)
       else if bytes_eqb p (lit "d/pw") then Ok (lit "pw" ++ nl)
       else Err 1%nat |}.

Lemma yE_regex_law : regex_law yE.
Proof.
  intros pat n name g H1 H2. simpl in *. injection H1 as <-.
  destruct (has_suffix _ name); [injection H2 as <-; reflexivity|discriminate].
Qed.

Lemma yfiles_names_ok : names_ok yfiles.
Proof. repeat constructor; simpl; discriminate. Qed.

(* a history with requests, a cached key, evictions and a second scan; no change of the directory *)
Definition yh : list (op unit unit) :=
  [OGetAccounts _ _; ORefresh; OSign _ _ (s_0x ++ hexB) tt; OEvict _ _ (addr_string xB); OGetWalletFile _ _ xA;
   OEvict _ _ (lit "nobody"); OSignTypedData _ _ xA tt; ORefresh; OGetAccounts _ _].

(* regex_law and constructed hold TOGETHER with a regular expression (the constructor reaches re_compile),
   the capture-group rule is the one in force, and the specification's list is not empty *)
Example C08_nonvacuous_regex_accounts :
  regex_law yE /\ constructed yE yc /\ fs_readdir yfs (c_path yc) = Ok yfiles /\ names_ok yfiles /\
  (exists find, rule_of yE yc = RRegex find) /\
  spec_accounts (rule_of yE yc) yfiles = [xA; xB] /\
  static yh = true /\ refreshed yh = true /\
  GetAccounts (after yE yc (init_state yfs) yh) = [xA; xB].
Proof.
  split; [exact yE_regex_law|]. split; [reflexivity|]. split; [reflexivity|].
  split; [exact yfiles_names_ok|]. split; [eexists; reflexivity|].
  split; [vm_compute; reflexivity|]. split; [reflexivity|]. split; [reflexivity|].
  rewrite (C08_accounts_exact_any_history _ _ _ _ _ yE yc yfs yfiles yh yE_regex_law eq_refl eq_refl yfiles_names_ok eq_refl).
  vm_compute. reflexivity.
Qed.

(* C08_liveness_metadata and C08_liveness_static_metadata: every premise holds for A (own password file,
   trimmed) and for B (no password file: default file, trimmed), after the history above *)
Example C08_nonvacuous_liveness_metadata :
  (exists s' k', GetWalletFile yE yc (after yE yc (init_state yfs) yh) xA = (s', Ok k') /\ k' = xA /\
                 (forall d, SignTypedDataV4 yE yc (after yE yc (init_state yfs) yh) xA d = (s', Ok k'))) /\
  (exists s' k', GetWalletFile yE yc (after yE yc (init_state yfs) yh) xB = (s', Ok k') /\ k' = xB /\
                 (forall raw t, parse_from yE raw = Some xB ->
                                Sign yE yc (after yE yc (init_state yfs) yh) raw t = (s', Ok k'))) /\
  (exists s' k', GetWalletFile yE yc (after yE yc (init_state yfs) [ORefresh]) xB = (s', Ok k') /\ k' = xB).
Proof.
  split; [|split].
  - (* every premise stated and computed by itself (the former "destruct ...; try vm_compute" spent 48 s in
       failing attempts; wave 6) *)
    assert (H1 : static yh = true) by (vm_compute; reflexivity).
    assert (H2 : refreshed yh = true) by (vm_compute; reflexivity).
    assert (H3 : fs_readdir yfs (c_path yc) = Ok yfiles) by (vm_compute; reflexivity).
    assert (H4 : classify_format (resolved_format yc) = Some MJson) by (vm_compute; reflexivity).
    assert (H5 : backing (rule_of yE yc) yfiles xA None = Some (hexA ++ lit ".json")) by (vm_compute; reflexivity).
    assert (H6 : fs_readfile yfs (path_join yE (c_path yc) (hexA ++ lit ".json")) = Ok (lit "A")) by (vm_compute; reflexivity).
    assert (H7 : meta_parse yE MJson (lit "A") = true) by (vm_compute; reflexivity).
    assert (H8 : goTemplateToString yE MJson (lit "A") (c_key_prop yc) = lit "m/key-A") by (vm_compute; reflexivity).
    assert (H9 : lit "m/key-A" <> []) by (vm_compute; discriminate).
    assert (H10 : if bytes_eqb (lit "m/key-A") (path_join yE (c_path yc) (hexA ++ lit ".json")) then xA = lit "A"
                  else fs_readfile yfs (lit "m/key-A") = Ok xA) by (vm_compute; reflexivity).
    assert (H11 : spec_password (fs_readfile yfs) (c_pw_trim yc) (trim_space yE)
                    (goTemplateToString yE MJson (lit "A") (c_pw_prop yc)) (c_default_pw_file yc) = Some (lit "pw"))
      by (vm_compute; reflexivity).
    assert (H12 : read_wallet yE xA (lit "pw") = Ok xA) by (vm_compute; reflexivity).
    destruct (C08_liveness_static_metadata _ _ _ _ _ yE yc yfs yfiles yh xA (hexA ++ lit ".json") MJson
                (lit "A") (lit "m/key-A") xA (lit "pw") xA yE_regex_law eq_refl H3 yfiles_names_ok H1 H2
                H4 H5 H6 H7 H8 H9 H10 H11 H12 eq_refl) as (s' & k' & Hg & Hk & _ & Htd).
    exists s', k'. split; [exact Hg|]. split; [exact Hk|]. intros d. rewrite Htd. simpl. reflexivity.
  - (* every premise stated and computed by itself (the former "destruct ...; try vm_compute" spent 48 s in
       failing attempts; wave 6) *)
    assert (H1 : static yh = true) by (vm_compute; reflexivity).
    assert (H2 : refreshed yh = true) by (vm_compute; reflexivity).
    assert (H3 : fs_readdir yfs (c_path yc) = Ok yfiles) by (vm_compute; reflexivity).
    assert (H4 : classify_format (resolved_format yc) = Some MJson) by (vm_compute; reflexivity).
    assert (H5 : backing (rule_of yE yc) yfiles xB None = Some (hexB ++ lit ".json")) by (vm_compute; reflexivity).
    assert (H6 : fs_readfile yfs (path_join yE (c_path yc) (hexB ++ lit ".json")) = Ok (lit "B")) by (vm_compute; reflexivity).
    assert (H7 : meta_parse yE MJson (lit "B") = true) by (vm_compute; reflexivity).
    assert (H8 : goTemplateToString yE MJson (lit "B") (c_key_prop yc) = lit "m/key-B") by (vm_compute; reflexivity).
    assert (H9 : lit "m/key-B" <> []) by (vm_compute; discriminate).
    assert (H10 : if bytes_eqb (lit "m/key-B") (path_join yE (c_path yc) (hexB ++ lit ".json")) then xB = lit "B"
                  else fs_readfile yfs (lit "m/key-B") = Ok xB) by (vm_compute; reflexivity).
    assert (H11 : spec_password (fs_readfile yfs) (c_pw_trim yc) (trim_space yE)
                    (goTemplateToString yE MJson (lit "B") (c_pw_prop yc)) (c_default_pw_file yc) = Some (lit "pw"))
      by (vm_compute; reflexivity).
    assert (H12 : read_wallet yE xB (lit "pw") = Ok xB) by (vm_compute; reflexivity).
    destruct (C08_liveness_static_metadata _ _ _ _ _ yE yc yfs yfiles yh xB (hexB ++ lit ".json") MJson
                (lit "B") (lit "m/key-B") xB (lit "pw") xB yE_regex_law eq_refl H3 yfiles_names_ok H1 H2
                H4 H5 H6 H7 H8 H9 H10 H11 H12 eq_refl) as (s' & k' & Hg & Hk & Htx & _).
    exists s', k'. split; [exact Hg|]. split; [exact Hk|]. intros raw t Hp. rewrite (Htx raw t Hp). simpl. reflexivity.
  - apply (C08_liveness_metadata _ _ _ _ _ yE yc yfs [ORefresh] xB (hexB ++ lit ".json") MJson
             (lit "B") (lit "m/key-B") xB (lit "pw") xB);
      try (vm_compute; reflexivity); try (vm_compute; discriminate).
Qed.

(* the default-password and trimming paths of Spec.spec_password, by themselves *)
Example C08_nonvacuous_spec_password :
  spec_password (fs_readfile yfs) true (trim_space yE) (lit "m/pw-A") (lit "d/pw") = Some (lit "pw") /\
  spec_password (fs_readfile yfs) true (trim_space yE) (lit "m/pw-B") (lit "d/pw") = Some (lit "pw") /\
  spec_password (fs_readfile yfs) false (trim_space yE) (lit "m/pw-B") (lit "d/pw") = Some (lit "pw" ++ nl) /\
  spec_password (fs_readfile yfs) true (trim_space yE) [] [] = None.
Proof. repeat split; vm_compute; reflexivity. Qed.

(* C08_listener_event_exact: a listener event for a new matching file C in a reachable state *)
Example C08_nonvacuous_listener_event :
  let s := after yE yc (init_state yfs) yh in
  let s' := fst (step _ _ _ _ _ yE yc s (OFsEvent _ _ (hexC ++ lit ".json") false)) in
  GetAccounts s' = [xA; xB; xC] /\ assoc_get xC (st_map s') = Some (hexC ++ lit ".json") /\
  (exists s1, notifyNewFiles _ _ _ _ _ yE yc s [(hexC ++ lit ".json", false)] = Ok s1).
Proof.
  intros s s'.
  destruct (C08_listener_event_exact _ _ _ _ _ yE yc yfs yh (hexC ++ lit ".json") false yE_regex_law eq_refl)
    as (Hl & Hm & _); [discriminate|].
  split; [|split].
  - subst s s'. rewrite Hl. vm_compute. reflexivity.
  - subst s s'. rewrite Hm. vm_compute. reflexivity.
  - destruct (C08_listener_event_total _ _ _ _ _ yE yc s (hexC ++ lit ".json") false yE_regex_law eq_refl) as (s1 & H1 & _).
    exists s1. exact H1.
Qed.

(* C08_never_panics: its hypotheses hold of this world and history *)
Example C08_nonvacuous_never_panics :
  ext_nopanic yE /\ fs_nopanic yfs /\ Forall op_ok yh /\
  Forall obs_nopanic (snd (run yE yc (init_state yfs) yh)).
Proof.
  assert (He : ext_nopanic yE).
  { split; [|split]; intros; simpl; try discriminate. destruct (bytes_eqb _ _); discriminate. }
  assert (Hf : fs_nopanic yfs).
  { split; intros x; simpl; repeat (destruct (bytes_eqb _ _); [discriminate|]); discriminate. }
  assert (Ho : Forall op_ok yh) by (repeat constructor).
  split; [exact He|]. split; [exact Hf|]. split; [exact Ho|].
  exact (C08_never_panics _ _ _ _ _ yE yc yE_regex_law eq_refl He yfs yh Hf Ho).
Qed.

(* C08_signatures_recover_to_requested / _guarded: in this world a signature IS the key and recovers to it *)
Example C08_nonvacuous_recover :
  let s := after yE yc (init_state yfs) yh in
  (exists s', Sign yE yc s (s_0x ++ hexB) tt = (s', Ok xB)) /\
  (forall raw t s' out, Sign yE yc s raw t = (s', Ok out) ->
     exists str a, json_string yE raw = Some str /\ addr_of_text str = Some a /\ Some out = Some a) /\
  (forall raw t s' out, Sign yE yc s raw t = (s', Ok out) ->
     exists str a k, json_string yE raw = Some str /\ addr_of_text str = Some a /\
                     (exists content pw, read_wallet yE content pw = Ok k) /\ addr_of yE k = a /\ sign_tx yE k t = Ok out /\
                     (True -> Some out = Some a)).
Proof.
  intros s. split; [eexists; vm_compute; reflexivity|]. split.
  - apply (C08_signatures_recover_to_requested _ _ _ _ _ yE yc (fun _ out => Some out) (fun _ out => Some out)).
    + intros k t out H. simpl in H. injection H as <-. reflexivity.
    + intros k d out H. simpl in H. injection H as <-. reflexivity.
  - refine (proj1 (C08_signatures_recover_guarded _ _ _ _ _ yE yc (fun k => exists content pw, read_wallet yE content pw = Ok k) _
                     (fun _ _ => True) (fun _ _ => True) (fun _ out => Some out) (fun _ out => Some out) _ _ yfs yh)).
    + intros content pw k H. exists content, pw. exact H.
    + intros k t out _ _ H. simpl in H. injection H as <-. reflexivity.
    + intros k d out _ _ H. simpl in H. injection H as <-. reflexivity.
Qed.

(* C08_sign_recovers_c01: the 13-element toy group of Crypto/Ecdsa.v, key 5, constant nonce, a 32-byte
   "hash": every hypothesis holds and the request returns a signed transaction *)
Example C08_nonvacuous_c01 :
  laws Toy.ops /\ (n Toy.ops < SM.two256)%Z /\ (forall x, length (toyH x) = 32%nat) /\
  c01_world Toy.ops toyH toy_nonce 1 unit bytes toyE /\ reader_range Toy.ops unit bytes toyE /\
  (0 <= 2 ^ 53 <= 2 ^ 53)%Z /\ TP4.in_range toy_tx /\
  exists out, snd (Sign toyE toyc (after toyE toyc (init_state toyfs) [ORefresh])
                        (s_0x ++ hex_encode toy_addr) (toy_tx, (2 ^ 53)%Z)) = Ok out.
Proof.
  destruct toy_world_ok as (H1 & H2 & H3 & H4 & H5 & H6).
  repeat (split; [assumption || exact toyH_len|]). exact toy_request_signs.
Qed.

(* C08_typed_data_recovers_c04: the toy group, key 2, a small Mail document: every hypothesis holds and the
   request returns a result with V in {27,28} *)
Example C08_nonvacuous_c04 :
  laws Toy.ops /\ (n Toy.ops < SM4.two256)%Z /\ (forall x, length (toyH4 x) = 32%nat) /\
  c04_world Toy.ops toyH4 toyH4 (fun _ => None) toy_nonce4 4 unit bytes toyE4 /\
  reader_range4 Toy.ops unit bytes toyE4 /\
  exists res, snd (SignTypedDataV4 toyE4 toyc4 (after toyE4 toyc4 (init_state toyfs4) [ORefresh]) toy_addr4 toy_td) = Ok res /\
              (EM.r_V res = 27 \/ EM.r_V res = 28)%Z.
Proof.
  destruct toy_world4_ok as (H1 & H2 & H3 & H4 & H5).
  repeat (split; [assumption|]). exact toy_request4_signs.
Qed.

(* ================================================================================================
   6. (wave 6) The account list, the backing files and liveness along ANY history: the directory may
      change, listener events may arrive, scans may fail.  The guard [static h] of section 5 is replaced by
      functions of the INPUTS only (Wallet/Proofs6.v):
        seen c fs h    the entries the wallet was shown along h, in order: the listing of every scan that
                       could read the directory (nothing for a scan that could not), the os.Stat result of
                       every listener event; OSetFs changes the directory the later scans read;
        cur_fs fs h    the directory after h (the argument of the last OSetFs, fs if there is none).
   ================================================================================================ *)

(* the account list after ANY history is the specification's list of what the wallet was shown (first
   occurrences, in order), every address is backed by the last regular file shown that names it, and the
   wallet reads the current directory.  This is the exact content of "cumulative": it contains
   C08_accounts_exact_any_history / C08_listed_file_any_history (there [seen] is the one listing, repeated)
   and says what the list is after additions, removals, renames and failed scans. *)
Theorem C08_accounts_exact_changing_directory :
  forall (key tx stx doc tsig : Type) (E : ext key tx stx doc tsig) (c : config)
         (fs : fsys) (h : list (op tx doc)),
    regex_law E -> constructed E c -> names_ok (seen c fs h) ->
    GetAccounts (after E c (init_state fs) h) = spec_accounts (rule_of E c) (seen c fs h) /\
    (forall a, assoc_get a (st_map (after E c (init_state fs) h)) = backing (rule_of E c) (seen c fs h) a None) /\
    st_fs (after E c (init_state fs) h) = cur_fs fs h.
Proof. exact accounts_exact_dynamic. Qed.
Print Assumptions C08_accounts_exact_changing_directory.

(* as a set: an address is listed iff a regular file the wallet was shown names it (Spec.name_address) *)
Theorem C08_listed_iff_shown :
  forall (key tx stx doc tsig : Type) (E : ext key tx stx doc tsig) (c : config)
         (fs : fsys) (h : list (op tx doc)) (a : bytes),
    regex_law E -> constructed E c -> names_ok (seen c fs h) ->
    (In a (GetAccounts (after E c (init_state fs) h)) <->
     exists f, In f (seen c fs h) /\ snd f = false /\ name_address (rule_of E c) (fst f) = Some a).
Proof. exact accounts_listed_iff_shown. Qed.
Print Assumptions C08_listed_iff_shown.

(* EXACTNESS WHEN NO ADDRESS DISAPPEARS.  Any history h1 (with directory changes and listener events), a
   scan that reads [files], then any history h2 of requests / rescans / evictions.  If every address named by
   a regular file shown during h1 is still named by a regular file of [files] — files were only added, or
   replaced by files naming the same address — the account list is, as a set and without duplicates,
   exactly the specification's list of the CURRENT listing.  (The order is that of first appearance over
   the whole history, which no function of the current listing alone can give.) *)
Theorem C08_accounts_exact_growing_directory :
  forall (key tx stx doc tsig : Type) (E : ext key tx stx doc tsig) (c : config)
         (fs : fsys) (h1 h2 : list (op tx doc)) (files : list (bytes * bool)),
    regex_law E -> constructed E c -> names_ok (seen c fs h1) ->
    fs_readdir (cur_fs fs h1) (c_path c) = Ok files -> names_ok files -> static h2 = true ->
    (forall a, In a (spec_matches (rule_of E c) (seen c fs h1)) -> In a (spec_matches (rule_of E c) files)) ->
    let s := after E c (init_state fs) (h1 ++ ORefresh :: h2) in
    NoDup (GetAccounts s) /\
    (forall a, In a (GetAccounts s) <-> In a (spec_accounts (rule_of E c) files)) /\
    st_fs s = cur_fs fs h1.
Proof. exact accounts_exact_growing. Qed.
Print Assumptions C08_accounts_exact_growing_directory.

(* right after a scan of a changed directory, an address the CURRENT listing names is backed by the last
   regular file of the current listing naming it — whatever was shown before (renamed / replaced files) *)
Theorem C08_listed_file_after_scan :
  forall (key tx stx doc tsig : Type) (E : ext key tx stx doc tsig) (c : config)
         (fs : fsys) (h1 : list (op tx doc)) (files : list (bytes * bool)) (a fn : bytes),
    regex_law E -> constructed E c -> names_ok (seen c fs h1) ->
    fs_readdir (cur_fs fs h1) (c_path c) = Ok files -> names_ok files ->
    backing (rule_of E c) files a None = Some fn ->
    assoc_get a (st_map (after E c (init_state fs) (h1 ++ [ORefresh]))) = Some fn.
Proof. exact listed_backing_after_scan. Qed.
Print Assumptions C08_listed_file_after_scan.

(* LIVENESS ALONG ANY HISTORY (C08_liveness_static without [static h] / [refreshed h] and without a premise
   about the wallet's state): if the last regular file naming A that the wallet was shown holds, in the
   CURRENT directory, A's key, and a usable password is present in the current directory, then
   GetWalletFile, Sign and SignTypedDataV4 naming A succeed with one key of A. *)
Theorem C08_liveness_any_history :
  forall (key tx stx doc tsig : Type) (E : ext key tx stx doc tsig) (c : config)
         (fs : fsys) (h : list (op tx doc)) (a fn content pw : bytes) (k : key),
    regex_law E -> constructed E c -> names_ok (seen c fs h) ->
    classify_format (resolved_format c) = None ->                       (* no metadata *)
    backing (rule_of E c) (seen c fs h) a None = Some fn ->             (* the last regular file shown naming A *)
    fs_readfile (cur_fs fs h) (path_join E (c_path c) fn) = Ok content ->
    spec_password (fs_readfile (cur_fs fs h)) (c_pw_trim c) (trim_space E)
                  (plain_password_file E c a) (c_default_pw_file c) = Some pw ->
    read_wallet E content pw = Ok k -> addr_of E k = a ->
    let s := after E c (init_state fs) h in
    exists (s' : state key) (k' : key),
      GetWalletFile E c s a = (s', Ok k') /\ addr_of E k' = a /\
      (forall raw (t : tx), parse_from E raw = Some a -> Sign E c s raw t = (s', sign_tx E k' t)) /\
      (forall d : doc, SignTypedDataV4 E c s a d = (s', sign_td E k' d)).
Proof. exact liveness_dynamic_plain. Qed.
Print Assumptions C08_liveness_any_history.

Theorem C08_liveness_any_history_metadata :
  forall (key tx stx doc tsig : Type) (E : ext key tx stx doc tsig) (c : config)
         (fs : fsys) (h : list (op tx doc)) (a fn : bytes) (m : mfmt)
         (content kf kcontent pw : bytes) (k : key),
    regex_law E -> constructed E c -> names_ok (seen c fs h) ->
    let primary := path_join E (c_path c) fn in
    classify_format (resolved_format c) = Some m ->                     (* toml / json / yaml metadata *)
    backing (rule_of E c) (seen c fs h) a None = Some fn ->
    fs_readfile (cur_fs fs h) primary = Ok content ->
    meta_parse E m content = true ->
    goTemplateToString E m content (c_key_prop c) = kf -> kf <> [] ->
    (if bytes_eqb kf primary then kcontent = content else fs_readfile (cur_fs fs h) kf = Ok kcontent) ->
    spec_password (fs_readfile (cur_fs fs h)) (c_pw_trim c) (trim_space E)
                  (goTemplateToString E m content (c_pw_prop c)) (c_default_pw_file c) = Some pw ->
    read_wallet E kcontent pw = Ok k -> addr_of E k = a ->
    let s := after E c (init_state fs) h in
    exists (s' : state key) (k' : key),
      GetWalletFile E c s a = (s', Ok k') /\ addr_of E k' = a /\
      (forall raw (t : tx), parse_from E raw = Some a -> Sign E c s raw t = (s', sign_tx E k' t)) /\
      (forall d : doc, SignTypedDataV4 E c s a d = (s', sign_td E k' d)).
Proof. exact liveness_dynamic_metadata. Qed.
Print Assumptions C08_liveness_any_history_metadata.

(* COMPLETENESS AFTER A SCAN, ANY HISTORY: the half of "exactly" that survives removals.  After a scan that
   reads [files] — whatever happened before — and any further requests / rescans / evictions, every address
   the specification lists for the CURRENT listing is listed ... *)
Theorem C08_accounts_complete_after_scan :
  forall (key tx stx doc tsig : Type) (E : ext key tx stx doc tsig) (c : config)
         (fs : fsys) (h1 h2 : list (op tx doc)) (files : list (bytes * bool)) (a : bytes),
    regex_law E -> constructed E c -> names_ok (seen c fs h1) ->
    fs_readdir (cur_fs fs h1) (c_path c) = Ok files -> names_ok files -> static h2 = true ->
    In a (spec_accounts (rule_of E c) files) ->
    In a (GetAccounts (after E c (init_state fs) (h1 ++ ORefresh :: h2))).
Proof. exact accounts_complete_after_scan. Qed.
Print Assumptions C08_accounts_complete_after_scan.

(* ... and every listed address is one the specification lists for the current listing or listed for what
   the wallet was shown before (the stale ones: C08_accounts_exact_refuted_after_removal) *)
Theorem C08_accounts_sound_after_scan :
  forall (key tx stx doc tsig : Type) (E : ext key tx stx doc tsig) (c : config)
         (fs : fsys) (h1 h2 : list (op tx doc)) (files : list (bytes * bool)) (a : bytes),
    regex_law E -> constructed E c -> names_ok (seen c fs h1) ->
    fs_readdir (cur_fs fs h1) (c_path c) = Ok files -> names_ok files -> static h2 = true ->
    In a (GetAccounts (after E c (init_state fs) (h1 ++ ORefresh :: h2))) ->
    In a (spec_accounts (rule_of E c) files) \/ In a (spec_accounts (rule_of E c) (seen c fs h1)).
Proof. exact accounts_sound_after_scan. Qed.
Print Assumptions C08_accounts_sound_after_scan.

(* ---------- non-vacuity: the first world with a directory that changes ----------
   zfs2: the directory of xfs plus 3333…33.key (the key of C) and 3333…33.pw;
   zfs3: A's key file was RENAMED to 0x1111…11.key (same address, other name), B's files were removed, a
         file with an empty-looking stem ".key" appeared, and the directory of another path is unreadable. *)
Definition zfiles2 : list (bytes * bool) :=
  xfiles ++ [ (hexC ++ lit ".key", false); (hexC ++ lit ".pw", false) ].
Definition zfs2 : fsys :=
  {| fs_readdir := fun d => if bytes_eqb d (lit "k") then Ok zfiles2 else Err 1%nat;
     fs_readfile := fun p =>
       if bytes_eqb p (lit "k/" ++ hexC ++ lit ".key") then Ok xC
       else if bytes_eqb p (lit "k/" ++ hexC ++ lit ".pw") then Ok (lit "pw")
       else fs_readfile xfs p |}.
Definition zfiles3 : list (bytes * bool) :=
  [ (lit ".key", false); (s_0x ++ hexA ++ lit ".key", false); (hexA ++ lit ".pw", false);
    (hexC ++ lit ".key", false); (hexC ++ lit ".pw", false) ].
Definition zfs3 : fsys :=
  {| fs_readdir := fun d => if bytes_eqb d (lit "k") then Ok zfiles3 else Err 1%nat;
     fs_readfile := fun p =>
       if bytes_eqb p (lit "k/" ++ s_0x ++ hexA ++ lit ".key") then Ok xA
       else if bytes_eqb p (lit "k/" ++ hexA ++ lit ".pw") then Ok (lit "pw")
       else if bytes_eqb p (lit "k/" ++ hexC ++ lit ".key") then Ok xC
       else if bytes_eqb p (lit "k/" ++ hexC ++ lit ".pw") then Ok (lit "pw")
       else Err 1%nat |}.
(* an unreadable directory: the scan fails and shows nothing *)
Definition zfs_err : fsys := {| fs_readdir := fun _ => Err 1%nat; fs_readfile := fun _ => Err 1%nat |}.

(* scan; request; the directory grows; a listener event for C's key file; request for C; a scan fails;
   the directory changes again (rename of A's file, removal of B's); scan *)
Definition zh1 : list (op unit unit) :=
  [ORefresh; OGetWalletFile _ _ xA; OSetFs _ _ zfs2; OFsEvent _ _ (hexC ++ lit ".key") false;
   OGetWalletFile _ _ xC; OSetFs _ _ zfs_err; ORefresh; OSetFs _ _ zfs3].
Definition zh : list (op unit unit) := zh1 ++ [ORefresh].

Lemma zh_names_ok : names_ok (seen xc xfs zh).
Proof. vm_compute. repeat (constructor; [intro H; discriminate H|]). constructor. Qed.

(* the hypotheses of C08_accounts_exact_changing_directory hold for zh; the list is [A; B; C] (B is stale:
   removed from the directory, still listed), A is now backed by the renamed file, and the failed scan
   left its observation in the run *)
Example C08_nonvacuous_changing_directory :
  regex_law xE /\ constructed xE xc /\ names_ok (seen xc xfs zh) /\
  spec_accounts (rule_of xE xc) (seen xc xfs zh) = [xA; xB; xC] /\
  GetAccounts (after xE xc (init_state xfs) zh) = [xA; xB; xC] /\
  backing (rule_of xE xc) (seen xc xfs zh) xA None = Some (s_0x ++ hexA ++ lit ".key") /\
  assoc_get xA (st_map (after xE xc (init_state xfs) zh)) = Some (s_0x ++ hexA ++ lit ".key") /\
  nth 6 (snd (run xE xc (init_state xfs) zh)) (BNone _ _ _) = BRefresh _ _ _ (Err EReadDir) /\
  length (seen xc xfs zh) = 14%nat.
Proof.
  split; [exact xE_regex_law|]. split; [reflexivity|]. split; [exact zh_names_ok|].
  destruct (C08_accounts_exact_changing_directory _ _ _ _ _ xE xc xfs zh xE_regex_law eq_refl zh_names_ok)
    as (Hl & Hm & _).
  split; [vm_compute; reflexivity|]. split; [rewrite Hl; vm_compute; reflexivity|].
  split; [vm_compute; reflexivity|]. split; [rewrite Hm; vm_compute; reflexivity|].
  split; vm_compute; reflexivity.
Qed.

(* liveness after the rename: the premises of C08_liveness_any_history hold for A on zh (the file is the
   renamed one, read in the CURRENT directory zfs3), and for C — and they FAIL for the stale B, whose
   backing file is gone *)
Example C08_nonvacuous_liveness_any_history :
  (exists s' k', GetWalletFile xE xc (after xE xc (init_state xfs) zh) xA = (s', Ok k') /\ k' = xA /\
                 (forall d, SignTypedDataV4 xE xc (after xE xc (init_state xfs) zh) xA d = (s', Ok k'))) /\
  (exists s' k', GetWalletFile xE xc (after xE xc (init_state xfs) zh) xC = (s', Ok k') /\ k' = xC) /\
  snd (GetWalletFile xE xc (after xE xc (init_state xfs) zh) xB) = Err EWalletFailed.
Proof.
  split; [|split].
  - destruct (C08_liveness_any_history _ _ _ _ _ xE xc xfs zh xA (s_0x ++ hexA ++ lit ".key") xA (lit "pw") xA
                xE_regex_law eq_refl zh_names_ok) as (s' & k' & Hg & Hk & _ & Htd); try (vm_compute; reflexivity).
    exists s', k'. split; [exact Hg|]. split; [exact Hk|exact Htd].
  - destruct (C08_liveness_any_history _ _ _ _ _ xE xc xfs zh xC (hexC ++ lit ".key") xC (lit "pw") xC
                xE_regex_law eq_refl zh_names_ok) as (s' & k' & Hg & Hk & _); try (vm_compute; reflexivity).
    exists s', k'. split; [exact Hg|exact Hk].
  - vm_compute. reflexivity.
Qed.

(* the growing-directory theorem: h1 = scan, request, the directory grows (zfs2); then a scan and requests.
   Its "no address disappears" premise holds ([A; B] shown before, both named by zfiles2), the list is
   {A, B, C} = the specification's list of the current listing; and the premise FAILS for the step to zfs3
   (B disappears), where the conclusion fails too (B listed, not in the specification's list of zfiles3). *)
Definition zg1 : list (op unit unit) := [ORefresh; OGetWalletFile _ _ xA; OSetFs _ _ zfs2].
Definition zg2 : list (op unit unit) := [OGetWalletFile _ _ xC; ORefresh; OGetAccounts _ _; OEvict _ _ (addr_string xC)].

Example C08_nonvacuous_growing_directory :
  names_ok (seen xc xfs zg1) /\ fs_readdir (cur_fs xfs zg1) (c_path xc) = Ok zfiles2 /\ names_ok zfiles2 /\
  static zg2 = true /\
  (forall a, In a (spec_matches (rule_of xE xc) (seen xc xfs zg1)) -> In a (spec_matches (rule_of xE xc) zfiles2)) /\
  spec_accounts (rule_of xE xc) zfiles2 = [xA; xB; xC] /\
  (forall a, In a (GetAccounts (after xE xc (init_state xfs) (zg1 ++ ORefresh :: zg2))) <-> In a [xA; xB; xC]) /\
  assoc_get xC (st_map (after xE xc (init_state xfs) (zg1 ++ [ORefresh]))) = Some (hexC ++ lit ".key") /\
  (In xB (GetAccounts (after xE xc (init_state xfs) zh)) /\ ~ In xB (spec_accounts (rule_of xE xc) zfiles3)).
Proof.
  assert (N1 : names_ok (seen xc xfs zg1))
    by (vm_compute; repeat (constructor; [intro H; discriminate H|]); constructor).
  assert (N2 : names_ok zfiles2)
    by (vm_compute; repeat (constructor; [intro H; discriminate H|]); constructor).
  assert (K : forall a, In a (spec_matches (rule_of xE xc) (seen xc xfs zg1)) -> In a (spec_matches (rule_of xE xc) zfiles2)).
  { intros a. vm_compute. intros H. repeat (destruct H as [H|H]; [subst a; auto 8|]). destruct H. }
  split; [exact N1|]. split; [reflexivity|]. split; [exact N2|]. split; [reflexivity|]. split; [exact K|].
  split; [vm_compute; reflexivity|]. split.
  - intros a.
    destruct (C08_accounts_exact_growing_directory _ _ _ _ _ xE xc xfs zg1 zg2 zfiles2 xE_regex_law eq_refl N1 eq_refl N2 eq_refl K)
      as (_ & Hiff & _).
    rewrite (Hiff a). replace (spec_accounts (rule_of xE xc) zfiles2) with [xA; xB; xC] by (vm_compute; reflexivity).
    tauto.
  - split.
    + apply (C08_listed_file_after_scan _ _ _ _ _ xE xc xfs zg1 zfiles2 xC (hexC ++ lit ".key") xE_regex_law eq_refl N1 eq_refl N2).
      vm_compute. reflexivity.
    + split; [vm_compute; auto|]. vm_compute. intros [H|[H|[]]]; discriminate H.
Qed.

(* completeness / soundness after the last scan of zh = zh1 ++ [ORefresh] (current listing zfiles3): the
   premises hold; A and C are in the specification's list of zfiles3 and therefore listed; the listed B is
   not in it but in the list of what was shown before *)
Example C08_nonvacuous_after_scan :
  names_ok (seen xc xfs zh1) /\ fs_readdir (cur_fs xfs zh1) (c_path xc) = Ok zfiles3 /\ names_ok zfiles3 /\
  spec_accounts (rule_of xE xc) zfiles3 = [xA; xC] /\
  In xC (GetAccounts (after xE xc (init_state xfs) (zh1 ++ [ORefresh]))) /\
  (In xB (GetAccounts (after xE xc (init_state xfs) (zh1 ++ [ORefresh]))) /\
   In xB (spec_accounts (rule_of xE xc) (seen xc xfs zh1))).
Proof.
  assert (N1 : names_ok (seen xc xfs zh1))
    by (vm_compute; repeat (constructor; [intro H; discriminate H|]); constructor).
  assert (N3 : names_ok zfiles3)
    by (vm_compute; repeat (constructor; [intro H; discriminate H|]); constructor).
  split; [exact N1|]. split; [reflexivity|]. split; [exact N3|]. split; [vm_compute; reflexivity|]. split.
  - apply (C08_accounts_complete_after_scan _ _ _ _ _ xE xc xfs zh1 [] zfiles3 xC xE_regex_law eq_refl N1 eq_refl N3 eq_refl).
    vm_compute. auto.
  - split; vm_compute; auto.
Qed.

(* PasswordPath and With0xPrefix (so far exercised by the differential run only): the configuration wc keeps
   the password files in the directory p under 0x-prefixed names.  The directory changes after the first
   scan (A's key file appears only then, announced by a listener event); the premises of
   C08_liveness_any_history hold and the request succeeds; without the password directory it fails. *)
Definition wc : config :=
  {| c_path := lit "k"; c_default_pw_file := []; c_regex := []; c_primary_ext := lit ".key";
     c_pw_ext := lit ".pw"; c_pw_path := lit "p"; c_pw_trim := false; c_with0x := true;
     c_meta_format := lit "none"; c_key_prop := []; c_pw_prop := [] |}.
Definition wfs0 : fsys :=
  {| fs_readdir := fun d => if bytes_eqb d (lit "k") then Ok [] else Err 1%nat;
     fs_readfile := fun _ => Err 1%nat |}.
Definition wfs1 : fsys :=
  {| fs_readdir := fun d => if bytes_eqb d (lit "k") then Ok [(hexA ++ lit ".key", false)] else Err 1%nat;
     fs_readfile := fun p =>
       if bytes_eqb p (lit "k/" ++ hexA ++ lit ".key") then Ok xA
       else if bytes_eqb p (lit "p/" ++ s_0x ++ hexA ++ lit ".pw") then Ok (lit "pw")
       else Err 1%nat |}.
Definition wh : list (op unit unit) :=
  [ORefresh; OGetAccounts _ _; OSetFs _ _ wfs1; OFsEvent _ _ (hexA ++ lit ".key") false].

Example C08_nonvacuous_password_path_0x :
  constructed xE wc /\ plain_password_file xE wc xA = lit "p/" ++ s_0x ++ hexA ++ lit ".pw" /\
  GetAccounts (after xE wc (init_state wfs0) wh) = [xA] /\
  (exists s' k', GetWalletFile xE wc (after xE wc (init_state wfs0) wh) xA = (s', Ok k') /\ k' = xA) /\
  snd (GetWalletFile xE wc (after xE wc (init_state wfs0) (wh ++ [OSetFs _ _ xfs])) xA) = Err EWalletFailed.
Proof.
  assert (N : names_ok (seen wc wfs0 wh))
    by (vm_compute; repeat (constructor; [intro H; discriminate H|]); constructor).
  split; [reflexivity|]. split; [vm_compute; reflexivity|]. split; [vm_compute; reflexivity|]. split.
  - destruct (C08_liveness_any_history _ _ _ _ _ xE wc wfs0 wh xA (hexA ++ lit ".key") xA (lit "pw") xA
                xE_regex_law eq_refl N) as (s' & k' & Hg & Hk & _); try (vm_compute; reflexivity).
    exists s', k'. split; [exact Hg|exact Hk].
  - vm_compute. reflexivity.
Qed.
