(* C08 — the file-system wallet only signs with the key that owns the requested address.
   Statements only; proofs live in Wallet/Proofs.v, Proofs2.v, Proofs3.v and Proofs4.v.

   Everything is quantified over: the key / transaction / signature types, the external behaviour [E]
   (regexp, templates, metadata parsers, JSON strings, TrimSpace, path.Join, the keystore reader, the
   address derivation, the two signers), the configuration [c], the initial file system [fs] (any pair
   of functions: directory listing, file read) and the finite history [h] of operations
   Refresh | GetAccounts | Sign | SignTypedData | GetWalletFile | any change of the file system |
   listener event | cache eviction  (Wallet/Model.v: [op], [step], [after]). *)
From Coq Require Import String.
From Coq Require Import List NArith Lia Bool Arith.
From Coq Require Import Init.Byte.
From FFS Require Import Base.Res Base.Bytes Wallet.Model Wallet.Spec Wallet.Proofs Wallet.Proofs2 Wallet.Proofs3 Wallet.Proofs4.
Import ListNotations.

Arguments after {key tx stx doc tsig} E c s h.
Arguments init_state {key} fs.
Arguments GetWalletFile {key tx stx doc tsig} E c s addr.
Arguments Sign {key tx stx doc tsig} E c s from_raw t.
Arguments SignTypedDataV4 {key tx stx doc tsig} E c s from d.
Arguments Refresh {key tx stx doc tsig} E c s.
Arguments GetAccounts {key} s.
Arguments loadWalletFile {key tx stx doc tsig} E c fs addr primaryFilename.
Arguments goTemplateToString {key tx stx doc tsig} E m content t.
Arguments parse_from {key tx stx doc tsig} E raw.
Arguments addr_of {key tx stx doc tsig} e k.
Arguments sign_tx {key tx stx doc tsig} e k t.
Arguments sign_td {key tx stx doc tsig} e k d.
Arguments json_string {key tx stx doc tsig} e raw.
Arguments read_wallet {key tx stx doc tsig} e content pw.
Arguments meta_parse {key tx stx doc tsig} e m content.
Arguments trim_space {key tx stx doc tsig} e s.
Arguments path_join {key tx stx doc tsig} e a b.
Arguments st_cache {key} s.
Arguments st_map {key} s.
Arguments st_fs {key} s.
Arguments regex_law {key tx stx doc tsig} E.
Arguments constructed {key tx stx doc tsig} E c.
Arguments rule_of {key tx stx doc tsig} E c.
Arguments plain_password_file {key tx stx doc tsig} E c a.
Arguments wl_ok {key} s.
Arguments static {tx doc} h.
Arguments refreshed {tx doc} h.
Arguments ORefresh {tx doc}.
Arguments ext_nopanic {key tx stx doc tsig} E.
Arguments op_ok {tx doc} o.
Arguments obs_nopanic {key stx tsig} b.
Arguments run {key tx stx doc tsig} E c s h.

(* ------------------------------------------------------------------------------------------------
   1. Safety: in every reachable state a request naming A returns Ok only with a key whose address is
      A — from the cache or from the directory, whatever the files contain. *)
Theorem C08_sign_binds_address :
  forall (key tx stx doc tsig : Type) (E : ext key tx stx doc tsig) (c : config)
         (fs : fsys) (h : list (op tx doc)) (a : bytes) (s' : state key) (k : key),
    GetWalletFile E c (after E c (init_state fs) h) a = (s', Ok k) -> addr_of E k = a.
Proof. exact GetWalletFile_binds_reachable. Qed.
Print Assumptions C08_sign_binds_address.

Theorem C08_sign_binds_address_tx :
  forall (key tx stx doc tsig : Type) (E : ext key tx stx doc tsig) (c : config)
         (fs : fsys) (h : list (op tx doc)) (raw : bytes) (t : tx) (s' : state key) (out : stx),
    Sign E c (after E c (init_state fs) h) raw t = (s', Ok out) ->
    exists (a : bytes) (k : key),
      parse_from E raw = Some a /\ addr_of E k = a /\ sign_tx E k t = Ok out.
Proof. exact Sign_binds_reachable. Qed.
Print Assumptions C08_sign_binds_address_tx.

Theorem C08_sign_binds_address_typed_data :
  forall (key tx stx doc tsig : Type) (E : ext key tx stx doc tsig) (c : config)
         (fs : fsys) (h : list (op tx doc)) (a : bytes) (d : doc) (s' : state key) (out : tsig),
    SignTypedDataV4 E c (after E c (init_state fs) h) a d = (s', Ok out) ->
    exists k : key, addr_of E k = a /\ sign_td E k d = Ok out.
Proof. exact SignTypedData_binds_reachable. Qed.
Print Assumptions C08_sign_binds_address_typed_data.

(* With the signers' own guarantee (C01/C05: what key k signs recovers to the address of k) the
   returned transaction / typed-data signature recovers to exactly the address the request names; for
   Sign that is the address text (Spec.addr_of_text) inside the JSON string "from". *)
Theorem C08_signatures_recover_to_requested :
  forall (key tx stx doc tsig : Type) (E : ext key tx stx doc tsig) (c : config)
         (recover_tx : tx -> stx -> option bytes) (recover_td : doc -> tsig -> option bytes),
    (forall k t out, sign_tx E k t = Ok out -> recover_tx t out = Some (addr_of E k)) ->
    (forall k d out, sign_td E k d = Ok out -> recover_td d out = Some (addr_of E k)) ->
    forall (fs : fsys) (h : list (op tx doc)),
      let s := after E c (init_state fs) h in
      (forall raw t s' out, Sign E c s raw t = (s', Ok out) ->
         exists str a, json_string E raw = Some str /\ addr_of_text str = Some a /\
                       recover_tx t out = Some a) /\
      (forall a d s' out, SignTypedDataV4 E c s a d = (s', Ok out) -> recover_td d out = Some a).
Proof. exact signatures_recover_to_requested. Qed.
Print Assumptions C08_signatures_recover_to_requested.

(* A key stored under another address's name is refused whenever it is read from the directory, and
   the state (in particular the cache) is left unchanged. *)
Theorem C08_foreign_key_refused :
  forall (key tx stx doc tsig : Type) (E : ext key tx stx doc tsig) (c : config)
         (s : state key) (a fn : bytes) (k : key),
    assoc_get (addr_string a) (st_cache s) = None ->
    assoc_get a (st_map s) = Some fn ->
    loadWalletFile E c (st_fs s) a (path_join E (c_path c) fn) = Ok k ->
    addr_of E k <> a ->
    GetWalletFile E c s a = (s, Err EMismatch).
Proof. exact mismatch_refused. Qed.
Print Assumptions C08_foreign_key_refused.

(* The model's address parser (ethtypes.NewAddress) accepts exactly the specification's address text:
   optional "0x", then exactly 40 hexadecimal digits of either case. *)
Theorem C08_address_text :
  forall s : bytes, parse_address s = addr_of_text s.
Proof. exact parse_address_is_address_text. Qed.
Print Assumptions C08_address_text.

(* ------------------------------------------------------------------------------------------------
   2. The account list. *)

(* never a duplicate: any configuration, file systems, history *)
Theorem C08_accounts_no_duplicates :
  forall (key tx stx doc tsig : Type) (E : ext key tx stx doc tsig) (c : config)
         (fs : fsys) (h : list (op tx doc)),
    NoDup (GetAccounts (after E c (init_state fs) h)).
Proof. exact accounts_nodup. Qed.
Print Assumptions C08_accounts_no_duplicates.

(* after the first scan of a readable wallet directory the account list is exactly the addresses
   named by the regular files whose name matches the configured rule (Spec.name_address), first
   occurrences in listing order, and each address is backed by the last file naming it.
   [regex_law]: FindStringSubmatch returns one entry per sub-expression (documented behaviour of
   regexp); [constructed]: NewFilesystemWallet accepted the configuration; [names_ok]: no directory
   entry has an empty name. *)
Theorem C08_accounts_exact :
  forall (key tx stx doc tsig : Type) (E : ext key tx stx doc tsig) (c : config)
         (fs : fsys) (files : list (bytes * bool)),
    regex_law E -> constructed E c ->
    fs_readdir fs (c_path c) = Ok files -> names_ok files ->
    exists s' : state key,
      Refresh E c (init_state fs) = (s', Ok tt) /\
      GetAccounts s' = spec_accounts (rule_of E c) files /\
      (forall a, assoc_get a (st_map s') = backing (rule_of E c) files a None).
Proof. exact accounts_exact_initial. Qed.
Print Assumptions C08_accounts_exact.

(* a scan in any state reachable by any history appends exactly the not yet listed matching addresses *)
Theorem C08_refresh_exact :
  forall (key tx stx doc tsig : Type) (E : ext key tx stx doc tsig) (c : config)
         (fs : fsys) (h : list (op tx doc)) (files : list (bytes * bool)),
    let s := after E c (init_state fs) h in
    regex_law E -> constructed E c ->
    fs_readdir (st_fs s) (c_path c) = Ok files -> names_ok files ->
    exists s' : state key,
      Refresh E c s = (s', Ok tt) /\
      GetAccounts s' = add_all (GetAccounts s) (spec_matches (rule_of E c) files) /\
      (forall a, assoc_get a (st_map s') = backing (rule_of E c) files a (assoc_get a (st_map s))) /\
      st_fs s' = st_fs s /\ st_cache s' = st_cache s.
Proof.
  intros key tx stx doc tsig E c fs h files s Hl Hc. apply Refresh_exact; auto.
  apply after_wl_ok, wl_ok_init.
Qed.
Print Assumptions C08_refresh_exact.

(* ... and so does a listener event for one file (os.Stat result [name], [isdir]) *)
Theorem C08_listener_event_exact :
  forall (key tx stx doc tsig : Type) (E : ext key tx stx doc tsig) (c : config)
         (fs : fsys) (h : list (op tx doc)) (name : bytes) (isdir : bool),
    let s := after E c (init_state fs) h in
    regex_law E -> constructed E c -> name <> [] ->
    let s' := fst (step _ _ _ _ _ E c s (OFsEvent _ _ name isdir)) in
    GetAccounts s' = add_all (GetAccounts s) (spec_matches (rule_of E c) [(name, isdir)]) /\
    (forall a, assoc_get a (st_map s') = backing (rule_of E c) [(name, isdir)] a (assoc_get a (st_map s))) /\
    st_fs s' = st_fs s /\ st_cache s' = st_cache s.
Proof.
  intros key tx stx doc tsig E c fs h name isdir s Hl Hc Hn. apply event_exact; auto.
  apply after_wl_ok, wl_ok_init.
Qed.
Print Assumptions C08_listener_event_exact.

(* on a wallet directory that does not change, after any history of requests, GetAccounts calls,
   rescans and cache evictions: the specification's list once a rescan happened, empty before *)
Theorem C08_accounts_exact_any_history :
  forall (key tx stx doc tsig : Type) (E : ext key tx stx doc tsig) (c : config)
         (fs : fsys) (files : list (bytes * bool)) (h : list (op tx doc)),
    regex_law E -> constructed E c ->
    fs_readdir fs (c_path c) = Ok files -> names_ok files -> static h = true ->
    GetAccounts (after E c (init_state fs) h) =
      if refreshed h then spec_accounts (rule_of E c) files else [].
Proof. exact accounts_exact_static. Qed.
Print Assumptions C08_accounts_exact_any_history.

(* ------------------------------------------------------------------------------------------------
   3. Liveness: in every reachable state, a request for A succeeds with a key of A when the file
      backing A holds A's key and a usable password is present (Spec.spec_password: the key's own
      password file when readable, otherwise the default file; trimmed iff configured). *)
Theorem C08_liveness :
  forall (key tx stx doc tsig : Type) (E : ext key tx stx doc tsig) (c : config)
         (fs : fsys) (h : list (op tx doc)) (a fn content pw : bytes) (k : key),
    let s := after E c (init_state fs) h in
    classify_format (resolved_format c) = None ->                       (* no metadata *)
    assoc_get a (st_map s) = Some fn ->                                 (* the file listed for A *)
    fs_readfile (st_fs s) (path_join E (c_path c) fn) = Ok content ->
    spec_password (fs_readfile (st_fs s)) (c_pw_trim c) (trim_space E)
                  (plain_password_file E c a) (c_default_pw_file c) = Some pw ->
    read_wallet E content pw = Ok k -> addr_of E k = a ->
    exists (s' : state key) (k' : key),
      GetWalletFile E c s a = (s', Ok k') /\ addr_of E k' = a.
Proof. exact liveness_plain. Qed.
Print Assumptions C08_liveness.

Theorem C08_liveness_metadata :
  forall (key tx stx doc tsig : Type) (E : ext key tx stx doc tsig) (c : config)
         (fs : fsys) (h : list (op tx doc)) (a fn : bytes) (m : mfmt)
         (content kf kcontent pw : bytes) (k : key),
    let s := after E c (init_state fs) h in
    let primary := path_join E (c_path c) fn in
    classify_format (resolved_format c) = Some m ->                     (* toml / json / yaml metadata *)
    assoc_get a (st_map s) = Some fn ->
    fs_readfile (st_fs s) primary = Ok content ->
    meta_parse E m content = true ->
    goTemplateToString E m content (c_key_prop c) = kf -> kf <> [] ->
    (if bytes_eqb kf primary then kcontent = content else fs_readfile (st_fs s) kf = Ok kcontent) ->
    spec_password (fs_readfile (st_fs s)) (c_pw_trim c) (trim_space E)
                  (goTemplateToString E m content (c_pw_prop c)) (c_default_pw_file c) = Some pw ->
    read_wallet E kcontent pw = Ok k -> addr_of E k = a ->
    exists (s' : state key) (k' : key),
      GetWalletFile E c s a = (s', Ok k') /\ addr_of E k' = a.
Proof. exact liveness_metadata. Qed.
Print Assumptions C08_liveness_metadata.

(* after the first scan of a fresh wallet, "the file listed for A" is the last regular file of the
   listing whose name names A *)
Theorem C08_listed_file :
  forall (key tx stx doc tsig : Type) (E : ext key tx stx doc tsig) (c : config)
         (fs : fsys) (files : list (bytes * bool)) (a : bytes),
    regex_law E -> constructed E c ->
    fs_readdir fs (c_path c) = Ok files -> names_ok files ->
    assoc_get a (st_map (after E c (init_state fs) [ORefresh])) = backing (rule_of E c) files a None /\
    st_fs (after E c (init_state fs) [ORefresh]) = fs.
Proof. exact listed_backing. Qed.
Print Assumptions C08_listed_file.

(* ------------------------------------------------------------------------------------------------
   4. "Either fails or returns": no operation of the wallet panics, along any history — provided the
      libraries do not (the keystore reader: property C15; the signers; the OS calls). *)
Theorem C08_never_panics :
  forall (key tx stx doc tsig : Type) (E : ext key tx stx doc tsig) (c : config),
    regex_law E -> constructed E c -> ext_nopanic E ->
    forall (fs : fsys) (h : list (op tx doc)),
    fs_nopanic fs -> Forall op_ok h ->
    Forall obs_nopanic (snd (run E c (init_state fs) h)).
Proof. exact wallet_never_panics. Qed.
Print Assumptions C08_never_panics.

(* ------------------------------------------------------------------------------------------------
   (round 3) Only listed accounts can sign.  In every reachable state the signer cache holds nothing but
   keys of listed addresses, each under the string of its own address; hence a request naming an address
   that GetAccounts does not list — e.g. one whose text differs in a single digit from an address whose
   key is cached — fails with "not available" and changes nothing.  And a request that does not return
   Ok never changes the wallet (no partial caching), in any state. *)
Theorem C08_cached_keys_listed :
  forall (key tx stx doc tsig : Type) (E : ext key tx stx doc tsig) (c : config)
         (fs : fsys) (h : list (op tx doc)) (ks : bytes) (w : key),
    assoc_get ks (st_cache (after E c (init_state fs) h)) = Some w ->
    ks = addr_string (addr_of E w) /\ In (addr_of E w) (GetAccounts (after E c (init_state fs) h)).
Proof. exact cached_keys_listed. Qed.
Print Assumptions C08_cached_keys_listed.

Theorem C08_unlisted_address_refused :
  forall (key tx stx doc tsig : Type) (E : ext key tx stx doc tsig) (c : config)
         (fs : fsys) (h : list (op tx doc)) (a : bytes),
    let s := after E c (init_state fs) h in
    ~ In a (GetAccounts s) -> GetWalletFile E c s a = (s, Err ENotAvailable).
Proof. exact unlisted_refused. Qed.
Print Assumptions C08_unlisted_address_refused.

Theorem C08_unlisted_address_refused_tx :
  forall (key tx stx doc tsig : Type) (E : ext key tx stx doc tsig) (c : config)
         (fs : fsys) (h : list (op tx doc)) (raw a : bytes) (t : tx),
    let s := after E c (init_state fs) h in
    parse_from E raw = Some a -> ~ In a (GetAccounts s) -> Sign E c s raw t = (s, Err ENotAvailable).
Proof. exact unlisted_refused_sign. Qed.
Print Assumptions C08_unlisted_address_refused_tx.

Theorem C08_unlisted_address_refused_typed_data :
  forall (key tx stx doc tsig : Type) (E : ext key tx stx doc tsig) (c : config)
         (fs : fsys) (h : list (op tx doc)) (a : bytes) (d : doc),
    let s := after E c (init_state fs) h in
    ~ In a (GetAccounts s) -> SignTypedDataV4 E c s a d = (s, Err ENotAvailable).
Proof. exact unlisted_refused_typed_data. Qed.
Print Assumptions C08_unlisted_address_refused_typed_data.

Theorem C08_failed_request_leaves_state :
  forall (key tx stx doc tsig : Type) (E : ext key tx stx doc tsig) (c : config)
         (s s' : state key) (a : bytes) (r : res key),
    GetWalletFile E c s a = (s', r) -> (forall k, r <> Ok k) -> s' = s.
Proof. exact GetWalletFile_failed_unchanged. Qed.
Print Assumptions C08_failed_request_leaves_state.

(* ------------------------------------------------------------------------------------------------
   Non-vacuity: a concrete wallet.  Keys are identified with their address; a key file's content is
   the address of the key it holds; every password file must read "pw".  The directory k holds
     1111…11.key   the key of A = 0x11…11            (correct)
     2222…22.key   again the key of A                (stored under B's name)
     0x1111…11.key.bak, sub/ (directory), 3333…33 (no extension), 2222…22.KEY   near misses
   and the password files 1111…11.pw, 2222…22.pw. *)
Definition xA : bytes := repeat x11 20.
Definition xB : bytes := repeat x22 20.
Definition hexA : bytes := repeat x31 40.
Definition hexB : bytes := repeat x32 40.
Definition sl : bytes := ["/"%byte].
Definition lit (s : String.string) : bytes := ascii_bytes s.
Arguments lit s%string.

Definition xE : ext bytes unit bytes unit bytes :=
  {| re_compile := fun _ => Some 2%nat;
     re_find := fun _ name => Some [name; name];
     tmpl_parse_ok := fun _ => true;
     meta_parse := fun _ _ => true;
     tmpl_exec := fun _ _ t => (t, true);
     json_string := fun raw => Some raw;
     trim_space := fun s => s;
     path_join := fun a b => a ++ sl ++ b;
     read_wallet := fun content pw => if bytes_eqb pw (lit "pw") then Ok content else Err 1%nat;
     addr_of := fun k => k;
     sign_tx := fun k _ => Ok k;
     sign_td := fun k _ => Ok k |}.

Definition xc : config :=
  {| c_path := lit "k"; c_default_pw_file := []; c_regex := []; c_primary_ext := lit ".key";
     c_pw_ext := lit ".pw"; c_pw_path := []; c_pw_trim := true; c_with0x := false;
     c_meta_format := lit "auto"; c_key_prop := []; c_pw_prop := [] |}.

Definition xfiles : list (bytes * bool) :=
  [ (s_0x ++ hexA ++ lit ".key.bak", false); (hexA ++ lit ".key", false); (hexA ++ lit ".pw", false);
    (hexB ++ lit ".KEY", false); (hexB ++ lit ".key", false); (hexB ++ lit ".pw", false);
    (repeat x33 40, false); (lit "sub", true) ].

Definition xfs : fsys :=
  {| fs_readdir := fun d => if bytes_eqb d (lit "k") then Ok xfiles else Err 1%nat;
     fs_readfile := fun p =>
       if bytes_eqb p (lit "k/" ++ hexA ++ lit ".key") then Ok xA
       else if bytes_eqb p (lit "k/" ++ hexB ++ lit ".key") then Ok xA
       else if bytes_eqb p (lit "k/" ++ hexA ++ lit ".pw") then Ok (lit "pw")
       else if bytes_eqb p (lit "k/" ++ hexB ++ lit ".pw") then Ok (lit "pw")
       else Err 1%nat |}.

(* the request history Refresh; Sign B; Sign A; Sign A (cached); SignTypedData A; GetAccounts *)
Example C08_nonvacuous_history :
  snd (run xE xc (init_state xfs)
         [ORefresh; OSign _ _ (s_0x ++ hexB) tt; OSign _ _ hexA tt; OSign _ _ (s_0x ++ hexA) tt;
          OSignTypedData _ _ xA tt; OGetAccounts _ _]) =
  [BRefresh _ _ _ (Ok tt); BSign _ _ _ (Err EMismatch); BSign _ _ _ (Ok xA); BSign _ _ _ (Ok xA);
   BSignTypedData _ _ _ (Ok xA); BAccounts _ _ _ [xA; xB]].
Proof. vm_compute. reflexivity. Qed.

Lemma xE_regex_law : regex_law xE.
Proof. intros pat n name g H1 H2. simpl in *. injection H1 as <-. injection H2 as <-. reflexivity. Qed.

Lemma xfiles_names_ok : names_ok xfiles.
Proof. repeat constructor; simpl; discriminate. Qed.

(* the hypotheses of the account-list theorems are met, and the list is [A; B] *)
Example C08_nonvacuous_accounts :
  regex_law xE /\ constructed xE xc /\ fs_readdir xfs (c_path xc) = Ok xfiles /\ names_ok xfiles /\
  spec_accounts (rule_of xE xc) xfiles = [xA; xB] /\
  backing (rule_of xE xc) xfiles xA None = Some (hexA ++ lit ".key").
Proof.
  split; [exact xE_regex_law|]. split; [reflexivity|]. split; [reflexivity|].
  split; [exact xfiles_names_ok|]. split; vm_compute; reflexivity.
Qed.

(* the hypotheses of the liveness theorem are met for A after [Refresh], and so the request succeeds *)
Example C08_nonvacuous_liveness :
  exists s' k', GetWalletFile xE xc (after xE xc (init_state xfs) [ORefresh]) xA = (s', Ok k') /\ k' = xA.
Proof.
  apply (C08_liveness _ _ _ _ _ xE xc xfs [ORefresh] xA (hexA ++ lit ".key") xA (lit "pw") xA);
    vm_compute; reflexivity.
Qed.

(* ... and the hypotheses of the foreign-key theorem for B (its file holds A's key) *)
Example C08_nonvacuous_foreign_key :
  let s := after xE xc (init_state xfs) [ORefresh] in
  GetWalletFile xE xc s xB = (s, Err EMismatch).
Proof.
  apply (C08_foreign_key_refused _ _ _ _ _ xE xc _ xB (hexB ++ lit ".key") xA); vm_compute; try reflexivity.
  discriminate.
Qed.

(* (round 3) A's key is cached; the address that differs from A in the last hexadecimal digit is not
   listed, so the hypothesis of C08_unlisted_address_refused holds for it and the request is refused;
   the cache entry is the one C08_cached_keys_listed describes *)
Definition xA' : bytes := repeat x11 19 ++ [x10].
Example C08_nonvacuous_unlisted :
  let s := after xE xc (init_state xfs) [ORefresh; OGetWalletFile _ _ xA] in
  assoc_get (addr_string xA) (st_cache s) = Some xA /\
  GetAccounts s = [xA; xB] /\
  GetWalletFile xE xc s xA' = (s, Err ENotAvailable) /\
  Sign xE xc s (s_0x ++ repeat x31 39 ++ [x30]) tt = (s, Err ENotAvailable).
Proof.
  split; [vm_compute; reflexivity|]. split; [vm_compute; reflexivity|]. split.
  - apply (C08_unlisted_address_refused _ _ _ _ _ xE xc xfs [ORefresh; OGetWalletFile _ _ xA] xA').
    vm_compute. intros [H|[H|[]]]; discriminate.
  - apply (C08_unlisted_address_refused_tx _ _ _ _ _ xE xc xfs [ORefresh; OGetWalletFile _ _ xA] _ xA' tt).
    + vm_compute; reflexivity.
    + vm_compute. intros [H|[H|[]]]; discriminate.
Qed.
